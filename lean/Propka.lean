import Propka.Model.Scalar
import Propka.Model.Hybrid36
import Propka.Model.Rotation
import Propka.Proofs.Hybrid36
import Propka.Proofs.Rotation
import Propka.Props.C19
import Propka.Props.C20
