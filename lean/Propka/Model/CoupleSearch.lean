import Propka.Model.Dets
import Propka.Model.Profiles
import Propka.Model.Setup
/-! Model of `NonCovalentlyCoupledGroups.identify_non_covalently_coupled_groups` on one scored conformation, with the display
    switched off: the loop over the pairs of titratable groups, `is_coupled_protonation_state_probability` with all its gates
    (interaction energy, `calculate_intrinsic_pka` memoised on first use, folding energy of the whole conformation before and
    after `swap_interactions`, the swap back, the three scaling factors) and `couple_non_covalently`.  The state of a group is a
    `Dets.GRec`; the identity a determinant's partner is compared by (`Group.__eq__`) is the `grp` string of the determinant.
    Generic in the scalar; import-free. -/
namespace Propka.CoupleSearch
open Propka Propka.Dets

structure CP (α : Type) where
  probe : ProbeP α
  scaling : α                -- group.UNK_PKA_SCALING
  fixed : α                  -- 99.99
  titratableTypes : List String   -- the residue labels `calculate_intrinsic_pka` leaves out of the side-chain sum

/-- what the search reads of a group besides its record -/
structure Static (α : Type) where
  ident : String             -- how `Group.__eq__` identifies the group (label; label and residue number for a hetero group)
  q : α
  titratable : Bool

structure St (α : Type) where
  gs : Array (GRec α)
  intr : Array (Option α)
  coupled : Array (List Nat)

section
variable {α : Type} [Add α] [Sub α] [Mul α] [Div α] [Neg α] [NatCast α] [LT α] [LE α] [DecidableLT α] [DecidableLE α]
  [Profiles.PowLog α]

def zero : α := ((0 : Nat) : α)

/-- `get_interaction(group1, group2)`: side-chain then Coulomb determinants of group1 whose partner equals group2 -/
def interaction (g1 : GRec α) (id2 : String) : α :=
  (g1.sc ++ g1.cb).foldl (fun acc d => if d.grp == id2 then acc + d.value else acc) zero

/-- `Group.calculate_intrinsic_pka` -/
def intrinsic (cp : CP α) (g : GRec α) : α :=
  let bb := g.bb.foldl (fun a d => a + d.value) (zero : α)
  let sc := g.sc.foldl (fun a d => if cp.titratableTypes.contains (String.ofList (d.label.toList.take 3)) then a else a + d.value) (zero : α)
  g.model + g.evol + g.eloc + bb + sc

/-- `conformation.calculate_folding_energy(ph, reference='neutral')` in the state `gs` -/
def energy (cp : CP α) (st : Array (Static α)) (gs : Array (GRec α)) (ph : α) : α :=
  (List.range gs.size).foldl (fun acc i =>
    match gs[i]?, st[i]? with
    | some g, some s => acc + Profiles.foldingEnergy cp.scaling true ⟨s.q, g.pka, g.model, s.titratable, g.cb.map (·.value)⟩ ph
    | _, _ => acc) zero

/-- `is_coupled_protonation_state_probability(group1 = i, group2 = j, conformation.calculate_folding_energy)`: the new state and
    the coupling factor (`none`: -1.0) -/
def probePair (cp : CP α) (st : Array (Static α)) (s : St α) (i j : Nat) : St α × Option α :=
  match s.gs[i]?, s.gs[j]?, st[i]?, st[j]? with
  | some g1, some g2, some s1, some s2 =>
    let p := cp.probe
    let ie := pyMax (interaction g1 s2.ident) (interaction g2 s1.ident)
    if ie ≤ p.minInter then (s, none) else
    -- intrinsic pKa values, computed on first use from the lists as they are now
    let i1 := match s.intr.getD i none with | some v => v | none => intrinsic cp g1
    let i2 := match s.intr.getD j none with | some v => v | none => intrinsic cp g2
    let intr := (s.intr.setIfInBounds i (some i1)).setIfInBounds j (some i2)
    let ph := match p.ph with | some v => v | none => pyMin g1.pka g2.pka
    let e0 := energy cp st s.gs ph
    if pyMax g1.pka g2.pka < p.minPka ∨ p.maxPka < pyMin g1.pka g2.pka then ({ s with intr }, none) else
    let sw := swap cp.fixed g1 g2
    let gsS := (s.gs.setIfInBounds i sw.1).setIfInBounds j sw.2
    let e1 := energy cp st gsS ph
    let sh1 := sw.1.pka - g1.pka
    let sh2 := sw.2.pka - g2.pka
    let b := swap cp.fixed sw.1 sw.2
    let s' : St α := { s with gs := (s.gs.setIfInBounds i b.1).setIfInBounds j b.2, intr }
    if p.maxEdiff < pyAbs (e0 - e1) then (s', none)
    else if pyMax (pyAbs sh1) (pyAbs sh2) < p.minShift then (s', none)
    else if p.maxIntr < pyAbs (i1 - i2) then (s', none)
    else (s', some (energyFactor p e0 e1 * pkaFactor p i1 i2 * interFactor p ie))
  | _, _, _, _ => (s, none)

/-- `group1.couple_non_covalently(group2)`: the same bookkeeping as `couple_covalently` -/
def couple (c : Array (List Nat)) (i j : Nat) : Array (List Nat) := Setup.couple c i j

/-- the pairs the loop visits: group1 runs over the titratable groups, group2 over those before it -/
def pairs (st : Array (Static α)) : List (Nat × Nat) :=
  let t := (List.range st.size).filter fun i => ((st[i]?).map (·.titratable)).getD false
  t.flatMap fun i => (t.takeWhile fun j => j != i).map fun j => (i, j)

/-- one pair of the loop: skipped when already coupled, else probed and coupled when the factor is positive -/
def searchStep (cp : CP α) (st : Array (Static α)) (s : St α) (ij : Nat × Nat) : St α :=
  if (s.coupled.getD ij.2 []).contains ij.1 then s
  else
    match (probePair cp st s ij.1 ij.2).2 with
    | some f =>
      if zero < f then { (probePair cp st s ij.1 ij.2).1 with coupled := couple (probePair cp st s ij.1 ij.2).1.coupled ij.1 ij.2 }
      else (probePair cp st s ij.1 ij.2).1
    | none => (probePair cp st s ij.1 ij.2).1

/-- `identify_non_covalently_coupled_groups(conformation, verbose=False)` -/
def identify (cp : CP α) (st : Array (Static α)) (gs : Array (GRec α)) : St α :=
  (pairs st).foldl (searchStep cp st) ⟨gs, Array.replicate gs.size none, Array.replicate gs.size []⟩

/-! ### the display mode (`-d`): `print_out_swaps` leaves the interactions of every coupled system swapped -/
/-- `is_coupled_protonation_state_probability(..., return_on_fail=False)`: no gate returns early - the intrinsic pKa values are
    memoised, the pair is swapped and swapped back -/
def probeShow (cp : CP α) (s : St α) (i j : Nat) : St α :=
  match s.gs[i]?, s.gs[j]? with
  | some g1, some g2 =>
    let i1 := match s.intr.getD i none with | some v => v | none => intrinsic cp g1
    let i2 := match s.intr.getD j none with | some v => v | none => intrinsic cp g2
    let sw := swap cp.fixed g1 g2
    let b := swap cp.fixed sw.1 sw.2
    { s with gs := (s.gs.setIfInBounds i b.1).setIfInBounds j b.2, intr := (s.intr.setIfInBounds i (some i1)).setIfInBounds j (some i2) }
  | _, _ => s

/-- `swap_interactions([group i], [group j])` on the table -/
def swapIn (cp : CP α) (s : St α) (ij : Nat × Nat) : St α :=
  match s.gs[ij.1]?, s.gs[ij.2]? with
  | some g1, some g2 => let sw := swap cp.fixed g1 g2; { s with gs := (s.gs.setIfInBounds ij.1 sw.1).setIfInBounds ij.2 sw.2 }
  | _, _ => s

/-- `get_a_coupled_system_of_groups`: insertion-ordered depth-first closure over the coupling lists; `fuel` bounds the depth -/
def closure (coupled : Array (List Nat)) : Nat → List Nat → Nat → List Nat
  | 0, acc, _ => acc
  | fuel+1, acc, g =>
    (coupled.getD g []).foldl (fun acc h => if acc.contains h then acc else closure coupled fuel acc h) (acc ++ [g])

/-- `get_coupled_systems(groups with a coupling list, get_non_covalently_coupled_groups)` -/
def systems (coupled : Array (List Nat)) : List (List Nat) :=
  let start := (List.range coupled.size).filter fun g => !(coupled.getD g []).isEmpty
  (start.foldl (fun (acc : List (List Nat) × List Nat) g =>
    if acc.2.contains g then acc
    else
      let sys := closure coupled (coupled.size + 1) [] g
      (acc.1 ++ [sys], acc.2 ++ sys)) ([], [])).1

/-- `itertools.combinations(system, 2)` -/
def pairs2 : List Nat → List (Nat × Nat)
  | [] => []
  | a :: rest => rest.map (fun b => (a, b)) ++ pairs2 rest

/-- `propka.lib.generate_combinations(interactions)` -/
def combinations (inter : List (Nat × Nat)) : List (List (Nat × Nat)) :=
  (inter.foldl (fun (res : List (List (Nat × Nat))) x => res.flatMap fun c => [c ++ [x], c]) [[]]).filter fun c => !c.isEmpty

/-- `print_system`: every interaction of the system is probed without gates, then every combination of interactions is swapped,
    one after the other, and nothing is swapped back -/
def printSystem (cp : CP α) (s : St α) (sys : List Nat) : St α :=
  let inter := pairs2 sys
  let s1 := inter.foldl (fun s ij => probeShow cp s ij.1 ij.2) s
  (combinations inter).foldl (fun s combo => combo.foldl (swapIn cp) s) s1

/-- `print_out_swaps(conformation)` -/
def display (cp : CP α) (s : St α) : St α := (systems s.coupled).foldl (printSystem cp) s
end

end Propka.CoupleSearch
