import Propka.Model.Hidden
import Propka.Model.PyStr
import Propka.Gen.Protonate
namespace Propka.Hidden
open Propka.Py
/-- `hidden history <hexelem,hexelem,...>;<...>` -> values read by each run, from the fresh table -/
def handle (args : List String) : String :=
  match args with
  | ["history", h] =>
    let progs := (h.splitOn ";").map fun p => if p == "-" then [] else (p.splitOn ",").map unhexS
    ";".intercalate ((history Propka.Gen.Protonate.valenceElectrons progs).map fun vs => ",".intercalate (vs.map toString))
  | _ => "bad-op"
end Propka.Hidden
