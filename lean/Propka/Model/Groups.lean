import Propka.Model.Pdb
/-! Model of the protein / ion part of `propka.group.is_group`, of `Group.setup`
    (charge, model pKa, titratable), `ConformationContainer.init_group` (titrate-only),
    `Group.use_in_calculations`, the group label, and the row structure of the summary section.
    Table-driven: the parameter tables are arguments (the generated `Gen.Cfg` at the call sites). -/
namespace Propka.Groups
open Propka.Pdb

/-- the tables of `Parameters` the classifier and `setup` read (numbers in millionths) -/
structure Tables where
  mapping : List (String × String)        -- protein_group_mapping: "ASP-CG" ↦ "COO"
  classType : List (String × String)      -- Group class ↦ its `type`
  charge : List (String × Int)
  ions : List (String × Int)
  modelPkas : List (String × Int)
  customPkas : List (String × Int)
  writeOutOrder : List String

def lookup {β : Type} (d : List (String × β)) (k : String) : Option β := (d.find? (fun kv => kv.1 == k)).map (·.2)

/-- what the classifier needs to know about an atom -/
structure AtomInfo where
  typ : String            -- "atom" / "hetatm"
  name : String
  resName : String        -- padded to 3
  chain : String
  resNum : Int
  icode : String
  terminal : String       -- "", "N+", "C-"
  bondedO : Nat           -- count_bonded_elements('O')
  bridged : Bool          -- cysteine_bridge
  deriving DecidableEq, Repr

def AtomInfo.ofRec (a : AtomRec) (bondedO : Nat) (bridged : Bool) : AtomInfo :=
  ⟨a.typ, a.name, a.resName, a.chain, a.resNum, a.icode, a.terminal, bondedO, bridged⟩

def strip (s : String) : String := Propka.Py.str (Propka.Py.strip s.toList)

/-- `is_protein_group` / `is_ion_group`: the class of the group created for an atom (ligand typing excluded) -/
def classOf (T : Tables) (a : AtomInfo) : Option String :=
  let prot : Option String :=
    if a.typ != "atom" then none
    else if a.terminal == "N+" then some "NtermGroup"
    else if a.terminal == "C-" then some "CtermGroup"
    else if a.name == "N" && a.resName != "PRO" then some "BBNGroup"
    else if a.name == "C" && a.bondedO == 1 then some "BBCGroup"
    else (lookup T.mapping (a.resName ++ "-" ++ a.name)).map (· ++ "Group")
  match prot with
  | some c => some c
  | none => if (lookup T.ions (strip a.resName)).isSome then some "IonGroup" else none

structure GroupRec where
  cls : String
  type : String
  residueType : String
  charge : Int
  modelPka : Option Int      -- `model_pka_set`
  titratable : Bool
  excludeCys : Bool
  bridged : Bool
  atom : AtomInfo
  deriving DecidableEq, Repr

/-- residue_type: the terminal tag, else the residue name; overridden by BBN/BBC and by ions -/
def residueTypeOf (cls : String) (a : AtomInfo) : String :=
  if cls == "BBNGroup" then "BBN" else if cls == "BBCGroup" then "BBC"
  else if cls == "IonGroup" then strip a.resName
  else if a.terminal != "" then a.terminal else a.resName

/-- `Group.__init__` + `Group.setup` + `init_group` for a protein or ion group -/
def mkGroup (T : Tables) (titrateOnly : Option (List (String × Int × String))) (a : AtomInfo) : Option GroupRec :=
  match classOf T a with
  | none => none
  | some cls =>
    let type := (lookup T.classType cls).getD ""
    let rt := residueTypeOf cls a
    let charge0 := (lookup T.charge type).getD 0
    let charge := match lookup T.ions rt with | some q => q | none => charge0
    let model : Option Int := match lookup T.modelPkas rt with
      | none => none
      | some p => some ((lookup T.customPkas (strip a.resName ++ "-" ++ strip a.name)).getD p)
    let tit0 := model.isSome && !a.bridged
    let listed := match titrateOnly with
      | none => true
      | some l => l.contains (a.chain, a.resNum, a.icode)
    some { cls, type, residueType := rt, charge, modelPka := model,
           titratable := tit0 && listed, excludeCys := !listed && rt == "CYS", bridged := a.bridged, atom := a }

/-- `Group.use_in_calculations` -/
def GroupRec.reported (g : GroupRec) : Bool := g.titratable || (g.residueType == "CYS" && !g.excludeCys)

/-- `calculate_total_pka` for a bridged cysteine -/
def GroupRec.fixedPka (g : GroupRec) : Option Int := if g.bridged then some 99990000 else none

/-- `extract_groups`: one classification per heavy atom, in atom order -/
def extractGroups (T : Tables) (titrateOnly : Option (List (String × Int × String))) (atoms : List AtomInfo) : List GroupRec :=
  atoms.filterMap (mkGroup T titrateOnly)

/-- rows of `get_summary_section`: for every residue type of `write_out_order`, the groups carrying it -/
def summaryRows {γ : Type} (order : List String) (rt : γ → String) (groups : List γ) : List γ :=
  order.flatMap fun r => groups.filter fun g => rt g == r

end Propka.Groups
