import Propka.Model.Energy
import Propka.Model.Iterative
import Propka.Model.Angle
/-! Model of the scoring phase of one conformation: `ConformationContainer.calculate_pka` with everything it
    calls - `radial_volume_desolvation`, `set_backbone_determinants`, `set_ion_determinants`,
    `backbone_reorganization`, `set_determinants` (pair loop, `hydrogen_bond_interaction` with its angle factors and
    exception rules, `electrostatic_interaction`, the non-iterative pair rules, the iterative scheme),
    `calculate_total_pka`, `coupling_effects` (without `shared_determinants`) and the removal of the determinants
    towards penalised groups.

    Input: what the code holds when `calculate_pka` starts - the atom table (element, name, group type, bond list),
    the groups (type, residue type, label, charge, model pKa, titratable, bridged, interaction atoms, covalently
    coupled groups) - and an *environment* `Env` through which **all** geometry and residue identity is read:
    squared distances atom-atom / centre-atom / centre-centre, the angle factors, and the same-residue test of
    the desolvation loop.  `envOf` builds that environment from coordinates the way the code does; the invariance
    theorems (C04, C06) are statements about `envOf`, the locality and sign theorems (C05, C16, C02) about `score`.

    Generic in the scalar (run at `Float`, proved at `ℝ`); import-free. -/
namespace Propka.Scoring
open Propka.Energy

/-- what scoring reads of an atom besides its position and residue -/
structure AtomT where
  elem : String
  name : String
  gtype : String          -- `atom.group_type` (set by `set_interaction_atoms`; "" if none)
  bonded : List Nat       -- `atom.bonded_atoms`, in list order
  deriving Repr, Inhabited

structure GroupT (α : Type) where
  type : String
  resType : String
  q : α
  model : α
  titratable : Bool
  bridged : Bool          -- `group.atom.cysteine_bridge`
  atom : Nat              -- index of `group.atom`
  iaAcid : List Nat       -- `interaction_atoms_for_acids`
  iaBase : List Nat       -- `interaction_atoms_for_bases`
  cov : List Nat          -- `covalently_coupled_groups`

/-- a table: its length and the entry at every index (the driver wraps an array; the theorems quantify over all tables) -/
structure Tab (β : Type) where
  n : Nat
  get : Nat → β

/-- `angle_distance_factors` result -/
structure Ang (α : Type) where
  d12 : α
  f : α
  d23 : α

/-- everything scoring reads of the geometry and of residue identity -/
structure Env (α : Type) where
  sqAA : Nat → Nat → α              -- squared_distance(atom i, atom j)
  sqGA : Nat → Nat → α              -- squared_distance(group g, atom a)
  sqGG : Nat → Nat → α              -- squared_distance(group g, group h)
  angA : Nat → Nat → Nat → Ang α    -- angle_distance_factors(atom1, atom2, atom3)
  angC : Nat → Nat → Nat → Ang α    -- angle_distance_factors(atom2, atom3, center = centre of group g)
  sameRes : Nat → Nat → Bool        -- atom a has the res_num and chain_id of group g's atom
  geq : Nat → Nat → Bool            -- `group g == group h` (`Group.__eq__`: printed labels, and residue numbers for hetero groups)
  sameLabel : Nat → Nat → Bool      -- the printed labels of groups g and h are equal

/-- the parameters scoring reads (cfg values and module constants), look-ups as functions -/
structure SP (α : Type) where
  ep : EP α
  desolvCut2 : α
  buriedCut2 : α
  cc2sq : α
  vdwC4 : α
  vdwOf : String → Option α
  scInt : α                                       -- sidechain_interaction
  scCut : String → String → α × α                 -- sidechain_cutoffs.get_value
  bbNH : String → Option (α × α × α)              -- backbone_NH_hydrogen_bond
  bbCO : String → Option (α × α × α)              -- backbone_CO_hydrogen_bond
  imat : String → String → Option Char            -- interaction_matrix.get_value
  angular : String → Bool                         -- in angular_dependent_sidechain_interactions
  baseRes : String → Bool                         -- in base_list
  exclRes : String → Bool                         -- in exclude_sidechain_interactions
  reorgRes : String → Bool                        -- in backbone_reorganisation_list
  ionRes : String → Bool                          -- in ions.keys()
  cooHis : α
  ocoHis : α
  cysHis : α
  cysCys : α
  combMax : α
  sepMax : α
  minBond : Nat                                   -- min_bond_distance_for_hydrogen_bonds
  minV : α                                        -- iterative.UNK_MIN_VALUE
  fangleMin : α                                   -- determinants.FANGLE_MIN
  fixed : α                                       -- 99.99
  removePenalised : Bool

inductive Kind | sidechain | backbone | coulomb
  deriving DecidableEq, Repr

/-- a determinant written during scoring: owner group, partner group, list, value -/
structure Em (α : Type) where
  owner : Nat
  partner : Nat
  kind : Kind
  value : α

/-- a determinant as a group holds it: partner and value -/
structure Det (α : Type) where
  partner : Nat
  value : α

/-- what scoring leaves on a group -/
structure GOut (α : Type) where
  nv : Nat
  buried : α
  evol : α
  eloc : α
  sc : List (Det α)
  bb : List (Det α)
  cb : List (Det α)
  pka : α
  ctg : Option Nat           -- `coupled_titrating_group`

section
variable {α : Type} [Add α] [Sub α] [Mul α] [Div α] [Neg α] [NatCast α] [LT α] [LE α]
  [DecidableLT α] [DecidableLE α] [Max α] [Min α] [BEq α] [Inhabited α] [Trig α]

def zero : α := ((0:Nat):α)

def GroupT.dflt : GroupT α := ⟨"", "", zero, zero, false, false, 0, [], [], []⟩
def aget (atoms : Tab AtomT) (i : Nat) : AtomT := atoms.get i
def gget (groups : Tab (GroupT α)) (i : Nat) : GroupT α := groups.get i

/-- Python truthiness of a float that is not None -/
def truthy (v : α) : Bool := decide (v < zero) || decide (zero < v)

/-- `'BB' in group.type` -/
def hasBB (t : String) : Bool :=
  let rec go : List Char → Bool
    | 'B' :: 'B' :: _ => true
    | _ :: r => go r
    | [] => false
  go t.toList

/-! ### desolvation -/
def heavy (atoms : Tab AtomT) : List Nat := (List.range atoms.n).filter fun i => (aget atoms i).elem != "H"

/-- the volume of an atom in the desolvation sum -/
def dvol (p : SP α) (a : AtomT) : α :=
  if a.elem == "C" && a.name != "CA" && a.name != "C" then p.vdwC4 else (p.vdwOf a.elem).getD ((1:Nat):α)

/-- (volume, squared distance) of the heavy atoms outside the group's residue -/
def desolvInput (p : SP α) (env : Env α) (atoms : Tab AtomT) (g : Nat) : List (α × α) :=
  ((heavy atoms).filter fun a => !env.sameRes g a).map fun a => (dvol p (aget atoms a), env.sqGA g a)

def desolv (p : SP α) (env : Env α) (atoms : Tab AtomT) (g : Nat) : α × Nat :=
  desolvLoop p.ep p.desolvCut2 p.buriedCut2 (desolvInput p env atoms g)

/-- groups that get a desolvation term: `get_titratable_groups() + get_ions()` -/
def desolvated (p : SP α) (g : GroupT α) : Bool := g.titratable || p.ionRes g.resType

/-- (volume, count) of the desolvation loop for group `g`; zero for groups the code does not desolvate -/
def desolvOf (p : SP α) (env : Env α) (atoms : Tab AtomT) (groups : Tab (GroupT α)) (g : Nat) : α × Nat :=
  if desolvated p (gget groups g) then desolv p env atoms g else (zero, 0)

/-- `group.buried` from `group.num_volume` -/
def buriedOf (p : SP α) (groups : Tab (GroupT α)) (nv : Nat → Nat) (g : Nat) : α :=
  if desolvated p (gget groups g) then calculateWeight p.ep ((nv g : Nat) : α) else zero
/-- `group.energy_volume` -/
def evolOf (p : SP α) (groups : Tab (GroupT α)) (vol : Nat → α) (nv : Nat → Nat) (g : Nat) : α :=
  if desolvated p (gget groups g) then energyVolume p.ep (gget groups g).q (vol g) (buriedOf p groups nv g) else zero

/-! ### closest atoms -/
structure Best (α : Type) where
  a : Nat
  b : Nat
  d : α

/-- one comparison of `get_smallest_distance`: keep the first pair with the strictly smallest squared distance -/
def bestStep (sq : Nat → Nat → α) (a : Nat) (best : Option (Best α)) (b : Nat) : Option (Best α) :=
  match best with
  | none => some ⟨a, b, sq a b⟩
  | some r => if sq a b < r.d then some ⟨a, b, sq a b⟩ else some r

/-- `get_smallest_distance` (before the square root): the first pair with the strictly smallest squared distance -/
def smallest (sq : Nat → Nat → α) (as bs : List Nat) : Option (Best α) :=
  as.foldl (fun best a => bs.foldl (bestStep sq a) best) none

/-- `group.get_interaction_atoms(other)` -/
def interAtoms (p : SP α) (g other : GroupT α) : List Nat := if p.baseRes other.resType then g.iaBase else g.iaAcid

def bond0 (atoms : Tab AtomT) (a : Nat) : Nat := (aget atoms a).bonded.headD a

/-! ### backbone hydrogen bonds -/
/-- `get_backbone_hydrogen_bond_parameters(backbone_atom, atom)` -/
def bbParams (p : SP α) (bbType tType : String) : Option (α × α × α) :=
  if bbType == "BBC" then p.bbCO tType else if bbType == "BBN" then p.bbNH tType else none

/-- the angle factor of a backbone hydrogen bond: titratable group `tg`, backbone group `bg`, closest atoms -/
def bbAngle (p : SP α) (env : Env α) (atoms : Tab AtomT) (tg bg : GroupT α) (bAtom tAtom : Nat) : α :=
  let f1 : α :=
    if bg.type == "BBC" && p.angular tg.type then
      (if (aget atoms tAtom).elem == "H" then (env.angA (bond0 atoms tAtom) tAtom bAtom).f else zero)
    else ((1:Nat):α)
  if bg.type == "BBN" then
    (if (aget atoms bAtom).elem == "H" then (env.angA tAtom bAtom (bond0 atoms bAtom)).f else zero)
  else f1

def bbValue (p : SP α) (env : Env α) (atoms : Tab AtomT) (tg bg : GroupT α) (r : Best α) : Option α :=
  let dist := Trig.sqrt r.d
  match bbParams p (aget atoms r.a).gtype (aget atoms r.b).gtype with
  | none => none
  | some prm =>
    if dist < prm.2.2 then
      let f := bbAngle p env atoms tg bg r.a r.b
      if p.fangleMin < f then some (tg.q * hbondEnergy dist prm.1 prm.2.1 prm.2.2 f) else none
    else none

/-- the backbone determinant of titratable group `t` towards backbone group `b`, if any -/
def bbDet (p : SP α) (env : Env α) (atoms : Tab AtomT) (groups : Tab (GroupT α)) (t b : Nat) : Option (Det α) :=
  let tg := gget groups t
  let bg := gget groups b
  if tg.iaAcid.isEmpty then none
  else if (interAtoms p bg tg).isEmpty then none
  else match smallest env.sqAA (interAtoms p bg tg) tg.iaAcid with
    | none => none
    | some r => (bbValue p env atoms tg bg r).map fun v => ⟨b, v⟩

def bbGroups (groups : Tab (GroupT α)) : List Nat := (List.range groups.n).filter fun i => hasBB (gget groups i).type
def titratables (groups : Tab (GroupT α)) : List Nat := (List.range groups.n).filter fun i => (gget groups i).titratable
def ionGroups (p : SP α) (groups : Tab (GroupT α)) : List Nat := (List.range groups.n).filter fun i => p.ionRes (gget groups i).resType

def bbDets (p : SP α) (env : Env α) (atoms : Tab AtomT) (groups : Tab (GroupT α)) (t : Nat) : List (Det α) :=
  if (gget groups t).titratable then (bbGroups groups).filterMap (bbDet p env atoms groups t) else []

/-! ### ions -/
def ionDet (p : SP α) (env : Env α) (groups : Tab (GroupT α)) (nv : Nat → Nat) (t i : Nat) : Option (Det α) :=
  if env.sqGG t i < p.cc2sq then
    some ⟨i, ionValue (gget groups i).q (coulombEnergy p.ep (Trig.sqrt (env.sqGG t i))
      (pairWeight p.ep ((nv t : Nat) : α) ((nv i : Nat) : α)))⟩
  else none

def ionDets (p : SP α) (env : Env α) (groups : Tab (GroupT α)) (nv : Nat → Nat) (t : Nat) : List (Det α) :=
  if (gget groups t).titratable then (ionGroups p groups).filterMap (ionDet p env groups nv t) else []

/-! ### backbone reorganisation -/
def bbcGroups (groups : Tab (GroupT α)) : List Nat := (List.range groups.n).filter fun i => (gget groups i).type == "BBC"

def reorgInput (p : SP α) (env : Env α) (groups : Tab (GroupT α)) (t : Nat) : List (α × α) :=
  (bbcGroups groups).map fun b =>
    let r := env.angC t ((interAtoms p (gget groups b) (gget groups t)).headD 0) (gget groups b).atom
    (r.d12, r.f)

def reorganised (p : SP α) (g : GroupT α) : Bool := p.reorgRes g.resType && !g.bridged

def elocOf (p : SP α) (env : Env α) (groups : Tab (GroupT α)) (nv : Nat → Nat) (t : Nat) : α :=
  if reorganised p (gget groups t) then energyLocal p.ep (reorgInput p env groups t) (buriedOf p groups nv t) else zero

/-! ### side-chain hydrogen bonds (`hydrogen_bond_interaction`) -/
/-- `atom.is_atom_within_bond_distance(other, max_bonds, cur_bond)`; `fuel` bounds the recursion depth like `max_bonds` does -/
def withinBonds (atoms : Tab AtomT) (other : Nat) : Nat → Nat → Bool
  | 0, _ => false
  | fuel+1, a => (aget atoms a).bonded.any fun ba => ba == other || (decide (0 < fuel) && withinBonds atoms other fuel ba)

/-- the angle factor and the distance that enters the energy -/
def scAngle (p : SP α) (env : Env α) (atoms : Tab AtomT) (g1 g2 : GroupT α) (r : Best α) : α × α :=
  if p.angular g2.type then
    (if (aget atoms r.b).elem == "H" then
      let x := env.angA r.a r.b (bond0 atoms r.b); (x.d12, x.f)
     else (Trig.sqrt r.d, zero))
  else if p.angular g1.type then
    (if (aget atoms r.a).elem == "H" then
      let x := env.angA r.b r.a (bond0 atoms r.a); (x.d12, x.f)
     else (Trig.sqrt r.d, zero))
  else (Trig.sqrt r.d, ((1:Nat):α))

/-- one round of `check_coo_arg_exception`: the value of the closest pair and the two atom lists without it -/
def cooArgRound (p : SP α) (env : Env α) (atoms : Tab AtomT) (argAngular : Bool) (st : α × List Nat × List Nat) : α × List Nat × List Nat :=
  match smallest env.sqAA st.2.1 st.2.2 with
  | none => st
  | some r =>
    let cut := p.scCut (aget atoms r.a).gtype (aget atoms r.b).gtype
    let x := env.angA r.a r.b (bond0 atoms r.b)
    let dist := if argAngular then x.d12 else Trig.sqrt r.d
    let f := if argAngular then x.f else ((1:Nat):α)
    (st.1 + hbondEnergy dist p.scInt cut.1 cut.2 f, st.2.1.erase r.a, st.2.2.erase r.b)

def cooArg (p : SP α) (env : Env α) (atoms : Tab AtomT) (coo arg : GroupT α) : α :=
  let s0 : α × List Nat × List Nat := (zero, interAtoms p coo arg, interAtoms p arg coo)
  (cooArgRound p env atoms (p.angular arg.type) (cooArgRound p env atoms (p.angular arg.type) s0)).1

def cooCoo (p : SP α) (env : Env α) (atoms : Tab AtomT) (g1 g2 : GroupT α) (n1 n2 : α) : α :=
  match smallest env.sqAA (interAtoms p g1 g2) (interAtoms p g2 g1) with
  | none => zero
  | some r =>
    let cut := p.scCut (aget atoms r.a).gtype (aget atoms r.b).gtype
    hbondEnergy (Trig.sqrt r.d) p.scInt cut.1 cut.2 ((1:Nat):α) * (((1:Nat):α) + pairWeight p.ep n1 n2)

/-- `check_exceptions`: `some value` if the pair is handled by an exception rule -/
def exceptionValue (p : SP α) (env : Env α) (atoms : Tab AtomT) (g1 g2 : GroupT α) (n1 n2 : α) : Option α :=
  let t1 := g1.type
  let t2 := g2.type
  if t1 == "COO" && t2 == "ARG" then some (cooArg p env atoms g1 g2)
  else if t1 == "ARG" && t2 == "COO" then some (cooArg p env atoms g2 g1)
  else if t1 == "COO" && t2 == "COO" then some (cooCoo p env atoms g1 g2 n1 n2)
  else if t1 == "CYS" && t2 == "CYS" then (if checkBuried p.combMax p.sepMax n1 n2 then some p.cysCys else none)
  else if (t1 == "COO" && t2 == "HIS") || (t1 == "HIS" && t2 == "COO") then (if checkBuried p.combMax p.sepMax n1 n2 then some p.cooHis else none)
  else if (t1 == "OCO" && t2 == "HIS") || (t1 == "HIS" && t2 == "OCO") then (if checkBuried p.combMax p.sepMax n1 n2 then some p.ocoHis else none)
  else if (t1 == "CYS" && t2 == "HIS") || (t1 == "HIS" && t2 == "CYS") then (if checkBuried p.combMax p.sepMax n1 n2 then some p.cysHis else none)
  else none

/-- `hydrogen_bond_interaction(group1, group2, version)`; `n1 n2` are the groups' `num_volume` -/
def hbVal (p : SP α) (env : Env α) (atoms : Tab AtomT) (g1 g2 : GroupT α) (n1 n2 : α) : Option α :=
  match smallest env.sqAA (interAtoms p g1 g2) (interAtoms p g2 g1) with
  | none => none
  | some r =>
    let cut := p.scCut (aget atoms r.a).gtype (aget atoms r.b).gtype
    if cut.2 ≤ Trig.sqrt r.d then none
    else if withinBonds atoms g2.atom p.minBond g1.atom then none
    else
      let df := scAngle p env atoms g1 g2 r
      match exceptionValue p env atoms g1 g2 n1 n2 with
      | some v => some v
      | none => some (hbondEnergy df.1 p.scInt cut.1 cut.2 df.2)

/-- `electrostatic_interaction(group1, group2, dist, version)` -/
def coulVal (p : SP α) (g1 g2 : GroupT α) (n1 n2 dist : α) : Option α :=
  if g1.titratable && g2.titratable && !decide (p.ep.cc2 < dist) && !decide (n1 + n2 < p.ep.nmin) then
    some (coulombEnergy p.ep dist (pairWeight p.ep n1 n2))
  else none

/-! ### the pair loop of `set_determinants` -/
def sidechainGroups (groups : Tab (GroupT α)) : List Nat :=
  (List.range groups.n).filter fun i => !hasBB (gget groups i).type && !(gget groups i).bridged

/-- the inner loop for group `a`: earlier groups until `a` itself or a covalently coupled group is met -/
def innerPairs (groups : Tab (GroupT α)) (a : Nat) : List Nat → List (Nat × Nat)
  | [] => []
  | b :: rest => if b == a || (gget groups a).cov.contains b then [] else (a, b) :: innerPairs groups a rest

def visited (groups : Tab (GroupT α)) : List (Nat × Nat) :=
  (sidechainGroups groups).flatMap fun a => innerPairs groups a (sidechainGroups groups)

def tagOut (a b : Nat) (k : Kind) (o : Out α) : List (Em α) :=
  o.map fun r => if r.1 = 1 then ⟨a, b, k, r.2⟩ else ⟨b, a, k, r.2⟩

/-- what one visited pair does: non-iterative determinants, or an entry of the iterative list -/
structure PairRes (α : Type) where
  ems : List (Em α)
  inter : Option (Iter.Inter α)

def pairStep (p : SP α) (env : Env α) (atoms : Tab AtomT) (groups : Tab (GroupT α)) (nv : Nat → α) (ab : Nat × Nat) : PairRes α :=
  let g1 := gget groups ab.1
  let g2 := gget groups ab.2
  let dist := Trig.sqrt (env.sqGG ab.1 ab.2)
  if dist < p.ep.cc2 then
    match p.imat g1.type g2.type with
    | some 'I' =>
      let hb := hbVal p env atoms g1 g2 (nv ab.1) (nv ab.2)
      let cb := coulVal p g1 g2 (nv ab.1) (nv ab.2) dist
      if (hb.map truthy).getD false || (cb.map truthy).getD false then
        ⟨[], some ⟨ab.1, ab.2, hb.getD zero, cb.getD zero⟩⟩
      else ⟨[], none⟩
    | some 'N' =>
      let hb := hbVal p env atoms g1 g2 (nv ab.1) (nv ab.2)
      let cb := coulVal p g1 g2 (nv ab.1) (nv ab.2) dist
      let e1 := match hb with
        | some v => if truthy v then tagOut ab.1 ab.2 .sidechain (sidechainRule g1.q g2.q g1.model g2.model v) else []
        | none => []
      let e2 := match cb with
        | some v => if truthy v then tagOut ab.1 ab.2 .coulomb (coulombRule g1.q g2.q g1.model g2.model v) else []
        | none => []
      ⟨e1 ++ e2, none⟩
    | _ => ⟨[], none⟩
  else ⟨[], none⟩

def pairResults (p : SP α) (env : Env α) (atoms : Tab AtomT) (groups : Tab (GroupT α)) (nv : Nat → Nat) : List (PairRes α) :=
  (visited groups).map (pairStep p env atoms groups fun g => ((nv g : Nat) : α))

def nonIterEms (rs : List (PairRes α)) : List (Em α) := rs.flatMap (·.ems)
def iterInters (rs : List (PairRes α)) : List (Iter.Inter α) := rs.filterMap (·.inter)

def emsOf (ems : List (Em α)) (g : Nat) (k : Kind) : List (Det α) :=
  (ems.filter fun e => e.owner == g && e.kind == k).map fun e => ⟨e.partner, e.value⟩

def dsum (z : α) (ds : List (Det α)) : α := ds.foldl (fun acc d => acc + d.value) z

/-- `Iterative.__init__`: the non-iterative part of the pKa -/
def nonIterPka (g : GroupT α) (evol eloc : α) (sc bb cb : List (Det α)) : α :=
  g.model + evol + eloc + dsum zero sc + dsum zero bb + dsum zero cb

def iterKind : Iter.Kind → Kind
  | .sidechain => .sidechain
  | .coulomb => .coulomb

/-! ### totals and coupling -/
/-- `Group.calculate_total_pka` -/
def totalPka (p : SP α) (g : GroupT α) (evol eloc : α) (sc bb cb : List (Det α)) : α :=
  if g.bridged then p.fixed else dsum (dsum (dsum (g.model + evol + eloc) sc) bb) cb

/-- `get_a_coupled_system_of_groups`: depth-first over the covalently coupled lists -/
def collect (groups : Tab (GroupT α)) : Nat → List Nat → Nat → List Nat
  | 0, sys, _ => sys
  | fuel+1, sys, g =>
    (gget groups g).cov.foldl (fun s c => if s.contains c then s else collect groups fuel s c) (if sys.contains g then sys else sys ++ [g])

/-- `get_coupled_systems` -/
def systems (groups : Tab (GroupT α)) : Nat → List Nat → List (List Nat)
  | 0, _ => []
  | _, [] => []
  | fuel+1, g :: rest =>
    let sys := collect groups groups.n [] g
    sys :: systems groups fuel (rest.filter fun x => !sys.contains x)

def argmaxPka (pka : Nat → α) : List Nat → Option Nat
  | [] => none
  | g :: gs => some (gs.foldl (fun b x => if pka b < pka x then x else b) g)
def argminPka (pka : Nat → α) : List Nat → Option Nat
  | [] => none
  | g :: gs => some (gs.foldl (fun b x => if pka x < pka b then x else b) g)

/-- `coupling_effects` on one system: (group, its `coupled_titrating_group`) for every penalised group -/
def penalise (env : Env α) (groups : Tab (GroupT α)) (pka : Nat → α) (sys : List Nat) : List (Nat × Nat) :=
  match argmaxPka pka sys with
  | none => []
  | some f =>
    if (gget groups f).q < zero then [(f, (argminPka pka sys).getD f)]
    else (sys.filter fun g => !env.geq g f).map fun g => (g, f)

def covCoupled (groups : Tab (GroupT α)) : List Nat := (List.range groups.n).filter fun i => !(gget groups i).cov.isEmpty

def penalties (env : Env α) (groups : Tab (GroupT α)) (pka : Nat → α) : List (Nat × Nat) :=
  (systems groups groups.n (covCoupled groups)).flatMap (penalise env groups pka)

/-- `Group.remove_determinants(penalised_labels)`: a determinant goes when its label is the label of a penalised group -/
def removeDets (env : Env α) (pens : List (Nat × Nat)) (ds : List (Det α)) : List (Det α) :=
  ds.filter fun d => !pens.any fun x => env.sameLabel x.1 d.partner

/-! ### the whole of `calculate_pka` -/
structure Stage (α : Type) where
  nv : Nat
  buried : α
  evol : α
  eloc : α
  sc : List (Det α)
  bb : List (Det α)
  cb : List (Det α)

/-- the record of group `g` after the non-iterative section -/
def stage1 (p : SP α) (env : Env α) (atoms : Tab AtomT) (groups : Tab (GroupT α)) (vol : Nat → α) (nv : Nat → Nat)
    (ems : List (Em α)) (g : Nat) : Stage α :=
  { nv := nv g, buried := buriedOf p groups nv g, evol := evolOf p groups vol nv g,
    eloc := elocOf p env groups nv g,
    sc := emsOf ems g .sidechain, bb := bbDets p env atoms groups g,
    cb := ionDets p env groups nv g ++ emsOf ems g .coulomb }

def iterGroups (p : SP α) (groups : Tab (GroupT α)) (st : Nat → Stage α) : Array (Iter.IGroup α) :=
  (Array.range groups.n).map fun i =>
    let g := gget groups i
    let s := st i
    ⟨g.q, nonIterPka g s.evol s.eloc s.sc s.bb s.cb, p.exclRes g.resType⟩

def iterEms (p : SP α) (groups : Tab (GroupT α)) (st : Nat → Stage α) (inters : List (Iter.Inter α)) : List (Em α) :=
  (Iter.solve p.minV (iterGroups p groups st) inters).map fun d => ⟨d.owner, d.partner, iterKind d.kind, d.value⟩

/-- the record of group `g` after the iterative section -/
def stage2 (s : Stage α) (its : List (Em α)) (g : Nat) : Stage α :=
  { s with sc := s.sc ++ emsOf its g .sidechain, bb := s.bb ++ emsOf its g .backbone, cb := s.cb ++ emsOf its g .coulomb }

def Stage.dflt : Stage α := ⟨0, zero, zero, zero, [], [], []⟩

/-- the first `calculate_total_pka` of group `i` -/
def pkaFirst (p : SP α) (groups : Tab (GroupT α)) (st : Nat → Stage α) (i : Nat) : α :=
  totalPka p (gget groups i) (st i).evol (st i).eloc (st i).sc (st i).bb (st i).cb

/-- coupling effects, removal of the determinants towards penalised groups, second `calculate_total_pka` -/
def finish (p : SP α) (env : Env α) (groups : Tab (GroupT α)) (st : Nat → Stage α) (pens : List (Nat × Nat)) (g : Nat) : GOut α :=
  let gr := gget groups g
  let s := st g
  let ctg := (pens.find? fun x => x.1 == g).map (·.2)
  if p.removePenalised && !pens.isEmpty then
    let sc := if gr.titratable then removeDets env pens s.sc else s.sc
    let bb := if gr.titratable then removeDets env pens s.bb else s.bb
    let cb := if gr.titratable then removeDets env pens s.cb else s.cb
    { nv := s.nv, buried := s.buried, evol := s.evol, eloc := s.eloc, sc := sc, bb := bb, cb := cb,
      pka := totalPka p gr s.evol s.eloc sc bb cb, ctg := ctg }
  else
    { nv := s.nv, buried := s.buried, evol := s.evol, eloc := s.eloc, sc := s.sc, bb := s.bb, cb := s.cb,
      pka := pkaFirst p groups st g, ctg := ctg }

/-- a table as a function (tables are computed once; a look-up outside the table gives the default) -/
def tab {β : Type} (a : Array β) (d : β) (i : Nat) : β := a.getD i d

/-- (volume, count) of the desolvation loop of every group -/
def desTab (p : SP α) (env : Env α) (atoms : Tab AtomT) (groups : Tab (GroupT α)) : Array (α × Nat) :=
  (Array.range groups.n).map (desolvOf p env atoms groups)
def volF (des : Array (α × Nat)) (g : Nat) : α := (tab des (zero, 0) g).1
def nvF (des : Array (α × Nat)) (g : Nat) : Nat := (tab des (zero, 0) g).2

/-- the records after the non-iterative section -/
def stage1Tab (p : SP α) (env : Env α) (atoms : Tab AtomT) (groups : Tab (GroupT α)) (des : Array (α × Nat))
    (rs : List (PairRes α)) : Array (Stage α) :=
  (Array.range groups.n).map (stage1 p env atoms groups (volF des) (nvF des) (nonIterEms rs))

/-- the records after the iterative section -/
def stage2Tab (p : SP α) (groups : Tab (GroupT α)) (st1 : Array (Stage α)) (rs : List (PairRes α)) : Array (Stage α) :=
  let its := iterEms p groups (tab st1 Stage.dflt) (iterInters rs)
  (Array.range groups.n).map fun g => stage2 (tab st1 Stage.dflt g) its g

/-- everything up to (not including) the first `calculate_total_pka` -/
def stagesTab (p : SP α) (env : Env α) (atoms : Tab AtomT) (groups : Tab (GroupT α)) : Array (Stage α) :=
  let des := desTab p env atoms groups
  let rs := pairResults p env atoms groups (nvF des)
  stage2Tab p groups (stage1Tab p env atoms groups des rs) rs

/-- `coupling_effects`: (penalised group, its coupled titrating group), from the first totals -/
def pensOf (p : SP α) (env : Env α) (groups : Tab (GroupT α)) (st : Array (Stage α)) : List (Nat × Nat) :=
  penalties env groups (tab ((Array.range groups.n).map (pkaFirst p groups (tab st Stage.dflt))) zero)

/-- `ConformationContainer.calculate_pka`: the record of every group, in the order of `conformation.groups` -/
def score (p : SP α) (env : Env α) (atoms : Tab AtomT) (groups : Tab (GroupT α)) : List (GOut α) :=
  let st := stagesTab p env atoms groups
  let pens := pensOf p env groups st
  (List.range groups.n).map (finish p env groups (tab st Stage.dflt) pens)

/-! ### the environment built from coordinates, as the code computes it -/
/-- `squared_distance(a, b)` -/
def sqDist (a b : Angle.P3 α) : α :=
  (b.x - a.x) * (b.x - a.x) + (b.y - a.y) * (b.y - a.y) + (b.z - a.z) * (b.z - a.z)

def angOf (r : α × α × α) : Ang α := ⟨r.1, r.2.1, r.2.2⟩

/-- residue key of an atom: (res_num, chain_id) -/
abbrev ResKey := Int × String

/-- what identifies a group for `Group.__eq__`: printed label, whether its atom is a protein atom, residue number -/
structure GroupId where
  label : String
  protein : Bool
  resNum : Int

def envOf (apos : Nat → Angle.P3 α) (gpos : Nat → Angle.P3 α) (ares : Nat → ResKey) (gres : Nat → ResKey) (gid : Nat → GroupId) : Env α :=
  { sqAA := fun i j => sqDist (apos i) (apos j),
    sqGA := fun g a => sqDist (gpos g) (apos a),
    sqGG := fun g h => sqDist (gpos g) (gpos h),
    angA := fun a1 a2 a3 => angOf (Angle.factors (apos a1) (apos a2) (apos a3)),
    angC := fun g a2 a3 => angOf (Angle.factors (gpos g) (apos a2) (apos a3)),
    sameRes := fun g a => (ares a).1 == (gres g).1 && (ares a).2 == (gres g).2,
    geq := fun g h => (gid g).label == (gid h).label && ((gid g).protein || (gid g).resNum == (gid h).resNum),
    sameLabel := fun g h => (gid g).label == (gid h).label }
end

end Propka.Scoring
