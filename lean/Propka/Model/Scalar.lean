/-! Scalar interface shared by the generic models.  The same definitions are executed at `Float`
    (driver) and reasoned about at `ℝ`/`ℚ` (proof files).  Import-free. -/
namespace Propka

/-- transcendental and rounding-free primitives a scalar must offer for the geometric kernels -/
class Trig (α : Type) where
  sin : α → α
  cos : α → α
  asin : α → α
  acos : α → α
  sqrt : α → α
  pi : α
  abs : α → α

instance : Trig Float := ⟨Float.sin, Float.cos, Float.asin, Float.acos, Float.sqrt, 3.141592653589793, Float.abs⟩

instance : NatCast Float := ⟨Float.ofNat⟩

/-- floats cross the line protocol as decimal u64 bit patterns -/
def fbits (x : Float) : String := toString x.toBits.toNat
def ofBits? (s : String) : Option Float := s.toNat?.map (fun n => Float.ofBits n.toUInt64)

end Propka
