import Propka.Model.Scalar
/-! Model of `propka.parameters`: `InteractionMatrix`, `PairwiseMatrix`, the `squared_property`
    descriptor, and `Parameters.parse_line` (comment stripping, `split`, dispatch on the declared
    kind of the field).  Import-free; the number parser is a parameter. -/
namespace Propka.Params

inductive Err | valueError | assertionError | keyError
  deriving DecidableEq, Repr

/-- a two-level dictionary `d[a][b]` read through `get_value` -/
abbrev Tbl (β : Type) := String → String → Option β

def set {β : Type} (t : Tbl β) (a b : String) (v : β) : Tbl β :=
  fun x y => if x = a ∧ y = b then some v else t x y

/-! ### InteractionMatrix -/
structure IMat where
  keys : List String        -- `ordered_keys`
  tbl : Tbl String          -- `dictionary`

def IMat.empty : IMat := ⟨[], fun _ _ => none⟩

/-- `InteractionMatrix.add(words)`; `words = new_group :: values` -/
def IMat.add (m : IMat) (words : List String) : Except Err IMat :=
  match words with
  | [] => .error .valueError       -- len(words) = 0 ≠ len(keys) + 2
  | new :: vals =>
    if vals.length ≠ m.keys.length + 1 then .error .valueError else
    let keys' := m.keys ++ [new]
    .ok { keys := keys',
          tbl := (keys'.zip vals).foldl (fun t gv => set (set t gv.1 new gv.2) new gv.1 gv.2) m.tbl }

/-- `InteractionMatrix.get_value` (None on a missing key) -/
def IMat.get (m : IMat) (a b : String) : Option String := m.tbl a b

/-! ### PairwiseMatrix -/
structure PMat (β : Type) where
  tbl : Tbl β
  default : β

inductive POp (β : Type)
  | setDefault (v : β)
  | pair (g1 g2 : String) (v : β)

def PMat.apply {β : Type} (m : PMat β) : POp β → PMat β
  | .setDefault v => { m with default := v }
  | .pair g1 g2 v => { m with tbl := set (set m.tbl g1 g2 v) g2 g1 v }   -- insert(g1,g2); insert(g2,g1)

/-- `PairwiseMatrix.get_value` -/
def PMat.get {β : Type} (m : PMat β) (a b : String) : β := (m.tbl a b).getD m.default

/-- `PairwiseMatrix.add(words)` -/
def PMat.parseOp {ν : Type} (num : String → Option ν) (words : List String) : Except Err (POp (ν × ν)) :=
  match words with
  | ["default", a, b] =>
    match num a, num b with
    | some a, some b => .ok (.setDefault (a, b))
    | _, _ => .error .valueError
  | [g1, g2, a, b] =>
    match num a, num b with
    | some a, some b => .ok (.pair g1 g2 (a, b))
    | _, _ => .error .valueError
  | _ => .error .assertionError

/-! ### squared_property: the squared cut-off is computed from the plain one on every read -/
class HalfPow (α : Type) where
  /-- `value ** 0.5` -/
  halfPow : α → α
instance : HalfPow Float := ⟨fun x => Float.pow x 0.5⟩

/-- scalar settings: name ↦ value (later entries shadow earlier ones, as `setattr` overwrites) -/
abbrev Scalars (ν : Type) := List (String × ν)

def Scalars.getPlain {ν : Type} (s : Scalars ν) (name : String) : Option ν :=
  match s.find? (fun kv => kv.1 == name) with
  | some kv => some kv.2
  | none => none

def Scalars.setPlain {ν : Type} (s : Scalars ν) (name : String) (v : ν) : Scalars ν := (name, v) :: s

def unsquare (name : String) : String := (name.dropEnd "_squared".length).toString

/-- `setattr(params, name, v)`: a `_squared` descriptor stores `v ** 0.5` under the plain name -/
def Scalars.setAttr {ν : Type} [HalfPow ν] (sq : List String) (s : Scalars ν) (name : String) (v : ν) : Scalars ν :=
  if sq.contains name then s.setPlain (unsquare name) (HalfPow.halfPow v) else s.setPlain name v

/-- `getattr(params, name)`: a `_squared` descriptor returns `plain ** 2` -/
def Scalars.getAttr {ν : Type} [Mul ν] (sq : List String) (s : Scalars ν) (name : String) : Option ν :=
  if sq.contains name then (s.getPlain (unsquare name)).map (fun x => x * x) else s.getPlain name

/-! ### parse_line -/
def isSpace (c : Char) : Bool :=
  c == ' ' || (9 ≤ c.toNat && c.toNat ≤ 13) || (28 ≤ c.toNat && c.toNat ≤ 31)

/-- Python `str.split()` with no argument -/
def pySplit (s : List Char) : List String :=
  let rec go (cur : List Char) (acc : List String) : List Char → List String
    | [] => (if cur.isEmpty then acc else String.ofList cur.reverse :: acc).reverse
    | c :: cs => if isSpace c then go [] (if cur.isEmpty then acc else String.ofList cur.reverse :: acc) cs
                 else go (c :: cur) acc cs
  go [] [] s

def stripComment (s : List Char) : List Char := s.takeWhile (· != '#')

structure PState (ν : Type) where
  im : IMat
  pm : PMat (ν × ν)
  scalars : Scalars ν
  /-- words accepted for the other kinds of field (dictionaries, lists, strings), in file order -/
  others : List (List String)

def PState.init {ν : Type} [NatCast ν] : PState ν :=
  ⟨IMat.empty, ⟨fun _ _ => none, ((0 : Nat), (0 : Nat))⟩, [], []⟩

def lookupKind (kinds : List (String × String)) (name : String) : String :=
  match kinds.find? (fun kv => kv.1 == name) with
  | some kv => kv.2
  | none => "float"       -- no annotation: parse_parameter(words, float)

/-- `Parameters.parse_line`.  `num` is Python's `float()`, `int?` Python's `int()` (as a validity test) -/
def parseLine {ν : Type} [HalfPow ν] (num : String → Option ν) (isInt : String → Option ν)
    (kinds : List (String × String)) (sq : List String)
    (st : PState ν) (line : List Char) : Except Err (PState ν) :=
  let words := pySplit (stripComment line)
  match words with
  | [] => .ok st
  | name :: args =>
    match lookupKind kinds name with
    | "matrix" => (st.im.add args).map fun im => { st with im := im }
    | "pmatrix" => (PMat.parseOp num args).map fun op => { st with pm := st.pm.apply op }
    | "numdict" =>
      match args with
      | [_, v] => if (num v).isSome then .ok { st with others := st.others ++ [words] } else .error .valueError
      | _ => .error .assertionError
    | "strdict" =>
      match args with
      | [_, _] => .ok { st with others := st.others ++ [words] }
      | _ => .error .assertionError
    | "listdict" =>
      match args with
      | _ :: v :: vs => if (v :: vs).all (fun x => (num x).isSome) then .ok { st with others := st.others ++ [words] } else .error .valueError
      | _ => .error .assertionError
    | "strlist" =>
      match args with
      | [_] => .ok { st with others := st.others ++ [words] }
      | _ => .error .assertionError
    | "str" =>
      match args with
      | [_] => .ok { st with others := st.others ++ [words] }
      | _ => .error .assertionError
    | "int" =>
      match args with
      | [v] => match isInt v with
        | some x => .ok { st with scalars := Scalars.setAttr sq st.scalars name x }
        | none => .error .valueError
      | _ => .error .assertionError
    | _ =>
      match args with
      | [v] => match num v with
        | some x => .ok { st with scalars := Scalars.setAttr sq st.scalars name x }
        | none => .error .valueError
      | _ => .error .assertionError

/-- a parameter file: the first failing line aborts (as the exception propagates) -/
def parseFile {ν : Type} [HalfPow ν] [NatCast ν] (num isInt : String → Option ν)
    (kinds : List (String × String)) (sq : List String) (lines : List (List Char)) : Except Err (PState ν) :=
  lines.foldlM (parseLine num isInt kinds sq) PState.init

end Propka.Params
