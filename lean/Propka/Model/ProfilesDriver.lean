import Propka.Model.Profiles
import Propka.Gen.Consts
/-! Line-protocol handler for the profile model at `Float`. -/
namespace Propka.Profiles
open Propka

def parseGroup (s : String) : Option (TGroup Float) :=
  match s.splitOn ":" with
  | [q, pk, pm, t, cs] =>
    match ofBits? q, ofBits? pk, ofBits? pm with
    | some q, some pk, some pm =>
      let cl := if cs == "-" then some [] else (cs.splitOn ",").mapM ofBits?
      cl.map fun cl => ⟨q, pk, pm, t == "1", cl⟩
    | _, _, _ => none
  | _ => none

def parseGroups (s : String) : Option (List (TGroup Float)) :=
  if s == "-" then some [] else (s.splitOn ";").mapM parseGroup

def showOpt : Option Float → String
  | some x => fbits x
  | none => "None"

/-- `make_grid` at Float: `int(floor((max-min)/step + 1e-9))` steps, points `min + i*step` -/
def gridF (mn mx step : Float) : List Float :=
  let n := (Float.floor ((mx - mn) / step + 1e-9)).toInt64.toInt
  if n < 0 then [] else gridPoints mn step n.toNat

def scalingF : Float := Gen.Consts.group_UNK_PKA_SCALINGF

def handle (args : List String) : String :=
  match args with
  | ["charge", q, pk, ph] =>
    match ofBits? q, ofBits? pk, ofBits? ph with
    | some q, some pk, some ph => fbits (chargeAt q pk ph)
    | _, _, _ => "bad-op"
  | ["charges", ph, gs] =>
    match ofBits? ph, parseGroups gs with
    | some ph, some gs => let c := confCharge gs ph; s!"{fbits c.1} {fbits c.2}"
    | _, _ => "bad-op"
  | ["fold", neutral, ph, gs] =>
    match ofBits? ph, parseGroups gs with
    | some ph, some gs => fbits (confFoldingEnergy scalingF (neutral == "1") gs ph)
    | _, _ => "bad-op"
  | ["grid", mn, mx, st] =>
    match ofBits? mn, ofBits? mx, ofBits? st with
    | some mn, some mx, some st => " ".intercalate ((gridF mn mx st).map fbits)
    | _, _, _ => "bad-op"
  | ["steps", mn, mx, st] =>
    match mn.toInt?, mx.toInt?, st.toInt? with
    | some mn, some mx, some st => toString (numSteps mn mx st)
    | _, _, _ => "bad-op"
  | ["pi", lo, hi, prec, gs] =>
    match ofBits? lo, ofBits? hi, ofBits? prec, parseGroups gs with
    | some lo, some hi, some prec, some gs => let p := getPi gs lo hi prec 2.0 200; s!"{fbits p.1} {fbits p.2}"
    | _, _, _, _ => "bad-op"
  | ["profile", neutral, mn, mx, st, gs] =>
    match ofBits? mn, ofBits? mx, ofBits? st, parseGroups gs with
    | some mn, some mx, some st, some gs =>
      let prof := foldingProfile scalingF (neutral == "1") gs (gridF mn mx st)
      let opt := optimum 1e6 prof
      let r80 := rangeBelow (0.8 * opt.2) prof
      let stab := rangeBelow 0.0 prof
      s!"{prof.length} {showOpt opt.1} {fbits opt.2} {showOpt r80.1} {showOpt r80.2} {showOpt stab.1} {showOpt stab.2}"
    | _, _, _, _ => "bad-op"
  | "rows" :: wmin :: wmax :: start :: delta :: phs =>
    match wmin.toInt?, wmax.toInt?, start.toInt?, delta.toInt?, phs.mapM String.toInt? with
    | some a, some b, some c, some d, some ps => " ".intercalate ((ps.filter (windowRow a b c d)).map toString)
    | _, _, _, _, _ => "bad-op"
  | _ => "bad-op"
end Propka.Profiles
