import Propka.Model.Rotation
/-! Model of the hydrogen construction of `propka.protonate`: vector helpers of
    `propka.vector_algebra`, `trigonal`, `tetrahedral`, `set_bond_distance`, the coordinate rounding of
    `add_proton`, and the electron counting of `set_number_of_protons_to_add` /
    `set_steric_number_and_lone_pairs`.  Generic in the scalar; import-free. -/
namespace Propka.Prot
open Propka Propka.Rot

section
variable {α : Type} [Add α] [Sub α] [Mul α] [Div α] [Neg α] [OfNat α 0] [OfNat α 1] [OfNat α 2]
  [DecidableEq α] [LT α] [DecidableLT α] [Trig α]

def vsub (a b : V3 α) : V3 α := ⟨a.x - b.x, a.y - b.y, a.z - b.z⟩
def vadd (a b : V3 α) : V3 α := ⟨a.x + b.x, a.y + b.y, a.z + b.z⟩
def vneg (a : V3 α) : V3 α := ⟨-a.x, -a.y, -a.z⟩
def dot (a b : V3 α) : α := a.x * b.x + a.y * b.y + a.z * b.z
def cross (a b : V3 α) : V3 α := ⟨a.y * b.z - a.z * b.y, a.z * b.x - a.x * b.z, a.x * b.y - a.y * b.x⟩
def len (a : V3 α) : α := Trig.sqrt (a.x * a.x + a.y * a.y + a.z * a.z)
/-- `Vector.rescale(l)` -/
def rescale (a : V3 α) (l : α) : V3 α := let f := l / len a; ⟨a.x * f, a.y * f, a.z * f⟩
/-- `Vector(atom1=a, atom2=b)`: b − a -/
def between (a b : V3 α) : V3 α := ⟨b.x - a.x, b.y - a.y, b.z - a.z⟩
/-- `Vector.orthogonal()` -/
def orthogonal (a : V3 α) : V3 α :=
  if Trig.abs a.y < Trig.abs a.z then ⟨a.z, 0, -a.x⟩ else ⟨a.y, -a.x, 0⟩

structure Call (α : Type) where
  kind : Nat                -- 3 trigonal, 4 tetrahedral
  atom : V3 α
  toAdd : Int
  bondLen : α
  bonded : List (V3 α)      -- in bond-list order
  nbSteric : Int            -- steric number of bonded[0] (only read: trigonal with one bond)
  nbOthers : List (V3 α)    -- bonded[0]'s neighbours other than the atom, in order

variable (rnd : V3 α → V3 α) (deg120 deg1095 deg90 : α)

/-- `Protonate.trigonal`: the hydrogens added, in order -/
def trigonal (c : Call α) : List (V3 α) :=
  let z : V3 α := ⟨0, 0, 0⟩
  let step1 : List (V3 α) × Int :=
    if c.bonded.length == 1 && decide (0 < c.toAdd) then
      let b0 := c.bonded.headD z
      let avec := between c.atom b0
      let axis :=
        if c.nbSteric == 3 && decide (1 ≤ c.nbOthers.length) then
          let vec1 := between c.atom b0
          let vec2 := between b0 (c.nbOthers.headD z)
          let axis := cross vec1 vec2
          if 1 < c.nbOthers.length then
            let vec3 := between b0 (c.nbOthers.getD 1 z)
            let axis2 := cross vec1 vec3
            if 0 < dot axis axis2 then vadd axis axis2 else vsub axis axis2
          else axis
        else orthogonal avec
      let avec := rotateAround deg120 axis avec
      let avec := rescale avec c.bondLen
      ([rnd (vadd c.atom avec)], c.toAdd - 1)
    else ([], c.toAdd)
  let bonded2 := c.bonded ++ step1.1
  let step2 : List (V3 α) :=
    if bonded2.length == 2 && decide (0 < step1.2) then
      let a1 := rescale (between c.atom (bonded2.headD z)) 1
      let a2 := rescale (between c.atom (bonded2.getD 1 z)) 1
      let na := vsub (vneg a1) a2
      [rnd (vadd c.atom (rescale na c.bondLen))]
    else []
  step1.1 ++ step2

/-- `Protonate.tetrahedral` -/
def tetrahedral (c : Call α) : List (V3 α) :=
  let z : V3 α := ⟨0, 0, 0⟩
  let s1 : List (V3 α) × Int :=
    if c.bonded.length == 1 && decide (0 < c.toAdd) then
      let avec := between c.atom (c.bonded.headD z)
      let axis := orthogonal avec
      let avec := rescale (rotateAround deg1095 axis avec) c.bondLen
      ([rnd (vadd c.atom avec)], c.toAdd - 1)
    else ([], c.toAdd)
  let b2 := c.bonded ++ s1.1
  let s2 : List (V3 α) × Int :=
    if b2.length == 2 && decide (0 < s1.2) then
      let a1 := rescale (between c.atom (b2.headD z)) 1
      let a2 := rescale (between c.atom (b2.getD 1 z)) 1
      let axis := vadd a1 a2
      let na := rotateAround deg90 axis (vneg a1)
      ([rnd (vadd c.atom (rescale na c.bondLen))], s1.2 - 1)
    else ([], s1.2)
  let b3 := b2 ++ s2.1
  let s3 : List (V3 α) :=
    if b3.length == 3 && decide (0 < s2.2) then
      let a1 := rescale (between c.atom (b3.headD z)) 1
      let a2 := rescale (between c.atom (b3.getD 1 z)) 1
      let a3 := rescale (between c.atom (b3.getD 2 z)) 1
      let na := vsub (vsub (vneg a1) a2) a3
      [rnd (vadd c.atom (rescale na c.bondLen))]
    else []
  s1.1 ++ s2.1 ++ s3
end

/-! ### electron counting -/
/-- `set_number_of_protons_to_add`: 8 − valence − bonds − π + int(charge) -/
def toAdd (valence bonds pi : Nat) (charge : Int) : Int := 8 - valence - bonds - pi + charge
/-- `set_steric_number_and_lone_pairs`: floor((valence + bonds + toAdd − π − πconj − charge)/2) -/
def steric (valence bonds pi conj : Nat) (charge : Int) : Int :=
  ((valence : Int) + bonds + toAdd valence bonds pi charge - pi - conj - charge).fdiv 2

/-! ### exact `round(x, 3)` for doubles (round-half-even on the exact binary value) -/
def ratParts (x : Float) : Option (Int × Int) :=
  let b := x.toBits.toNat
  let s : Nat := b / 2^63
  let ex : Nat := (b / 2^52) % 2048
  let mant : Nat := b % 2^52
  if ex == 2047 then none else
  let m : Nat := if ex == 0 then mant else mant + 2^52
  let e : Int := if ex == 0 then -1074 else (ex : Int) - 1075
  some ((if s == 1 then - (m : Int) else (m : Int)), e)

def round3 (x : Float) : Float :=
  match ratParts x with
  | none => x
  | some (m, e) =>
    let num : Int := m * 1000
    let n : Int :=
      if e ≥ 0 then num * ((2 : Int) ^ e.toNat)
      else
        let d : Int := (2 : Int) ^ (-e).toNat
        let q := num.fdiv d
        let r := num - q * d
        if 2 * r < d then q else if 2 * r > d then q + 1 else (if q % 2 == 0 then q else q + 1)
    let mag := Float.ofNat n.natAbs / 1000.0
    -- the sign is the argument's: `round(-0.0001, 3)` is `-0.0`
    if m < 0 || x.toBits.toNat / 2^63 == 1 then -mag else mag

def roundV (p : V3 Float) : V3 Float := ⟨round3 p.x, round3 p.y, round3 p.z⟩
def radians (d : Float) : Float := d * (3.141592653589793 / 180.0)

def runF (c : Call Float) : List (V3 Float) :=
  if c.kind == 3 then trigonal roundV (radians 120.0) c else tetrahedral roundV (radians 109.5) (radians 90) c

def fl (s : String) : Float := Float.ofBits (s.toNat!.toUInt64)
def takeV : List String → V3 Float × List String
  | a :: b :: c :: r => (⟨fl a, fl b, fl c⟩, r)
  | r => (⟨0,0,0⟩, r)
def takeVs : Nat → List String → List (V3 Float) × List String
  | 0, r => ([], r)
  | n+1, r => let (v, r1) := takeV r; let (vs, r2) := takeVs n r1; (v :: vs, r2)

/-- `prot build kind toAdd bondLenBits nbSteric atom(3) nb bonded(3nb) no others(3no)`; `prot round3 bits`;
    `prot count valence bonds pi conj charge` -/
def handle (args : List String) : String :=
  match args with
  | "build" :: kind :: toAdd :: bl :: nbS :: rest =>
    let (atom, r1) := takeV rest
    match r1 with
    | nb :: r2 =>
      let (bonded, r3) := takeVs nb.toNat! r2
      match r3 with
      | no :: r4 =>
        let (others, _) := takeVs no.toNat! r4
        let c : Call Float := ⟨kind.toNat!, atom, toAdd.toInt!, fl bl, bonded, nbS.toInt!, others⟩
        let hs := runF c
        if hs.isEmpty then "-" else " ".intercalate (hs.map fun v => s!"{fbits v.x} {fbits v.y} {fbits v.z}")
      | _ => "bad-op"
    | _ => "bad-op"
  | ["round3", b] => fbits (round3 (fl b))
  | ["count", v, b, p, c, q] =>
    match v.toNat?, b.toNat?, p.toNat?, c.toNat?, q.toInt? with
    | some v, some b, some p, some c, some q => s!"{toAdd v b p q} {steric v b p c q}"
    | _, _, _, _, _ => "bad-op"
  | _ => "bad-op"
end Propka.Prot
