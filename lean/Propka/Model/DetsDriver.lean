import Propka.Model.Dets
import Propka.Model.TopUp
import Propka.Model.PyStr
import Propka.Model.Scalar
/-! Line-protocol handler for the determinant bookkeeping at `Float` and for topping-up. -/
namespace Propka.Dets
open Propka Propka.Py

def parseDets (s : String) : Option (List (Det Float)) :=
  if s == "-" then some [] else
  (s.splitOn ",").mapM fun e => match e.splitOn ":" with
    | [g, l, v] => (ofBits? v).map fun v => ⟨unhexS g, unhexS l, v⟩
    | _ => none

def parseG (s : String) : Option (GRec Float) :=
  match s.splitOn "|" with
  | [lab, m, ev, el, pk, br, sc, bb, cb] =>
    match ofBits? m, ofBits? ev, ofBits? el, ofBits? pk, parseDets sc, parseDets bb, parseDets cb with
    | some m, some ev, some el, some pk, some sc, some bb, some cb => some ⟨unhexS lab, m, ev, el, sc, bb, cb, pk, br == "1", []⟩
    | _, _, _, _, _, _, _ => none
  | _ => none

def showDets (ds : List (Det Float)) : String :=
  if ds.isEmpty then "-" else ",".intercalate (ds.map fun d => s!"{tohexS d.grp}:{tohexS d.label}:{fbits d.value}")

def showG (g : GRec Float) : String := s!"{fbits g.pka}|{showDets g.sc}|{showDets g.bb}|{showDets g.cb}"

def fixedF : Float := 99.99

def handle (args : List String) : String :=
  match args with
  | ["total", g] => match parseG g with
    | some g => fbits (calculateTotal fixedF g).pka
    | none => "bad-op"
  | ["swap", a, b] => match parseG a, parseG b with
    | some a, some b => let r := swap fixedF a b; s!"{showG r.1} {showG r.2}"
    | _, _ => "bad-op"
  | ["probe", ps, cs, a, b] =>
    -- ps: minInter,minPka,maxPka,maxEdiff,minShift,maxIntr,ph('v' = variable)   cs: c0,c1,c2,c3,i1,i2
    match (ps.splitOn ",").take 6 |>.mapM ofBits?, (cs.splitOn ",").mapM ofBits?, parseG a, parseG b with
    | some [mi, mnp, mxp, me, ms, mx], some [c0, c1, c2, c3, i1, i2], some a, some b =>
      let phs := (ps.splitOn ",").getD 6 "v"
      let p : ProbeP Float := ⟨mi, mnp, mxp, me, ms, mx, if phs == "v" then none else ofBits? phs⟩
      let energy := fun (ph : Float) (x y : GRec Float) => c0 + c1 * x.pka + c2 * y.pka + c3 * ph
      let r := probe fixedF p energy i1 i2 a b
      let res := match r.2 with
        | none => "rejected"
        | some q => ",".intercalate ([q.defaultE, q.swappedE, q.inter, q.sp1, q.sp2, q.sh1, q.sh2, q.ph, q.fE, q.fP, q.fI].map fbits)
      s!"{showG r.1.1} {showG r.1.2} {res}"
    | _, _, _, _ => "bad-op"
  | ["remove", labels, g] => match parseG g with
    | some g =>
      let ls := if labels == "-" then [] else (labels.splitOn ",").map unhexS
      showG (calculateTotal fixedF (removeDeterminants ls g))
    | none => "bad-op"
  | ["avg", gs] => match (gs.splitOn ";").mapM parseG with
    | some gs =>
      let a := average (0.0 : Float) gs
      s!"{fbits a.pka}|{fbits a.evol}|{fbits a.eloc}|{showDets a.sc}|{showDets a.bb}|{showDets a.cb}"
    | none => "bad-op"
  | ["avgs", xs] => match (xs.splitOn ",").mapM ofBits? with
    | some xs => fbits (avgScalar (0.0 : Float) xs)
    | none => "bad-op"
  | ["rows", a, b, c] => match a.toNat?, b.toNat?, c.toNat? with
    | some a, some b, some c =>
      let r := rowsOf (List.range a) (List.range b) (List.range c)
      " ".intercalate (r.map fun x => s!"{x.1.isSome},{x.2.1.isSome},{x.2.2.isSome}")
    | _, _, _ => "bad-op"
  | _ => "bad-op"
end Propka.Dets

namespace Propka.TopUp
open Propka.Py
def parseA (s : String) : Option A :=
  match s.splitOn "|" with
  | [l, c, n, i, r] => n.toInt?.map fun n => ⟨unhexS l, unhexS c, n, unhexS i, unhexS r⟩
  | _ => none
def parseAs (s : String) : Option (List A) := if s == "-" then some [] else (s.splitOn ";").mapM parseA
/-- `topup run <conf;atoms>/<conf;atoms>/...` -> for each conformation the labels after top_up_conformations -/
def handle (args : List String) : String :=
  match args with
  | ["run", cs] => match (cs.splitOn "/").mapM parseAs with
    | some confs =>
      let ref := refAtoms confs
      "/".intercalate (confs.map fun c => ";".intercalate ((topUpFrom c ref).map fun a => tohexS a.label ++ "|" ++ tohexS a.resName))
    | none => "bad-op"
  | _ => "bad-op"
end Propka.TopUp
