import Propka.Model.Scalar
/-! Model of the scalar kernels of `propka.energy` and of the sign rules of
    `propka.determinants` (non-iterative pair rules, ion and backbone determinants).
    Generic in the scalar; import-free. -/
namespace Propka.Energy

/-- the parameters the kernels read -/
structure EP (α : Type) where
  nmin : α
  nmax : α
  surf : α           -- desolvationSurfaceScalingFactor
  prefactor : α      -- desolvationPrefactor
  allowance : α      -- desolvationAllowance
  cc1 : α            -- coulomb_cutoff1
  cc2 : α            -- coulomb_cutoff2
  diel1 : α          -- UNK_DIELECTRIC1 (160)
  diel2 : α          -- UNK_DIELECTRIC2 (30)
  cscale : α         -- UNK_PKA_SCALING1 (244.12)
  bbd1 : α           -- UNK_BACKBONE_DISTANCE1 (6.0)
  bbd2 : α           -- UNK_BACKBONE_DISTANCE2 (3.0)
  bbscale : α        -- UNK_PKA_SCALING2 (0.8)
  fmin : α           -- UNK_FANGLE_MIN (0.001)
  minDist4 : α       -- MIN_DISTANCE_4TH

section
variable {α : Type} [Add α] [Sub α] [Mul α] [Div α] [Neg α] [NatCast α] [LT α] [LE α]
  [DecidableLT α] [DecidableLE α] [Max α] [Min α]

/-- `abs(x)`; adding zero turns IEEE −0.0 into +0.0 as `abs` does and changes nothing else -/
def absS (x : α) : α := if x < ((0:Nat):α) then -x else x + ((0:Nat):α)

/-- `calculate_weight`: `max(0, min(1, (n - Nmin)/(Nmax - Nmin)))` -/
def calculateWeight (p : EP α) (numVolume : α) : α :=
  max ((0:Nat):α) (min ((1:Nat):α) ((numVolume - p.nmin) / (p.nmax - p.nmin)))

/-- `calculate_pair_weight` -/
def pairWeight (p : EP α) (n1 n2 : α) : α :=
  let two : α := ((2:Nat):α)
  max ((0:Nat):α) (min ((1:Nat):α) (((n1 + n2) - two * p.nmin) / (two * p.nmax - two * p.nmin)))

/-- `calculate_scale_factor` -/
def scaleFactor (p : EP α) (w : α) : α := ((1:Nat):α) - (((1:Nat):α) - p.surf) * (((1:Nat):α) - w)

/-- one term of the volume sum: `dvol / max(min_dist_4th, sq_dist*sq_dist)` -/
def dvInc (p : EP α) (dvol sqDist : α) : α := dvol / max p.minDist4 (sqDist * sqDist)

/-- the loop of `radial_volume_desolvation` over the atoms outside the group's own residue, each given as
    (van der Waals volume, squared distance to the group centre): accumulated (volume, count) -/
def desolvLoop (p : EP α) (desolvCut2 buriedCut2 : α) (atoms : List (α × α)) : α × Nat :=
  atoms.foldl (fun acc a =>
    let v := if a.2 < desolvCut2 then acc.1 + dvInc p a.1 a.2 else acc.1
    let n := if a.2 < buriedCut2 then acc.2 + 1 else acc.2
    (v, n)) (((0:Nat):α), 0)

/-- `energy_volume` from the accumulated volume, the charge and the buried weight -/
def energyVolume (p : EP α) (q volume w : α) : α :=
  q * p.prefactor * max ((0:Nat):α) (volume - p.allowance) * scaleFactor p w

/-- `hydrogen_bond_energy(dist, dpka_max, [c1, c2], f_angle)` -/
def hbondEnergy (dist dpkaMax c1 c2 fAngle : α) : α :=
  let value : α := if dist < c1 then ((1:Nat):α) else if c2 < dist then ((0:Nat):α)
    else ((1:Nat):α) - (dist - c1) / (c2 - c1)
  absS (dpkaMax * value * fAngle)

/-- `coulomb_energy(dist, weight)` -/
def coulombEnergy (p : EP α) (dist weight : α) : α :=
  let diel := p.diel1 - (p.diel1 - p.diel2) * weight
  let dist := max dist p.cc1
  let scale := (dist - p.cc2) / (p.cc1 - p.cc2)
  let scale := max ((0:Nat):α) scale
  let scale := min ((1:Nat):α) scale
  absS (p.cscale / (diel * dist) * scale)

/-- one backbone C=O group's contribution to `backbone_reorganization` -/
def reorgTerm (p : EP α) (dist fAngle : α) : α :=
  if dist < p.bbd1 ∧ p.fmin < fAngle then
    p.bbscale * min ((1:Nat):α) (((1:Nat):α) - (dist - p.bbd2) / (p.bbd1 - p.bbd2))
  else ((0:Nat):α)

/-- `energy_local = (sum of terms) * buried` -/
def energyLocal (p : EP α) (terms : List (α × α)) (w : α) : α :=
  (terms.foldl (fun acc t => acc + reorgTerm p t.1 t.2) ((0:Nat):α)) * w

/-- `check_buried` -/
def checkBuried (comb sep n1 n2 : α) : Bool :=
  !(decide (n1 + n2 ≤ comb) && (decide (n1 ≤ sep) || decide (n2 ≤ sep)))

/-! ### sign rules: who gets which determinant -/
/-- a determinant written by a pair rule: (index of the owner: 1 or 2, value) -/
abbrev Out (α : Type) := List (Nat × α)

/-- `add_sidechain_determinants` given the interaction value -/
def sidechainRule (q1 q2 m1 m2 v : α) : Out α :=
  if ¬ (q1 < q2) ∧ ¬ (q2 < q1) then     -- `group1.charge == group2.charge`
    (if m1 < m2 then [(1, -v), (2, v)] else [(1, v), (2, -v)])
  else [(1, v * q1), (2, v * q2)]

/-- `add_coulomb_determinants` given the interaction value -/
def coulombRule (q1 q2 m1 m2 v : α) : Out α :=
  if q1 < ((0:Nat):α) ∧ q2 < ((0:Nat):α) then (if m2 < m1 then [(1, v)] else [(2, v)])
  else if ((0:Nat):α) < q1 ∧ ((0:Nat):α) < q2 then (if m1 < m2 then [(1, -v)] else [(2, -v)])
  else [(1, q1 * v), (2, q2 * v)]

/-- `set_ion_determinants`: `-ion.charge * coulomb_energy` -/
def ionValue (qIon e : α) : α := -qIon * e

/-- `set_backbone_determinants`: `group.charge * hydrogen_bond_energy(...)` -/
def backboneValue (q e : α) : α := q * e
end

end Propka.Energy
