/-! Model of the nested pair loops of `set_determinants` and
    `identify_non_covalently_coupled_groups`:

        for group1 in groups:
            for group2 in groups:
                if group1 <same as> group2: break
                visit(group1, group2)

    generic in the test used for "same as" (object identity, or equality of printed labels).  Import-free. -/
namespace Propka.PairLoop

/-- the inner loop for the group at position `i`: visit positions `0, 1, …` until the test fires -/
def inner (same : Nat → Nat → Bool) (i : Nat) : Nat → Nat → List (Nat × Nat)
  | 0, _ => []
  | fuel+1, j => if same i j then [] else (i, j) :: inner same i fuel (j+1)

/-- every pair handed to the loop body, in order, for `n` groups -/
def visited (same : Nat → Nat → Bool) (n : Nat) : List (Nat × Nat) :=
  (List.range n).flatMap fun i => inner same i n 0

/-- identity of the objects in the list -/
def byIdentity (i j : Nat) : Bool := i == j
/-- equality of printed labels -/
def byLabel (labels : List String) (i j : Nat) : Bool := labels.getD i "" == labels.getD j ""

/-- `pairloop id <n>` / `pairloop label <hexlabel,...>` -> visited pairs -/
def handle (args : List String) : String :=
  let show_ (ps : List (Nat × Nat)) := " ".intercalate (ps.map fun p => s!"{p.1}-{p.2}")
  match args with
  | ["id", n] => match n.toNat? with
    | some n => show_ (visited byIdentity n)
    | none => "bad-op"
  | ["label", ls] => let labels := ls.splitOn ","; show_ (visited (byLabel labels) labels.length)
  | _ => "bad-op"

end Propka.PairLoop
