/-! Model of `propka.hybrid36.decode` on ASCII input, plus the reference encoder of the
    hybrid-36 format (http://cci.lbl.gov/hybrid_36/).  Import-free (linked into the driver). -/
namespace Propka.H36

abbrev Str := List Char

def isDigit (c : Char) : Bool := '0' ≤ c && c ≤ '9'
def isUpper (c : Char) : Bool := 'A' ≤ c && c ≤ 'Z'
def isLower (c : Char) : Bool := 'a' ≤ c && c ≤ 'z'
/-- ASCII characters for which Python's `str.isspace` is true -/
def isSpace (c : Char) : Bool :=
  c == ' ' || (9 ≤ c.toNat && c.toNat ≤ 13) || (28 ≤ c.toNat && c.toNat ≤ 31)

/-- Python `str.strip()` -/
def strip (s : Str) : Str := ((s.dropWhile isSpace).reverse.dropWhile isSpace).reverse

def val (c : Char) : Nat :=
  if isDigit c then c.toNat - 48 else if isUpper c then c.toNat - 55 else if isLower c then c.toNat - 87 else 0

/-- `int(s, b)` on a string of valid digits -/
def parseBase (b : Nat) (cs : Str) : Nat := cs.foldl (fun acc c => acc * b + val c) 0

inductive Res | ok (n : Int) | valueError
  deriving DecidableEq, Repr

def splitSign : Str → Int × Str
  | '-' :: r => (-1, r)
  | r => (1, r)

/-- the body of `decode` after stripping and sign handling -/
def decodeBody (sign : Int) (s : Str) : Res :=
  match s with
  | [] => .valueError
  | c :: rest =>
    let n := s.length
    if isDigit c then
      -- decimal segment: every further character must be a decimal digit
      if rest.all isDigit then .ok (sign * (parseBase 10 s : Int)) else .valueError
    else if isUpper c then
      if rest.all (fun ch => isUpper ch || isDigit ch) then
        .ok (sign * ((parseBase 36 s : Int) - (10 * 36 ^ (n - 1) : Nat) + (10 ^ n : Nat)))
      else .valueError
    else if isLower c then
      if rest.all (fun ch => isLower ch || isDigit ch) then
        .ok (sign * ((parseBase 36 s : Int) + (16 * 36 ^ (n - 1) : Nat) + (10 ^ n : Nat)))
      else .valueError
    else .valueError

def decode (input : Str) : Res :=
  let p := splitSign (strip input)
  decodeBody p.1 p.2

/-! ### reference encoder -/
def decDigit (v : Nat) : Char := Char.ofNat (48 + v)
def upperDigit (v : Nat) : Char := if v < 10 then Char.ofNat (48 + v) else Char.ofNat (55 + v)
def lowerDigit (v : Nat) : Char := if v < 10 then Char.ofNat (48 + v) else Char.ofNat (87 + v)

/-- the `w` least significant base-`b` digits of `m`, most significant first -/
def digits (b : Nat) : Nat → Nat → List Nat
  | 0, _ => []
  | w+1, m => digits b w (m / b) ++ [m % b]

def enc (dig : Nat → Char) (b w m : Nat) : Str := (digits b w m).map dig

/-- number of decimal digits of `m` (at least 1) -/
def decLen (m : Nat) : Nat := if m < 10 then 1 else decLen (m / 10) + 1
decreasing_by omega

/-- decimal digits without leading zeros -/
def decStr (m : Nat) : Str := enc decDigit 10 (decLen m) m

/-- hybrid-36 encoding of `n` in a field of width `w` (unpadded; `none` when out of range) -/
def encode (w : Nat) (n : Int) : Option Str :=
  if n < 0 then
    if decLen n.natAbs + 1 ≤ w then some ('-' :: decStr n.natAbs) else none
  else
    let m := n.toNat
    if m < 10 ^ w then some (decStr m)
    else if m < 10 ^ w + 26 * 36 ^ (w - 1) then some (enc upperDigit 36 w (m - 10 ^ w + 10 * 36 ^ (w - 1)))
    else if m < 10 ^ w + 52 * 36 ^ (w - 1) then some (enc lowerDigit 36 w (m - 10 ^ w - 26 * 36 ^ (w - 1) + 10 * 36 ^ (w - 1)))
    else none

/-! ### line-protocol handler: argument = hex of the (latin-1) field -/
def hexVal (c : Char) : Nat := if c.toNat ≥ 97 then c.toNat - 87 else c.toNat - 48
def unhex : List Char → List Char
  | a :: b :: r => Char.ofNat (hexVal a * 16 + hexVal b) :: unhex r
  | _ => []

def showRes : Res → String
  | .ok n => s!"ok {n}"
  | .valueError => "ValueError"

def handle (args : List String) : String :=
  match args with
  | ["dec", h] => showRes (decode (unhex h.toList))
  | ["dec"] => showRes (decode [])
  | ["enc", w, n] =>
    match w.toNat?, n.toInt? with
    | some w, some n => match encode w n with
      | some s => "ok " ++ String.ofList s
      | none => "none"
    | _, _ => "bad-op"
  | _ => "bad-op"

end Propka.H36
