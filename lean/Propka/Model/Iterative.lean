import Propka.Model.Scalar
/-! Model of `propka.iterative.add_determinants`: the iterative treatment of mutually titrating
    pairs (acid pair, base pair, acid–base pair rules with their annihilation memory, at most ten
    global iterations, convergence tested on the pKa values, final transfer with the 0.005 filter).
    Generic in the scalar (run at `Float`, proved at `ℚ`); import-free. -/
namespace Propka.Iter

structure IGroup (α : Type) where
  q : α             -- formal charge
  noniter : α       -- `pka_noniterative`
  excl : Bool       -- residue type listed in `exclude_sidechain_interactions`

structure Inter (α : Type) where
  g1 : Nat
  g2 : Nat
  hb : α
  coul : α

inductive Kind | sidechain | coulomb
  deriving DecidableEq, Repr

structure Det (α : Type) where
  owner : Nat
  partner : Nat
  kind : Kind
  value : α

section
variable {α : Type} [Add α] [Sub α] [Mul α] [Neg α] [NatCast α] [LT α] [DecidableLT α] [BEq α] [Inhabited α]

/-- determinants and annihilation written by an acid–base pair when its term is added -/
def ionDets (minV : α) (g1 g2 : Nat) (q1 q2 : α) (e1 e2 : Bool) (hb coul : α) : List (Det α) × (α × α) :=
  let z : α := ((0:Nat):α)
  let c := decide (minV < coul)
  let h := decide (minV < hb)
  let dc : List (Det α) := if c then [⟨g1, g2, .coulomb, q1 * coul⟩, ⟨g2, g1, .coulomb, q2 * coul⟩] else []
  let d1 : List (Det α) := if h && !e1 then [⟨g1, g2, .sidechain, q1 * hb⟩] else []
  let d2 : List (Det α) := if h && !e2 then [⟨g2, g1, .sidechain, q2 * hb⟩] else []
  let a0 := if c then z + (-q1) * coul else z
  let a0 := if h && !e1 then a0 + (-q1) * hb else a0
  let a1 := if c then z + (-q2) * coul else z
  let a1 := if h && !e2 then a1 + (-q2) * hb else a1
  (dc ++ d1 ++ d2, (a0, a1))

/-- whether an acid–base pair adds its term in this iteration -/
def ionAddTerm (q1 q2 o1 o2 : α) (ann : α × α) (e1 e2 : Bool) (hb coul : α) : Bool :=
  let comp1 := o1 + ann.1 + q1 * coul
  let comp1 := if e1 then comp1 else comp1 + q1 * hb
  let comp2 := o2 + ann.2 + q2 * coul
  let comp2 := if e2 then comp2 else comp2 + q2 * hb
  (q1 == -((1:Nat):α) && decide (comp1 < comp2)) || (q1 == ((1:Nat):α) && decide (comp2 < comp1))

/-- one interaction in one iteration -/
def interStep (minV : α) (gs : Array (IGroup α)) (old : Array α) (it : Inter α) (ann : α × α) : List (Det α) × (α × α) :=
  let z : α := ((0:Nat):α)
  let g1 := gs.getD it.g1 ⟨z, z, false⟩
  let g2 := gs.getD it.g2 ⟨z, z, false⟩
  let o1 := old.getD it.g1 z
  let o2 := old.getD it.g2 z
  if g1.q < z ∧ g2.q < z then
    let diff := it.coul + ((2:Nat):α) * it.hb
    let comp1 := o1 + ann.1 + diff
    let comp2 := o2 + ann.2 + diff
    if comp2 < comp1 then
      ([⟨it.g1, it.g2, .sidechain, it.hb⟩, ⟨it.g2, it.g1, .sidechain, -it.hb⟩, ⟨it.g1, it.g2, .coulomb, it.coul⟩], (-diff, z))
    else
      ([⟨it.g2, it.g1, .sidechain, it.hb⟩, ⟨it.g1, it.g2, .sidechain, -it.hb⟩, ⟨it.g2, it.g1, .coulomb, it.coul⟩], (z, -diff))
  else if z < g1.q ∧ z < g2.q then
    let diff := -(it.coul + ((2:Nat):α) * it.hb)
    let comp1 := o1 + ann.1 + diff
    let comp2 := o2 + ann.2 + diff
    if comp1 < comp2 then
      ([⟨it.g1, it.g2, .sidechain, -it.hb⟩, ⟨it.g2, it.g1, .sidechain, it.hb⟩, ⟨it.g1, it.g2, .coulomb, -it.coul⟩], (-diff, z))
    else
      ([⟨it.g2, it.g1, .sidechain, -it.hb⟩, ⟨it.g1, it.g2, .sidechain, it.hb⟩, ⟨it.g2, it.g1, .coulomb, -it.coul⟩], (z, -diff))
  else
    if ionAddTerm g1.q g2.q o1 o2 ann g1.excl g2.excl it.hb it.coul then
      ionDets minV it.g1 it.g2 g1.q g2.q g1.excl g2.excl it.hb it.coul
    else ([], (z, z))

structure State (α : Type) where
  old : Array α
  ann : List (α × α)
  dets : List (Det α)

/-- `pka_new`: the non-iterative value plus the side-chain, then the Coulomb determinants of the group -/
def pkaNew (gs : Array (IGroup α)) (dets : List (Det α)) (i : Nat) : α :=
  let base := (gs.getD i ⟨((0:Nat):α), ((0:Nat):α), false⟩).noniter
  let s1 := dets.foldl (fun acc d => if d.owner = i ∧ d.kind = .sidechain then acc + d.value else acc) base
  dets.foldl (fun acc d => if d.owner = i ∧ d.kind = .coulomb then acc + d.value else acc) s1

/-- one global iteration -/
def iterate (minV : α) (gs : Array (IGroup α)) (inters : List (Inter α)) (s : State α) : State α :=
  let rs := (inters.zip s.ann).map fun p => interStep minV gs s.old p.1 p.2
  let dets := rs.flatMap (·.1)
  { old := (Array.range gs.size).map (pkaNew gs dets), ann := rs.map (·.2), dets := dets }

/-- groups that take part in some interaction (the `iteratives`) -/
def active (inters : List (Inter α)) (i : Nat) : Bool := inters.any fun it => it.g1 == i || it.g2 == i

def converged (inters : List (Inter α)) (a b : Array α) : Bool :=
  (List.range a.size).all fun i => !active inters i || (a.getD i default == b.getD i default)

def solveLoop (minV : α) (gs : Array (IGroup α)) (inters : List (Inter α)) : Nat → State α → State α
  | 0, s => s
  | fuel+1, s =>
    let s' := iterate minV gs inters s
    if converged inters s'.old s.old then s' else solveLoop minV gs inters fuel s'

def initState (gs : Array (IGroup α)) (inters : List (Inter α)) : State α :=
  { old := gs.map (·.noniter), ann := inters.map fun _ => (((0:Nat):α), ((0:Nat):α)), dets := [] }

/-- `add_determinants`: at most 10 iterations, then keep determinants with |value| > 0.005 -/
def solve (minV : α) (gs : Array (IGroup α)) (inters : List (Inter α)) : List (Det α) :=
  (solveLoop minV gs inters 10 (initState gs inters)).dets.filter fun d => decide (minV < d.value) || decide (d.value < -minV)

def total (minV : α) (gs : Array (IGroup α)) (inters : List (Inter α)) (i : Nat) : α :=
  pkaNew gs (solve minV gs inters) i
end

end Propka.Iter
