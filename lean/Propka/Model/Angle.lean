import Propka.Model.Scalar
/-! Model of `propka.energy.angle_distance_factors`: the two distances and the angle factor of three atoms
    (acceptor, hydrogen, donor heavy atom) that scales angular-dependent hydrogen bonds.  Generic in the
    scalar; import-free. -/
namespace Propka.Angle
structure P3 (α : Type) where
  x : α
  y : α
  z : α

section
variable {α : Type} [Add α] [Sub α] [Mul α] [Div α] [Trig α]
/-- `angle_distance_factors(atom1, atom2, atom3)`: (dist_12, f_angle, dist_23), in the code's evaluation order -/
def factors (p1 p2 p3 : P3 α) : α × α × α :=
  let dx32 := p2.x - p3.x
  let dy32 := p2.y - p3.y
  let dz32 := p2.z - p3.z
  let d23 := Trig.sqrt (dx32 * dx32 + dy32 * dy32 + dz32 * dz32)
  let ux := dx32 / d23
  let uy := dy32 / d23
  let uz := dz32 / d23
  let dx21 := p1.x - p2.x
  let dy21 := p1.y - p2.y
  let dz21 := p1.z - p2.z
  let d12 := Trig.sqrt (dx21 * dx21 + dy21 * dy21 + dz21 * dz21)
  let vx := dx21 / d12
  let vy := dy21 / d12
  let vz := dz21 / d12
  (d12, vx * ux + vy * uy + vz * uz, d23)
end


/-- `angle f <9 coordinates as bit patterns: p1 p2 p3>` -> dist_12 f_angle dist_23 -/
def handle (args : List String) : String :=
  match args with
  | ["f", cs] => match (cs.splitOn ",").mapM ofBits? with
    | some [a, b, c, d, e, f, g, h, i] =>
      let r := factors (⟨a, b, c⟩ : P3 Float) ⟨d, e, f⟩ ⟨g, h, i⟩
      s!"{fbits r.1} {fbits r.2.1} {fbits r.2.2}"
    | _ => "bad-op"
  | _ => "bad-op"
end Propka.Angle
