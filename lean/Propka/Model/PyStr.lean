/-! Python string/number built-ins used by the models, on ASCII `List Char`.  Import-free. -/
namespace Propka.Py

abbrev Str := List Char

def slice (s : Str) (i j : Nat) : Str := (s.drop i).take (j - i)
/-- ASCII characters for which `str.isspace` holds -/
def isSpace (c : Char) : Bool :=
  c == ' ' || (9 ≤ c.toNat && c.toNat ≤ 13) || (28 ≤ c.toNat && c.toNat ≤ 31)
def strip (s : Str) : Str := ((s.dropWhile isSpace).reverse.dropWhile isSpace).reverse
def isDigit (c : Char) : Bool := '0' ≤ c && c ≤ '9'
/-- `s.strip(string.digits)` -/
def stripDigits (s : Str) : Str := ((s.dropWhile isDigit).reverse.dropWhile isDigit).reverse
def str (s : Str) : String := String.ofList s
def lowerC (c : Char) : Char := if 'A' ≤ c && c ≤ 'Z' then Char.ofNat (c.toNat + 32) else c
def upperC (c : Char) : Char := if 'a' ≤ c && c ≤ 'z' then Char.ofNat (c.toNat - 32) else c

def parseNat (s : Str) : Option Nat :=
  if s.isEmpty || !s.all isDigit then none else some (s.foldl (fun a c => a * 10 + (c.toNat - 48)) 0)

/-- `int(s)` on the plain spellings `[+-]?digits` (surrounding blanks allowed); other spellings that
    Python accepts (underscores, non-ASCII digits) are outside the model -/
def parseInt (s0 : Str) : Option Int :=
  match strip s0 with
  | '-' :: r => (parseNat r).map fun n => - (n : Int)
  | '+' :: r => (parseNat r).map fun n => (n : Int)
  | r => (parseNat r).map fun n => (n : Int)

/-- fixed-point decimal `[+-]?digits[.digits]` → (mantissa, number of decimals) -/
def parseDecimal (s0 : Str) : Option (Int × Nat) :=
  let s := strip s0
  let neg := s.head? == some '-'
  let body := match s with
    | '-' :: r => r
    | '+' :: r => r
    | r => r
  let ip := body.takeWhile isDigit
  let rest := body.dropWhile isDigit
  let fp : Option Str := match rest with
    | [] => some []
    | '.' :: f => if f.all isDigit then some f else none
    | _ => none
  match fp with
  | none => none
  | some f =>
    if ip.isEmpty && f.isEmpty then none else
    let m : Nat := (ip ++ f).foldl (fun a c => a * 10 + (c.toNat - 48)) 0
    some ((if neg then - (m : Int) else (m : Int)), f.length)

/-- `float(s)` for a fixed-point literal: one correctly rounded division of two exactly
    representable integers (mantissa < 2^53, 10^k with k ≤ 22) -/
def decToFloat (d : Int × Nat) : Float :=
  let mag := Float.ofNat d.1.natAbs / Float.ofNat (10 ^ d.2)
  if d.1 < 0 then -mag else mag

def pyFloat (s : Str) : Option Float :=
  match parseDecimal s with
  | some d => if d.1.natAbs < 2 ^ 53 && d.2 ≤ 22 then some (decToFloat d) else none
  | none => none

def hexVal (c : Char) : Nat := if c.toNat ≥ 97 then c.toNat - 87 else c.toNat - 48
def unhex : Str → Str
  | a :: b :: r => Char.ofNat (hexVal a * 16 + hexVal b) :: unhex r
  | _ => []
def hexDigit (n : Nat) : Char := if n < 10 then Char.ofNat (48 + n) else Char.ofNat (87 + n)
def tohex (s : Str) : Str := s.flatMap fun c => [hexDigit (c.toNat / 16), hexDigit (c.toNat % 16)]
def unhexS (s : String) : String := str (unhex s.toList)
def tohexS (s : String) : String := str (tohex s.toList)

end Propka.Py
