import Propka.Model.Setup
import Propka.Model.ScoringDriver
/-! Line-protocol handler for the group set-up model at `Float`. -/
namespace Propka.Setup
open Propka Propka.Py Propka.Scoring

def showList (l : List Nat) : String := if l.isEmpty then "-" else ",".intercalate (l.map toString)

/-- `setup run <atoms ;-separated (scoring format)> <queries ;-separated: classnamehex|atom index>` ->
    per query `cx:cy:cz|centre atoms|acid list|base list`, `valueerror|…` when the centre list is empty, `unknown` for a class
    the model does not know -/
def handle (args : List String) : String :=
  match args with
  | ["run", as, qs] =>
    match (if as == "-" then some [] else (as.splitOn ";").mapM parseAtom) with
    | none => "bad-op"
    | some atoms =>
      let aarr := atoms.toArray
      let z : Angle.P3 Float := ⟨0, 0, 0⟩
      let atab : Tab AtomT := ⟨aarr.size, fun i => ((aarr[i]?).map (·.t)).getD default⟩
      let pos : Nat → Angle.P3 Float := fun i => ((aarr[i]?).map (·.pos)).getD z
      let one (q : String) : String :=
        match q.splitOn "|" with
        | [cn, ai] =>
          match clsOf (unhexS cn), ai.toNat? with
          | some c, some a =>
            let r := setupAtoms atab c a
            let tail := s!"{showList r.centre}|{showList r.acid}|{showList r.base}"
            if r.centre.isEmpty then "valueerror|" ++ tail
            else
              let ctr := centreOf pos r.centre
              s!"{fbits ctr.x}:{fbits ctr.y}:{fbits ctr.z}|{tail}"
          | none, _ => "unknown"
          | _, none => "bad-query"
        | _ => "bad-query"
      if qs == "-" then "-" else ";".intercalate ((qs.splitOn ";").map one)
  | ["lig", as, qs] =>
    -- atoms carry their SYBYL type in the name field; qs: comma-separated atom indices -> class name (hex) or `-`
    match (if as == "-" then some [] else (as.splitOn ";").mapM parseAtom), (if qs == "-" then some [] else (qs.splitOn ",").mapM (·.toNat?)) with
    | some atoms, some qs =>
      let aarr := atoms.toArray
      let atab : Tab AtomT := ⟨aarr.size, fun i => ((aarr[i]?).map (·.t)).getD default⟩
      let sy : Nat → String := fun a => (atab.get a).name
      if qs.isEmpty then "-" else ";".intercalate (qs.map fun a => match ligandClass atab sy a with
        | some c => tohexS c
        | none => "-")
    | _, _ => "bad-op"
  | ["cov", as, maxb, gs] =>
    -- gs: ;-separated per group `atom index|titratable 0/1`; atoms carry their SYBYL type in the name field of the scoring format
    match (if as == "-" then some [] else (as.splitOn ";").mapM parseAtom), maxb.toNat?,
          (if gs == "-" then some [] else (gs.splitOn ";").mapM fun s => match s.splitOn "|" with
            | [a, t] => a.toNat?.map fun a => (a, t == "1")
            | _ => none) with
    | some atoms, some maxB, some groups =>
      let aarr := atoms.toArray
      let garr := groups.toArray
      let atab : Tab AtomT := ⟨aarr.size, fun i => ((aarr[i]?).map (·.t)).getD default⟩
      let gatom : Nat → Nat := fun g => ((garr[g]?).map (·.1)).getD 0
      let titr : Nat → Bool := fun g => ((garr[g]?).map (·.2)).getD false
      -- the group an atom defines: the last group constructed on it
      let grpOf : Nat → Option Nat := fun a => ((List.range garr.size).filter fun g => gatom g == a).getLast?
      let sybyl : Nat → String := fun a => (atab.get a).name
      let cov := covalentCoupling atab garr.size gatom grpOf titr sybyl maxB
      ";".intercalate ((List.range garr.size).map fun g => showList (cov.getD g []))
    | _, _, _ => "bad-op"
  | _ => "bad-op"
end Propka.Setup
