import Propka.Model.Setup
import Propka.Model.ScoringDriver
/-! Line-protocol handler for the group set-up model at `Float`. -/
namespace Propka.Setup
open Propka Propka.Py Propka.Scoring

def showList (l : List Nat) : String := if l.isEmpty then "-" else ",".intercalate (l.map toString)

/-- `setup run <atoms ;-separated (scoring format)> <queries ;-separated: classnamehex|atom index>` ->
    per query `cx:cy:cz|centre atoms|acid list|base list`, `valueerror|…` when the centre list is empty, `unknown` for a class
    the model does not know -/
def handle (args : List String) : String :=
  match args with
  | ["run", as, qs] =>
    match (if as == "-" then some [] else (as.splitOn ";").mapM parseAtom) with
    | none => "bad-op"
    | some atoms =>
      let aarr := atoms.toArray
      let z : Angle.P3 Float := ⟨0, 0, 0⟩
      let atab : Tab AtomT := ⟨aarr.size, fun i => ((aarr[i]?).map (·.t)).getD default⟩
      let pos : Nat → Angle.P3 Float := fun i => ((aarr[i]?).map (·.pos)).getD z
      let one (q : String) : String :=
        match q.splitOn "|" with
        | [cn, ai] =>
          match clsOf (unhexS cn), ai.toNat? with
          | some c, some a =>
            let r := setupAtoms atab c a
            let tail := s!"{showList r.centre}|{showList r.acid}|{showList r.base}"
            if r.centre.isEmpty then "valueerror|" ++ tail
            else
              let ctr := centreOf pos r.centre
              s!"{fbits ctr.x}:{fbits ctr.y}:{fbits ctr.z}|{tail}"
          | none, _ => "unknown"
          | _, none => "bad-query"
        | _ => "bad-query"
      if qs == "-" then "-" else ";".intercalate ((qs.splitOn ";").map one)
  | _ => "bad-op"
end Propka.Setup
