import Propka.Model.Bonds
import Propka.Gen.Bonds
/-! Line-protocol handler for the bond model at `Float`, with the generated constants. -/
namespace Propka.Bonds
open Propka Propka.Gen

def Pf : BondParams Float := ⟨bondDistsF, hDistF, defaultDistF, boxF⟩

def parseAtom (s : String) : Option (BAtom Float) :=
  match s.splitOn ":" with
  | [e, x, y, z] =>
    match ofBits? x, ofBits? y, ofBits? z with
    | some x, some y, some z => some ⟨x, y, z, if e == "_" then "" else e⟩
    | _, _, _ => none
  | _ => none

def Pmi : BondParams Int := ⟨bondDistsMilli, hDistMilli, defaultDistMilli, boxMilli⟩

def parseAtomI (s : String) : Option (BAtom Int) :=
  match s.splitOn ":" with
  | [e, x, y, z] =>
    match x.toInt?, y.toInt?, z.toInt? with
    | some x, some y, some z => some ⟨x, y, z, if e == "_" then "" else e⟩
    | _, _, _ => none
  | _ => none

/-- `bonds <atom>*` -> bond pairs in creation order; `crit <atom> <atom>` -> criterion -/
def handle (args : List String) : String :=
  match args with
  | "find" :: rest =>
    match rest.mapM parseAtom with
    | some atoms =>
      let ps := findBondsAtoms bondOffsets Pf ⟨0, 0, 0, ""⟩ atoms.toArray
      " ".intercalate (ps.map fun p => s!"{p.1}-{p.2}")
    | none => "bad-op"
  | "findm" :: rest =>   -- exact model: integer milli-Angstrom coordinates
    match rest.mapM parseAtomI with
    | some atoms =>
      let ps := findBondsAtoms bondOffsets Pmi ⟨0, 0, 0, ""⟩ atoms.toArray
      " ".intercalate (ps.map fun p => s!"{p.1}-{p.2}")
    | none => "bad-op"
  | ["crit", a, b] =>
    match parseAtom a, parseAtom b with
    | some a, some b => if crit Pf a b then "1" else "0"
    | _, _ => "bad-op"
  | ["consts"] => s!"{fbits (maxSq Pf)} {fbits maxSqF} {fbits (Pf.hDist * Pf.hDist)} {fbits hDistSqF}"
  | _ => "bad-op"
end Propka.Bonds
