import Propka.Model.Program
/-! Model of the determinant table and the summary of the `.pka` file (`propka.output.get_determinant_section`,
    `get_summary_section`, `Group.get_determinant_string`, `get_determinant_for_string`, `get_summary_string`) at `Float`,
    with Python's fixed-point formatting (`'{:8.2f}'`: the exact binary value rounded half-to-even to the printed decimals).
    The star marks the groups the coupling search (`Model/CoupleSearch.lean`) coupled. -/
namespace Propka.Output
open Propka Propka.Program

/-- Python's `'%.{d}f' % x` for a finite double: the exact value `m * 2^e`, rounded half-to-even to `d` decimals -/
def fmtFixed (d : Nat) (x : Float) : String :=
  match Prot.ratParts x with
  | none => "nan"
  | some (m, e) =>
    let neg := x.toBits.toNat / 2^63 == 1
    let num : Nat := m.natAbs * 10 ^ d
    let n : Nat :=
      if e ≥ 0 then num * 2 ^ e.toNat
      else
        let den : Nat := 2 ^ (-e).toNat
        let q := num / den
        let r := num % den
        if 2 * r < den then q else if 2 * r > den then q + 1 else (if q % 2 == 0 then q else q + 1)
    let ip := toString (n / 10 ^ d)
    let fp := toString (n % 10 ^ d)
    let frac := if d == 0 then "" else "." ++ Py.str (List.replicate (d - fp.length) '0') ++ fp
    (if neg then "-" else "") ++ ip ++ frac

def fmt2 (x : Float) : String := fmtFixed 2 x

/-- `int(x)` for a non-negative double below 2^63 (truncation) -/
def truncNat (x : Float) : Nat := if x < 0 then 0 else x.floor.toUInt64.toNat

/-- `get_determinant_for_string(type, number)` -/
def detField (ds : List (Dets.Det Float)) (i : Nat) : String :=
  match ds[i]? with
  | none => "    0.00 XXX   0 X"
  | some d => Pipe.padL 8 (fmt2 d.value) ++ " " ++ d.label

/-- `Group.get_determinant_string(remove_penalised_group)` -/
def groupBlock (removePen : Bool) (g : AvrGroup Float) : String :=
  if g.ctg.isSome && removePen then "" else
  let n := max 1 (max g.acc.sc.length (max g.acc.bb.length g.acc.cb.length))
  let line (i : Nat) : String :=
    g.label ++
    (if i == 0 then
      " " ++ Pipe.padL 6 (fmt2 g.acc.pka) ++ (if g.starred then "*" else " ") ++ " " ++ Pipe.padL 4 (toString (truncNat (100.0 * g.buried))) ++ Pipe.padL 2 "%" ++ " " ++
      " " ++ Pipe.padL 6 (fmt2 g.acc.evol) ++ " " ++ Pipe.padL 4 (toString (truncNat g.nv)) ++
      " " ++ Pipe.padL 6 (fmt2 g.acc.eloc) ++ " " ++ Pipe.padL 4 "0"
     else Pipe.padL 40 " ") ++
    detField g.acc.sc i ++ detField g.acc.bb i ++ detField g.acc.cb i ++ "\n"
  String.join ((List.range n).map line) ++ "\n"

/-- the rows of `get_determinant_section` (after its header): chains in the order of the first conformation, residue types in
    write_out_order, groups in list order -/
def determinantRows (removePen : Bool) (order chains : List String) (gs : List (AvrGroup Float)) : String :=
  String.join (chains.flatMap fun c => order.flatMap fun rt =>
    ((gs.filter fun g => g.chain == c).filter fun g => g.resType == rt).map (groupBlock removePen))

/-- `Group.get_summary_string(remove_penalised_group)` -/
def summaryRow (removePen : Bool) (g : AvrGroup Float) : String :=
  if g.ctg.isSome && removePen then "" else
  "   " ++ Pipe.padL 9 g.label ++ " " ++ Pipe.padL 8 (fmt2 g.acc.pka) ++ " " ++ Pipe.padL 10 (fmt2 g.model) ++ " " ++
    Pipe.padL 18 (if g.het then g.type else "") ++ "   " ++
    (match g.ctg with | some l => " NB: Discarded due to coupling with " ++ l | none => "") ++ "\n"

/-- the rows of `get_summary_section` (after its header) -/
def summaryRows (removePen : Bool) (order : List String) (gs : List (AvrGroup Float)) : String :=
  String.join ((Groups.summaryRows order (fun (g : AvrGroup Float) => g.resType) gs).map (summaryRow removePen))

/-- `conformation.chains` of the first conformation: chain identifiers of its own records in order of first appearance -/
def chainsOf (recs : List Pdb.AtomRec) : List String :=
  match Program.conformations recs with
  | [] => []
  | c :: _ => c.2.foldl (fun acc a => if acc.contains a.chain then acc else acc ++ [a.chain]) []

end Propka.Output
