import Propka.Model.Program
import Propka.Model.ProfilesDriver
/-! Model of the determinant table and the summary of the `.pka` file (`propka.output.get_determinant_section`,
    `get_summary_section`, `Group.get_determinant_string`, `get_determinant_for_string`, `get_summary_string`) at `Float`,
    with Python's fixed-point formatting (`'{:8.2f}'`: the exact binary value rounded half-to-even to the printed decimals).
    The star marks the groups the coupling search (`Model/CoupleSearch.lean`) coupled. -/
namespace Propka.Output
open Propka Propka.Program

/-- Python's `'%.{d}f' % x` for a finite double: the exact value `m * 2^e`, rounded half-to-even to `d` decimals -/
def fmtFixed (d : Nat) (x : Float) : String :=
  match Prot.ratParts x with
  | none => "nan"
  | some (m, e) =>
    let neg := x.toBits.toNat / 2^63 == 1
    let num : Nat := m.natAbs * 10 ^ d
    let n : Nat :=
      if e ≥ 0 then num * 2 ^ e.toNat
      else
        let den : Nat := 2 ^ (-e).toNat
        let q := num / den
        let r := num % den
        if 2 * r < den then q else if 2 * r > den then q + 1 else (if q % 2 == 0 then q else q + 1)
    let ip := toString (n / 10 ^ d)
    let fp := toString (n % 10 ^ d)
    let frac := if d == 0 then "" else "." ++ Py.str (List.replicate (d - fp.length) '0') ++ fp
    (if neg then "-" else "") ++ ip ++ frac

def fmt2 (x : Float) : String := fmtFixed 2 x

/-- `int(x)` for a non-negative double below 2^63 (truncation) -/
def truncNat (x : Float) : Nat := if x < 0 then 0 else x.floor.toUInt64.toNat

/-- `get_determinant_for_string(type, number)` -/
def detField (ds : List (Dets.Det Float)) (i : Nat) : String :=
  match ds[i]? with
  | none => "    0.00 XXX   0 X"
  | some d => Pipe.padL 8 (fmt2 d.value) ++ " " ++ d.label

/-- `Group.get_determinant_string(remove_penalised_group)` -/
def groupBlock (removePen : Bool) (g : AvrGroup Float) : String :=
  if g.ctg.isSome && removePen then "" else
  let n := max 1 (max g.acc.sc.length (max g.acc.bb.length g.acc.cb.length))
  let line (i : Nat) : String :=
    g.label ++
    (if i == 0 then
      " " ++ Pipe.padL 6 (fmt2 g.acc.pka) ++ (if g.starred then "*" else " ") ++ " " ++ Pipe.padL 4 (toString (truncNat (100.0 * g.buried))) ++ Pipe.padL 2 "%" ++ " " ++
      " " ++ Pipe.padL 6 (fmt2 g.acc.evol) ++ " " ++ Pipe.padL 4 (toString (truncNat g.nv)) ++
      " " ++ Pipe.padL 6 (fmt2 g.acc.eloc) ++ " " ++ Pipe.padL 4 "0"
     else Pipe.padL 40 " ") ++
    detField g.acc.sc i ++ detField g.acc.bb i ++ detField g.acc.cb i ++ "\n"
  String.join ((List.range n).map line) ++ "\n"

/-- the rows of `get_determinant_section` (after its header): chains in the order of the first conformation, residue types in
    write_out_order, groups in list order -/
def determinantRows (removePen : Bool) (order chains : List String) (gs : List (AvrGroup Float)) : String :=
  String.join (chains.flatMap fun c => order.flatMap fun rt =>
    ((gs.filter fun g => g.chain == c).filter fun g => g.resType == rt).map (groupBlock removePen))

/-- `Group.get_summary_string(remove_penalised_group)` -/
def summaryRow (removePen : Bool) (g : AvrGroup Float) : String :=
  if g.ctg.isSome && removePen then "" else
  "   " ++ Pipe.padL 9 g.label ++ " " ++ Pipe.padL 8 (fmt2 g.acc.pka) ++ " " ++ Pipe.padL 10 (fmt2 g.model) ++ " " ++
    Pipe.padL 18 (if g.het then g.type else "") ++ "   " ++
    (match g.ctg with | some l => " NB: Discarded due to coupling with " ++ l | none => "") ++ "\n"

/-- the rows of `get_summary_section` (after its header) -/
def summaryRows (removePen : Bool) (order : List String) (gs : List (AvrGroup Float)) : String :=
  String.join ((Groups.summaryRows order (fun (g : AvrGroup Float) => g.resType) gs).map (summaryRow removePen))

/-- `conformation.chains` of the first conformation (the average conformation borrows it) -/
def chainsOf (confs : List (Program.ConfOut Float)) : List String :=
  match confs with
  | (_, some (r, _)) :: _ => r.chains
  | _ => []

/-! ### the folding-energy and charge sections -/
/-- `round(Decimal(x), 3)` in thousandths: the exact binary value rounded half-to-even -/
def milli (x : Float) : Int :=
  match Prot.ratParts x with
  | none => 0
  | some (m, e) =>
    let num : Int := m * 1000
    if e ≥ 0 then num * ((2 : Int) ^ e.toNat)
    else
      let d : Int := (2 : Int) ^ (-e).toNat
      let q := num.fdiv d
      let r := num - q * d
      if 2 * r < d then q else if 2 * r > d then q + 1 else (if q % 2 == 0 then q else q + 1)

/-- `'{:.2f}'.format(Decimal)` of a number given in thousandths (half-to-even in decimal) -/
def fmtMilli2 (n : Int) : String :=
  let q := n.fdiv 10
  let r := n - q * 10
  let h : Int := if r < 5 then q else if r > 5 then q + 1 else (if q % 2 == 0 then q else q + 1)
  let a := h.natAbs
  let fp := toString (a % 100)
  (if n < 0 then "-" else "") ++ toString (a / 100) ++ "." ++ Py.str (List.replicate (2 - fp.length) '0') ++ fp

def theLine : String := Py.str (List.replicate 104 '-')

def tgroups (gs : List (AvrGroup Float)) : List (Profiles.TGroup Float) :=
  gs.map fun g => ⟨g.q, g.acc.pka, g.model, g.titratable, g.acc.cb.map (·.value)⟩

def fmt1 (x : Float) : String := fmtFixed 1 x

/-- `get_folding_profile_section(protein, 'AVR', reference='neutral', window)` with the grid of the options -/
def foldingSection (scaling : Float) (grid window : Float × Float × Float) (gs : List (AvrGroup Float)) : String :=
  let tg := tgroups gs
  let prof := Profiles.foldingProfile scaling true tg (Profiles.gridF grid.1 grid.2.1 grid.2.2)
  let opt := Profiles.optimum 1e6 prof
  let r80 := Profiles.rangeBelow (0.8 * opt.2) prof
  let stab := Profiles.rangeBelow 0.0 prof
  let start := milli window.1
  let stop := milli window.2.1
  let delta := milli window.2.2
  let rows := prof.filterMap fun p =>
    let n := milli p.1
    if Profiles.windowRow start stop start delta n then some (Pipe.padL 6 (fmtMilli2 n) ++ Pipe.padL 10 (fmt2 p.2) ++ "\n") else none
  theLine ++ "\n" ++ "Free energy of " ++ Pipe.padL 9 "folding" ++ " (kcal/mol) as a function of pH (using neutral reference)\n" ++
  String.join rows ++ "\n" ++
  (match opt.1 with
   | none => "Could not determine pH optimum\n"
   | some ph => "The pH of optimum stability is " ++ Pipe.padL 4 (fmt1 ph) ++ " for which the free energy is " ++ Pipe.padL 6 (fmt1 opt.2) ++ " kcal/mol at 298K\n") ++
  (match r80.1, r80.2 with
   | some a, some b => "The free energy is within 80 % of maximum at pH " ++ Pipe.padL 4 (fmt1 a) ++ " to " ++ Pipe.padL 4 (fmt1 b) ++ "\n"
   | _, _ => "Could not determine pH values where the free energy is within 80 % of minimum\n") ++
  (match stab.1, stab.2 with
   | some a, some b => "The free energy is negative in the range " ++ Pipe.padL 4 (fmt1 a) ++ " - " ++ Pipe.padL 4 (fmt1 b) ++ "\n\n"
   | _, _ => "Could not determine the pH-range where the free energy is negative\n\n")

/-- `get_charge_profile_section(protein, 'AVR')` with the grid of the options; the pI over (0, 14) to 1e-4 -/
def chargeSection (grid : Float × Float × Float) (gs : List (AvrGroup Float)) : String :=
  let tg := tgroups gs
  let prof := Profiles.chargeProfile tg (Profiles.gridF grid.1 grid.2.1 grid.2.2)
  let pi := Profiles.getPi tg 0.0 14.0 1e-4 2.0 200
  "Protein charge of folded and unfolded state as a function of pH\n" ++ "    pH  unfolded  folded\n" ++
  String.join (prof.map fun r => Pipe.padL 6 (fmt2 r.1) ++ Pipe.padL 10 (fmt2 r.2.1) ++ Pipe.padL 8 (fmt2 r.2.2) ++ "\n") ++
  "The pI is " ++ Pipe.padL 5 (fmt2 pi.1) ++ " (folded) and " ++ Pipe.padL 5 (fmt2 pi.2) ++ " (unfolded)\n"

end Propka.Output
