import Propka.Model.Scalar
/-! Model of `propka.vector_algebra.rotate_vector_around_an_axis` (with the rotation matrices of
    `rotate_atoms_around_{z,y}_axis` applied to a 3-vector).  Generic in the scalar. -/
namespace Propka

structure V3 (α : Type) where
  x : α
  y : α
  z : α
deriving Repr

namespace Rot
section
variable {α : Type} [Add α] [Sub α] [Mul α] [Div α] [Neg α] [OfNat α 0] [OfNat α 1] [OfNat α 2]
  [DecidableEq α] [LT α] [DecidableLT α] [Trig α]

/-- `rotate_atoms_around_z_axis(t) @ v` -/
def rotZ (t : α) (v : V3 α) : V3 α :=
  ⟨Trig.cos t * v.x + (-(Trig.sin t)) * v.y, Trig.sin t * v.x + Trig.cos t * v.y, v.z⟩
/-- `rotate_atoms_around_y_axis(t) @ v` -/
def rotY (t : α) (v : V3 α) : V3 α :=
  ⟨Trig.cos t * v.x + Trig.sin t * v.z, v.y, (-(Trig.sin t)) * v.x + Trig.cos t * v.z⟩

/-- Python's `x != 0` is numeric (`-0.0 != 0` is False) while the equality of `Float` compares bit patterns: adding zero turns
    `-0.0` into `0.0` (and nothing else), so that the two agree; on the reals it is the identity -/
def nz (x : α) : α := x + 0

def gammaOf (axis : V3 α) : α :=
  if nz axis.y ≠ 0 then
    (if nz axis.x ≠ 0 then
      -axis.x / Trig.abs axis.x * Trig.asin (axis.y / Trig.sqrt (axis.x*axis.x + axis.y*axis.y))
     else Trig.pi / 2)
  else 0

/-- second alignment angle, computed from the axis after the first alignment -/
def betaOf (axis1 : V3 α) : α :=
  if nz axis1.x ≠ 0 then
    -axis1.x / Trig.abs axis1.x * Trig.acos (axis1.z / Trig.sqrt (axis1.x*axis1.x + axis1.z*axis1.z))
  else if axis1.z < 0 then Trig.pi
  else 0

def rotateAround (theta : α) (axis vec : V3 α) : V3 α :=
  let gamma : α := gammaOf axis
  let vec1 := if nz axis.y ≠ 0 then rotZ gamma vec else vec
  let axis1 := if nz axis.y ≠ 0 then rotZ gamma axis else axis
  let beta : α := betaOf axis1
  let vec2 := if nz axis1.x ≠ 0 then rotY beta vec1 else if axis1.z < 0 then rotY beta vec1 else vec1
  let vec3 := rotZ theta vec2
  let vec4 := rotY (-beta) vec3
  rotZ (-gamma) vec4
end

def handle (args : List String) : String :=
  match args.mapM ofBits? with
  | some [t, ax, ay, az, vx, vy, vz] =>
    let r := rotateAround t ⟨ax, ay, az⟩ ⟨vx, vy, vz⟩
    s!"{fbits r.x} {fbits r.y} {fbits r.z}"
  | _ => "bad-op"
end Rot
end Propka
