import Propka.Model.Scalar
/-! Model of `propka.bonds.BondMaker`: the pair criterion `check_distance`, the cell list of
    `find_bonds_for_atoms_using_boxes` (insertion-ordered box dictionary, half-space offsets),
    `_find_bonds_for_atoms` with its already-bonded early return, and `make_bond`.
    Import-free; generic in the scalar (run at `Float`, proved at `Int` milli-Ångström). -/
namespace Propka.Bonds

/-! ### the cell-list algorithm, abstract in the cell map and the criterion -/
abbrev Cell := Int × Int × Int
def addCell (k d : Cell) : Cell := (k.1 + d.1, k.2.1 + d.2.1, k.2.2 + d.2.2)
def subCell (k d : Cell) : Cell := (k.1 - d.1, k.2.1 - d.2.1, k.2.2 - d.2.2)
def negCell (d : Cell) : Cell := (-d.1, -d.2.1, -d.2.2)

/-- Python dict with insertion order: `boxes.setdefault(key, []).append(atom)` -/
abbrev BoxMap := List (Cell × List Nat)

def insertBox : BoxMap → Cell → Nat → BoxMap
  | [], c, i => [(c, [i])]
  | (k, v) :: rest, c, i => if k = c then (k, v ++ [i]) :: rest else (k, v) :: insertBox rest c i

def lookupBox : BoxMap → Cell → Option (List Nat)
  | [], _ => none
  | (k, v) :: rest, c => if k = c then some v else lookupBox rest c

def buildBoxes (cell : Nat → Cell) (n : Nat) : BoxMap :=
  (List.range n).foldl (fun bs i => insertBox bs (cell i) i) []

/-- `find_bonds_for_atoms(value)`: pairs i<j in list order -/
def pairsWithin : List Nat → List (Nat × Nat)
  | [] => []
  | a :: rest => rest.map (fun b => (a, b)) ++ pairsWithin rest

/-- `find_bonds_for_atoms_disjoint(value, value2)` -/
def pairsBetween (v w : List Nat) : List (Nat × Nat) := v.flatMap fun a => w.map fun b => (a, b)

def visitedBox (H : List Cell) (bs : BoxMap) (kv : Cell × List Nat) : List (Nat × Nat) :=
  pairsWithin kv.2 ++ H.flatMap fun d =>
    match lookupBox bs (addCell kv.1 d) with
    | some w => pairsBetween kv.2 w
    | none => []

/-- every pair handed to `_find_bonds_for_atoms`, in call order -/
def visited (H : List Cell) (bs : BoxMap) : List (Nat × Nat) := bs.flatMap (visitedBox H bs)

abbrev bondedIn (s : List (Nat × Nat)) (a b : Nat) : Prop := (a, b) ∈ s ∨ (b, a) ∈ s

/-- `_find_bonds_for_atoms`: skip if already bonded, bond if the criterion holds -/
def tryBond (crit : Nat → Nat → Bool) (s : List (Nat × Nat)) (p : Nat × Nat) : List (Nat × Nat) :=
  if bondedIn s p.1 p.2 then s else if crit p.1 p.2 then s ++ [p] else s

/-- bonds in creation order -/
def findBonds (H : List Cell) (cell : Nat → Cell) (crit : Nat → Nat → Bool) (n : Nat) : List (Nat × Nat) :=
  (visited H (buildBoxes cell n)).foldl (tryBond crit) []

/-- `atom.bonded_atoms` of atom `i`: its partners in creation order -/
def adjOf (pairs : List (Nat × Nat)) (i : Nat) : List Nat :=
  pairs.filterMap fun p => if p.1 = i then some p.2 else if p.2 = i then some p.1 else none

/-! ### `make_bond` as a state machine on the bond lists -/
abbrev Adj := Nat → List Nat
def appendTo (s : Adj) (i x : Nat) : Adj := fun k => if k = i then s k ++ [x] else s k
/-- `BondMaker.make_bond(atom1, atom2)` -/
def makeBond (s : Adj) (a b : Nat) : Adj :=
  if a = b then s else
  let s1 := if a ∈ s b then s else appendTo s b a
  if b ∈ s1 a then s1 else appendTo s1 a b

/-! ### the pair criterion `check_distance` -/
structure BAtom (α : Type) where
  x : α
  y : α
  z : α
  elem : String

structure BondParams (α : Type) where
  dists : List ((String × String) × α)   -- `self.distances`: key 'S-S' is held as ("S", "S")
  hDist : α                   -- HYDROGEN_DISTANCE
  defaultDist : α             -- DEFAULT_DISTANCE
  box : α                     -- max(BOX_SIZE, sqrt(max_sq_distance) + 0.01)

class CellIdx (α : Type) where
  /-- `math.floor(x / box)` -/
  cellIdx : α → α → Int

instance : CellIdx Float := ⟨fun x b => (Float.floor (x / b)).toInt64.toInt⟩
instance : CellIdx Int := ⟨fun x b => x / b⟩

section
variable {α : Type} [Add α] [Sub α] [Mul α] [LT α] [DecidableLT α] [Max α] [CellIdx α]

/-- `propka.calculations.squared_distance` -/
def sqDist (a b : BAtom α) : α :=
  let dx := b.x - a.x
  let dy := b.y - a.y
  let dz := b.z - a.z
  dx*dx + dy*dy + dz*dz

def maxSq (P : BondParams α) : α :=
  (P.dists.map (fun kv => kv.2 * kv.2)).foldl max (P.defaultDist * P.defaultDist)

/-- `key.count('H')` for `key = elem1-elem2` -/
def hCount (a b : BAtom α) : Nat :=
  (a.elem.toList.filter (· == 'H')).length + (b.elem.toList.filter (· == 'H')).length

/-- `self.distances_squared[key]` with `key = f"{elem1}-{elem2}"`; the key is held split at its dash
    (element names are at most two letters, so the split is unambiguous) -/
def lookupDist : List ((String × String) × α) → String × String → Option α
  | [], _ => none
  | (k, v) :: rest, key => if k = key then some v else lookupDist rest key

def crit (P : BondParams α) (a b : BAtom α) : Bool :=
  let d := sqDist a b
  if maxSq P < d then false
  else if d < P.hDist * P.hDist ∧ hCount a b = 1 then true
  else if d < P.defaultDist * P.defaultDist ∧ hCount a b = 0 then true
  else match lookupDist P.dists (a.elem, b.elem) with
    | some t => decide (d < t * t)
    | none => false

def cellOf (P : BondParams α) (a : BAtom α) : Cell :=
  (CellIdx.cellIdx a.x P.box, CellIdx.cellIdx a.y P.box, CellIdx.cellIdx a.z P.box)

/-- `find_bonds_for_atoms_using_boxes` on an atom array -/
def findBondsAtoms (H : List Cell) (P : BondParams α) (default : BAtom α) (atoms : Array (BAtom α)) : List (Nat × Nat) :=
  findBonds H (fun i => cellOf P (atoms.getD i default)) (fun i j => crit P (atoms.getD i default) (atoms.getD j default)) atoms.size
end

end Propka.Bonds
