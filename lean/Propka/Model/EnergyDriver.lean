import Propka.Model.Energy
import Propka.Model.Iterative
import Propka.Gen.Consts
/-! Line-protocol handlers for the energy kernels and the iterative solver at `Float`.
    The parameter set arrives with the request (the harness reads it from the real `Parameters`). -/
namespace Propka.Energy
open Propka

def floats (ws : List String) : Option (List Float) := ws.mapM ofBits?

/-- `ep` = 15 floats in the field order of `EP` -/
def mkEP : List Float → Option (EP Float)
  | [a,b,c,d,e,f,g,h,i,j,k,l,m,n,o] => some ⟨a,b,c,d,e,f,g,h,i,j,k,l,m,n,o⟩
  | _ => none

def handle (args : List String) : String :=
  match args with
  | kern :: rest =>
    match floats rest with
    | none => "bad-op"
    | some xs =>
      let ep := mkEP (xs.take 15)
      let a := xs.drop 15
      match kern, ep, a with
      | "weight", some p, [n] => fbits (calculateWeight p n)
      | "pairweight", some p, [n1, n2] => fbits (pairWeight p n1 n2)
      | "scale", some p, [w] => fbits (scaleFactor p w)
      | "dvinc", some p, [dv, sq] => fbits (dvInc p dv sq)
      | "evol", some p, [q, vol, w] => fbits (energyVolume p q vol w)
      | "hbond", some _, [d, m, c1, c2, f] => fbits (hbondEnergy d m c1 c2 f)
      | "coulomb", some p, [d, w] => fbits (coulombEnergy p d w)
      | "reorg", some p, [d, f] => fbits (reorgTerm p d f)
      | "buried", some _, [c, s, n1, n2] => if checkBuried c s n1 n2 then "1" else "0"
      | "scrule", some _, [q1, q2, m1, m2, v] => " ".intercalate ((sidechainRule q1 q2 m1 m2 v).map fun o => s!"{o.1}:{fbits o.2}")
      | "cbrule", some _, [q1, q2, m1, m2, v] => " ".intercalate ((coulombRule q1 q2 m1 m2 v).map fun o => s!"{o.1}:{fbits o.2}")
      | _, _, _ => "bad-op"
  | _ => "bad-op"
end Propka.Energy

namespace Propka.Iter
open Propka

def kindS : Kind → String | .sidechain => "s" | .coulomb => "c"

/-- `iter solve <n> <m> (q noniter excl)*n (g1 g2 hb coul)*m` -> final determinants `owner:partner:kind:bits` -/
def handle (args : List String) : String :=
  match args with
  | "solve" :: n :: m :: rest =>
    match n.toNat?, m.toNat? with
    | some n, some m =>
      let gt := rest.take (3*n)
      let it := rest.drop (3*n)
      let gs : Option (List (IGroup Float)) := (List.range n).mapM fun i =>
        match ofBits? (gt.getD (3*i) ""), ofBits? (gt.getD (3*i+1) "") with
        | some q, some non => some ⟨q, non, gt.getD (3*i+2) "0" == "1"⟩
        | _, _ => none
      let is : Option (List (Inter Float)) := (List.range m).mapM fun k =>
        match (it.getD (4*k) "").toNat?, (it.getD (4*k+1) "").toNat?, ofBits? (it.getD (4*k+2) ""), ofBits? (it.getD (4*k+3) "") with
        | some a, some b, some h, some c => some ⟨a, b, h, c⟩
        | _, _, _, _ => none
      match gs, is with
      | some gs, some is =>
        let ds := solve Gen.Consts.iterative_UNK_MIN_VALUEF gs.toArray is
        if ds.isEmpty then "-" else " ".intercalate (ds.map fun d => s!"{d.owner}:{d.partner}:{kindS d.kind}:{fbits d.value}")
      | _, _ => "bad-op"
    | _, _ => "bad-op"
  | _ => "bad-op"
end Propka.Iter
