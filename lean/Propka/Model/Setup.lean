import Propka.Model.Scoring
/-! Model of `Group.setup_atoms` for every group class of `propka.group` (the centre of a group and its interaction atoms
    for acids / for bases), of `set_center`, and of the ring search `propka.ligand.is_ring_member` that the histidine
    set-up uses.  Input: the atom table (element, bond list) after protonation; the hydrogens a set-up routine asks
    the protonator for are those bonded to the atom in that table.  Generic in the scalar; import-free. -/
namespace Propka.Setup
open Propka.Scoring

/-- the shapes of `setup_atoms` -/
inductive Cls
  | self          -- `Group.setup_atoms`: centre and both lists = the atom itself (CYS, TYR, LYS, ROH, N+, F, Cl, O3, O2, SH, N1, ION, OP)
  | coo           -- COOGroup
  | his           -- HISGroup
  | arg           -- ARGGroup
  | amd           -- AMDGroup
  | trp           -- TRPGroup: acids H + self, bases self
  | cterm         -- CtermGroup
  | hSelfBoth     -- BBN, NAR, NAM, OH: both lists H + self
  | bbc           -- BBCGroup: the bonded oxygens
  | cg            -- CGGroup
  | c2n           -- C2NGroup
  | oco           -- OCOGroup
  | hSelfAcid     -- N30, N31, N32, N33, NP1: acids H + self, bases self
  deriving DecidableEq, Repr

/-- class name -> shape -/
def clsOf (name : String) : Option Cls :=
  if ["CYSGroup", "TYRGroup", "LYSGroup", "ROHGroup", "SERGroup", "NtermGroup", "FGroup", "ClGroup", "O3Group", "O2Group", "SHGroup",
      "N1Group", "IonGroup", "OPGroup"].contains name then some .self
  else if name == "COOGroup" then some .coo
  else if name == "HISGroup" then some .his
  else if name == "ARGGroup" then some .arg
  else if name == "AMDGroup" then some .amd
  else if name == "TRPGroup" then some .trp
  else if name == "CtermGroup" then some .cterm
  else if ["BBNGroup", "NARGroup", "NAMGroup", "OHGroup"].contains name then some .hSelfBoth
  else if name == "BBCGroup" then some .bbc
  else if name == "CGGroup" then some .cg
  else if name == "C2NGroup" then some .c2n
  else if name == "OCOGroup" then some .oco
  else if ["N30Group", "N31Group", "N32Group", "N33Group", "NP1Group"].contains name then some .hSelfAcid
  else none

/-- `atom.get_bonded_elements(element)` -/
def bondedEl (atoms : Tab AtomT) (a : Nat) (el : String) : List Nat := (aget atoms a).bonded.filter fun b => (aget atoms b).elem == el
/-- `atom.get_bonded_heavy_atoms()` -/
def bondedHeavy (atoms : Tab AtomT) (a : Nat) : List Nat := (aget atoms a).bonded.filter fun b => (aget atoms b).elem != "H"

/-- `identify_ring(this_atom, original_atom, number, past_atoms)`; `fuel` bounds the recursion like `number > 10` does -/
def identifyRing (atoms : Tab AtomT) (orig : Nat) : Nat → Nat → Nat → List Nat → List Nat
  | 0, _, _, _ => []
  | fuel+1, this, number, past =>
    let number := number + 1
    let past := past ++ [this]
    if 10 < number then [] else
    let rec go : List Nat → List Nat → List Nat
      | [], best => best
      | a :: rest, best =>
        if a == orig && 2 < number then past
        else if !past.contains a then
          let r := identifyRing atoms orig fuel a number past
          if !r.isEmpty && (r.length < best.length || best.isEmpty) then go rest r else go rest best
        else go rest best
    go (bondedHeavy atoms this) []

/-- `is_ring_member(atom)` -/
def ringMember (atoms : Tab AtomT) (a : Nat) : List Nat := identifyRing atoms a 12 a 0 []

/-- what `setup_atoms` leaves: the atoms whose mean is the centre (empty: `set_center` raises ValueError), and the two lists -/
structure Res where
  centre : List Nat
  acid : List Nat
  base : List Nat
  deriving Repr, DecidableEq

def hydrogensOf (atoms : Tab AtomT) (ns : List Nat) : List Nat := ns.flatMap fun n => bondedEl atoms n "H"

def setupAtoms (atoms : Tab AtomT) (c : Cls) (a : Nat) : Res :=
  match c with
  | .self => ⟨[a], [a], [a]⟩
  | .coo =>
    let ox := bondedEl atoms a "O"
    ⟨if ox.isEmpty then [a] else ox, ox, ox⟩
  | .his =>
    let ring := ringMember atoms a
    let ns := ring.filter fun r => (aget atoms r).elem == "N"
    ⟨if ring.isEmpty then [a] else ring, hydrogensOf atoms ns ++ ns, ns⟩
  | .arg =>
    let ns := bondedEl atoms a "N"
    ⟨[a], ns ++ hydrogensOf atoms ns, ns⟩
  | .amd =>
    let ox := bondedEl atoms a "O"
    let ns := bondedEl atoms a "N"
    if ox.isEmpty || ns.isEmpty then ⟨[a], [], []⟩
    else ⟨ox ++ ns, ns ++ bondedEl atoms (ns.headD a) "H", ox⟩
  | .trp => ⟨[a], bondedEl atoms a "H" ++ [a], [a]⟩
  | .cterm =>
    match bondedEl atoms a "C" with
    | [] => ⟨[a], [], []⟩
    | c0 :: _ =>
      let ox := [a] ++ (bondedEl atoms c0 "O").erase a
      ⟨ox, ox, ox⟩
  | .hSelfBoth => ⟨[a], bondedEl atoms a "H" ++ [a], bondedEl atoms a "H" ++ [a]⟩
  | .bbc => ⟨[a], bondedEl atoms a "O", bondedEl atoms a "O"⟩
  | .cg =>
    let ns := bondedEl atoms a "N"
    ⟨[a], hydrogensOf atoms ns ++ ns, ns⟩
  | .c2n =>
    let ns := (bondedEl atoms a "N").filter fun n => (bondedHeavy atoms n).length == 1
    ⟨[a], hydrogensOf atoms ns ++ ns, ns⟩
  | .oco =>
    let ox := bondedEl atoms a "O"
    ⟨ox, ox, ox⟩
  | .hSelfAcid => ⟨[a], bondedEl atoms a "H" ++ [a], [a]⟩

/-! ### ligand groups (`is_ligand_group_by_groups`) -/
/-- `'O.co2' in s` -/
def hasOco2 (s : String) : Bool :=
  let rec go : List Char → Bool
    | 'O' :: '.' :: 'c' :: 'o' :: '2' :: _ => true
    | _ :: r => go r
    | [] => false
  go s.toList

/-- the branches of `is_ligand_group_by_groups`, one per SYBYL type -/
def clsNar (hv : Nat) : Option String := if hv == 2 then some "NARGroup" else none
def clsN3 (hv : Nat) : Option String :=
  if hv == 0 then some "N30Group" else if hv == 1 then some "N31Group" else if hv == 2 then some "N32Group"
  else if hv == 3 then some "N33Group" else none
def clsNpl3 (atoms : Tab AtomT) (a : Nat) : Option String :=
  match bondedEl atoms a "C" with
  | [c] => if (bondedEl atoms c "N").length == 1 then some "NP1Group" else none
  | _ => none
def clsC2 (atoms : Tab AtomT) (sy : Nat → String) (a : Nat) : Option String :=
  let ns := bondedEl atoms a "N"
  let npls := ns.filter fun n => sy n == "N.pl3" && (bondedHeavy atoms n).length == 1
  let two := ns.filter fun n => (bondedHeavy atoms n).length < 3
  if npls.length == 2 && two.length == 2 then some "C2NGroup"
  else if npls.length == 2 && ns.length == 3 then some "CGGroup"
  else if ((bondedEl atoms a "O").filter fun o => hasOco2 (sy o)).length == 2 then some "OCOGroup"
  else none
def clsO3 (atoms : Tab AtomT) (a : Nat) (hv : Nat) : Option String :=
  if hv == 1 then (if (bondedEl atoms a "P").length == 1 then some "OPGroup" else some "OHGroup") else some "O3Group"
def clsS3 (hv : Nat) : Option String := if hv == 1 then some "SHGroup" else none

/-- the SYBYL types the classifier distinguishes -/
inductive SyKind | nar | nam | n3 | n1 | npl3 | c2 | f | cl | o3 | o2 | s3 | other
  deriving DecidableEq, Repr

def syKind (s : String) : SyKind :=
  if s == "N.ar" then .nar else if s == "N.am" then .nam else if s == "N.3" || s == "N.4" then .n3 else if s == "N.1" then .n1
  else if s == "N.pl3" then .npl3 else if s == "C.2" then .c2 else if s == "F" then .f else if s == "Cl" then .cl
  else if s == "O.3" then .o3 else if s == "O.2" then .o2 else if s == "S.3" then .s3 else .other

/-- the class of the group created for a hetero atom that is no ion, from the SYBYL types and the bonds (`sy` gives the SYBYL
    type of an atom); `none`: no group -/
def ligandClass (atoms : Tab AtomT) (sy : Nat → String) (a : Nat) : Option String :=
  match syKind (sy a) with
  | .nar => clsNar (bondedHeavy atoms a).length
  | .nam => some "NAMGroup"
  | .n3 => clsN3 (bondedHeavy atoms a).length
  | .n1 => some "N1Group"
  | .npl3 => clsNpl3 atoms a
  | .c2 => clsC2 atoms sy a
  | .f => some "FGroup"
  | .cl => some "ClGroup"
  | .o3 => clsO3 atoms a (bondedHeavy atoms a).length
  | .o2 => some "O2Group"
  | .s3 => clsS3 (bondedHeavy atoms a).length
  | .other => none

/-- every class the ligand classifier can name -/
def ligandClassNames : List String :=
  ["NARGroup", "NAMGroup", "N30Group", "N31Group", "N32Group", "N33Group", "N1Group", "NP1Group", "C2NGroup", "CGGroup", "OCOGroup",
   "FGroup", "ClGroup", "OPGroup", "OHGroup", "O3Group", "O2Group", "SHGroup"]

/-! ### covalent coupling (`find_covalently_coupled_groups`) -/
/-- insertion-ordered set union, as `dict.update` on dicts used as ordered sets -/
def ounion (a b : List Nat) : List Nat := b.foldl (fun acc x => if acc.contains x then acc else acc ++ [x]) a

/-- `find_bonded_titratable_groups(atom, num_bonds, original_atom)`: the titratable groups whose defining atom is reached from
    `atom` over at most `maxB` bonds without stepping on `orig`; `grpOf` gives the group an atom defines, `fuel` bounds the depth -/
def bondedTitr (atoms : Tab AtomT) (grpOf : Nat → Option Nat) (titr : Nat → Bool) (maxB orig : Nat) : Nat → Nat → Nat → List Nat
  | 0, _, _ => []
  | fuel+1, a, nb =>
    (aget atoms a).bonded.foldl (fun res b =>
      if b == orig then res else
      let res1 := match grpOf b with
        | some g => if titr g && decide (nb ≤ maxB) then ounion res [g] else res
        | none => res
      if nb < maxB then ounion res1 (bondedTitr atoms grpOf titr maxB orig fuel b (nb + 1)) else res1) []

/-- `couple_covalently` of groups `g` and `h` on the table of coupling lists -/
def couple (cov : Array (List Nat)) (g h : Nat) : Array (List Nat) :=
  let c1 := if (cov.getD g []).contains h then cov else cov.setIfInBounds g (cov.getD g [] ++ [h])
  if (c1.getD h []).contains g then c1 else c1.setIfInBounds h (c1.getD h [] ++ [g])

/-- `find_covalently_coupled_groups`: the coupling lists of all `n` groups; `gatom` the defining atom of a group, `sybyl` the
    SYBYL type of an atom -/
def covalentCoupling (atoms : Tab AtomT) (n : Nat) (gatom : Nat → Nat) (grpOf : Nat → Option Nat) (titr : Nat → Bool)
    (sybyl : Nat → String) (maxB : Nat) : Array (List Nat) :=
  ((List.range n).filter titr).foldl (fun cov g =>
    (bondedTitr atoms grpOf titr maxB (gatom g) (maxB + 1) (gatom g) 1).foldl (fun cov h =>
      if (cov.getD g []).contains h then cov
      else if sybyl (gatom h) == sybyl (gatom g) then couple cov g h else cov) cov) (Array.replicate n [])

section
variable {α : Type} [Add α] [Div α] [NatCast α]
/-- `set_center(atoms)`: coordinates summed in list order from 0.0, then divided by the number of atoms -/
def centreOf (pos : Nat → Angle.P3 α) (as : List Nat) : Angle.P3 α :=
  let s := as.foldl (fun (acc : Angle.P3 α) a => ⟨acc.x + (pos a).x, acc.y + (pos a).y, acc.z + (pos a).z⟩) ⟨((0:Nat):α), ((0:Nat):α), ((0:Nat):α)⟩
  ⟨s.x / ((as.length : Nat) : α), s.y / ((as.length : Nat) : α), s.z / ((as.length : Nat) : α)⟩
end

end Propka.Setup
