import Propka.Model.Params
import Propka.Model.PyStr
import Propka.Gen.Cfg
/-! Line-protocol handler for the parameter-file model at `Float`, with the field kinds and the
    squared-property names the translator read from `propka/parameters.py`. -/
namespace Propka.Params
open Propka Propka.Py

def numF (s : String) : Option Float := pyFloat s.toList
def intF (s : String) : Option Float := (parseInt s.toList).map (fun i => Float.ofInt i)

def showErr : Err → String
  | .valueError => "ValueError" | .assertionError => "AssertionError" | .keyError => "KeyError"

/-- run lines one by one; report index and class of the first error -/
def runLines (lines : List (List Char)) : PState Float × Option (Nat × Err) :=
  let rec go (st : PState Float) (i : Nat) : List (List Char) → PState Float × Option (Nat × Err)
    | [] => (st, none)
    | l :: ls => match parseLine numF intF Gen.Cfg.fieldKinds Gen.Cfg.squaredFields st l with
      | .ok st' => go st' (i+1) ls
      | .error e => (st, some (i, e))
  go PState.init 0 lines

def answer (st : PState Float) (q : String) : String :=
  match q.splitOn ":" with
  | ["im", a, b] => match st.im.get (unhexS a) (unhexS b) with
    | some v => "v" ++ tohexS v
    | none => "None"
  | ["pm", a, b] => let v := st.pm.get (unhexS a) (unhexS b); s!"{fbits v.1},{fbits v.2}"
  | ["pmdef"] => s!"{fbits st.pm.default.1},{fbits st.pm.default.2}"
  | ["get", nm] => match Scalars.getAttr Gen.Cfg.squaredFields st.scalars (unhexS nm) with
    | some v => fbits v
    | none => "None"
  | ["keys"] => ",".intercalate (st.im.keys.map tohexS)
  | ["others"] => toString st.others.length
  | _ => "bad-query"

/-- `params run <hexline,hexline,...|-> <query>*` -/
def handle (args : List String) : String :=
  match args with
  | "run" :: file :: queries =>
    let lines := if file == "-" then [] else (file.splitOn ",").map (fun h => unhex h.toList)
    let (st, err) := runLines lines
    let status := match err with
      | none => "ok"
      | some (i, e) => s!"err:{i}:{showErr e}"
    " ".intercalate (status :: queries.map (answer st))
  | _ => "bad-op"
end Propka.Params
