import Propka.Model.Pdb
import Propka.Model.Scalar
import Propka.Gen.Cfg
/-! Line-protocol handler for the PDB parser model. -/
namespace Propka.Pdb
open Propka Propka.Py

def showAtom (a : AtomRec) : String :=
  "|".intercalate [tohexS a.conf, tohexS a.name, tohexS a.resName, tohexS a.chain, toString a.resNum, tohexS a.icode,
    tohexS a.typ, tohexS a.element, tohexS a.terminal, toString a.serial, fbits a.x, fbits a.y, fbits a.z,
    tohexS a.occ, tohexS a.beta]

def showErr : PyErr → String
  | .valueError => "ValueError" | .indexError => "IndexError"

def csvHex (s : String) : List String := if s == "-" then [] else (s.splitOn ",").map unhexS

/-- `pdb parse <keep> <chains|-> <ignore|-|default> <hexline,hexline,...>` -/
def handle (args : List String) : String :=
  match args with
  | ["parse", keep, chains, ign, file] =>
    let lines := if file == "-" then [] else (file.splitOn ",").map (fun h => unhex h.toList)
    let o : Opts := { ignore := if ign == "default" then Gen.Cfg.f_ignore_residues else csvHex ign,
                      keepProtons := keep == "1", chains := csvHex chains }
    match parse o lines with
    | .ok atoms =>
      let confs := sortedConfs (confOrder atoms)
      "ok " ++ ",".intercalate (confs.map tohexS) ++ " " ++ ";".intercalate (atoms.map showAtom)
    | .error e => "err:" ++ showErr e
  | _ => "bad-op"
end Propka.Pdb
