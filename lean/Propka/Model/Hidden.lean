/-! Model of the process-level hidden state of PROPKA: the module-level `PROTONATOR` (its
    `valence_electrons` table grows when an unknown element is met) and the module-level `NCCG`
    singleton (its `parameters` attribute).  A run interacts with the table through a sequence of
    look-ups; what the run computes is a function of the values it reads.  Import-free. -/
namespace Propka.Hidden

abbrev Table := List (String × Nat)

def get (t : Table) (k : String) : Option Nat := (t.find? (fun kv => kv.1 == k)).map (·.2)

/-- the look-up of `set_number_of_protons_to_add` / `set_steric_number_and_lone_pairs`:
    an element that is not in the table is inserted with the value 4, then read -/
def lookupInsert (t : Table) (e : String) : Table × Nat :=
  match get t e with
  | some v => (t, v)
  | none => ((e, 4) :: t, 4)

/-- one run = the elements it looks up, in order; its observable = the values read -/
def runLookups : Table → List String → Table × List Nat
  | t, [] => (t, [])
  | t, e :: es =>
    let r := lookupInsert t e
    let rest := runLookups r.1 es
    (rest.1, r.2 :: rest.2)

/-- a history of runs in one process; returns the values read by each run -/
def history : Table → List (List String) → List (List Nat)
  | _, [] => []
  | t, p :: ps => (runLookups t p).2 :: history (runLookups t p).1 ps

/-- `NCCG.parameters`: written by `identify_non_covalently_coupled_groups` before anything reads it -/
structure Nccg (P : Type) where
  parameters : Option P

def Nccg.identify {P : Type} (_s : Nccg P) (conformationParams : P) : Nccg P × P :=
  (⟨some conformationParams⟩, conformationParams)     -- (new singleton state, the parameters used)

end Propka.Hidden
