import Propka.Model.PyStr
import Propka.Model.Hybrid36
/-! Model of `propka.input.get_atom_lines_from_pdb`, `Atom.set_properties`, `read_pdb` and
    `conformation_sorter`.  The streaming bookkeeping that assigns `N+` / `C-` is written once,
    generic in the key it compares (`step`); the parser applies it to the key the code uses
    (columns 22–27: chain, number, insertion code).  Import-free. -/
namespace Propka.Pdb
open Propka.Py

inductive PyErr | valueError | indexError
  deriving DecidableEq, Repr

inductive Kind | atom | hetatm | ter | model | other
  deriving DecidableEq, Repr

/-- what the terminus bookkeeping needs to know about one line -/
structure Rec (κ : Type) where
  kind : Kind
  isN : Bool      -- name field strips to "N"
  isOxt : Bool    -- name field strips to "OXT" or "O''"
  key : κ         -- residue key compared by the bookkeeping
  skip : Bool     -- ignored residue / chain not selected: `continue` before any bookkeeping

inductive NT (κ : Type) | next | key (k : κ)
  deriving DecidableEq

/-- `nterm_residue`, `old_residue` -/
structure St (κ : Type) where
  nterm : NT κ
  old : Option κ

def St.init {κ : Type} : St κ := ⟨.next, none⟩

/-- one line of the streaming bookkeeping; returns the new state and whether the atom gets `N+` -/
def step {κ : Type} [DecidableEq κ] (s : St κ) (r : Rec κ) : St κ × Bool :=
  match r.kind with
  | .model => ({ s with nterm := .next }, false)
  | .ter => ({ s with nterm := .next }, false)
  | .other => (s, false)
  | .hetatm => (s, false)
  | .atom =>
    if r.skip then (s, false) else
    let s1 : St κ := if s.nterm = .next then
        (if s.old ≠ some r.key then { nterm := .key r.key, old := none } else s) else s
    let tag := r.isN && !r.isOxt && decide (s1.nterm = .key r.key)
    let s2 : St κ := if r.isOxt then { nterm := .next, old := some r.key } else s1
    (s2, tag)

/-- the `N+` flags of a record sequence -/
def run {κ : Type} [DecidableEq κ] : St κ → List (Rec κ) → List Bool
  | _, [] => []
  | s, r :: rs => (step s r).2 :: run (step s r).1 rs

/-- records that yield an atom, with their `N+` flag -/
def emit {κ : Type} [DecidableEq κ] : St κ → List (Rec κ) → List (Rec κ × Bool)
  | _, [] => []
  | s, r :: rs =>
    let out := step s r
    if (r.kind = .atom ∨ r.kind = .hetatm) ∧ r.skip = false then (r, out.2) :: emit out.1 rs
    else emit out.1 rs

/-! ### classification of a line -/
structure Opts where
  ignore : List String
  keepProtons : Bool
  chains : List String      -- empty = no selection (`if chains and ...`)

def kindOf (line : Str) : Kind :=
  let tag := str (slice line 0 6)
  if tag == "ATOM  " then .atom
  else if tag == "HETATM" then .hetatm
  else if str (strip (slice line 0 6)) == "TER" then .ter
  else if tag == "MODEL " then .model
  else .other

def isSkipped (o : Opts) (line : Str) : Bool :=
  o.ignore.contains (str (slice line 17 20)) ||
  (!o.chains.isEmpty && !o.chains.contains (str (slice line 21 22)))

/-- the code's residue key: columns 22-27 (chain, number, insertion code) -/
def codeKey (line : Str) : Str := slice line 21 27

def classify (o : Opts) (line : Str) : Rec Str :=
  let k := kindOf line
  let nm := str (strip (slice line 12 16))
  { kind := k, isN := nm == "N", isOxt := nm == "OXT" || nm == "O''", key := codeKey line,
    skip := (k == .atom || k == .hetatm) && isSkipped o line }

/-! ### atom records -/
structure AtomRec where
  conf : String
  name : String
  resName : String
  chain : String
  resNum : Int
  icode : String
  typ : String
  element : String
  terminal : String      -- "", "N+", "C-"
  serial : Int
  xm : Int               -- coordinates: mantissa of the fixed-point field …
  ym : Int
  zm : Int
  xd : Nat               -- … and its number of decimals
  yd : Nat
  zd : Nat
  occ : String
  beta : String
  deriving Inhabited, DecidableEq, Repr

def AtomRec.x (a : AtomRec) : Float := decToFloat (a.xm, a.xd)
def AtomRec.y (a : AtomRec) : Float := decToFloat (a.ym, a.yd)
def AtomRec.z (a : AtomRec) : Float := decToFloat (a.zm, a.zd)

def padRight (s : Str) (n : Nat) : Str := s ++ List.replicate (n - s.length) ' '

/-- everything `Atom.set_properties` computes from the columns other than the serial number, the
    occupancy and the B-factor, as a function of the column slices it reads, in evaluation order (so
    the first failing conversion decides the error) -/
def mkCoreS (s0 sname sel sres sch snum sic sx sy sz : Str) (conf terminal : String) (serial : Int) (occ beta : String) :
    Except PyErr AtomRec := do
  let name := strip sname
  let x ← match parseDecimal sx with | some d => pure d | none => throw .valueError
  let y ← match parseDecimal sy with | some d => pure d | none => throw .valueError
  let z ← match parseDecimal sz with | some d => pure d | none => throw .valueError
  let resNum ← match parseInt snum with | some n => pure n | none => throw .valueError
  let resName := padRight (strip sres) 3
  let ch := strip sch
  let chain := if ch.isEmpty then ['_'] else ch
  let typ0 := (strip s0).map lowerC
  let typ := if ["DA ", "DC ", "DG ", "DT "].contains (str resName) then "hetatm".toList else typ0
  let e0 := stripDigits (strip sel)
  let e1 ← if name.length == 4 then
      (match e0 with | c :: _ => pure [c] | [] => throw .indexError) else pure e0
  let e2 := match e1 with
    | [a, b] => [a, lowerC b]
    | e => e
  pure { conf, name := str name, resName := str resName, chain := str chain, resNum,
         icode := str sic, typ := str typ, element := str e2, terminal,
         serial, xm := x.1, ym := y.1, zm := z.1, xd := x.2, yd := y.2, zd := z.2, occ, beta }

/-- `Atom.set_properties(line)`: the serial number is decoded first (hybrid-36), then the rest -/
def mkAtom (line : Str) (conf terminal : String) : Except PyErr AtomRec :=
  match H36.decode (slice line 6 11) with
  | .valueError => .error .valueError
  | .ok serial =>
    mkCoreS (slice line 0 6) (slice line 12 16) (slice line 12 14) (slice line 17 20) (slice line 21 22) (slice line 22 26)
      (slice line 26 27) (slice line 30 38) (slice line 38 46) (slice line 46 54) conf terminal serial
      (str (strip (slice line 55 60))) (str (strip (slice line 60 66)))

/-- conformation name `"{model}{altloc}"` -/
def confName (model : Int) (line : Str) : String :=
  let alt := (slice line 16 17).headD ' '
  let alt := if "123456789".toList.contains alt then Char.ofNat (alt.toNat + 16) else alt
  let alt := if alt == ' ' then 'A' else alt
  toString model ++ String.singleton alt

structure PState where
  st : St Str
  model : Int

def PState.init : PState := ⟨St.init, 1⟩

def atomKind (r : Rec Str) : Bool := r.kind == .atom || r.kind == .hetatm

/-- the conversions of a line that can fail before an atom is built, none of which looks at the parser
    state: `int(line[6:])` of a MODEL record, `line[16]`, and `line[21]` (read only with a chain selection) -/
def lineCheck (o : Opts) (line : Str) : Except PyErr Unit :=
  let r := classify o line
  if r.kind == .model && (parseInt (line.drop 6)).isNone then .error .valueError
  else if atomKind r && decide (line.length ≤ 16) then .error .indexError
  else if atomKind r && !o.ignore.contains (str (slice line 17 20)) && !o.chains.isEmpty && decide (line.length ≤ 21) then
    .error .indexError
  else .ok ()

/-- the terminal tag given to the atom of a line -/
def terminalOf (r : Rec Str) (nplus : Bool) : String :=
  if r.kind == .atom then (if r.isOxt then "C-" else if nplus then "N+" else "") else ""

/-- one line of `get_atom_lines_from_pdb` -/
def stepLine (o : Opts) (s : PState) (line : Str) : Except PyErr (PState × Option AtomRec) :=
  match lineCheck o line with
  | .error e => .error e
  | .ok () =>
    let r := classify o line
    let model := if r.kind == .model then (parseInt (line.drop 6)).getD s.model else s.model
    let out := step s.st r
    let s' : PState := ⟨out.1, model⟩
    if atomKind r && !r.skip then
      match mkAtom line (confName model line) (terminalOf r out.2) with
      | .error e => .error e
      | .ok a => .ok (s', if a.element == "H" && !o.keepProtons then none else some a)
    else .ok (s', none)

def parseFrom (o : Opts) : PState → List Str → Except PyErr (List AtomRec)
  | _, [] => pure []
  | s, l :: ls => do
    let (s', a) ← stepLine o s l
    let rest ← parseFrom o s' ls
    pure (match a with | some a => a :: rest | none => rest)

/-- `get_atom_lines_from_pdb` on the list of lines -/
def parse (o : Opts) (lines : List Str) : Except PyErr (List AtomRec) := parseFrom o PState.init lines

/-! ### read_pdb: conformations in order of first appearance, then sorted -/
def confOrder (atoms : List AtomRec) : List String :=
  atoms.foldl (fun acc a => if acc.contains a.conf then acc else acc ++ [a.conf]) []

/-- `conformation_sorter`: model*100 + ord(altloc) -/
def confSortKey (c : String) : Int :=
  let cs := c.toList
  let alt := cs.getLast?.getD 'A'
  ((parseInt cs.dropLast).getD 0) * 100 + alt.toNat

def insertSorted (k : String) : List String → List String
  | [] => [k]
  | x :: xs => if confSortKey k < confSortKey x then k :: x :: xs else x :: insertSorted k xs

/-- `sorted(names, key=conformation_sorter)` (stable) -/
def sortedConfs (names : List String) : List String := names.foldl (fun acc k => insertSorted k acc) []

end Propka.Pdb
