/-! Model of `ConformationContainer.top_up_from_atoms`, `MolecularContainer.top_up_conformations`
    and `ConformationContainer.find_group`.  Import-free. -/
namespace Propka.TopUp

/-- what topping-up reads from an atom: `residue_label` (name, number, chain, insertion code — no
    alternate location), the `(chain_id, res_num, icode)` key and the residue name -/
structure A where
  label : String
  chain : String
  num : Int
  icode : String
  resName : String
  deriving DecidableEq, Repr

abbrev Names := List ((String × Int × String) × String)

def lookupName : Names → String × Int × String → Option String
  | [], _ => none
  | (k, v) :: rest, key => if k = key then some v else lookupName rest key

/-- `{(a.chain_id, a.res_num): a.res_name for a in atoms}`: the last atom of a key wins -/
def namesOf (atoms : List A) : Names := atoms.reverse.map fun a => ((a.chain, a.num, a.icode), a.resName)

/-- the loop of `top_up_from_atoms`: returns the copied atoms in order -/
def copyLoop (labels : List String) : Names → List A → List A
  | _, [] => []
  | names, a :: rest =>
    if labels.contains a.label then copyLoop labels names rest
    else match lookupName names (a.chain, a.num, a.icode) with
      | some n => if n ≠ a.resName then copyLoop labels names rest else a :: copyLoop labels names rest
      | none => a :: copyLoop labels (((a.chain, a.num, a.icode), a.resName) :: names) rest

/-- `conf.top_up_from_atoms(other_atoms)` -/
def topUpFrom (mine others : List A) : List A := mine ++ copyLoop (mine.map (·.label)) (namesOf mine) others

/-- `ref_atoms = {atom.residue_label: atom for name in reversed(names) for atom in conf[name].atoms}`:
    a dict keeps the position of a key's first insertion and the value of its last assignment, so the
    order is that of first appearance when running through the conformations in reverse, and the atom
    kept for a label is the last one assigned - it comes from the first conformation that has the label -/
def refAtoms (confs : List (List A)) : List A :=
  let stream := confs.reverse.flatten
  let keys := stream.foldl (fun acc a => if acc.contains a.label then acc else acc ++ [a.label]) ([] : List String)
  keys.filterMap fun k => stream.reverse.find? (fun a => a.label == k)

end Propka.TopUp
