import Propka.Model.Scalar
import Propka.Model.PyStr
/-! Model of `ConformationContainer.coupling_effects` on one covalently coupled system and of what it does to the
    printed tables: the penalised groups (those given a `coupled_titrating_group`) are left out of the determinant
    section and of the summary when `remove_penalised_group` is set.  Generic in the scalar; import-free. -/
namespace Propka.Coupling

/-- a member of a covalently coupled system: printed label, charge, current pKa -/
structure CG (α : Type) where
  label : String
  q : α
  pka : α

section
variable {α : Type} [LT α] [DecidableLT α] [NatCast α]
/-- Python's `max(groups, key=pKa)` / `min(groups, key=pKa)`: the first maximal / minimal element -/
def argmax : List (CG α) → Option (CG α)
  | [] => none
  | g :: gs => some (gs.foldl (fun b x => if b.pka < x.pka then x else b) g)
def argmin : List (CG α) → Option (CG α)
  | [] => none
  | g :: gs => some (gs.foldl (fun b x => if x.pka < b.pka then x else b) g)

/-- `coupling_effects` on one coupled system: the labels of the penalised groups (the ones that get a
    `coupled_titrating_group` and are therefore left out of the determinant table and of the summary) -/
def penalised (gs : List (CG α)) : List String :=
  match argmax gs with
  | none => []
  | some f =>
    if f.q < ((0:Nat):α) then [f.label]
    else (gs.filter fun g => g.label ≠ f.label).map (·.label)

/-- the rows of the summary contributed by the system -/
def summaryRows (gs : List (CG α)) : List String := (gs.filter fun g => !(penalised gs).contains g.label).map (·.label)
end


open Propka Propka.Py in
/-- `coupling pen <hexlabel|qbits|pkabits;...>` -> penalised labels (hex, comma separated; `-` if none) -/
def handle (args : List String) : String :=
  match args with
  | ["pen", gs] =>
    let parse (s : String) : Option (CG Float) := match s.splitOn "|" with
      | [l, q, p] => match ofBits? q, ofBits? p with
        | some q, some p => some ⟨unhexS l, q, p⟩
        | _, _ => none
      | _ => none
    match (gs.splitOn ";").mapM parse with
    | some gs => let r := penalised gs; if r.isEmpty then "-" else ",".intercalate (r.map tohexS)
    | none => "bad-op"
  | _ => "bad-op"
end Propka.Coupling
