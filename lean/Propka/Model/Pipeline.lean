import Propka.Model.Bonds
import Propka.Model.Protonate
import Propka.Model.Setup
import Propka.Model.Groups
/-! Model of what `read_molecule_file` does to one conformation after `top_up_conformations`, i.e. everything
    between the parser and `calculate_pka`:

    * `BondMaker.find_bonds_for_atoms_using_boxes` as a state machine on the atoms' bond lists (`_find_bonds_for_atoms`
      with `make_bond` and the disulfide flag), over the visit sequence of the cell list (`Bonds.visited`);
    * `ConformationContainer.set_ligand_atom_names` = `propka.ligand.assign_sybyl_type` for every hetero atom
      (ring search, aromaticity and planarity tests, amide / carboxylate / sp / sp2 perception, S and P oxygens);
    * `BondMaker.add_pi_electron_table_info`;
    * `Protonate.protonate` (under --protonate-all) and `Protonate.protonate_atom` with its per-atom state (charge,
      protons to add, steric number with its memo flag - also set on the *neighbour* by `trigonal` -, the hydrogens added,
      their names);
    * `ConformationContainer.extract_groups`: `is_group` (protein groups, ions, ligand groups), `Group.__init__`
      (residue type, label), `Group.setup` (charge, `setup_atoms` of every class with the protonation it triggers,
      `set_interaction_atoms`, model pKa, titratable), `init_group` (--titrate_only);
    * `ConformationContainer.sort_atoms`;
    * `ConformationContainer.find_covalently_coupled_groups`.

    The result is the state the scoring model (`Scoring.score`) starts from.  Generic in the scalar; import-free. -/
namespace Propka.Pipe
open Propka Propka.Rot Propka.Prot

structure PAtom (α : Type) where
  het : Bool                -- `atom.type == 'hetatm'` (the parser only yields 'atom' and 'hetatm')
  name : String
  elem : String
  resName : String          -- padded to three columns
  chain : String
  resNum : Int
  icode : String
  terminal : String         -- "", "N+", "C-"
  pos : V3 α
  live : Bool               -- still in `conformation.atoms` (`remove_all_hydrogen_atoms` drops atoms from the list only)
  reg : Bool                -- entered the list through `add_atom` (parsed atoms and built hydrogens), which records the chain
                            -- identifier in `conformation.chains`; `copy_atom` (topping-up) does not
  bonded : List Nat
  bridged : Bool
  sybyl : String
  sybylSet : Bool
  pi : Nat
  piConj : Nat
  charge : Int
  toAdd : Int
  steric : Int
  stericSet : Bool
  protonated : Bool
  gtype : String

/-- what the pipeline reads besides the structure: tables of `BondMaker`, `Protonate`, `propka.ligand`, the parameter file -/
structure PP (α : Type) where
  bond : Bonds.BondParams α
  offsets : List Bonds.Cell
  valence : String → Option Nat
  bondLen : String → Option α
  stdCharge : String → Option Int
  sybCharge : String → Option Int
  piSide : String → Option Nat
  piConjSide : String → Option Nat
  piBB : String → Option Nat
  piConjBB : String → Option Nat
  piLig : String → Option Nat
  piConjLig : String → Option Nat
  rnd : V3 α → V3 α
  deg120 : α
  deg1095 : α
  deg90 : α
  tripleSq : α
  doubleSq : α
  margin : α
  T : Groups.Tables
  ligandTyping : String
  maxCouplingBonds : Nat
  uniMul : Int               -- UNICODE_MULTIPLIER
  resMul : Int               -- RESIDUE_MULTIPLIER
  micro : Int → α            -- a number of the parameter file (held as millionths) as a scalar
  ofInt : Int → α            -- `float(n)`

structure Opts where
  protonateAll : Bool
  titrateOnly : Option (List (String × Int × String))

abbrev St (α : Type) := Array (PAtom α)

section
variable {α : Type} [OfNat α 0]

def PAtom.dflt : PAtom α :=
  ⟨false, "", "", "", "", 0, "", "", ⟨0, 0, 0⟩, false, false, [], false, "", false, 0, 0, 0, 0, 0, false, false, ""⟩

def at' (s : St α) (i : Nat) : PAtom α := s.getD i PAtom.dflt

/-- the atom table as the set-up and scoring models read it -/
def view (s : St α) : Scoring.Tab Scoring.AtomT :=
  ⟨s.size, fun i => let a := at' s i; ⟨a.elem, a.name, a.gtype, a.bonded⟩⟩

end

/-! ### bonds -/
section
variable {α : Type} [Add α] [Sub α] [Mul α] [OfNat α 0] [LT α] [DecidableLT α] [Max α] [Bonds.CellIdx α]

/-- what the distance criterion reads of atom `i` -/
def batom (s : St α) (i : Nat) : Bonds.BAtom α := let a := at' s i; ⟨a.pos.x, a.pos.y, a.pos.z, a.elem⟩

/-- `make_bond(atom1, atom2)` for two atoms that are not bonded yet: atom2's list gets atom1 first, then atom1's list gets atom2 -/
def addBond (s : St α) (a b : Nat) : St α :=
  (s.modify b fun x => { x with bonded := x.bonded ++ [a] }).modify a fun x =>
    if x.bonded.contains b then x else { x with bonded := x.bonded ++ [b] }

/-- both sulfurs of a disulfide are flagged -/
def flagBridge (s : St α) (a b : Nat) : St α :=
  (s.modify a fun x => { x with bridged := true }).modify b fun x => { x with bridged := true }

/-- `_find_bonds_for_atoms(atom1, atom2)` -/
def bondStep (P : PP α) (s : St α) (p : Nat × Nat) : St α :=
  if (at' s p.2).bonded.contains p.1 then s
  else if Bonds.crit P.bond (batom s p.1) (batom s p.2) then
    (if (at' s p.1).elem == "S" && (at' s p.2).elem == "S" then flagBridge (addBond s p.1 p.2) p.1 p.2 else addBond s p.1 p.2)
  else s

/-- `find_bonds_for_atoms_using_boxes(conformation.atoms)` -/
def bondAll (P : PP α) (s : St α) : St α :=
  (Bonds.visited P.offsets (Bonds.buildBoxes (fun i => Bonds.cellOf P.bond (batom s i)) s.size)).foldl (bondStep P) s

end

section
variable {α : Type} [Add α] [Sub α] [Mul α] [Div α] [Neg α] [OfNat α 0] [OfNat α 1] [OfNat α 2]
  [DecidableEq α] [LT α] [DecidableLT α] [Max α] [NatCast α] [Trig α] [Bonds.CellIdx α]

/-! ### SYBYL typing (`propka.ligand`) -/
def setType (s : St α) (i : Nat) (t : String) : St α := s.modify i fun x => { x with sybyl := t, sybylSet := true }

/-- `are_atoms_planar(atoms)` on positions -/
def planarPts (margin : α) : List (V3 α) → Bool
  | p0 :: p1 :: p2 :: p3 :: rest =>
    let norm := rescale (cross (between p0 p1) (between p0 p2)) 1
    (p3 :: rest).all fun p => !(decide (margin < Trig.abs (dot (rescale (between p0 p) 1) norm)))
  | _ => false

def posOf (s : St α) (l : List Nat) : List (V3 α) := l.map fun i => (at' s i).pos

/-- `is_planar(atom)` -/
def isPlanar (P : PP α) (s : St α) (i : Nat) : Bool := planarPts P.margin (posOf s (i :: (at' s i).bonded))

/-- `is_aromatic_ring(atoms)` -/
def isAromatic (P : PP α) (s : St α) (ring : List Nat) : Bool :=
  if ring.length < 5 then false
  else (List.range ring.length).all fun k => planarPts P.margin (posOf s (ring.drop k ++ ring.take k))

def bondedEl (s : St α) (i : Nat) (el : String) : List Nat := (at' s i).bonded.filter fun b => (at' s b).elem == el
def bondedHeavy (s : St α) (i : Nat) : List Nat := (at' s i).bonded.filter fun b => (at' s b).elem != "H"

def sqD (s : St α) (i j : Nat) : α :=
  let a := (at' s i).pos
  let b := (at' s j).pos
  (b.x - a.x) * (b.x - a.x) + (b.y - a.y) * (b.y - a.y) + (b.z - a.z) * (b.z - a.z)

/-- `str.capitalize()` on ASCII -/
def capitalize (e : String) : String :=
  match e.toList with
  | [] => ""
  | c :: r => Py.str (Py.upperC c :: r.map Py.lowerC)

/-- the (carbon, nitrogen, oxygen) triple of the amide test for an O or N atom: the last match of the double loop -/
def amideTripleON (s : St α) (i : Nat) : Option (Nat × Nat × Nat) :=
  let e := (at' s i).elem
  (bondedEl s i "C").foldl (fun acc c =>
    (at' s c).bonded.foldl (fun acc b =>
      if (at' s b).elem == "N" && e == "O" then some (c, b, i)
      else if (at' s b).elem == "O" && e == "N" then some (c, i, b)
      else acc) acc) none

/-- the two carboxylate oxygens among the first three... : indices (in the bond list) of the first two oxygens -/
def firstTwoO (s : St α) (i : Nat) : Option (Nat × Nat) :=
  match bondedEl s i "O" with
  | o1 :: o2 :: _ => some (o1, o2)
  | _ => none

/-- `assign_sybyl_type(atom)` -/
def assignSybyl (P : PP α) (s : St α) (i : Nat) : St α :=
  let a := at' s i
  if a.sybylSet then s else
  let ring := Setup.ringMember (view s) i
  let planar := isPlanar P s i
  if isAromatic P s ring then
    ring.foldl (fun s r => let e := (at' s r).elem; if e == "C" || e == "N" then setType s r (e ++ ".ar") else s) s
  else
  let e := a.elem
  -- amide
  let triple : Option (Nat × Nat × Nat) :=
    if e == "O" || e == "N" then amideTripleON s i
    else if e == "C" then
      (match bondedEl s i "N", bondedEl s i "O" with
       | [n], [o] => some (i, n, o)
       | _, _ => none)
    else none
  let amide : Option (Nat × Nat × Nat) := match triple with
    | some (c, n, o) =>
      if !isAromatic P s (Setup.ringMember (view s) n) && (bondedHeavy s n).length == 2 then some (c, n, o) else none
    | none => none
  match amide with
  | some (c, n, o) => setType (setType (setType s n "N.am") c "C.2") o "O.2"
  | none =>
  if e == "C" then
    let carboxyl : Option (Nat × Nat) :=
      if a.bonded.length == 3 && (bondedEl s i "O").length == 2 then
        (match firstTwoO s i with
         | some (o1, o2) => if (at' s o1).bonded.length == 1 && (at' s o2).bonded.length == 1 then some (o1, o2) else none
         | none => none)
      else none
    match carboxyl with
    | some (o1, o2) => setType (setType (setType s o1 "O.co2-") o2 "O.co2") i "C.2"
    | none =>
      let s1 : St α :=
        if a.bonded.length ≤ 2 then
          a.bonded.foldl (fun s b =>
            if sqD s i b < P.tripleSq then setType (setType s i "C.1") b ((at' s b).elem ++ ".1") else s) s
        else s
      if (at' s1 i).sybylSet then s1
      else if planar then
        a.bonded.foldl (fun s b =>
          if (at' s b).elem == "N" && ((at' s b).bonded.length < 3 || isPlanar P s b) then setType s b "N.pl3" else s)
          (setType s1 i "C.2")
      else setType s1 i "C.3"
  else if e == "N" then
    if a.bonded.length == 1 && isPlanar P s (a.bonded.headD 0) then setType s i "N.pl3"
    else if planar then setType s i "N.pl3"
    else setType s i "N.3"
  else if e == "O" then
    let s0 := setType s i "O.3"
    if a.bonded.length == 1 then
      let c := a.bonded.headD 0
      let carb : Option (Nat × Nat) :=
        if (at' s0 c).elem == "C" && (at' s0 c).bonded.length == 3 then
          (match bondedEl s0 c "O" with
           | [o1, o2] => if (at' s0 o1).bonded.length == 1 && (at' s0 o2).bonded.length == 1 then some (o1, o2) else none
           | _ => none)
        else none
      match carb with
      | some (o1, o2) => setType (setType (setType s0 o1 "O.co2-") o2 "O.co2") c "C.2"
      | none =>
        if sqD s0 i c < P.doubleSq then
          let s1 := setType s0 i "O.2"
          if (at' s1 c).elem == "C" then setType s1 c "C.2" else s1
        else s0
    else s0
  else if e == "S" then
    let nO := (bondedEl s i "O").length
    if nO == 2 then
      (match firstTwoO s i with
       | some (o1, o2) => setType (setType (setType s o1 "O.2") o2 "O.2") i "S.o2"
       | none => s)
    else
      let s1 : St α :=
        if nO == 4 then
          (a.bonded.foldl (fun (acc : St α × Nat) b =>
            if (at' acc.1 b).bonded.length == 1 && acc.2 < 2 then (setType acc.1 b "O.2", acc.2 + 1)
            else (setType acc.1 b "O.3", acc.2)) (s, 0)).1
        else s
      setType s1 i "S.3"
  else if e == "P" then
    (bondedEl s i "O").foldl (fun s o => setType s o "O.3") (setType s i "P.3")
  else setType s i (capitalize e)

/-- `set_ligand_atom_names`: every hetero atom of the list, in order -/
def sybylAll (P : PP α) (s : St α) : St α :=
  (List.range s.size).foldl (fun s i => if (at' s i).het && (at' s i).live then assignSybyl P s i else s) s

/-! ### pi electrons -/
/-- `add_pi_electron_table_info` for one atom -/
def piInfo (P : PP α) (a : PAtom α) : PAtom α :=
  if a.het then
    let a1 := match P.piLig a.sybyl with | some v => { a with pi := v } | none => a
    match P.piConjLig a1.sybyl with | some v => { a1 with piConj := v } | none => a1
  else
    let key := a.resName ++ "-" ++ a.name
    let a1 := match P.piSide key with | some v => { a with pi := v } | none => a
    let a2 := match P.piConjSide key with | some v => { a1 with piConj := v } | none => a1
    let a3 := match P.piBB a2.name with | some v => { a2 with pi := v } | none => a2
    match P.piConjBB a3.name with
    | some v => if 1 < a3.bonded.length then { a3 with piConj := v } else a3
    | none => a3

def piAll (P : PP α) (s : St α) : St α := s.map fun a => if a.live then piInfo P a else a

/-! ### protonation (`propka.protonate.Protonate`) -/
/-- `set_charge` -/
def setCharge (P : PP α) (a : PAtom α) : PAtom α :=
  if !a.het then
    let key := if a.terminal != "" then a.terminal else a.resName ++ "-" ++ a.name
    match P.stdCharge key with | some q => { a with charge := q } | none => a
  else
    match P.sybCharge a.sybyl with
    | some q => { a with charge := q, sybyl := a.sybyl.replace "-" "" }
    | none => a

def valenceOf (P : PP α) (e : String) : Nat := (P.valence e).getD 4

/-- `set_steric_number_and_lone_pairs` (memoised by `steric_num_lone_pairs_set`) -/
def setSteric (P : PP α) (a : PAtom α) : PAtom α :=
  if a.stericSet then a
  else
    let v : Int := valenceOf P a.elem
    { a with steric := (v + (a.bonded.length : Int) + a.toAdd - (a.pi : Int) - (a.piConj : Int) - a.charge).fdiv 2, stericSet := true }

def bondLenOf (P : PP α) (e : String) : α := (P.bondLen e).getD 1

/-- `add_proton(atom, position)` for position `p` (already rounded) -/
def addProton (s : St α) (i : Nat) (p : V3 α) : St α :=
  let a := at' s i
  let d : PAtom α := PAtom.dflt
  let h : PAtom α :=
    { d with het := a.het, name := "H" ++ Py.str (a.name.toList.drop 1), elem := "H", resName := a.resName, chain := a.chain, resNum := a.resNum, icode := "", pos := p, live := true, reg := true, bonded := [i] }
  let k := s.size
  let s1 := (s.push h).modify i fun x => { x with bonded := x.bonded ++ [k], toAdd := x.toAdd - 1 }
  let hs := bondedEl s1 i "H"
  if 1 < hs.length then
    (hs.zipIdx.foldl (fun s (hk : Nat × Nat) =>
      s.modify hk.1 fun x => { x with name := "H" ++ Py.str (a.name.toList.drop 1) ++ toString (hk.2 + 1) }) s1)
  else s1

/-- `add_protons(atom)`: the steric number selects `trigonal` or `tetrahedral`; other steric numbers only warn -/
def addProtons (P : PP α) (s : St α) (i : Nat) : St α :=
  let a := at' s i
  if a.steric == 3 then
    -- `trigonal` looks at the neighbour's steric number (and memoises it there) when the atom has one bond and protons to add
    let touch := a.bonded.length == 1 && decide (0 < a.toAdd)
    let b0 := a.bonded.headD 0
    let s1 := if touch then s.modify b0 (setSteric P) else s
    let nb := at' s1 b0
    let c : Call α := ⟨3, a.pos, a.toAdd, bondLenOf P a.elem, posOf s1 a.bonded, nb.steric,
      posOf s1 (nb.bonded.filter fun x => x != i)⟩
    (trigonal P.rnd P.deg120 c).foldl (fun s p => addProton s i p) s1
  else if a.steric == 4 then
    let c : Call α := ⟨4, a.pos, a.toAdd, bondLenOf P a.elem, posOf s a.bonded, 0, []⟩
    (tetrahedral P.rnd P.deg1095 P.deg90 c).foldl (fun s p => addProton s i p) s
  else s

/-- `protonate_atom(atom)` -/
def protonateAtom (P : PP α) (s : St α) (i : Nat) : St α :=
  let a := at' s i
  if a.protonated || a.elem == "H" then s
  else
    let a1 := setCharge P a
    let a2 := { a1 with toAdd := Prot.toAdd (valenceOf P a1.elem) a1.bonded.length a1.pi a1.charge }
    let a3 := setSteric P a2
    let s1 := addProtons P (s.set! i a3) i
    s1.modify i fun x => { x with protonated := true }

/-- `Protonate.protonate(molecule)` on one conformation: hydrogens leave the atom list, every remaining atom is protonated -/
def protonateEverything (P : PP α) (s : St α) : St α :=
  let s1 := s.map fun a => if a.elem == "H" then { a with live := false } else a
  ((List.range s1.size).filter fun i => (at' s1 i).live).foldl (protonateAtom P) s1

/-! ### groups -/
structure PGroup (α : Type) where
  cls : String
  type : String
  resType : String
  label : String
  q : α
  model : α
  modelSet : Bool
  titratable : Bool
  excludeCys : Bool
  atom : Nat
  key : String × Int × String   -- (chain_id, res_num, icode) of the group's atom, what --titrate_only matches
  centre : V3 α
  iaAcid : List Nat
  iaBase : List Nat
  cov : List Nat

def padL (n : Nat) (s : String) : String := Py.str (List.replicate (n - s.length) ' ') ++ s
def padR (n : Nat) (s : String) : String := s ++ Py.str (List.replicate (n - s.length) ' ')

/-- `Group.__init__`: the printed label -/
def labelOf (a : PAtom α) (resType : String) : String :=
  if !a.het then padR 3 resType ++ padL 4 (toString a.resNum) ++ padL 2 a.chain
  else if ["DA ", "DC ", "DG ", "DT "].contains a.resName then
    Py.str ((resType.toList.drop 1).take 1) ++ a.elem ++ Py.str ((a.name.toList.filter (· != '\'')).getLast?.toList)
      ++ padL 4 (toString a.resNum) ++ padL 2 a.chain
  else padR 3 resType ++ padL 4 a.name ++ padL 2 a.chain

def infoOf (s : St α) (i : Nat) : Groups.AtomInfo :=
  let a := at' s i
  ⟨if a.het then "hetatm" else "atom", a.name, a.resName, a.chain, a.resNum, a.icode, a.terminal, (bondedEl s i "O").length, a.bridged⟩

/-- `is_group(parameters, atom)`: the class of the group an atom defines, if any; `is_ligand_group_by_groups` protonates every
    hetero atom it is asked about before it looks at the SYBYL type -/
def classOfAtom (P : PP α) (s : St α) (i : Nat) : St α × Option String :=
  match Groups.classOf P.T (infoOf s i) with
  | some c => (s, some c)
  | none =>
    if P.ligandTyping == "groups" && (at' s i).het then
      let s1 := protonateAtom P s i
      (s1, Setup.ligandClass (view s1) (fun k => (at' s1 k).sybyl) i)
    else (s, none)

/-- the atoms `setup_atoms` of a class hands to the protonator, in call order -/
def protTargets (s : St α) (cls : String) (i : Nat) : List Nat :=
  if cls == "HISGroup" then Setup.ringMember (view s) i
  else if cls == "ARGGroup" || cls == "CGGroup" then bondedEl s i "N"
  else if cls == "AMDGroup" then
    (if (bondedEl s i "O").isEmpty || (bondedEl s i "N").isEmpty then [] else (bondedEl s i "N").take 1)
  else if cls == "C2NGroup" then (bondedEl s i "N").filter fun n => (bondedHeavy s n).length == 1
  else if ["TRPGroup", "BBNGroup", "NARGroup", "NAMGroup", "OHGroup", "OPGroup", "N30Group", "N31Group", "N32Group", "N33Group",
           "NP1Group"].contains cls then [i]
  else []

def v3 (p : Angle.P3 α) : V3 α := ⟨p.x, p.y, p.z⟩

/-- the state after the protonation `setup_atoms` of class `cls` asks for -/
def setupState (P : PP α) (s : St α) (cls : String) (i : Nat) : St α := (protTargets s cls i).foldl (protonateAtom P) s

/-- the group record and the state `Group.setup` leaves, given what `setup_atoms` found (`r`) in the state `s1` -/
def buildGroup (P : PP α) (s s1 : St α) (cls : String) (i : Nat) (r : Setup.Res) : St α × PGroup α :=
  let a := at' s i
  let info := infoOf s i
  let type := (Groups.lookup P.T.classType cls).getD ""
  let ligand := Setup.ligandClassNames.contains cls
  let rt := if ligand then type else Groups.residueTypeOf cls info
  -- the label is formatted in `Group.__init__`, before a subclass overrides the residue type
  let label := labelOf a (if a.terminal != "" then a.terminal else a.resName)
  let charge0 : α := match Groups.lookup P.T.charge type with | some q => P.micro q | none => P.ofInt 0
  let charge : α := match Groups.lookup P.T.ions rt with | some q => P.micro q | none => charge0
  let ctr := v3 (Setup.centreOf (fun k => let p := (at' s1 k).pos; (⟨p.x, p.y, p.z⟩ : Angle.P3 α)) r.centre)
  -- set_interaction_atoms: the group type is written on every interaction atom
  let s2 := (r.acid ++ r.base).foldl (fun s k => s.modify k fun x => { x with gtype := type }) s1
  let model : Option Int := match Groups.lookup P.T.modelPkas rt with
    | none => none
    | some p => some ((Groups.lookup P.T.customPkas (Groups.strip a.resName ++ "-" ++ Groups.strip a.name)).getD p)
  (s2, { cls, type, resType := rt, label, q := charge, model := (match model with | some m => P.micro m | none => P.ofInt 0),
         modelSet := model.isSome, titratable := model.isSome && !a.bridged, excludeCys := false, atom := i,
         key := (a.chain, a.resNum, a.icode), centre := ctr, iaAcid := r.acid, iaBase := r.base, cov := [] })

/-- `Group.__init__` + `Group.setup` for the atom `i` of class `cls`; `none` when `set_center` raises (empty atom list) or the
    class is unknown to the set-up model -/
def mkGroupCore (P : PP α) (s : St α) (cls : String) (i : Nat) : Option (St α × PGroup α) :=
  match Setup.clsOf cls with
  | none => none
  | some shape =>
    if (Setup.setupAtoms (view (setupState P s cls i)) shape i).centre.isEmpty then none
    else some (buildGroup P s (setupState P s cls i) cls i (Setup.setupAtoms (view (setupState P s cls i)) shape i))

/-- `init_group`: with --titrate_only a group of a residue that is not listed is made non-titratable (and a cysteine is left out
    of the report) -/
def applyTO (o : Opts) (g : PGroup α) : PGroup α :=
  match o.titrateOnly with
  | none => g
  | some l => if l.contains g.key then g else { g with titratable := false, excludeCys := g.resType == "CYS" }

/-- one atom of the loop of `extract_groups` -/
def extractStep (P : PP α) (o : Opts) (acc : Option (St α × List (PGroup α))) (i : Nat) : Option (St α × List (PGroup α)) :=
  match acc with
  | none => none
  | some (s, gs) =>
    match classOfAtom P s i with
    | (s0, none) => some (s0, gs)
    | (s0, some cls) =>
      match mkGroupCore P s0 cls i with
      | none => none
      | some (s1, g) => some (s1, gs ++ [applyTO o g])

/-- the atoms `extract_groups` looks at: the non-hydrogen atoms of the list, in order -/
def heavyLive (s : St α) : List Nat := (List.range s.size).filter fun i => (at' s i).live && (at' s i).elem != "H"

/-- `extract_groups`: every non-hydrogen atom of the list, in order; `none` when a set-up raises -/
def extractGroups (P : PP α) (o : Opts) (s : St α) : Option (St α × List (PGroup α)) :=
  (heavyLive s).foldl (extractStep P o) (some (s, []))

/-! ### `sort_atoms` -/
/-- `sort_atoms_key(atom)` -/
def sortKey (P : PP α) (a : PAtom α) : Int :=
  let c : Int := match a.chain.toList with | ch :: _ => ch.toNat | [] => 0
  let extra : Int := match (a.name.toList.drop a.elem.length) with | ch :: _ => ch.toNat | [] => 0
  c * P.uniMul + a.resNum * P.resMul + extra

/-- the live atoms in sorted order (a stable sort, as Python's): old indices -/
def sortedOrder (P : PP α) (s : St α) : List Nat :=
  ((List.range s.size).filter fun i => (at' s i).live).mergeSort fun i j => sortKey P (at' s i) ≤ sortKey P (at' s j)

/-- position of an old index in the sorted list (`s.size` for atoms that left the list) -/
def renumber (order : List Nat) (n : Nat) : Array Nat :=
  order.zipIdx.foldl (fun arr (p : Nat × Nat) => arr.setIfInBounds p.1 p.2) (Array.replicate n n)

structure Prepared (α : Type) where
  atoms : Array (PAtom α)       -- in the order of `conformation.atoms` after `sort_atoms`, bond lists renumbered
  groups : Array (PGroup α)
  chains : List String          -- `conformation.chains`: chain identifiers in the order `add_atom` first met them

/-- everything between `top_up_conformations` and `calculate_pka` for one conformation -/
def prepare (P : PP α) (o : Opts) (s0 : St α) : Option (Prepared α) :=
  let s1 := piAll P (sybylAll P (bondAll P s0))
  let s2 := if o.protonateAll then protonateEverything P s1 else s1
  match extractGroups P o s2 with
  | none => none
  | some (s3, gs) =>
    let order := sortedOrder P s3
    let ren := renumber order s3.size
    let r := fun k => ren.getD k s3.size
    let atoms : Array (PAtom α) := (order.map fun i => let a := at' s3 i; { a with bonded := a.bonded.map r }).toArray
    let gs1 := gs.map fun g => { g with atom := r g.atom, iaAcid := g.iaAcid.map r, iaBase := g.iaBase.map r }
    let garr := gs1.toArray
    let tab : Scoring.Tab Scoring.AtomT := ⟨atoms.size, fun i => let a := atoms.getD i PAtom.dflt; ⟨a.elem, a.name, a.gtype, a.bonded⟩⟩
    let gatom : Nat → Nat := fun g => ((garr[g]?).map (·.atom)).getD 0
    let titr : Nat → Bool := fun g => ((garr[g]?).map (·.titratable)).getD false
    let grpOf : Nat → Option Nat := fun a => ((List.range garr.size).filter fun g => gatom g == a).getLast?
    let cov := Setup.covalentCoupling tab garr.size gatom grpOf titr (fun a => (atoms.getD a PAtom.dflt).sybyl) P.maxCouplingBonds
    -- parsed atoms come first, copies next, built hydrogens last: the order in which `add_atom` saw the registered ones
    let chains := (List.range s3.size).foldl (fun (acc : List String) i =>
      let a := at' s3 i; if a.reg && !acc.contains a.chain then acc ++ [a.chain] else acc) []
    some ⟨atoms, (garr.zipIdx.map fun (p : PGroup α × Nat) => { p.1 with cov := cov.getD p.2 [] }), chains⟩
end

end Propka.Pipe
