import Propka.Model.PyStr
/-! Model of `propka.lib.parse_res_string` / `parse_res_list`: the text of `--titrate_only` ("chain:resnum[inscode]",
    comma separated) becomes the list of (chain, number, insertion code) keys that `init_group` compares with.
    Import-free. -/
namespace Propka.ResList
open Propka.Py

/-- `s.split(sep)` for a one-character separator -/
def splitOn (sep : Char) : Str → List Str
  | [] => [[]]
  | c :: cs =>
    match splitOn sep cs with
    | [] => [[]]                         -- unreachable: splitOn never returns []
    | p :: ps => if c = sep then [] :: p :: ps else (c :: p) :: ps

inductive Err | colons | number
  deriving DecidableEq, Repr

/-- `parse_res_string(res_str)` -/
def parseResString (s : Str) : Except Err (Str × Int × Char) :=
  match splitOn ':' s with
  | [chain, num] =>
    match parseInt num with
    | some n => .ok (chain, n, ' ')
    | none =>
      -- `int(resnum_str[:-1])`, insertion code `resnum_str[-1]` (an empty `resnum_str` fails in `int('')` both times)
      match num.getLast? with
      | none => .error .number
      | some ic =>
        match parseInt num.dropLast with
        | some n => .ok (chain, n, ic)
        | none => .error .number
  | _ => .error .colons

/-- `parse_res_list(titrate_only)`: the first bad entry decides the error -/
def parseResList (s : Str) : Except Err (List (Str × Int × Char)) :=
  (splitOn ',' s).mapM parseResString

/-- how the text of one entry is written -/
def fmtEntry (chain : Str) (n : Int) (ic : Char) : Str :=
  chain ++ [':'] ++ (toString n).toList ++ (if ic = ' ' then [] else [ic])

/-- `reslist parse <hex text>` -> `err:colons` / `err:number` / `hexchain|num|hexicode;...` -/
def handle (args : List String) : String :=
  match args with
  | ["parse", h] =>
    match parseResList (unhex h.toList) with
    | .error .colons => "err:colons"
    | .error .number => "err:number"
    | .ok ks => if ks.isEmpty then "-" else ";".intercalate (ks.map fun k => s!"{str (tohex k.1)}|{k.2.1}|{str (tohex [k.2.2])}")
  | _ => "bad-op"
end Propka.ResList
