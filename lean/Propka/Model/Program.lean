import Propka.Model.Pipeline
import Propka.Model.TopUp
import Propka.Model.Pdb
import Propka.Model.Dets
import Propka.Model.CoupleSearch
/-! The program as one function: PDB lines and options in, the records of every group of every conformation out.
    `run` composes the parser model (`Pdb.parse`: `get_atom_lines_from_pdb`), `read_pdb` (conformations in sorted order),
    `top_up_conformations`, the set-up pipeline (`Pipe.prepare`) and the scoring model (`Scoring.score`), as
    `read_molecule_file` followed by the per-conformation part of `MolecularContainer.calculate_pka` does.
    Generic in the scalar; import-free. -/
namespace Propka.Program
open Propka Propka.Py Propka.Pdb

/-- `Atom.residue_label`: name, number, chain, insertion code -/
def residueLabel (a : AtomRec) : String :=
  Pipe.padR 3 a.name ++ Pipe.padL 4 (toString a.resNum) ++ Pipe.padL 2 a.chain ++ str (strip a.icode.toList)

/-- what topping-up reads of an atom -/
def keyOf (a : AtomRec) : TopUp.A := ⟨residueLabel a, a.chain, a.resNum, a.icode, a.resName⟩

/-- `TopUp.copyLoop` on whole records -/
def copyLoopR (labels : List String) : TopUp.Names → List AtomRec → List AtomRec
  | _, [] => []
  | names, a :: rest =>
    if labels.contains (residueLabel a) then copyLoopR labels names rest
    else match TopUp.lookupName names (a.chain, a.resNum, a.icode) with
      | some n => if n ≠ a.resName then copyLoopR labels names rest else a :: copyLoopR labels names rest
      | none => a :: copyLoopR labels (((a.chain, a.resNum, a.icode), a.resName) :: names) rest

/-- `TopUp.refAtoms` on whole records -/
def refAtomsR (confs : List (List AtomRec)) : List AtomRec :=
  let stream := confs.reverse.flatten
  let keys := stream.foldl (fun acc a => if acc.contains (residueLabel a) then acc else acc ++ [residueLabel a]) ([] : List String)
  keys.filterMap fun k => stream.reverse.find? (fun a => residueLabel a == k)

/-- `read_pdb`: the conformations in sorted order, each with its atoms in file order -/
def conformations (recs : List AtomRec) : List (String × List AtomRec) :=
  (sortedConfs (confOrder recs)).map fun n => (n, recs.filter fun a => a.conf == n)

/-- `top_up_conformations`: every conformation with its own atoms and the atoms copied into it -/
def toppedUp2 (recs : List AtomRec) : List (String × List AtomRec × List AtomRec) :=
  let cs := conformations recs
  let ref := refAtomsR (cs.map (·.2))
  cs.map fun c => (c.1, c.2, copyLoopR (c.2.map residueLabel) (TopUp.namesOf (c.2.map keyOf)) ref)

/-- `top_up_conformations`: the atom list of every conformation afterwards -/
def toppedUp (recs : List AtomRec) : List (String × List AtomRec) :=
  (toppedUp2 recs).map fun c => (c.1, c.2.1 ++ c.2.2)

/-- a record without the columns nothing after the parser reads -/
def core (a : AtomRec) : AtomRec := { a with serial := 0, occ := "", beta := "" }

section
variable {α : Type} [Add α] [Sub α] [Mul α] [Div α] [Neg α] [OfNat α 0] [OfNat α 1] [OfNat α 2]
  [DecidableEq α] [LT α] [LE α] [DecidableLT α] [DecidableLE α] [Max α] [Min α] [NatCast α] [BEq α] [Inhabited α]
  [Trig α] [Bonds.CellIdx α] [Profiles.PowLog α]

/-- a parsed atom as the set-up pipeline receives it; `dec` turns a fixed-point coordinate field into a scalar -/
def toPAtom (dec : Int → Nat → α) (reg : Bool) (a : AtomRec) : Pipe.PAtom α :=
  let d : Pipe.PAtom α := Pipe.PAtom.dflt
  { d with reg := reg, het := a.typ == "hetatm", name := a.name, elem := a.element, resName := a.resName, chain := a.chain, resNum := a.resNum, icode := a.icode, terminal := a.terminal, pos := ⟨dec a.xm a.xd, dec a.ym a.yd, dec a.zm a.zd⟩, live := true }

/-- what scoring reads of a group of a prepared conformation -/
def groupOf (r : Pipe.Prepared α) (g : Pipe.PGroup α) : Scoring.GroupT α :=
  ⟨g.type, g.resType, g.q, g.model, g.titratable, (r.atoms.getD g.atom Pipe.PAtom.dflt).bridged, g.atom, g.iaAcid, g.iaBase, g.cov⟩

/-- the atom table of a prepared conformation as scoring reads it -/
def atomTab (r : Pipe.Prepared α) : Scoring.Tab Scoring.AtomT :=
  ⟨r.atoms.size, fun i => let a := r.atoms.getD i Pipe.PAtom.dflt; ⟨a.elem, a.name, a.gtype, a.bonded⟩⟩

/-- its group table -/
def groupTab (r : Pipe.Prepared α) : Scoring.Tab (Scoring.GroupT α) :=
  ⟨r.groups.size, fun i => match r.groups[i]? with
    | some g => groupOf r g
    | none => Scoring.GroupT.dflt⟩

/-- its environment: distances and angle factors from the coordinates, residue identity and group identity from the labels -/
def envTab (r : Pipe.Prepared α) : Scoring.Env α :=
  let z : Angle.P3 α := ⟨0, 0, 0⟩
  let apos : Nat → Angle.P3 α := fun i => match r.atoms[i]? with | some a => ⟨a.pos.x, a.pos.y, a.pos.z⟩ | none => z
  let gpos : Nat → Angle.P3 α := fun i => match r.groups[i]? with | some g => ⟨g.centre.x, g.centre.y, g.centre.z⟩ | none => z
  let ares : Nat → Scoring.ResKey := fun i => match r.atoms[i]? with | some a => (a.resNum, a.chain) | none => (0, "")
  let gid : Nat → Scoring.GroupId := fun i => match r.groups[i]? with
    | some g => let a := r.atoms.getD g.atom Pipe.PAtom.dflt; ⟨g.label, !a.het, a.resNum⟩
    | none => ⟨"", true, 0⟩
  Scoring.envOf apos gpos ares (fun g => ares ((groupTab r).get g).atom) gid

/-- the scoring model on a prepared conformation -/
def scorePrepared (sp : Scoring.SP α) (r : Pipe.Prepared α) : List (Scoring.GOut α) :=
  Scoring.score sp (envTab r) (atomTab r) (groupTab r)

/-! ### `average_of_conformations` -/
/-- `Atom.residue_label` of an atom of the set-up state -/
def atomLabel (a : Pipe.PAtom α) : String :=
  Pipe.padR 3 a.name ++ Pipe.padL 4 (toString a.resNum) ++ Pipe.padL 2 a.chain ++ str (strip a.icode.toList)

/-- separates the printed label from the residue number in a partner identity (a control character: no label contains it) -/
def idSep : String := String.singleton (Char.ofNat 1)

/-- the printed label of the partner an identity stands for -/
def labelOfId (i : String) : String := String.ofList (i.toList.takeWhile fun c => c != Char.ofNat 1)

/-- what identifies a determinant's partner for `Group.__eq__` / `Iterative.__eq__`: the printed label, and the residue number
    for a hetero group -/
def partnerId (r : Pipe.Prepared α) (g : Nat) : String :=
  match r.groups[g]? with
  | none => ""
  | some gr =>
    let a := r.atoms.getD gr.atom Pipe.PAtom.dflt
    if a.het then gr.label ++ idSep ++ toString a.resNum else gr.label

def detsOf (r : Pipe.Prepared α) (ds : List (Scoring.Det α)) : List (Dets.Det α) :=
  ds.map fun d => ⟨partnerId r d.partner, ((r.groups[d.partner]?).map (·.label)).getD "", d.value⟩

/-- a group of a scored conformation as the averaging sees it -/
structure Scored (α : Type) where
  resLabel : String          -- `group.atom.residue_label`
  type : String
  resType : String
  label : String
  use : Bool                 -- `use_in_calculations()`
  chain : String             -- `group.atom.chain_id`
  het : Bool                 -- `group.atom.type == 'hetatm'`
  ctg : Option String        -- label of `coupled_titrating_group`
  starred : Bool             -- `len(non_covalently_coupled_groups) > 0`
  q : α                      -- `group.charge`
  titratable : Bool
  model : α
  nv : α
  buried : α
  grec : Dets.GRec α

/-- the record of every group after scoring, as the coupling search and the averaging read it -/
def grecsOf (r : Pipe.Prepared α) (outs : List (Scoring.GOut α)) : Array (Dets.GRec α) :=
  ((r.groups.toList.zip outs).map fun go =>
    let g := go.1
    let o := go.2
    let a := r.atoms.getD g.atom Pipe.PAtom.dflt
    (⟨g.label, g.model, o.evol, o.eloc, detsOf r o.sc, detsOf r o.bb, detsOf r o.cb, o.pka, a.bridged, []⟩ : Dets.GRec α)).toArray

def staticOf (r : Pipe.Prepared α) : Array (CoupleSearch.Static α) :=
  (List.range r.groups.size).toArray.map fun k =>
    match r.groups[k]? with
    | some g => ⟨partnerId r k, g.q, g.titratable⟩
    | none => ⟨"", ((0:Nat):α), false⟩

/-- `find_non_covalently_coupled_groups` on a scored conformation -/
def searchOf (cp : CoupleSearch.CP α) (show_ : Bool) (r : Pipe.Prepared α) (outs : List (Scoring.GOut α)) : CoupleSearch.St α :=
  let s := CoupleSearch.identify cp (staticOf r) (grecsOf r outs)
  if show_ then CoupleSearch.display cp s else s

def scoredOf (cp : CoupleSearch.CP α) (show_ : Bool) (r : Pipe.Prepared α) (outs : List (Scoring.GOut α)) : List (Scored α) :=
  let st := searchOf cp show_ r outs
  ((r.groups.toList.zip outs).zipIdx).map fun gok =>
    let g := gok.1.1
    let o := gok.1.2
    let k := gok.2
    let a := r.atoms.getD g.atom Pipe.PAtom.dflt
    let dg : Dets.GRec α := ⟨g.label, g.model, o.evol, o.eloc, [], [], [], o.pka, a.bridged, []⟩
    { resLabel := atomLabel a, type := g.type, resType := g.resType, label := g.label,
      use := g.titratable || (g.resType == "CYS" && !g.excludeCys), chain := a.chain, het := a.het,
      ctg := o.ctg.bind fun c => (r.groups[c]?).map (·.label), starred := !(st.coupled.getD k []).isEmpty,
      q := g.q, titratable := g.titratable, model := g.model, nv := ((o.nv : Nat) : α), buried := o.buried,
      grec := st.gs.getD k dg }

/-- a group of the average conformation -/
structure AvrGroup (α : Type) where
  label : String
  type : String
  resType : String
  chain : String
  het : Bool
  ctg : Option String
  starred : Bool
  q : α
  titratable : Bool
  model : α
  nv : α
  buried : α
  acc : Dets.Acc α

/-- `Group.add_determinant`: add to the first determinant towards an equal partner, else append `Determinant(partner, value)`
    (a fresh object: its label is the partner's own label, also when the display mode has relabelled the determinant it stems from) -/
def addDetL : List (Dets.Det α) → Dets.Det α → List (Dets.Det α)
  | [], d => [{ d with label := labelOfId d.grp }]
  | x :: xs, d => if x.grp = d.grp then { x with value := x.value + d.value } :: xs else x :: addDetL xs d

/-- `Group.__iadd__` -/
def iaddL (a : Dets.Acc α) (g : Dets.GRec α) : Dets.Acc α :=
  { pka := a.pka + g.pka, evol := a.evol + g.evol, eloc := a.eloc + g.eloc,
    sc := g.sc.foldl addDetL a.sc, bb := g.bb.foldl addDetL a.bb, cb := g.cb.foldl addDetL a.cb }

/-- the mean of the records found for one group: the clone starts from zero, every record found is added, the sum is divided by
    their number -/
def averageL (z : α) (found : List (Dets.GRec α)) : Dets.Acc α :=
  Dets.divAcc (found.foldl iaddL ⟨z, z, z, [], [], []⟩) ((found.length : Nat) : α)

/-- `find_group(group)`: the first group of a conformation with the residue label and the type -/
def findGroup (conf : List (Scored α)) (g : Scored α) : Option (Scored α) :=
  conf.find? fun h => h.resLabel == g.resLabel && h.type == g.type

/-- `average_of_conformations`: every reported group of every conformation, once (first come); each is the mean over the
    conformations in which `find_group` finds it -/
def averageOf (confs : List (List (Scored α))) : List (AvrGroup α) :=
  let z : α := ((0:Nat):α)
  (confs.foldl (fun (acc : List (Scored α × AvrGroup α)) conf =>
    (conf.filter (·.use)).foldl (fun acc g =>
      if acc.any (fun e => e.1.resLabel == g.resLabel && e.1.type == g.type) then acc
      else
        let found := confs.filterMap fun c => findGroup c g
        acc ++ [(g, { label := g.label, type := g.type, resType := g.resType, chain := g.chain, het := g.het, ctg := g.ctg, starred := g.starred, q := g.q, titratable := g.titratable, model := g.model,
                      nv := Dets.avgScalar z (found.map (·.nv)), buried := Dets.avgScalar z (found.map (·.buried)),
                      acc := averageL z (found.map (·.grec)) })]) acc) []).map (·.2)

/-- what the program computes for one conformation: the prepared state and the record of every group (`none`: the set-up raised) -/
abbrev ConfOut (α : Type) := String × Option (Pipe.Prepared α × List (Scoring.GOut α))

/-- everything after the parser; the serial number, the occupancy and the B-factor of a record are dropped first (nothing
    downstream is given them) -/
def afterParse (P : Pipe.PP α) (sp : Scoring.SP α) (dec : Int → Nat → α) (o : Pipe.Opts) (recs : List AtomRec) : List (ConfOut α) :=
  (toppedUp2 (recs.map core)).map fun c =>
    (c.1, (Pipe.prepare P o (c.2.1.map (toPAtom dec true) ++ c.2.2.map (toPAtom dec false)).toArray).map fun r => (r, scorePrepared sp r))

/-- the program on a PDB text: `ValueError` for a text without atoms, the parser's errors, else one entry per conformation -/
def run (P : Pipe.PP α) (sp : Scoring.SP α) (dec : Int → Nat → α) (po : Pdb.Opts) (o : Pipe.Opts) (lines : List Str) :
    Except PyErr (List (ConfOut α)) :=
  match parse po lines with
  | .error e => .error e
  | .ok recs => if recs.isEmpty then .error .valueError else .ok (afterParse P sp dec o recs)

/-- the average conformation of a run (`none` when the set-up of a conformation raised) -/
def averageRun (cp : CoupleSearch.CP α) (show_ : Bool) (outs : List (ConfOut α)) : Option (List (AvrGroup α)) :=
  (outs.mapM fun (c : ConfOut α) => c.2.map fun ro => scoredOf cp show_ ro.1 ro.2).map averageOf
end

end Propka.Program
