import Propka.Model.Scalar
/-! Model of the pH-dependent observables: `Group.calculate_charge`, `Group.calculate_folding_energy`,
    `ConformationContainer.calculate_charge / calculate_folding_energy`, `lib.make_grid`,
    `MolecularContainer.get_charge_profile / get_folding_profile / get_pi`, and the window filter of
    `output.get_folding_profile_section`.  Generic in the scalar.  Import-free. -/
namespace Propka.Profiles

class PowLog (α : Type) where
  /-- `10 ** x` -/
  pow10 : α → α
  /-- `math.log10` -/
  log10 : α → α

instance : PowLog Float := ⟨fun x => Float.pow 10 x, Float.log10⟩

/-- what the pH-dependent observables read from a group -/
structure TGroup (α : Type) where
  charge : α
  pka : α
  modelPka : α
  titratable : Bool
  coulomb : List α          -- values of the Coulomb determinants

section
variable {α : Type} [Add α] [Sub α] [Mul α] [Div α] [Neg α] [LT α] [DecidableLT α] [LE α] [DecidableLE α]
  [NatCast α] [PowLog α]

/-- `Group.calculate_charge(ph, state)` with `pk` the predicted (folded) or model (unfolded) pKa -/
def chargeAt (q pk ph : α) : α :=
  let r := PowLog.pow10 (q * (pk - ph))
  q * (r / ((1 : Nat) + r))

/-- `log10(1 + 10**(ph - pk))` -/
def qlog (pk ph : α) : α := PowLog.log10 ((1 : Nat) + PowLog.pow10 (ph - pk))

/-- `Group.calculate_folding_energy(ph, reference)`; `scaling` is `UNK_PKA_SCALING` (−1.36) -/
def foldingEnergy (scaling : α) (neutralRef : Bool) (g : TGroup α) (ph : α) : α :=
  if !g.titratable then (0 : Nat) else
  let ddgNeutral : α :=
    if neutralRef && decide ((0 : Nat) < g.charge) then
      let pkaPrime := g.coulomb.foldl (fun acc v => if ((0 : Nat) : α) < v then acc - v else acc) g.pka
      scaling * (pkaPrime - g.modelPka)
    else (0 : Nat)
  let ddgLow := scaling * (qlog g.pka ph - qlog g.modelPka ph)
  ddgNeutral + ddgLow

/-- `ConformationContainer.calculate_folding_energy` -/
def confFoldingEnergy (scaling : α) (neutralRef : Bool) (gs : List (TGroup α)) (ph : α) : α :=
  gs.foldl (fun acc g => acc + foldingEnergy scaling neutralRef g ph) ((0 : Nat) : α)

/-- `ConformationContainer.calculate_charge`: (unfolded, folded) over the titratable groups -/
def confCharge (gs : List (TGroup α)) (ph : α) : α × α :=
  (gs.filter (·.titratable)).foldl
    (fun acc g => (acc.1 + chargeAt g.charge g.modelPka ph, acc.2 + chargeAt g.charge g.pka ph)) (((0 : Nat) : α), ((0 : Nat) : α))

/-- the points of `make_grid(min, max, step)` given the number of steps -/
def gridPoints (mn step : α) (numSteps : Nat) : List α :=
  (List.range (numSteps + 1)).map fun (i : Nat) => mn + (i : α) * step

/-- `get_charge_profile`: rows `[ph, q_unfolded, q_folded]` -/
def chargeProfile (gs : List (TGroup α)) (grid : List α) : List (α × α × α) :=
  grid.map fun ph => let q := confCharge gs ph; (ph, q.1, q.2)

/-- `get_folding_profile`: the profile points -/
def foldingProfile (scaling : α) (neutralRef : Bool) (gs : List (TGroup α)) (grid : List α) : List (α × α) :=
  grid.map fun ph => (ph, confFoldingEnergy scaling neutralRef gs ph)

/-- `opt = min(opt, point, key=dg)`: the first strictly smaller value wins -/
def optStep (opt : Option α × α) (p : α × α) : Option α × α :=
  if p.2 < opt.2 then (some p.1, p.2) else opt

/-- optimum of a profile, folded from `(None, 1e6)` -/
def optimum (big : α) (profile : List (α × α)) : Option α × α := profile.foldl optStep (none, big)

def minOf : List α → Option α
  | [] => none
  | x :: xs => some (xs.foldl (fun m y => if y < m then y else m) x)
def maxOf : List α → Option α
  | [] => none
  | x :: xs => some (xs.foldl (fun m y => if m < y then y else m) x)

/-- pH values with dG below `thr` -/
def rangeBelow (thr : α) (profile : List (α × α)) : Option α × Option α :=
  let vs := (profile.filter fun p => p.2 < thr).map (·.1)
  (minOf vs, maxOf vs)

/-- the bisection of `get_pi` for one state, with explicit fuel (the real code recurses until the
    interval is not wider than `precision`) -/
def bisect (f : α → α) (prec : α) (two : α) : Nat → α → α → α → α
  | 0, pH, _, _ => pH
  | fuel+1, pH, lo, hi =>
    if prec < hi - lo then
      if ((0 : Nat) : α) < f pH then bisect f prec two fuel ((pH + hi) / two) pH hi
      else bisect f prec two fuel ((lo + pH) / two) lo pH
    else pH

/-- `get_pi`: (folded, unfolded) -/
def getPi (gs : List (TGroup α)) (lo hi prec two : α) (fuel : Nat) : α × α :=
  (bisect (fun ph => (confCharge gs ph).2) prec two fuel ((lo + hi) / two) lo hi,
   bisect (fun ph => (confCharge gs ph).1) prec two fuel ((lo + hi) / two) lo hi)
end

/-! ### number of grid steps and the window filter (exact, on the 0.001 pH grid) -/

/-- `int(floor((max - min) / step + 1e-9))` evaluated exactly on millionths -/
def numSteps (mn mx step : Int) : Int := ((mx - mn) * 1000000000 + step) / (step * 1000000000)

/-- a profile point is printed iff it lies in the window and on the lattice `window_min + k·delta`
    (all in thousandths, as the code rounds the pH, the bounds and the step to three decimals) -/
def windowRow (wmin wmax start delta ph : Int) : Bool :=
  decide (wmin ≤ ph) && decide (ph ≤ wmax) && decide (delta ≠ 0) && decide ((ph - start) % delta = 0)

end Propka.Profiles
