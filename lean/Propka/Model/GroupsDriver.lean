import Propka.Model.Groups
import Propka.Gen.Cfg
/-! Line-protocol handler: protein / ion census with the shipped tables. -/
namespace Propka.Groups
open Propka Propka.Py Propka.Gen.Cfg

def shippedT : Tables :=
  { mapping := f_protein_group_mapping, classType := creatable.map fun c => (c.1, c.2.1),
    charge := f_charge, ions := f_ions, modelPkas := f_model_pkas, customPkas := f_custom_model_pkas,
    writeOutOrder := f_write_out_order }

def parseAtomInfo (s : String) : Option AtomInfo :=
  match s.splitOn "|" with
  | [typ, name, res, chain, num, icode, term, bo, br] =>
    match num.toInt?, bo.toNat? with
    | some n, some b => some ⟨unhexS typ, unhexS name, unhexS res, unhexS chain, n, unhexS icode, unhexS term, b, br == "1"⟩
    | _, _ => none
  | _ => none

def parseTO (s : String) : Option (List (String × Int × String)) :=
  if s == "-" then none
  else if s == "empty" then some []
  else some ((s.splitOn ",").filterMap fun e => match e.splitOn "|" with
    | [c, n, i] => n.toInt?.map fun n => (unhexS c, n, unhexS i)
    | _ => none)

def showGroup (g : GroupRec) : String :=
  let m := match g.modelPka with | some p => toString p | none => "None"
  s!"{g.cls}|{tohexS g.type}|{tohexS g.residueType}|{g.charge}|{m}|{if g.titratable then 1 else 0}|{if g.reported then 1 else 0}"

/-- `groups census <titrate_only|-> <atom;atom;...>` -/
def handle (args : List String) : String :=
  match args with
  | ["census", to, atoms] =>
    match (atoms.splitOn ";").mapM parseAtomInfo with
    | some as => ";".intercalate (as.map fun a => match mkGroup shippedT (parseTO to) a with
        | some g => showGroup g
        | none => "-")
    | none => "bad-op"
  | _ => "bad-op"
end Propka.Groups
