/-! Model of the determinant bookkeeping of a group: `Determinant`, `Group.calculate_total_pka`,
    `remove_determinants`, `add_determinant` / `__iadd__` / `__truediv__` / `clone`,
    `NonCovalentlyCoupledGroups.transfer_determinant` / `swap_interactions`,
    `couple_non_covalently`, the determinant rows of `get_determinant_string`, and
    `average_of_conformations`.  Generic in the scalar; import-free. -/
namespace Propka.Dets

/-- a determinant: the partner object (`det.group`, identified by its label as `Group.__eq__` does),
    the printed label (`det.label`, which swapping rewrites) and the value -/
structure Det (α : Type) where
  grp : String
  label : String
  value : α
  deriving DecidableEq, Repr

structure GRec (α : Type) where
  label : String
  model : α
  evol : α
  eloc : α
  sc : List (Det α)
  bb : List (Det α)
  cb : List (Det α)
  pka : α
  bridged : Bool
  coupled : List String        -- labels of `non_covalently_coupled_groups`
  deriving Repr

section
variable {α : Type} [Add α] [Div α] [NatCast α]

def dsum (z : α) (ds : List (Det α)) : α := ds.foldl (fun acc d => acc + d.value) z

/-- `Group.calculate_total_pka`; `fixed` is 99.99 -/
def calculateTotal (fixed : α) (g : GRec α) : GRec α :=
  if g.bridged then { g with pka := fixed }
  else { g with pka := dsum (dsum (dsum (g.model + g.evol + g.eloc) g.sc) g.bb) g.cb }

/-- `Group.remove_determinants(labels)` -/
def removeDeterminants (labels : List String) (g : GRec α) : GRec α :=
  { g with sc := g.sc.filter (fun d => !labels.contains d.label),
           bb := g.bb.filter (fun d => !labels.contains d.label),
           cb := g.cb.filter (fun d => !labels.contains d.label) }

def relabel (l : String) (d : Det α) : Det α := { d with label := l }

/-- `transfer_determinant(determinants1, determinants2, label1, label2)` -/
def transfer (d1 d2 : List (Det α)) (l1 l2 : String) : List (Det α) × List (Det α) :=
  (d1.filter (fun d => d.label ≠ l2) ++ (d2.filter (fun d => d.label = l1)).map (relabel l2),
   d2.filter (fun d => d.label ≠ l1) ++ (d1.filter (fun d => d.label = l2)).map (relabel l1))

/-- `swap_interactions([g1], [g2])`: Coulomb and side-chain determinants, then both totals -/
def swap (fixed : α) (g1 g2 : GRec α) : GRec α × GRec α :=
  let c := transfer g1.cb g2.cb g1.label g2.label
  let s := transfer g1.sc g2.sc g1.label g2.label
  (calculateTotal fixed { g1 with cb := c.1, sc := s.1 }, calculateTotal fixed { g2 with cb := c.2, sc := s.2 })

/-- `Group.add_determinant`: add to the first determinant towards the same partner, else append a
    fresh `Determinant(partner, value)` (whose label is the partner's) -/
def addDet : List (Det α) → Det α → List (Det α)
  | [], d => [{ grp := d.grp, label := d.grp, value := d.value }]
  | x :: xs, d => if x.grp = d.grp then { x with value := x.value + d.value } :: xs else x :: addDet xs d

/-- the numeric fields `__iadd__` / `__truediv__` touch besides the determinants -/
structure Acc (α : Type) where
  pka : α
  evol : α
  eloc : α
  sc : List (Det α)
  bb : List (Det α)
  cb : List (Det α)

/-- `Group.__iadd__` -/
def iadd (a : Acc α) (g : GRec α) : Acc α :=
  { pka := a.pka + g.pka, evol := a.evol + g.evol, eloc := a.eloc + g.eloc,
    sc := g.sc.foldl addDet a.sc, bb := g.bb.foldl addDet a.bb, cb := g.cb.foldl addDet a.cb }

def scaleDets (ds : List (Det α)) (n : α) : List (Det α) := ds.map fun d => { d with value := d.value / n }

/-- `Group.__truediv__` -/
def divAcc (a : Acc α) (n : α) : Acc α :=
  { pka := a.pka / n, evol := a.evol / n, eloc := a.eloc / n,
    sc := scaleDets a.sc n, bb := scaleDets a.bb n, cb := scaleDets a.cb n }

/-- the average of the records found for one group: `clone()` starts from zero, every found record is
    added, the sum is divided by the number of records found -/
def average (z : α) (found : List (GRec α)) : Acc α :=
  divAcc (found.foldl iadd ⟨z, z, z, [], [], []⟩) ((found.length : Nat) : α)
end

/-! ### determinant rows of the .pka table -/
/-- line `i` of a group's block: the i-th determinant of each kind, or the filler -/
def rowsOf {β : Type} (sc bb cb : List β) : List (Option β × Option β × Option β) :=
  (List.range (max 1 (max sc.length (max bb.length cb.length)))).map fun i => (sc[i]?, bb[i]?, cb[i]?)

/-! ### couple_non_covalently on the coupled lists (state: label ↦ list of labels) -/
abbrev Coupling := String → List String
def appendIfNew (s : Coupling) (a x : String) : Coupling := fun k => if k = a then (if x ∈ s a then s a else s a ++ [x]) else s k
/-- `group1.couple_non_covalently(group2)` -/
def couple (s : Coupling) (a b : String) : Coupling := appendIfNew (appendIfNew s a b) b a

end Propka.Dets
