/-! Model of the determinant bookkeeping of a group: `Determinant`, `Group.calculate_total_pka`,
    `remove_determinants`, `add_determinant` / `__iadd__` / `__truediv__` / `clone`,
    `NonCovalentlyCoupledGroups.transfer_determinant` / `swap_interactions`,
    `couple_non_covalently`, the determinant rows of `get_determinant_string`, and
    `average_of_conformations`.  Generic in the scalar; import-free. -/
namespace Propka.Dets

/-- a determinant: the partner object (`det.group`, identified by its label as `Group.__eq__` does),
    the printed label (`det.label`, which swapping rewrites) and the value -/
structure Det (α : Type) where
  grp : String
  label : String
  value : α
  deriving DecidableEq, Repr

structure GRec (α : Type) where
  label : String
  model : α
  evol : α
  eloc : α
  sc : List (Det α)
  bb : List (Det α)
  cb : List (Det α)
  pka : α
  bridged : Bool
  coupled : List String        -- labels of `non_covalently_coupled_groups`
  deriving Repr

section
variable {α : Type} [Add α] [Div α] [NatCast α]

def dsum (z : α) (ds : List (Det α)) : α := ds.foldl (fun acc d => acc + d.value) z

/-- `Group.calculate_total_pka`; `fixed` is 99.99 -/
def calculateTotal (fixed : α) (g : GRec α) : GRec α :=
  if g.bridged then { g with pka := fixed }
  else { g with pka := dsum (dsum (dsum (g.model + g.evol + g.eloc) g.sc) g.bb) g.cb }

/-- `Group.remove_determinants(labels)` -/
def removeDeterminants (labels : List String) (g : GRec α) : GRec α :=
  { g with sc := g.sc.filter (fun d => !labels.contains d.label),
           bb := g.bb.filter (fun d => !labels.contains d.label),
           cb := g.cb.filter (fun d => !labels.contains d.label) }

def relabel (l : String) (d : Det α) : Det α := { d with label := l }

/-- `transfer_determinant(determinants1, determinants2, label1, label2)` -/
def transfer (d1 d2 : List (Det α)) (l1 l2 : String) : List (Det α) × List (Det α) :=
  (d1.filter (fun d => d.label ≠ l2) ++ (d2.filter (fun d => d.label = l1)).map (relabel l2),
   d2.filter (fun d => d.label ≠ l1) ++ (d1.filter (fun d => d.label = l2)).map (relabel l1))

/-- `swap_interactions([g1], [g2])`: Coulomb and side-chain determinants, then both totals -/
def swap (fixed : α) (g1 g2 : GRec α) : GRec α × GRec α :=
  let c := transfer g1.cb g2.cb g1.label g2.label
  let s := transfer g1.sc g2.sc g1.label g2.label
  (calculateTotal fixed { g1 with cb := c.1, sc := s.1 }, calculateTotal fixed { g2 with cb := c.2, sc := s.2 })

/-- `Group.add_determinant`: add to the first determinant towards the same partner, else append a
    fresh `Determinant(partner, value)` (whose label is the partner's) -/
def addDet : List (Det α) → Det α → List (Det α)
  | [], d => [{ grp := d.grp, label := d.grp, value := d.value }]
  | x :: xs, d => if x.grp = d.grp then { x with value := x.value + d.value } :: xs else x :: addDet xs d

/-- the numeric fields `__iadd__` / `__truediv__` touch besides the determinants -/
structure Acc (α : Type) where
  pka : α
  evol : α
  eloc : α
  sc : List (Det α)
  bb : List (Det α)
  cb : List (Det α)

/-- `Group.__iadd__` -/
def iadd (a : Acc α) (g : GRec α) : Acc α :=
  { pka := a.pka + g.pka, evol := a.evol + g.evol, eloc := a.eloc + g.eloc,
    sc := g.sc.foldl addDet a.sc, bb := g.bb.foldl addDet a.bb, cb := g.cb.foldl addDet a.cb }

def scaleDets (ds : List (Det α)) (n : α) : List (Det α) := ds.map fun d => { d with value := d.value / n }

/-- `Group.__truediv__` -/
def divAcc (a : Acc α) (n : α) : Acc α :=
  { pka := a.pka / n, evol := a.evol / n, eloc := a.eloc / n,
    sc := scaleDets a.sc n, bb := scaleDets a.bb n, cb := scaleDets a.cb n }

/-- the average of the records found for one group: `clone()` starts from zero, every found record is
    added, the sum is divided by the number of records found -/
def average (z : α) (found : List (GRec α)) : Acc α :=
  divAcc (found.foldl iadd ⟨z, z, z, [], [], []⟩) ((found.length : Nat) : α)

/-- the other numeric fields `__iadd__` / `__truediv__` treat alike (`num_volume`, `num_local`, `buried`):
    summed onto the fresh clone's zero, divided by the number of records found -/
def avgScalar (z : α) (xs : List α) : α := xs.foldl (fun a x => a + x) z / ((xs.length : Nat) : α)
end

/-! ### the probe of one pair: `NonCovalentlyCoupledGroups.is_coupled_protonation_state_probability` -/
/-- the thresholds the probe reads from the parameters -/
structure ProbeP (α : Type) where
  minInter : α      -- min_interaction_energy
  minPka : α        -- min_pka
  maxPka : α        -- max_pka
  maxEdiff : α      -- max_free_energy_diff
  minShift : α      -- min_swap_pka_shift
  maxIntr : α       -- max_intrinsic_pka_diff
  ph : Option α     -- `none`: pH 'variable' (the smaller of the two pKa values is used)

/-- the dictionary returned for a coupled pair (the three scaling factors separately; the code returns their product) -/
structure ProbeRes (α : Type) where
  defaultE : α
  swappedE : α
  inter : α
  sp1 : α
  sp2 : α
  sh1 : α
  sh2 : α
  ph : α
  fE : α
  fP : α
  fI : α

section
variable {α : Type} [Add α] [Sub α] [Mul α] [Div α] [Neg α] [NatCast α] [LT α] [LE α] [DecidableLT α] [DecidableLE α]

/-- Python's `max(a, b)` / `min(a, b)` / `abs(x)` (first maximal / minimal argument; `+ 0` turns −0.0 into 0.0) -/
def pyMax (a b : α) : α := if a < b then b else a
def pyMin (a b : α) : α := if b < a then b else a
def pyAbs (x : α) : α := if x < ((0:Nat):α) then -x else x + ((0:Nat):α)

/-- `get_interaction(group1, group2)`: side-chain then Coulomb determinants of `g1` whose partner is `g2` -/
def interaction (g1 g2 : GRec α) : α :=
  (g1.sc ++ g1.cb).foldl (fun acc d => if d.grp = g2.label then acc + d.value else acc) ((0:Nat):α)

def sq (x : α) : α := x * x
def energyFactor (p : ProbeP α) (e1 e2 : α) : α :=
  let d := pyAbs (e1 - e2)
  if d ≤ p.maxEdiff then ((1:Nat):α) - sq (d / p.maxEdiff) else ((0:Nat):α)
def pkaFactor (p : ProbeP α) (i1 i2 : α) : α :=
  let d := pyAbs (i1 - i2)
  if d ≤ p.maxIntr then ((1:Nat):α) - sq (d / p.maxIntr) else ((0:Nat):α)
def interFactor (p : ProbeP α) (ie : α) : α :=
  let a := pyAbs ie
  if p.minInter ≤ a then (a - p.minInter) / (((1:Nat):α) + a - p.minInter) else ((0:Nat):α)

/-- the probe with `return_on_fail=True`: the state of the two groups afterwards, and the result for a coupled pair
    (`none`: `{'coupling_factor': -1.0}`).  `energy ph g1 g2` is the folding energy as a function of the state of the pair;
    `i1 i2` the intrinsic pKa values. -/
def probe (fixed : α) (p : ProbeP α) (energy : α → GRec α → GRec α → α) (i1 i2 : α) (g1 g2 : GRec α) :
    (GRec α × GRec α) × Option (ProbeRes α) :=
  let ie := pyMax (interaction g1 g2) (interaction g2 g1)
  if ie ≤ p.minInter then ((g1, g2), none) else
  let ph := match p.ph with | some v => v | none => pyMin g1.pka g2.pka
  let e0 := energy ph g1 g2
  if pyMax g1.pka g2.pka < p.minPka ∨ p.maxPka < pyMin g1.pka g2.pka then ((g1, g2), none) else
  let s := swap fixed g1 g2
  let e1 := energy ph s.1 s.2
  let sh1 := s.1.pka - g1.pka
  let sh2 := s.2.pka - g2.pka
  let b := swap fixed s.1 s.2
  if p.maxEdiff < pyAbs (e0 - e1) then (b, none)
  else if pyMax (pyAbs sh1) (pyAbs sh2) < p.minShift then (b, none)
  else if p.maxIntr < pyAbs (i1 - i2) then (b, none)
  else (b, some { defaultE := e0, swappedE := e1, inter := ie, sp1 := s.1.pka, sp2 := s.2.pka, sh1 := sh1, sh2 := sh2, ph := ph,
                  fE := energyFactor p e0 e1, fP := pkaFactor p i1 i2, fI := interFactor p ie })
end

section
variable {α : Type} [Add α] [Sub α] [Mul α] [Div α] [Neg α] [NatCast α] [LT α] [LE α] [DecidableLT α] [DecidableLE α]
/-- `identify_non_covalently_coupled_groups` with the display switched off, on the table of group records: the probe of
    every visited pair, one after the other, each writing back the state it leaves on its two groups.  `energy gs` is the
    folding energy of the conformation in state `gs` as a function of the state of the probed pair, `intr` the intrinsic
    pKa of a record; `dflt` stands in for an index outside the table. -/
def identify (fixed : α) (p : ProbeP α) (energy : Array (GRec α) → α → GRec α → GRec α → α) (intr : GRec α → α) (dflt : GRec α)
    (pairs : List (Nat × Nat)) (gs : Array (GRec α)) : Array (GRec α) :=
  pairs.foldl (fun gs ab =>
    let r := probe fixed p (energy gs) (intr (gs.getD ab.1 dflt)) (intr (gs.getD ab.2 dflt)) (gs.getD ab.1 dflt) (gs.getD ab.2 dflt)
    (gs.setIfInBounds ab.1 r.1.1).setIfInBounds ab.2 r.1.2) gs
end

/-! ### determinant rows of the .pka table -/
/-- line `i` of a group's block: the i-th determinant of each kind, or the filler -/
def rowsOf {β : Type} (sc bb cb : List β) : List (Option β × Option β × Option β) :=
  (List.range (max 1 (max sc.length (max bb.length cb.length)))).map fun i => (sc[i]?, bb[i]?, cb[i]?)

/-! ### couple_non_covalently on the coupled lists (state: label ↦ list of labels) -/
abbrev Coupling := String → List String
def appendIfNew (s : Coupling) (a x : String) : Coupling := fun k => if k = a then (if x ∈ s a then s a else s a ++ [x]) else s k
/-- `group1.couple_non_covalently(group2)` -/
def couple (s : Coupling) (a b : String) : Coupling := appendIfNew (appendIfNew s a b) b a

end Propka.Dets
