import Propka.Model.Pipeline
import Propka.Model.Program
import Propka.Model.Output
import Propka.Model.PdbDriver
import Propka.Model.ScoringDriver
import Propka.Model.GroupsDriver
import Propka.Gen.Bonds
import Propka.Gen.Protonate
import Propka.Gen.Pipeline
import Propka.Gen.Consts
import Propka.Model.ResList
/-! Line-protocol handler for the set-up pipeline at `Float`, with the tables regenerated from /repo. -/
namespace Propka.Pipe
open Propka Propka.Py Propka.Scoring

def lk {β : Type} (l : List (String × β)) (k : String) : Option β := (l.find? fun e => e.1 == k).map (·.2)

def microF (n : Int) : Float := decToFloat (n, 6)
def ofIntF (n : Int) : Float := if n < 0 then -(Float.ofNat n.natAbs) else Float.ofNat n.natAbs

/-- the shipped tables -/
def shippedPP : PP Float :=
  { bond := ⟨Gen.bondDistsF, Gen.hDistF, Gen.defaultDistF, Gen.boxF⟩, offsets := Gen.bondOffsets,
    valence := lk Gen.Protonate.valenceElectrons, bondLen := lk Gen.Pipeline.bondLengths,
    stdCharge := lk Gen.Protonate.standardCharges, sybCharge := lk Gen.Protonate.sybylCharges,
    piSide := lk Gen.Pipeline.piSide, piConjSide := lk Gen.Pipeline.piConjSide, piBB := lk Gen.Pipeline.piBB,
    piConjBB := lk Gen.Pipeline.piConjBB, piLig := lk Gen.Pipeline.piLig, piConjLig := lk Gen.Pipeline.piConjLig,
    rnd := Prot.roundV, deg120 := Prot.radians 120.0, deg1095 := Prot.radians 109.5, deg90 := Prot.radians 90,
    tripleSq := Gen.Pipeline.tripleSq, doubleSq := Gen.Pipeline.doubleSq, margin := Gen.Pipeline.margin,
    T := Groups.shippedT, ligandTyping := Gen.Cfg.f_ligand_typing,
    maxCouplingBonds := (Gen.Cfg.f_coupling_max_number_of_bonds / 1000000).toNat,
    uniMul := Gen.Pipeline.unicodeMultiplier, resMul := Gen.Pipeline.residueMultiplier,
    micro := microF, ofInt := ofIntF }

/-- `het|name|elem|resName|chain|resNum|icode|terminal|x|y|z|registered` -/
def parseIn (s : String) : Option (PAtom Float) :=
  match s.splitOn "|" with
  | [h, n, e, r, c, num, ic, t, x, y, z, rg] =>
    match intOf num, ofBits? x, ofBits? y, ofBits? z with
    | some num, some x, some y, some z =>
      let d : PAtom Float := PAtom.dflt
      some { d with reg := rg == "1", het := h == "1", name := unhexS n, elem := unhexS e, resName := unhexS r, chain := unhexS c, resNum := num, icode := unhexS ic, terminal := unhexS t, pos := ⟨x, y, z⟩, live := true }
    | _, _, _, _ => none
  | _ => none

def showNats (l : List Nat) : String := if l.isEmpty then "-" else ",".intercalate (l.map toString)

/-- an atom in the format of the scoring request, followed by its SYBYL type -/
def showAtom (a : PAtom Float) : String :=
  "|".intercalate [tohexS a.elem, tohexS a.name, tohexS a.gtype, showNats a.bonded, fbits a.pos.x, fbits a.pos.y, fbits a.pos.z,
    toString a.resNum, tohexS a.chain, tohexS a.sybyl]

/-- a group in the format of the scoring request, followed by the class name -/
def showGroup (atoms : Array (PAtom Float)) (g : PGroup Float) : String :=
  let a := atoms.getD g.atom PAtom.dflt
  "|".intercalate [tohexS g.type, tohexS g.resType, tohexS g.label, if a.het then "0" else "1", toString a.resNum, fbits g.q, fbits g.model,
    if g.titratable then "1" else "0", if a.bridged then "1" else "0", toString g.atom, showNats g.iaAcid, showNats g.iaBase, showNats g.cov,
    fbits g.centre.x, fbits g.centre.y, fbits g.centre.z, g.cls, if g.excludeCys then "1" else "0"]

/-- the parameters of the coupling search, regenerated from /repo -/
def shippedCP : CoupleSearch.CP Float :=
  { probe := ⟨microF Gen.Cfg.f_min_interaction_energy, microF Gen.Cfg.f_min_pka, microF Gen.Cfg.f_max_pka, microF Gen.Cfg.f_max_free_energy_diff,
              microF Gen.Cfg.f_min_swap_pka_shift, microF Gen.Cfg.f_max_intrinsic_pka_diff,
              if Gen.Cfg.f_pH == "variable" then none else pyFloat Gen.Cfg.f_pH.toList⟩,
    scaling := Gen.Consts.group_UNK_PKA_SCALINGF, fixed := Gen.Scoring.fixedPka, titratableTypes := Gen.Pipeline.intrinsicExcluded }

/-- the --titrate_only list: `-` (none), the parsed list as the harness spells it, or `raw:<hex>` - the text of the option as the
    command line has it, parsed by the model of `parse_res_list` -/
def titrateOnlyOf (to : String) : Option (List (String × Int × String)) :=
  if to.startsWith "raw:" then
    match ResList.parseResList (unhex (to.toList.drop 4)) with
    | .ok l => some (l.map fun e => (str e.1, e.2.1, String.singleton e.2.2))
    | .error _ => none
  else Groups.parseTO to

def optsOf (pa to : String) : Opts := ⟨pa == "1", titrateOnlyOf to⟩

/-- the scoring model run on a prepared conformation -/
def scoreOf (rp : String) (r : Prepared Float) : String :=
  let removePen := if rp == "-" then Gen.Scoring.removePenalised else rp == "1"
  match shipped removePen with
  | none => "bad-params"
  | some p =>
    let z : Angle.P3 Float := ⟨0, 0, 0⟩
    let atab : Tab AtomT := ⟨r.atoms.size, fun i => let a := r.atoms.getD i PAtom.dflt; ⟨a.elem, a.name, a.gtype, a.bonded⟩⟩
    let dg : GroupT Float := GroupT.dflt
    let gr : Tab (GroupT Float) := ⟨r.groups.size, fun i => match r.groups[i]? with
      | some g => ⟨g.type, g.resType, g.q, g.model, g.titratable, (r.atoms.getD g.atom PAtom.dflt).bridged, g.atom, g.iaAcid, g.iaBase, g.cov⟩
      | none => dg⟩
    let apos : Nat → Angle.P3 Float := fun i => match r.atoms[i]? with | some a => ⟨a.pos.x, a.pos.y, a.pos.z⟩ | none => z
    let gpos : Nat → Angle.P3 Float := fun i => match r.groups[i]? with | some g => ⟨g.centre.x, g.centre.y, g.centre.z⟩ | none => z
    let ares : Nat → ResKey := fun i => match r.atoms[i]? with | some a => (a.resNum, a.chain) | none => (0, "")
    let gid : Nat → GroupId := fun i => match r.groups[i]? with
      | some g => let a := r.atoms.getD g.atom PAtom.dflt; ⟨g.label, !a.het, a.resNum⟩
      | none => ⟨"", true, 0⟩
    let env := envOf apos gpos ares (fun g => ares (gr.get g).atom) gid
    let out := score p env atab gr
    if out.isEmpty then "-" else ";".intercalate (out.map showOut)

/-- `pipe prep <protonate_all 0|1> <titrate_only|-|empty> <atoms ;-separated>` -> `<atoms>#<groups>` as the code holds them when
    `calculate_pka` starts; `pipe score <remove_penalised 0|1|-> <pa> <to> <atoms>` -> additionally `#<records of Scoring.score>` -/
def handle (args : List String) : String :=
  let run (pa to as : String) : Option (Option (Prepared Float)) :=
    match (if as == "-" then some [] else (as.splitOn ";").mapM parseIn) with
    | none => none
    | some atoms => some (prepare shippedPP (optsOf pa to) atoms.toArray)
  let showPrep (r : Prepared Float) : String :=
    (if r.atoms.isEmpty then "-" else ";".intercalate (r.atoms.toList.map showAtom)) ++ "#" ++
    (if r.groups.isEmpty then "-" else ";".intercalate (r.groups.toList.map (showGroup r.atoms))) ++ "~" ++
    ",".intercalate (r.chains.map tohexS)
  match args with
  | ["prep", pa, to, as] =>
    match run pa to as with
    | none => "bad-op"
    | some none => "valueerror"
    | some (some r) => showPrep r
  | ["score", rp, pa, to, as] =>
    match run pa to as with
    | none => "bad-op"
    | some none => "valueerror"
    | some (some r) => showPrep r ++ "#" ++ scoreOf rp r
  | ["pdb", rp, pa, to, keep, chains, ign, gw, file] =>
    -- the whole program on a PDB text: `<name>@<atoms>#<groups>#<records>` per conformation, `&`-separated
    let lines := if file == "-" then [] else (file.splitOn ",").map (fun h => unhex h.toList)
    let po : Pdb.Opts := { ignore := if ign == "default" then Gen.Cfg.f_ignore_residues else Pdb.csvHex ign,
                           keepProtons := keep.startsWith "1", chains := Pdb.csvHex chains }
    let removePen := if rp == "-" then Gen.Scoring.removePenalised else rp == "1"
    match shipped removePen with
    | none => "bad-params"
    | some sp =>
      match Program.run shippedPP sp (fun m d => decToFloat (m, d)) po (optsOf pa to) lines with
      | .error e => "err:" ++ Pdb.showErr e
      | .ok confs =>
        let showD (ds : List (Dets.Det Float)) : String :=
          if ds.isEmpty then "-" else ",".intercalate (ds.map fun d => s!"{tohexS d.label}:{fbits d.value}")
        let avr := match Program.averageRun shippedCP (keep.endsWith "d") confs with
          | none => "valueerror"
          | some gs => if gs.isEmpty then "-" else ";".intercalate (gs.map fun g =>
              "|".intercalate [tohexS g.label, tohexS g.type, fbits g.acc.pka, fbits g.nv, fbits g.acc.evol, fbits g.acc.eloc, fbits g.buried,
                showD g.acc.sc, showD g.acc.bb, showD g.acc.cb])
        -- grid and window of the options: six bit patterns
        let gwv := (gw.splitOn ",").filterMap ofBits?
        let sections := match Program.averageRun shippedCP (keep.endsWith "d") confs, Pdb.parse po lines, gwv with
          | some gs, .ok recs, [g0, g1, g2, w0, w1, w2] =>
            tohexS (Output.determinantRows removePen Gen.Cfg.f_write_out_order (Output.chainsOf confs) gs) ++ "#" ++
            tohexS (Output.summaryRows removePen Gen.Cfg.f_write_out_order gs) ++ "#" ++
            tohexS (Output.foldingSection Gen.Consts.group_UNK_PKA_SCALINGF (g0, g1, g2) (w0, w1, w2) gs) ++ "#" ++
            tohexS (Output.chargeSection (g0, g1, g2) gs)
          | _, _, _ => "-#-"
        "&".intercalate ((confs.map fun c => match c.2 with
          | none => c.1 ++ "@valueerror"
          | some (r, out) => c.1 ++ "@" ++ showPrep r ++ "#" ++ (if out.isEmpty then "-" else ";".intercalate (out.map showOut))) ++ ["AVR@" ++ avr, "TXT@" ++ sections])
  | _ => "bad-op"

end Propka.Pipe
