import Propka.Model.Scoring
import Propka.Model.PyStr
import Propka.Gen.Scoring
/-! Line-protocol handler for the scoring model at `Float`.  The parameters are the regenerated ones
    (`Gen/Scoring.lean`, read from /repo on every run); the request carries the state the code holds when
    `calculate_pka` starts. -/
namespace Propka.Scoring
open Propka Propka.Py Propka.Energy

def lookup2 (l : List (String × String × Float × Float)) (d : Float × Float) (a b : String) : Float × Float :=
  match l.find? fun e => e.1 == a && e.2.1 == b with
  | some e => e.2.2
  | none => d

def lookup3 (l : List (String × Float × Float × Float)) (k : String) : Option (Float × Float × Float) :=
  (l.find? fun e => e.1 == k).map (·.2)

def mkEP15 : List Float → Option (EP Float)
  | [a,b,c,d,e,f,g,h,i,j,k,l,m,n,o] => some ⟨a,b,c,d,e,f,g,h,i,j,k,l,m,n,o⟩
  | _ => none

/-- the shipped parameters, as regenerated from /repo -/
def shipped (removePen : Bool) : Option (SP Float) :=
  match mkEP15 Gen.Scoring.ep, Gen.Scoring.exceptions with
  | some ep, [cooHis, ocoHis, cysHis, cysCys] => some
    { ep := ep, desolvCut2 := Gen.Scoring.desolvCut2, buriedCut2 := Gen.Scoring.buriedCut2, cc2sq := Gen.Scoring.cc2sq,
      vdwC4 := Gen.Scoring.vdwC4, vdwOf := fun e => (Gen.Scoring.vdw.find? fun x => x.1 == e).map (·.2),
      scInt := Gen.Scoring.scInt, scCut := lookup2 Gen.Scoring.scPairs Gen.Scoring.scDefault,
      bbNH := lookup3 Gen.Scoring.bbNH, bbCO := lookup3 Gen.Scoring.bbCO,
      imat := fun a b => (Gen.Scoring.imat.find? fun e => e.1 == a && e.2.1 == b).map (·.2.2),
      angular := Gen.Scoring.angular.contains, baseRes := Gen.Scoring.baseList.contains, exclRes := Gen.Scoring.exclList.contains,
      reorgRes := Gen.Scoring.reorgList.contains, ionRes := Gen.Scoring.ionKeys.contains,
      cooHis := cooHis, ocoHis := ocoHis, cysHis := cysHis, cysCys := cysCys,
      combMax := Gen.Scoring.combMax, sepMax := Gen.Scoring.sepMax, minBond := Gen.Scoring.minBond, minV := Gen.Scoring.minV,
      fangleMin := Gen.Scoring.fangleMin, fixed := Gen.Scoring.fixedPka, removePenalised := removePen }
  | _, _ => none

def natList (s : String) : Option (List Nat) := if s == "-" then some [] else (s.splitOn ",").mapM (·.toNat?)
def intOf (s : String) : Option Int := parseInt s.toList

structure AtomIn where
  t : AtomT
  pos : Angle.P3 Float
  res : ResKey

def parseAtom (s : String) : Option AtomIn :=
  match s.splitOn "|" with
  | [e, n, g, b, x, y, z, r, c] =>
    match natList b, ofBits? x, ofBits? y, ofBits? z, intOf r with
    | some b, some x, some y, some z, some r => some ⟨⟨unhexS e, unhexS n, unhexS g, b⟩, ⟨x, y, z⟩, (r, unhexS c)⟩
    | _, _, _, _, _ => none
  | _ => none

structure GroupIn where
  g : GroupT Float
  pos : Angle.P3 Float
  id : GroupId

def parseGroup (s : String) : Option GroupIn :=
  match s.splitOn "|" with
  | [ty, rt, lb, pr, rn, q, m, ti, br, at_, ia, ib, cv, x, y, z] =>
    match intOf rn, ofBits? q, ofBits? m, at_.toNat?, natList ia, natList ib, natList cv, ofBits? x, ofBits? y, ofBits? z with
    | some rn, some q, some m, some at_, some ia, some ib, some cv, some x, some y, some z =>
      some ⟨⟨unhexS ty, unhexS rt, q, m, ti == "1", br == "1", at_, ia, ib, cv⟩, ⟨x, y, z⟩, ⟨unhexS lb, pr == "1", rn⟩⟩
    | _, _, _, _, _, _, _, _, _, _ => none
  | _ => none

def showDets (ds : List (Det Float)) : String :=
  if ds.isEmpty then "-" else ",".intercalate (ds.map fun d => s!"{d.partner}:{fbits d.value}")

def showOut (o : GOut Float) : String :=
  let c := match o.ctg with
    | some c => toString c
    | none => "-"
  s!"{o.nv}|{fbits o.buried}|{fbits o.evol}|{fbits o.eloc}|{showDets o.sc}|{showDets o.bb}|{showDets o.cb}|{fbits o.pka}|{c}"

/-- the regenerated parameters as the driver holds them, for the read-back comparison with the current `Parameters` object -/
def dumpParams : String :=
  let fl (xs : List Float) := ",".intercalate (xs.map fbits)
  let s3 (l : List (String × Float × Float × Float)) := ";".intercalate (l.map fun e => s!"{tohexS e.1}:{fbits e.2.1}:{fbits e.2.2.1}:{fbits e.2.2.2}")
  " ".intercalate [
    "ep=" ++ fl Gen.Scoring.ep,
    "cut=" ++ fl [Gen.Scoring.desolvCut2, Gen.Scoring.buriedCut2, Gen.Scoring.cc2sq, Gen.Scoring.vdwC4, Gen.Scoring.scInt, Gen.Scoring.scDefault.1,
                  Gen.Scoring.scDefault.2, Gen.Scoring.combMax, Gen.Scoring.sepMax, Gen.Scoring.minV, Gen.Scoring.fangleMin, Gen.Scoring.fixedPka],
    "exc=" ++ fl Gen.Scoring.exceptions,
    "vdw=" ++ ";".intercalate (Gen.Scoring.vdw.map fun e => s!"{tohexS e.1}:{fbits e.2}"),
    "sc=" ++ ";".intercalate (Gen.Scoring.scPairs.map fun e => s!"{tohexS e.1}:{tohexS e.2.1}:{fbits e.2.2.1}:{fbits e.2.2.2}"),
    "nh=" ++ s3 Gen.Scoring.bbNH, "co=" ++ s3 Gen.Scoring.bbCO,
    "im=" ++ ";".intercalate (Gen.Scoring.imat.map fun e => s!"{tohexS e.1}:{tohexS e.2.1}:{e.2.2.toNat}"),
    "lists=" ++ "|".intercalate ([Gen.Scoring.angular, Gen.Scoring.baseList, Gen.Scoring.exclList, Gen.Scoring.reorgList, Gen.Scoring.ionKeys].map
      fun l => ",".intercalate (l.map tohexS)),
    s!"minBond={Gen.Scoring.minBond}", s!"rp={Gen.Scoring.removePenalised}", s!"shared={Gen.Scoring.sharedDeterminants}"]

/-- `scoring run <removePenalised: 0|1|-> <atoms ;-separated> <groups ;-separated>` -> one record per group, `;`-separated;
    `scoring shared` -> whether the shipped file sets shared_determinants (outside the model) -/
def handle (args : List String) : String :=
  match args with
  | ["params"] => dumpParams
  | ["shared"] => if Gen.Scoring.sharedDeterminants then "1" else "0"
  | ["run", rp, as, gs] =>
    let removePen := if rp == "-" then Gen.Scoring.removePenalised else rp == "1"
    match shipped removePen, (if as == "-" then some [] else (as.splitOn ";").mapM parseAtom),
          (if gs == "-" then some [] else (gs.splitOn ";").mapM parseGroup) with
    | some p, some atoms, some groups =>
      let aarr := atoms.toArray
      let garr := groups.toArray
      let z : Angle.P3 Float := ⟨0, 0, 0⟩
      let atab : Tab AtomT := ⟨aarr.size, fun i => ((aarr[i]?).map (·.t)).getD default⟩
      let gr : Tab (GroupT Float) := ⟨garr.size, fun i => ((garr[i]?).map (·.g)).getD GroupT.dflt⟩
      let ares : Nat → ResKey := fun i => ((aarr[i]?).map (·.res)).getD (0, "")
      let env := envOf (fun i => ((aarr[i]?).map (·.pos)).getD z) (fun i => ((garr[i]?).map (·.pos)).getD z) ares
        (fun g => ares (gr.get g).atom) (fun i => ((garr[i]?).map (·.id)).getD ⟨"", true, 0⟩)
      let out := score p env atab gr
      if out.isEmpty then "-" else ";".intercalate (out.map showOut)
    | _, _, _ => "bad-op"
  | _ => "bad-op"

end Propka.Scoring
