import Propka.Model.Pdb
/-! Helper lemmas for C01 / C13 / C07: the terminus bookkeeping keyed by a coarse key simulates the
    one keyed by residue identity; skipped records do not touch the state. -/
namespace Propka.Pdb
open Propka.Py

def Rec.mapKey {κ κ' : Type} (f : κ → κ') (r : Rec κ) : Rec κ' :=
  { kind := r.kind, isN := r.isN, isOxt := r.isOxt, key := f r.key, skip := r.skip }

/-- states correspond: the code's keys are the images of the specification's residues -/
def Rel {κ κ' : Type} (f : κ → κ') (c : St κ') (t : St κ) : Prop :=
  (c.nterm = .next ↔ t.nterm = .next) ∧
  (∀ k, t.nterm = .key k → c.nterm = .key (f k)) ∧
  c.old = t.old.map f

/-- agreement: on the residues the specification state remembers, equality of code keys coincides
    with identity of residues -/
def Agree {κ κ' : Type} (f : κ → κ') (t : St κ) (r : Rec κ) : Prop :=
  (∀ k, t.old = some k → (f r.key = f k ↔ r.key = k)) ∧
  (∀ k, t.nterm = .key k → (f r.key = f k ↔ r.key = k))

theorem step_sim {κ κ' : Type} [DecidableEq κ] [DecidableEq κ'] (f : κ → κ') (c : St κ') (t : St κ) (r : Rec κ)
    (hrel : Rel f c t) (hag : Agree f t r) :
    Rel f (step c (r.mapKey f)).1 (step t r).1 ∧ (step c (r.mapKey f)).2 = (step t r).2 := by
  obtain ⟨cn, co⟩ := c
  obtain ⟨tn, to⟩ := t
  obtain ⟨kind, isN, isOxt, key, skip⟩ := r
  obtain ⟨h1, h2, h3⟩ := hrel
  obtain ⟨a1, a2⟩ := hag
  simp only at h1 h2 h3 a1 a2
  unfold step
  simp only [Rec.mapKey]
  cases kind <;> simp only [Rel]
  case model => grind
  case ter => grind
  case other => grind
  case hetatm => grind
  case atom =>
    cases skip
    case true => simp only [if_true]; grind
    case false =>
      simp only [Bool.false_eq_true, if_false]
      cases tn with
      | next =>
        have hc : cn = .next := h1.mpr rfl
        subst hc
        cases to with
        | none =>
          simp only [Option.map_none] at h3; subst h3
          cases isOxt <;> simp
        | some k =>
          simp only [Option.map_some] at h3; subst h3
          have hk := a1 k rfl
          by_cases hr : key = k
          · subst hr; cases isOxt <;> simp
          · have hn : ¬ f key = f k := fun h => hr (hk.mp h)
            have hn' : ¬ f k = f key := fun h => hn h.symm
            have hr' : ¬ k = key := fun h => hr h.symm
            cases isOxt <;> simp [hr', hn']
      | key k =>
        have hc : cn = .key (f k) := h2 k rfl
        subst hc
        have hk := a2 k rfl
        by_cases hr : key = k
        · subst hr; cases isOxt <;> simp [h3]
        · have hn : ¬ f key = f k := fun h => hr (hk.mp h)
          have hn' : ¬ f k = f key := fun h => hn h.symm
          have hr' : ¬ k = key := fun h => hr h.symm
          cases isOxt <;> simp [hr', hn', h3]

/-- agreement along the whole specification run -/
def AgreeRun {κ κ' : Type} [DecidableEq κ] (f : κ → κ') : St κ → List (Rec κ) → Prop
  | _, [] => True
  | t, r :: rs => Agree f t r ∧ AgreeRun f (step t r).1 rs

theorem run_sim {κ κ' : Type} [DecidableEq κ] [DecidableEq κ'] (f : κ → κ') (c : St κ') (t : St κ) (rs : List (Rec κ))
    (hrel : Rel f c t) (hag : AgreeRun f t rs) :
    run c (rs.map (Rec.mapKey f)) = run t rs := by
  induction rs generalizing c t with
  | nil => rfl
  | cons r rs ih =>
    obtain ⟨ha, hrest⟩ := hag
    obtain ⟨hr, htag⟩ := step_sim f c t r hrel ha
    simp only [List.map_cons, run, htag]
    rw [ih _ _ hr hrest]

/-! ### skipped records -/
def isSkippedAtom {κ : Type} (r : Rec κ) : Bool := (r.kind = .atom || r.kind = .hetatm) && r.skip

theorem step_skipped {κ : Type} [DecidableEq κ] (s : St κ) (r : Rec κ) (h : isSkippedAtom r = true) :
    (step s r).1 = s := by
  unfold isSkippedAtom at h
  unfold step
  cases hk : r.kind <;> simp_all

/-- records of kind `other` (anything but ATOM/HETATM/MODEL/TER) and HETATM records never touch the state -/
theorem step_other {κ : Type} [DecidableEq κ] (s : St κ) (r : Rec κ) (h : r.kind = .other ∨ r.kind = .hetatm) :
    step s r = (s, false) := by
  unfold step; rcases h with h | h <;> simp [h]

theorem emit_delete_skipped {κ : Type} [DecidableEq κ] (s : St κ) (rs : List (Rec κ)) :
    emit s rs = emit s (rs.filter (fun r => !isSkippedAtom r)) := by
  induction rs generalizing s with
  | nil => rfl
  | cons r rs ih =>
    by_cases h : isSkippedAtom r = true
    · have hs := step_skipped s r h
      simp only [List.filter_cons, h, Bool.not_true, Bool.false_eq_true, if_false]
      rw [← ih]
      simp only [emit, hs]
      have : ¬ ((r.kind = .atom ∨ r.kind = .hetatm) ∧ r.skip = false) := by
        unfold isSkippedAtom at h; intro hh; simp_all
      simp [this]
    · simp only [List.filter_cons, h, Bool.not_false, if_true]
      simp only [emit]
      split <;> simp [ih]

/-- inserting or removing records of kind `other` does not change what is emitted -/
theorem emit_delete_other {κ : Type} [DecidableEq κ] (s : St κ) (rs : List (Rec κ)) :
    emit s rs = emit s (rs.filter (fun r => !(r.kind = .other))) := by
  induction rs generalizing s with
  | nil => rfl
  | cons r rs ih =>
    by_cases h : r.kind = .other
    · have hs := step_other s r (Or.inl h)
      simp only [List.filter_cons, h, decide_true, Bool.not_true, Bool.false_eq_true, if_false]
      rw [← ih]
      simp [emit, hs, h]
    · simp only [List.filter_cons, h, decide_false, Bool.not_false, if_true]
      simp only [emit]
      split <;> simp [ih]

end Propka.Pdb
