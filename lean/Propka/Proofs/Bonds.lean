import Propka.Model.Bonds
import Mathlib.Tactic.Linarith
import Mathlib.Tactic.Ring
/-! Helper lemmas for C11: the cell list visits every pair of atoms in equal or neighbouring cells
    exactly as `_find_bonds_for_atoms` needs, the fold bonds exactly the visited pairs that meet the
    criterion, and `make_bond` keeps the bond lists symmetric and irreflexive. -/
namespace Propka.Bonds

/-! ### fold characterisation -/
theorem bonded_step (crit : Nat → Nat → Bool) (hsym : ∀ a b, crit a b = crit b a)
    (s : List (Nat × Nat)) (p : Nat × Nat) (a b : Nat) :
    bondedIn (tryBond crit s p) a b ↔
      bondedIn s a b ∨ (((a, b) = p ∨ (b, a) = p) ∧ crit a b = true) := by
  obtain ⟨p1, p2⟩ := p
  have h1 := hsym p1 p2
  unfold tryBond
  simp only [Prod.mk.injEq]
  by_cases hb : (p1, p2) ∈ s ∨ (p2, p1) ∈ s
  · rw [if_pos hb]; grind
  · rw [if_neg hb]
    by_cases hc : crit p1 p2 = true
    · rw [if_pos hc]; grind
    · rw [if_neg hc]; grind

theorem bonded_fold (crit : Nat → Nat → Bool) (hsym : ∀ a b, crit a b = crit b a)
    (ps : List (Nat × Nat)) (s : List (Nat × Nat)) (a b : Nat) :
    bondedIn (ps.foldl (tryBond crit) s) a b ↔
      bondedIn s a b ∨ (((a, b) ∈ ps ∨ (b, a) ∈ ps) ∧ crit a b = true) := by
  induction ps generalizing s with
  | nil => simp
  | cons p ps ih =>
    rw [List.foldl_cons, ih, bonded_step crit hsym]
    simp only [List.mem_cons]
    grind

/-- membership (ordered) in the fold: only visited pairs that meet the criterion are ever added -/
theorem mem_fold (crit : Nat → Nat → Bool) (ps s : List (Nat × Nat)) (q : Nat × Nat)
    (h : q ∈ ps.foldl (tryBond crit) s) : q ∈ s ∨ (q ∈ ps ∧ crit q.1 q.2 = true) := by
  induction ps generalizing s with
  | nil => left; simpa using h
  | cons p ps ih =>
    rw [List.foldl_cons] at h
    rcases ih _ h with h1 | ⟨h1, h2⟩
    · unfold tryBond at h1
      split at h1
      · left; exact h1
      · split at h1
        · rename_i hc
          rcases List.mem_append.mp h1 with h1 | h1
          · left; exact h1
          · right; simp only [List.mem_singleton] at h1; subst h1; exact ⟨List.mem_cons_self, hc⟩
        · left; exact h1
    · right; exact ⟨List.mem_cons_of_mem _ h1, h2⟩

/-! ### box dictionary invariants -/
theorem lookup_insert (bs : BoxMap) (c c' : Cell) (i : Nat) :
    lookupBox (insertBox bs c i) c' =
      if c' = c then some ((lookupBox bs c).getD [] ++ [i]) else lookupBox bs c' := by
  induction bs with
  | nil => simp [insertBox, lookupBox]; grind
  | cons kv rest ih =>
    obtain ⟨k, v⟩ := kv
    simp only [insertBox, lookupBox]
    by_cases hk : k = c
    · subst hk; simp only [if_true, lookupBox]; grind
    · simp only [hk, if_false, lookupBox]; grind

theorem buildBoxes_succ (cell : Nat → Cell) (n : Nat) :
    buildBoxes cell (n+1) = insertBox (buildBoxes cell n) (cell n) n := by
  simp [buildBoxes, List.range_succ, List.foldl_append]

theorem lookup_build (cell : Nat → Cell) (n : Nat) (c : Cell) :
    (∀ v, lookupBox (buildBoxes cell n) c = some v → ∀ i, i ∈ v ↔ (i < n ∧ cell i = c)) ∧
    (lookupBox (buildBoxes cell n) c = none → ∀ i, i < n → cell i ≠ c) := by
  induction n with
  | zero => simp [buildBoxes, lookupBox]
  | succ n ih =>
    rw [buildBoxes_succ, lookup_insert]
    obtain ⟨ih1, ih2⟩ := ih
    by_cases hc : c = cell n
    · subst hc
      simp only [if_true]
      constructor
      · intro v hv i
        cases hl : lookupBox (buildBoxes cell n) (cell n) with
        | none =>
          have := ih2 hl
          simp [hl] at hv; subst hv
          simp only [List.mem_singleton]; grind
        | some w =>
          have := ih1 w hl
          simp [hl] at hv; subst hv
          simp only [List.mem_append, List.mem_singleton]; grind
      · intro h; simp at h
    · simp only [hc, if_false]
      constructor
      · intro v hv i
        have := ih1 v hv i
        grind
      · intro h i hi
        have := ih2 h
        grind

theorem mem_of_lookup (bs : BoxMap) (c : Cell) (v : List Nat) (h : lookupBox bs c = some v) :
    (c, v) ∈ bs := by
  induction bs with
  | nil => simp [lookupBox] at h
  | cons kv rest ih =>
    obtain ⟨k, w⟩ := kv
    simp only [lookupBox] at h
    by_cases hk : k = c
    · simp [hk] at h; subst hk; subst h; simp
    · simp [hk] at h; exact List.mem_cons_of_mem _ (ih h)

theorem lookup_cell (cell : Nat → Cell) (n i : Nat) (hi : i < n) :
    ∃ v, lookupBox (buildBoxes cell n) (cell i) = some v ∧ i ∈ v := by
  cases h : lookupBox (buildBoxes cell n) (cell i) with
  | none => exact absurd rfl ((lookup_build cell n (cell i)).2 h i hi)
  | some v => exact ⟨v, rfl, ((lookup_build cell n (cell i)).1 v h i).2 ⟨hi, rfl⟩⟩

theorem pairsWithin_cover (v : List Nat) (i j : Nat) (hi : i ∈ v) (hj : j ∈ v) (hne : i ≠ j) :
    (i, j) ∈ pairsWithin v ∨ (j, i) ∈ pairsWithin v := by
  induction v with
  | nil => simp at hi
  | cons a rest ih =>
    simp only [pairsWithin, List.mem_append, List.mem_map, Prod.mk.injEq]
    simp only [List.mem_cons] at hi hj
    grind

theorem pairsBetween_mem (v w : List Nat) (a b : Nat) :
    (a, b) ∈ pairsBetween v w ↔ a ∈ v ∧ b ∈ w := by
  simp [pairsBetween]

/-- coverage: every pair of distinct atoms in neighbouring cells is visited in one of the two orders -/
theorem visited_cover (H : List Cell) (cell : Nat → Cell) (n i j : Nat) (hi : i < n) (hj : j < n)
    (hne : i ≠ j)
    (hnear : cell i = cell j ∨ subCell (cell j) (cell i) ∈ H ∨ subCell (cell i) (cell j) ∈ H) :
    (i, j) ∈ visited H (buildBoxes cell n) ∨ (j, i) ∈ visited H (buildBoxes cell n) := by
  obtain ⟨vi, hvi, hivi⟩ := lookup_cell cell n i hi
  obtain ⟨vj, hvj, hjvj⟩ := lookup_cell cell n j hj
  have hmi := mem_of_lookup _ _ _ hvi
  have hmj := mem_of_lookup _ _ _ hvj
  have key : ∀ k d : Cell, addCell k (subCell d k) = d := by
    intro k d; obtain ⟨k1, k2, k3⟩ := k; obtain ⟨d1, d2, d3⟩ := d
    simp only [addCell, subCell, Prod.mk.injEq]; omega
  unfold visited
  simp only [List.mem_flatMap]
  rcases hnear with h | h | h
  · rw [← h] at hvj
    have : vj = vi := by rw [hvi] at hvj; exact (Option.some.inj hvj).symm
    subst this
    rcases pairsWithin_cover vj i j hivi hjvj hne with hp | hp
    · left; exact ⟨_, hmi, by simp [visitedBox, hp]⟩
    · right; exact ⟨_, hmi, by simp [visitedBox, hp]⟩
  · left
    refine ⟨_, hmi, ?_⟩
    simp only [visitedBox, List.mem_append, List.mem_flatMap]
    right
    refine ⟨_, h, ?_⟩
    rw [key, hvj]; simp [pairsBetween_mem, hivi, hjvj]
  · right
    refine ⟨_, hmj, ?_⟩
    simp only [visitedBox, List.mem_append, List.mem_flatMap]
    right
    refine ⟨_, h, ?_⟩
    rw [key, hvi]; simp [pairsBetween_mem, hivi, hjvj]

/-! ### no pair `(i, i)` is ever visited -/
theorem pairsWithin_ne (v : List Nat) (hnd : v.Nodup) (a b : Nat) (h : (a, b) ∈ pairsWithin v) : a ≠ b := by
  induction v with
  | nil => simp [pairsWithin] at h
  | cons x rest ih =>
    simp only [pairsWithin, List.mem_append, List.mem_map, Prod.mk.injEq] at h
    rw [List.nodup_cons] at hnd
    rcases h with ⟨y, hy, rfl, rfl⟩ | h
    · intro e; subst e; exact hnd.1 hy
    · exact ih hnd.2 h

/-- every box list of `buildBoxes` is duplicate-free and holds only atoms of its own cell -/
theorem box_nodup (cell : Nat → Cell) (n : Nat) (c : Cell) (v : List Nat)
    (h : lookupBox (buildBoxes cell n) c = some v) : v.Nodup ∧ ∀ i ∈ v, i < n := by
  induction n generalizing v with
  | zero => simp [buildBoxes, lookupBox] at h
  | succ n ih =>
    rw [buildBoxes_succ, lookup_insert] at h
    by_cases hc : c = cell n
    · subst hc
      simp only [if_true, Option.some.injEq] at h
      cases hl : lookupBox (buildBoxes cell n) (cell n) with
      | none => simp [hl] at h; subst h; simp
      | some w =>
        obtain ⟨hw1, hw2⟩ := ih w hl
        simp [hl] at h; subst h
        refine ⟨?_, ?_⟩
        · rw [List.nodup_append]
          refine ⟨hw1, by simp, ?_⟩
          intro a ha b hb
          simp only [List.mem_singleton] at hb; subst hb
          have := hw2 a ha; omega
        · intro i hi
          simp only [List.mem_append, List.mem_singleton] at hi
          rcases hi with hi | rfl
          · have := hw2 i hi; omega
          · omega
    · simp only [hc, if_false] at h
      obtain ⟨h1, h2⟩ := ih v h
      exact ⟨h1, fun i hi => by have := h2 i hi; omega⟩

theorem lookup_of_mem (bs : BoxMap) (c : Cell) (v : List Nat) (h : (c, v) ∈ bs)
    (hk : (bs.map Prod.fst).Nodup) : lookupBox bs c = some v := by
  induction bs with
  | nil => simp at h
  | cons kv rest ih =>
    obtain ⟨k, w⟩ := kv
    simp only [List.map_cons, List.nodup_cons] at hk
    simp only [lookupBox]
    rcases List.mem_cons.mp h with h | h
    · cases h; simp
    · have : k ≠ c := by
        intro e; subst e
        exact hk.1 (List.mem_map.mpr ⟨(k, v), h, rfl⟩)
      simp [this, ih h hk.2]

theorem keys_insert (bs : BoxMap) (c : Cell) (i : Nat) :
    (insertBox bs c i).map Prod.fst = if c ∈ bs.map Prod.fst then bs.map Prod.fst else bs.map Prod.fst ++ [c] := by
  induction bs with
  | nil => simp [insertBox]
  | cons kv rest ih =>
    obtain ⟨k, v⟩ := kv
    simp only [insertBox]
    by_cases hk : k = c
    · subst hk; simp
    · simp only [hk, if_false, List.map_cons, ih, List.mem_cons]
      have : ¬ c = k := fun e => hk e.symm
      by_cases hm : c ∈ List.map Prod.fst rest <;> simp [hm, this]

theorem keys_nodup (cell : Nat → Cell) (n : Nat) : ((buildBoxes cell n).map Prod.fst).Nodup := by
  induction n with
  | zero => simp [buildBoxes]
  | succ n ih =>
    rw [buildBoxes_succ, keys_insert]
    split
    · exact ih
    · rename_i h
      rw [List.nodup_append]
      exact ⟨ih, by simp, by intro a ha b hb; simp only [List.mem_singleton] at hb; subst hb; intro e; subst e; exact h ha⟩

/-- a visited pair never has equal components, provided the offset list does not contain (0,0,0) -/
theorem visited_ne (H : List Cell) (h0 : (0, 0, 0) ∉ H) (cell : Nat → Cell) (n a b : Nat)
    (h : (a, b) ∈ visited H (buildBoxes cell n)) : a ≠ b := by
  unfold visited at h
  simp only [List.mem_flatMap] at h
  obtain ⟨⟨k, v⟩, hkv, hp⟩ := h
  have hlk := lookup_of_mem _ _ _ hkv (keys_nodup cell n)
  simp only [visitedBox, List.mem_append, List.mem_flatMap] at hp
  rcases hp with hp | ⟨d, hd, hp⟩
  · exact pairsWithin_ne v (box_nodup cell n k v hlk).1 a b hp
  · cases hw : lookupBox (buildBoxes cell n) (addCell k d) with
    | none => simp [hw] at hp
    | some w =>
      simp only [hw, pairsBetween_mem] at hp
      have ha := ((lookup_build cell n k).1 v hlk a).1 hp.1
      have hb := ((lookup_build cell n (addCell k d)).1 w hw b).1 hp.2
      intro e; subst e
      have : addCell k d = k := by rw [← hb.2, ha.2]
      apply h0
      obtain ⟨d1, d2, d3⟩ := d
      obtain ⟨k1, k2, k3⟩ := k
      simp only [addCell, Prod.mk.injEq] at this
      have e1 : d1 = 0 := by omega
      have e2 : d2 = 0 := by omega
      have e3 : d3 = 0 := by omega
      subst e1 e2 e3; exact hd

theorem pairsWithin_mem (v : List Nat) (a b : Nat) (h : (a, b) ∈ pairsWithin v) : a ∈ v ∧ b ∈ v := by
  induction v with
  | nil => simp [pairsWithin] at h
  | cons x rest ih =>
    simp only [pairsWithin, List.mem_append, List.mem_map, Prod.mk.injEq] at h
    rcases h with ⟨y, hy, rfl, rfl⟩ | h
    · exact ⟨by simp, by simp [hy]⟩
    · have := ih h; exact ⟨List.mem_cons_of_mem _ this.1, List.mem_cons_of_mem _ this.2⟩

/-- only atoms of the array are ever visited -/
theorem visited_lt (H : List Cell) (cell : Nat → Cell) (n a b : Nat)
    (h : (a, b) ∈ visited H (buildBoxes cell n)) : a < n ∧ b < n := by
  unfold visited at h
  simp only [List.mem_flatMap] at h
  obtain ⟨⟨k, v⟩, hkv, hp⟩ := h
  have hlk := lookup_of_mem _ _ _ hkv (keys_nodup cell n)
  have hbn := (box_nodup cell n k v hlk).2
  simp only [visitedBox, List.mem_append, List.mem_flatMap] at hp
  rcases hp with hp | ⟨d, hd, hp⟩
  · have := pairsWithin_mem v a b hp
    exact ⟨hbn a this.1, hbn b this.2⟩
  · cases hw : lookupBox (buildBoxes cell n) (addCell k d) with
    | none => simp [hw] at hp
    | some w =>
      simp only [hw, pairsBetween_mem] at hp
      exact ⟨hbn a hp.1, (box_nodup cell n _ w hw).2 b hp.2⟩

theorem findBonds_lt (H : List Cell) (cell : Nat → Cell) (crit : Nat → Nat → Bool) (n a b : Nat)
    (h : (a, b) ∈ findBonds H cell crit n) : a < n ∧ b < n ∧ crit a b = true := by
  unfold findBonds at h
  rcases mem_fold crit _ _ _ h with h | ⟨h, hc⟩
  · cases h
  · exact ⟨(visited_lt H cell n a b h).1, (visited_lt H cell n a b h).2, hc⟩

/-! ### neighbouring cells and the half-space list -/
def nearC (a b : Cell) : Prop :=
  (-1 ≤ b.1 - a.1 ∧ b.1 - a.1 ≤ 1) ∧ (-1 ≤ b.2.1 - a.2.1 ∧ b.2.1 - a.2.1 ≤ 1) ∧
  (-1 ≤ b.2.2 - a.2.2 ∧ b.2.2 - a.2.2 ≤ 1)

def cube : List Cell :=
  ([-1,0,1] : List Int).flatMap fun a => ([-1,0,1] : List Int).flatMap fun b =>
    ([-1,0,1] : List Int).map fun c => (a,b,c)

/-- the obligation on the offset list: of every non-zero neighbour direction, it or its opposite is listed -/
def HalfComplete (H : List Cell) : Prop := ∀ d ∈ cube, d = (0,0,0) ∨ d ∈ H ∨ negCell d ∈ H

theorem near_cases (H : List Cell) (hH : HalfComplete H) (a b : Cell) (h : nearC a b) :
    a = b ∨ subCell b a ∈ H ∨ subCell a b ∈ H := by
  obtain ⟨a1, a2, a3⟩ := a
  obtain ⟨b1, b2, b3⟩ := b
  obtain ⟨⟨h1, h2⟩, ⟨h3, h4⟩, ⟨h5, h6⟩⟩ := h
  simp only at h1 h2 h3 h4 h5 h6
  have hc : subCell (b1,b2,b3) (a1,a2,a3) ∈ cube := by
    simp only [subCell]
    have e1 : b1 - a1 = -1 ∨ b1 - a1 = 0 ∨ b1 - a1 = 1 := by omega
    have e2 : b2 - a2 = -1 ∨ b2 - a2 = 0 ∨ b2 - a2 = 1 := by omega
    have e3 : b3 - a3 = -1 ∨ b3 - a3 = 0 ∨ b3 - a3 = 1 := by omega
    rcases e1 with e1 | e1 | e1 <;> rcases e2 with e2 | e2 | e2 <;> rcases e3 with e3 | e3 | e3 <;>
      rw [e1, e2, e3] <;> decide
  rcases hH _ hc with h0 | hH | hH
  · left
    simp only [subCell, Prod.mk.injEq] at h0
    obtain ⟨e1, e2, e3⟩ := h0
    simp only [Prod.mk.injEq]; omega
  · right; left; exact hH
  · right; right
    have : negCell (subCell (b1,b2,b3) (a1,a2,a3)) = subCell (a1,a2,a3) (b1,b2,b3) := by
      simp only [negCell, subCell, Prod.mk.injEq]; omega
    rw [this] at hH; exact hH

/-- the cell list finds exactly the pairs the criterion accepts -/
theorem boxes_eq_pairwise (H : List Cell) (hH : HalfComplete H) (cell : Nat → Cell) (crit : Nat → Nat → Bool) (n : Nat)
    (hsym : ∀ a b, crit a b = crit b a)
    (hlocal : ∀ i j, crit i j = true → nearC (cell i) (cell j))
    (i j : Nat) (hi : i < n) (hj : j < n) (hne : i ≠ j) :
    bondedIn (findBonds H cell crit n) i j ↔ crit i j = true := by
  unfold findBonds
  rw [bonded_fold crit hsym]
  constructor
  · rintro (h | ⟨_, hc⟩)
    · rcases h with h | h <;> cases h
    · exact hc
  · intro hc
    right
    exact ⟨visited_cover H cell n i j hi hj hne (near_cases H hH _ _ (hlocal i j hc)), hc⟩

theorem no_self_bond (H : List Cell) (h0 : (0, 0, 0) ∉ H) (cell : Nat → Cell) (crit : Nat → Nat → Bool) (n a b : Nat)
    (h : (a, b) ∈ findBonds H cell crit n) : a ≠ b := by
  unfold findBonds at h
  rcases mem_fold crit _ _ _ h with h | ⟨h, _⟩
  · cases h
  · exact visited_ne H h0 cell n a b h

theorem mem_adjOf (ps : List (Nat × Nat)) (i j : Nat) : j ∈ adjOf ps i ↔ bondedIn ps i j := by
  unfold adjOf
  simp only [List.mem_filterMap]
  constructor
  · rintro ⟨⟨p1, p2⟩, hp, h⟩
    simp only at h
    split at h
    · rename_i e; cases h; subst e; left; exact hp
    · split at h
      · rename_i e; cases h; subst e; right; exact hp
      · cases h
  · rintro (h | h)
    · exact ⟨(i, j), h, by simp⟩
    · refine ⟨(j, i), h, ?_⟩
      by_cases e : j = i
      · subst e; simp
      · simp [e]

/-! ### floor division: atoms closer than the box size lie in equal or adjacent cells -/
theorem cell_near_gen (B R x1 x2 : Int) (hB : 0 < B) (hR : R < B) (h : x1 - x2 ≤ R) (h' : x2 - x1 ≤ R) :
    -1 ≤ x2 / B - x1 / B ∧ x2 / B - x1 / B ≤ 1 := by
  have a1 := Int.ediv_mul_le x1 (ne_of_gt hB)
  have a2 := Int.lt_ediv_add_one_mul_self x1 hB
  have b1 := Int.ediv_mul_le x2 (ne_of_gt hB)
  have b2 := Int.lt_ediv_add_one_mul_self x2 hB
  constructor
  · by_contra hc
    have : x2 / B + 2 ≤ x1 / B := by omega
    have : (x2 / B + 2) * B ≤ (x1 / B) * B := Int.mul_le_mul_of_nonneg_right this hB.le
    nlinarith
  · by_contra hc
    have : x1 / B + 2 ≤ x2 / B := by omega
    have : (x1 / B + 2) * B ≤ (x2 / B) * B := Int.mul_le_mul_of_nonneg_right this hB.le
    nlinarith

/-! ### `make_bond` keeps the bond lists symmetric, irreflexive and duplicate-free -/
def AdjInv (s : Adj) : Prop := (∀ i j, j ∈ s i ↔ i ∈ s j) ∧ (∀ i, i ∉ s i) ∧ (∀ i, (s i).Nodup)

theorem makeBond_inv (s : Adj) (a b : Nat) (h : AdjInv s) : AdjInv (makeBond s a b) := by
  obtain ⟨hs, hi, hn⟩ := h
  unfold makeBond
  by_cases hab : a = b
  · simp [hab]; exact ⟨hs, hi, hn⟩
  · simp only [hab, if_false]
    by_cases h1 : a ∈ s b
    · have h2 : b ∈ s a := (hs a b).mpr h1
      simp [h1, h2]; exact ⟨hs, hi, hn⟩
    · have h2 : b ∉ s a := fun h => h1 ((hs a b).mp h)
      have hba : ¬ b = a := fun e => hab e.symm
      have h3 : b ∉ appendTo s b a a := by simp [appendTo, hab, h2]
      simp only [h1, if_false, h3]
      refine ⟨?_, ?_, ?_⟩
      · intro i j
        simp only [appendTo]
        by_cases hia : i = a <;> by_cases hib : i = b <;> by_cases hja : j = a <;> by_cases hjb : j = b <;>
          simp_all [List.mem_append]
      · intro i
        simp only [appendTo]
        by_cases hia : i = a <;> by_cases hib : i = b <;> simp_all [List.mem_append]
      · intro i
        have nd : ∀ (l : List Nat) (x : Nat), l.Nodup → x ∉ l → (l ++ [x]).Nodup := by
          intro l x hl hx
          rw [List.nodup_append]
          exact ⟨hl, by simp, by intro y hy z hz; simp only [List.mem_singleton] at hz; subst hz; intro e; subst e; exact hx hy⟩
        simp only [appendTo]
        by_cases hia : i = a
        · subst hia; simp only [hab, if_false, if_true]; exact nd _ _ (hn i) h2
        · by_cases hib : i = b
          · subst hib; simp only [hia, if_false, if_true]; exact nd _ _ (hn i) h1
          · simp only [hia, hib, if_false]; exact hn i

theorem makeBond_seq_inv (ops : List (Nat × Nat)) (s : Adj) (h : AdjInv s) :
    AdjInv (ops.foldl (fun s p => makeBond s p.1 p.2) s) := by
  induction ops generalizing s with
  | nil => exact h
  | cons p ps ih => exact ih _ (makeBond_inv s p.1 p.2 h)

end Propka.Bonds
