import Propka.Model.Scoring
set_option linter.unusedSectionVars false
/-! Structural facts about the scoring model that hold for every scalar type (also at `Float`): the records of `score`
    are `finish` of the group index, `finish` ends with `calculate_total_pka` of exactly the lists it returns, and the
    fields of the final record unfold to the per-phase definitions. -/
namespace Propka.Scoring
open Propka.Energy

theorem tab_map_range {β : Type} (f : Nat → β) (d : β) (n g : Nat) (hg : g < n) :
    tab ((Array.range n).map f) d g = f g := by
  simp [tab, Array.getD, hg]

section
variable {α : Type} [Add α] [Sub α] [Mul α] [Div α] [Neg α] [NatCast α] [LT α] [LE α]
  [DecidableLT α] [DecidableLE α] [Max α] [Min α] [BEq α] [Inhabited α] [Trig α]

theorem score_length (p : SP α) (env : Env α) (atoms : Tab AtomT) (groups : Tab (GroupT α)) :
    (score p env atoms groups).length = groups.n := by
  simp [score]

/-- the record of group `g` is `finish … g` of the tables built once -/
theorem score_get (p : SP α) (env : Env α) (atoms : Tab AtomT) (groups : Tab (GroupT α)) (g : Nat) (hg : g < groups.n) :
    (score p env atoms groups)[g]? =
      some (finish p env groups (tab (stagesTab p env atoms groups) Stage.dflt) (pensOf p env groups (stagesTab p env atoms groups)) g) := by
  simp only [score]
  rw [List.getElem?_map, List.getElem?_range hg]
  rfl

/-- **`finish` ends with `calculate_total_pka` of the lists it returns.** -/
theorem finish_total (p : SP α) (env : Env α) (groups : Tab (GroupT α)) (st : Nat → Stage α) (pens : List (Nat × Nat)) (g : Nat) :
    (finish p env groups st pens g).pka =
      totalPka p (gget groups g) (finish p env groups st pens g).evol (finish p env groups st pens g).eloc
        (finish p env groups st pens g).sc (finish p env groups st pens g).bb (finish p env groups st pens g).cb := by
  unfold finish
  simp only
  split <;> rfl

/-- the stage record of an in-range group, unfolded -/
theorem stages_get (p : SP α) (env : Env α) (atoms : Tab AtomT) (groups : Tab (GroupT α)) (g : Nat) (hg : g < groups.n) :
    tab (stagesTab p env atoms groups) Stage.dflt g =
      stage2 (stage1 p env atoms groups (volF (desTab p env atoms groups)) (nvF (desTab p env atoms groups))
          (nonIterEms (pairResults p env atoms groups (nvF (desTab p env atoms groups)))) g)
        (iterEms p groups (tab (stage1Tab p env atoms groups (desTab p env atoms groups)
            (pairResults p env atoms groups (nvF (desTab p env atoms groups)))) Stage.dflt)
          (iterInters (pairResults p env atoms groups (nvF (desTab p env atoms groups))))) g := by
  simp only [stagesTab, stage2Tab]
  rw [tab_map_range _ _ _ _ hg]
  simp only [stage1Tab]
  rw [tab_map_range _ _ _ _ hg]

theorem finish_fields (p : SP α) (env : Env α) (groups : Tab (GroupT α)) (st : Nat → Stage α) (pens : List (Nat × Nat)) (g : Nat) :
    (finish p env groups st pens g).nv = (st g).nv ∧ (finish p env groups st pens g).buried = (st g).buried ∧
    (finish p env groups st pens g).evol = (st g).evol ∧ (finish p env groups st pens g).eloc = (st g).eloc := by
  unfold finish
  simp only
  split <;> exact ⟨rfl, rfl, rfl, rfl⟩

/-- removing the determinants towards penalised groups only removes: every final determinant is one of the stage's -/
theorem finish_dets_sub (p : SP α) (env : Env α) (groups : Tab (GroupT α)) (st : Nat → Stage α) (pens : List (Nat × Nat)) (g : Nat) :
    (∀ d ∈ (finish p env groups st pens g).sc, d ∈ (st g).sc) ∧ (∀ d ∈ (finish p env groups st pens g).bb, d ∈ (st g).bb) ∧
    (∀ d ∈ (finish p env groups st pens g).cb, d ∈ (st g).cb) := by
  unfold finish
  simp only
  split
  · refine ⟨?_, ?_, ?_⟩ <;> intro d hd <;> split at hd
    all_goals first | exact hd | exact (List.mem_filter.mp hd).1
  · exact ⟨fun _ h => h, fun _ h => h, fun _ h => h⟩
end

end Propka.Scoring
