import Propka.Model.Scoring
set_option linter.unusedSectionVars false
/-! Structural facts about the scoring model that hold for every scalar type (also at `Float`): the records of `score`
    are `finish` of the group index, `finish` ends with `calculate_total_pka` of exactly the lists it returns, and the
    fields of the final record unfold to the per-phase definitions. -/
namespace Propka.Scoring
open Propka.Energy

theorem tab_map_range {β : Type} (f : Nat → β) (d : β) (n g : Nat) (hg : g < n) :
    tab ((Array.range n).map f) d g = f g := by
  simp [tab, Array.getD, hg]

section
variable {α : Type} [Add α] [Sub α] [Mul α] [Div α] [Neg α] [NatCast α] [LT α] [LE α]
  [DecidableLT α] [DecidableLE α] [Max α] [Min α] [BEq α] [Inhabited α] [Trig α]

theorem score_length (p : SP α) (env : Env α) (atoms : Tab AtomT) (groups : Tab (GroupT α)) :
    (score p env atoms groups).length = groups.n := by
  simp [score]

/-- the record of group `g` is `finish … g` of the tables built once -/
theorem score_get (p : SP α) (env : Env α) (atoms : Tab AtomT) (groups : Tab (GroupT α)) (g : Nat) (hg : g < groups.n) :
    (score p env atoms groups)[g]? =
      some (finish p env groups (tab (stagesTab p env atoms groups) Stage.dflt) (pensOf p env groups (stagesTab p env atoms groups)) g) := by
  simp only [score]
  rw [List.getElem?_map, List.getElem?_range hg]
  rfl

/-- **`finish` ends with `calculate_total_pka` of the lists it returns.** -/
theorem finish_total (p : SP α) (env : Env α) (groups : Tab (GroupT α)) (st : Nat → Stage α) (pens : List (Nat × Nat)) (g : Nat) :
    (finish p env groups st pens g).pka =
      totalPka p (gget groups g) (finish p env groups st pens g).evol (finish p env groups st pens g).eloc
        (finish p env groups st pens g).sc (finish p env groups st pens g).bb (finish p env groups st pens g).cb := by
  unfold finish
  simp only
  split <;> rfl

/-- the stage record of an in-range group, unfolded -/
theorem stages_get (p : SP α) (env : Env α) (atoms : Tab AtomT) (groups : Tab (GroupT α)) (g : Nat) (hg : g < groups.n) :
    tab (stagesTab p env atoms groups) Stage.dflt g =
      stage2 (stage1 p env atoms groups (volF (desTab p env atoms groups)) (nvF (desTab p env atoms groups))
          (nonIterEms (pairResults p env atoms groups (nvF (desTab p env atoms groups)))) g)
        (iterEms p groups (tab (stage1Tab p env atoms groups (desTab p env atoms groups)
            (pairResults p env atoms groups (nvF (desTab p env atoms groups)))) Stage.dflt)
          (iterInters (pairResults p env atoms groups (nvF (desTab p env atoms groups))))) g := by
  simp only [stagesTab, stage2Tab]
  rw [tab_map_range _ _ _ _ hg]
  simp only [stage1Tab]
  rw [tab_map_range _ _ _ _ hg]

theorem finish_fields (p : SP α) (env : Env α) (groups : Tab (GroupT α)) (st : Nat → Stage α) (pens : List (Nat × Nat)) (g : Nat) :
    (finish p env groups st pens g).nv = (st g).nv ∧ (finish p env groups st pens g).buried = (st g).buried ∧
    (finish p env groups st pens g).evol = (st g).evol ∧ (finish p env groups st pens g).eloc = (st g).eloc := by
  unfold finish
  simp only
  split <;> exact ⟨rfl, rfl, rfl, rfl⟩

/-- removing the determinants towards penalised groups only removes: every final determinant is one of the stage's -/
theorem finish_dets_sub (p : SP α) (env : Env α) (groups : Tab (GroupT α)) (st : Nat → Stage α) (pens : List (Nat × Nat)) (g : Nat) :
    (∀ d ∈ (finish p env groups st pens g).sc, d ∈ (st g).sc) ∧ (∀ d ∈ (finish p env groups st pens g).bb, d ∈ (st g).bb) ∧
    (∀ d ∈ (finish p env groups st pens g).cb, d ∈ (st g).cb) := by
  unfold finish
  simp only
  split
  · refine ⟨?_, ?_, ?_⟩ <;> intro d hd <;> split at hd
    all_goals first | exact hd | exact (List.mem_filter.mp hd).1
  · exact ⟨fun _ h => h, fun _ h => h, fun _ h => h⟩
end

section
variable {α : Type} [Add α] [Sub α] [Mul α] [Div α] [Neg α] [NatCast α] [LT α] [LE α]
  [DecidableLT α] [DecidableLE α] [Max α] [Min α] [BEq α] [Inhabited α] [Trig α]

/-- the iterative scheme writes side-chain and Coulomb determinants only -/
theorem iter_no_backbone (p : SP α) (groups : Tab (GroupT α)) (st : Nat → Stage α) (inters : List (Iter.Inter α)) (g : Nat) :
    emsOf (iterEms p groups st inters) g .backbone = [] := by
  unfold emsOf iterEms
  rw [List.map_eq_nil_iff, List.filter_eq_nil_iff]
  intro e he
  obtain ⟨d, _, rfl⟩ := List.mem_map.mp he
  cases hk : d.kind <;> simp [iterKind, hk]

/-- the determinants written by the non-iterative pair rules / by the iterative scheme in a run of `score` -/
def emsFinal (p : SP α) (env : Env α) (atoms : Tab AtomT) (groups : Tab (GroupT α)) : List (Em α) :=
  nonIterEms (pairResults p env atoms groups (nvF (desTab p env atoms groups)))
def itsFinal (p : SP α) (env : Env α) (atoms : Tab AtomT) (groups : Tab (GroupT α)) : List (Em α) :=
  iterEms p groups (tab (stage1Tab p env atoms groups (desTab p env atoms groups)
      (pairResults p env atoms groups (nvF (desTab p env atoms groups)))) Stage.dflt)
    (iterInters (pairResults p env atoms groups (nvF (desTab p env atoms groups))))

/-- the final record of an in-range group, field by field, in terms of the per-phase definitions -/
theorem record_unfold (p : SP α) (env : Env α) (atoms : Tab AtomT) (groups : Tab (GroupT α)) (g : Nat) (hg : g < groups.n) :
    ∃ o : GOut α,
      (score p env atoms groups)[g]? = some o ∧
      o.buried = buriedOf p groups (nvF (desTab p env atoms groups)) g ∧
      o.evol = evolOf p groups (volF (desTab p env atoms groups)) (nvF (desTab p env atoms groups)) g ∧
      o.eloc = elocOf p env groups (nvF (desTab p env atoms groups)) g ∧
      (∀ d ∈ o.bb, d ∈ bbDets p env atoms groups g) ∧
      (∀ d ∈ o.cb, d ∈ ionDets p env groups (nvF (desTab p env atoms groups)) g ∨ d ∈ emsOf (emsFinal p env atoms groups) g .coulomb
        ∨ d ∈ emsOf (itsFinal p env atoms groups) g .coulomb) ∧
      (∀ d ∈ o.sc, d ∈ emsOf (emsFinal p env atoms groups) g .sidechain ∨ d ∈ emsOf (itsFinal p env atoms groups) g .sidechain) := by
  refine ⟨_, score_get p env atoms groups g hg, ?_, ?_, ?_, ?_, ?_, ?_⟩
  · rw [(finish_fields p env groups _ _ g).2.1, stages_get p env atoms groups g hg]; rfl
  · rw [(finish_fields p env groups _ _ g).2.2.1, stages_get p env atoms groups g hg]; rfl
  · rw [(finish_fields p env groups _ _ g).2.2.2, stages_get p env atoms groups g hg]; rfl
  · intro d hd
    have h := (finish_dets_sub p env groups _ _ g).2.1 d hd
    rw [stages_get p env atoms groups g hg] at h
    simp only [stage2, stage1, iter_no_backbone, List.append_nil] at h
    exact h
  · intro d hd
    have h := (finish_dets_sub p env groups _ _ g).2.2 d hd
    rw [stages_get p env atoms groups g hg] at h
    simp only [stage2, stage1, List.mem_append] at h
    rcases h with (h | h) | h
    · exact Or.inl h
    · exact Or.inr (Or.inl h)
    · exact Or.inr (Or.inr h)
  · intro d hd
    have h := (finish_dets_sub p env groups _ _ g).1 d hd
    rw [stages_get p env atoms groups g hg] at h
    simp only [stage2, stage1, List.mem_append] at h
    exact h
end

theorem mem_emsOf {α : Type} (ems : List (Em α)) (g : Nat) (k : Kind) (d : Det α) (h : d ∈ emsOf ems g k) :
    (⟨g, d.partner, k, d.value⟩ : Em α) ∈ ems := by
  unfold emsOf at h
  obtain ⟨e, he, rfl⟩ := List.mem_map.mp h
  obtain ⟨hm, hc⟩ := List.mem_filter.mp he
  simp only [Bool.and_eq_true, beq_iff_eq] at hc
  obtain ⟨ho, hk⟩ := hc
  cases e; simp_all


theorem mem_tagOut_kind {α : Type} (a b : Nat) (k : Kind) (o : Out α) (e : Em α) (h : e ∈ tagOut a b k o) : e.kind = k := by
  unfold tagOut at h
  obtain ⟨r, _, rfl⟩ := List.mem_map.mp h
  split <;> rfl


end Propka.Scoring

namespace Propka.Iter
set_option linter.unusedSectionVars false
section
variable {α : Type} [Add α] [Sub α] [Mul α] [Neg α] [NatCast α] [LT α] [DecidableLT α] [BEq α] [Inhabited α]

/-- every determinant of an iteration is an output of `interStep` for one of the interactions -/
theorem iterate_dets (minV : α) (gs : Array (IGroup α)) (inters : List (Inter α)) (s : State α) (d : Det α)
    (h : d ∈ (iterate minV gs inters s).dets) : ∃ it ∈ inters, ∃ ann, d ∈ (interStep minV gs s.old it ann).1 := by
  unfold iterate at h
  simp only at h
  obtain ⟨r, hr, hd⟩ := List.mem_flatMap.mp h
  obtain ⟨pr, hp, rfl⟩ := List.mem_map.mp hr
  exact ⟨pr.1, (List.of_mem_zip hp).1, pr.2, hd⟩

theorem solveLoop_dets (minV : α) (gs : Array (IGroup α)) (inters : List (Inter α)) (fuel : Nat) (s : State α) (d : Det α)
    (h : d ∈ (solveLoop minV gs inters fuel s).dets) :
    d ∈ s.dets ∨ ∃ it ∈ inters, ∃ old ann, d ∈ (interStep minV gs old it ann).1 := by
  induction fuel generalizing s with
  | zero => exact Or.inl h
  | succ n ih =>
    unfold solveLoop at h
    simp only at h
    split at h
    · obtain ⟨it, hit, ann, hd⟩ := iterate_dets minV gs inters s d h
      exact Or.inr ⟨it, hit, s.old, ann, hd⟩
    · rcases ih _ h with h1 | h2
      · obtain ⟨it, hit, ann, hd⟩ := iterate_dets minV gs inters s d h1
        exact Or.inr ⟨it, hit, s.old, ann, hd⟩
      · exact Or.inr h2

/-- **Every determinant the iterative scheme finally writes is an output of one of the three iterative pair rules
    (`interStep`), applied to one of the listed interactions** in some iteration. -/
theorem solve_dets (minV : α) (gs : Array (IGroup α)) (inters : List (Inter α)) (d : Det α) (h : d ∈ solve minV gs inters) :
    ∃ it ∈ inters, ∃ old ann, d ∈ (interStep minV gs old it ann).1 := by
  unfold solve at h
  rcases solveLoop_dets minV gs inters 10 _ d (List.mem_filter.mp h).1 with h1 | h2
  · simp [initState] at h1
  · exact h2
end
end Propka.Iter
