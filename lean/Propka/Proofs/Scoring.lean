import Propka.Model.Scoring
/-! Structural facts about the scoring model that hold for every scalar type (also at `Float`): the records of `score`
    are `finish` of the group index, and `finish` ends with `calculate_total_pka` of exactly the lists it returns. -/
namespace Propka.Scoring
open Propka.Energy

section
variable {α : Type} [Add α] [Sub α] [Mul α] [Div α] [Neg α] [NatCast α] [LT α] [LE α]
  [DecidableLT α] [DecidableLE α] [Max α] [Min α] [BEq α] [Inhabited α] [Trig α]

theorem score_length (p : SP α) (env : Env α) (atoms : Array AtomT) (groups : Array (GroupT α)) :
    (score p env atoms groups).length = groups.size := by
  simp [score]

/-- the record of group `g` is `finish … g` of the tables built once -/
theorem score_get (p : SP α) (env : Env α) (atoms : Array AtomT) (groups : Array (GroupT α)) (g : Nat) (hg : g < groups.size) :
    (score p env atoms groups)[g]? =
      some (finish p groups (tab (stagesTab p env atoms groups) Stage.dflt) (pensOf p groups (stagesTab p env atoms groups)) g) := by
  simp only [score]
  rw [List.getElem?_map, List.getElem?_range hg]
  rfl

/-- **`finish` ends with `calculate_total_pka` of the lists it returns.** -/
theorem finish_total (p : SP α) (groups : Array (GroupT α)) (st : Nat → Stage α) (pens : List (Nat × Nat)) (g : Nat) :
    (finish p groups st pens g).pka =
      totalPka p (gget groups g) (finish p groups st pens g).evol (finish p groups st pens g).eloc
        (finish p groups st pens g).sc (finish p groups st pens g).bb (finish p groups st pens g).cb := by
  unfold finish
  simp only
  split <;> rfl
end

end Propka.Scoring
