import Propka.Model.Rotation
import Mathlib.Analysis.SpecialFunctions.Trigonometric.Inverse
import Mathlib.Analysis.Real.Sqrt
import Mathlib.Tactic.FieldSimp
import Mathlib.Tactic.Ring
import Mathlib.Tactic.Linarith
import Mathlib.Tactic.LinearCombination
import Mathlib.Tactic.Positivity
import Mathlib.Tactic.NormNum
/-! Helper lemmas for C20: the real-number instance of the rotation model. -/
namespace Propka
open Real

noncomputable instance instTrigReal : Trig ℝ := ⟨Real.sin, Real.cos, Real.arcsin, Real.arccos, Real.sqrt, Real.pi, fun x => |x|⟩

namespace Rot

@[simp] theorem nz_real (x : ℝ) : nz x = x := by unfold nz; ring

/-- conjugated rotation with abstract cos/sin values -/
def conj (cg sg cb sb ct st : ℝ) (v : V3 ℝ) : V3 ℝ :=
  let w1 : V3 ℝ := ⟨cg*v.x - sg*v.y, sg*v.x + cg*v.y, v.z⟩
  let w2 : V3 ℝ := ⟨cb*w1.x + sb*w1.z, w1.y, -sb*w1.x + cb*w1.z⟩
  let w3 : V3 ℝ := ⟨ct*w2.x - st*w2.y, st*w2.x + ct*w2.y, w2.z⟩
  let w4 : V3 ℝ := ⟨cb*w3.x - sb*w3.z, w3.y, sb*w3.x + cb*w3.z⟩
  ⟨cg*w4.x + sg*w4.y, -sg*w4.x + cg*w4.y, w4.z⟩

/-- Rodrigues rotation about a unit vector k, with `ct = cos θ`, `st = sin θ`:
    `v cos θ + (k × v) sin θ + k (k·v)(1 − cos θ)` -/
def rodK (ct st : ℝ) (k v : V3 ℝ) : V3 ℝ :=
  let d := k.x*v.x + k.y*v.y + k.z*v.z
  ⟨v.x*ct + (k.y*v.z - k.z*v.y)*st + k.x*d*(1-ct),
   v.y*ct + (k.z*v.x - k.x*v.z)*st + k.y*d*(1-ct),
   v.z*ct + (k.x*v.y - k.y*v.x)*st + k.z*d*(1-ct)⟩

theorem conj_eq_rod (cg sg cb sb ct st : ℝ) (v : V3 ℝ)
    (hg : cg^2 + sg^2 = 1) (hb : cb^2 + sb^2 = 1) :
    conj cg sg cb sb ct st v = rodK ct st ⟨-sb*cg, sb*sg, cb⟩ v := by
  obtain ⟨vx, vy, vz⟩ := v
  simp only [conj, rodK, V3.mk.injEq]
  refine ⟨?_, ?_, ?_⟩
  · linear_combination (cb^2*ct*vx - cb*st*vy + ct*sb^2*vx) * hg + (-ct*(cg*sg*vy + sg^2*vx - vx)) * hb
  · linear_combination (cb*st*vx + ct*vy) * hg + (-ct*sg*(cg*vx - sg*vy)) * hb
  · linear_combination (ct*vz) * hb

theorem beta_vals (u z : ℝ) (hu : u ≠ 0) :
    let ρ := Real.sqrt (u*u + z*z)
    let b := -u / |u| * Real.arccos (z / ρ)
    Real.cos b = z / ρ ∧ Real.sin b = -u / ρ := by
  intro ρ b
  have h2 : 0 < u*u + z*z := by have := mul_self_pos.mpr hu; nlinarith [mul_self_nonneg z]
  have hρ : 0 < ρ := Real.sqrt_pos.mpr h2
  have hρρ : ρ * ρ = u*u + z*z := Real.mul_self_sqrt h2.le
  have habs : |u| ≠ 0 := abs_ne_zero.mpr hu
  have hz1 : -1 ≤ z / ρ := by
    rw [le_div_iff₀ hρ]; nlinarith [sq_nonneg (z + ρ), sq_nonneg u]
  have hz2 : z / ρ ≤ 1 := by
    rw [div_le_iff₀ hρ]; nlinarith [sq_nonneg (z - ρ), sq_nonneg u]
  have hsq : Real.sqrt (1 - (z/ρ)^2) = |u| / ρ := by
    have : 1 - (z/ρ)^2 = (|u|/ρ)^2 := by
      field_simp; rw [sq_abs]; nlinarith
    rw [this, Real.sqrt_sq (by positivity)]
  rcases lt_or_gt_of_ne hu with h | h
  · have e : -u / |u| = 1 := by rw [abs_of_neg h]; field_simp
    simp only [b, e, one_mul]
    rw [Real.cos_arccos hz1 hz2, Real.sin_arccos, hsq, abs_of_neg h]
    exact ⟨rfl, by ring⟩
  · have e : -u / |u| = -1 := by rw [abs_of_pos h]; field_simp
    simp only [b, e, neg_one_mul, Real.cos_neg, Real.sin_neg]
    rw [Real.cos_arccos hz1 hz2, Real.sin_arccos, hsq, abs_of_pos h]
    exact ⟨rfl, by ring⟩

theorem gamma_vals (x y : ℝ) (hx : x ≠ 0) :
    let r := Real.sqrt (x*x + y*y)
    let g := -x / |x| * Real.arcsin (y / r)
    Real.cos g = |x| / r ∧ Real.sin g = -(x/|x|) * (y / r) := by
  intro r g
  have hr2 : 0 < x*x + y*y := by have := mul_self_pos.mpr hx; nlinarith [mul_self_nonneg y]
  have hr : 0 < r := Real.sqrt_pos.mpr hr2
  have hrr : r * r = x*x + y*y := Real.mul_self_sqrt hr2.le
  have habs : |x| ≠ 0 := abs_ne_zero.mpr hx
  have hyr1 : -1 ≤ y / r := by
    rw [le_div_iff₀ hr]; nlinarith [sq_nonneg (y + r), sq_nonneg x, sq_abs x]
  have hyr2 : y / r ≤ 1 := by
    rw [div_le_iff₀ hr]; nlinarith [sq_nonneg (y - r), sq_nonneg x]
  have hsq : Real.sqrt (1 - (y/r)^2) = |x| / r := by
    have : 1 - (y/r)^2 = (|x|/r)^2 := by
      field_simp; rw [sq_abs]; nlinarith
    rw [this, Real.sqrt_sq (by positivity)]
  rcases lt_or_gt_of_ne hx with h | h
  · have e : -x / |x| = 1 := by rw [abs_of_neg h]; field_simp
    have e' : x / |x| = -1 := by rw [abs_of_neg h]; field_simp
    simp only [g, e, e', one_mul]
    rw [Real.cos_arcsin, Real.sin_arcsin hyr1 hyr2, hsq]; simp
  · have e : -x / |x| = -1 := by rw [abs_of_pos h]; field_simp
    have e' : x / |x| = 1 := by rw [abs_of_pos h]; field_simp
    simp only [g, e, e', neg_one_mul, Real.cos_neg, Real.sin_neg]
    rw [Real.cos_arcsin, Real.sin_arcsin hyr1 hyr2, hsq]; simp

/-- the code's result, when both alignment rotations are taken, written with the angles it computed -/
theorem rotate_unfold_yx (θ : ℝ) (a v : V3 ℝ) (hy : a.y ≠ 0) (γ β : ℝ) (hγ : γ = gammaOf a)
    (h1 : (rotZ γ a).x ≠ 0) (hβ : β = betaOf (rotZ γ a)) :
    rotateAround θ a v = conj (Real.cos γ) (Real.sin γ) (Real.cos β) (Real.sin β) (Real.cos θ) (Real.sin θ) v := by
  unfold rotateAround
  simp only [nz_real]
  simp only [ne_eq, hy, not_false_eq_true, if_true]
  rw [← hγ]
  simp only [ne_eq] at h1
  simp only [h1, not_false_eq_true, if_true]
  rw [← hβ]
  obtain ⟨vx, vy, vz⟩ := v
  simp only [rotZ, rotY, conj, Trig.sin, Trig.cos, Real.cos_neg, Real.sin_neg, V3.mk.injEq]
  refine ⟨by ring, by ring, by ring⟩

noncomputable def nrm (a : V3 ℝ) : ℝ := Real.sqrt (a.x*a.x + a.y*a.y + a.z*a.z)

/-- the unit vector along `a` -/
noncomputable def unit (a : V3 ℝ) : V3 ℝ := ⟨a.x / nrm a, a.y / nrm a, a.z / nrm a⟩

theorem betaOf_ne (a1 : V3 ℝ) (h : a1.x ≠ 0) :
    betaOf a1 = -a1.x / |a1.x| * Real.arccos (a1.z / Real.sqrt (a1.x*a1.x + a1.z*a1.z)) := by
  unfold betaOf; simp only [nz_real, ne_eq, h, not_false_eq_true, if_true]; rfl

theorem rotate_caseA (θ : ℝ) (a v : V3 ℝ) (hy : a.y ≠ 0) (hx : a.x ≠ 0) :
    rotateAround θ a v = rodK (Real.cos θ) (Real.sin θ) (unit a) v := by
  obtain ⟨x, y, z⟩ := a
  simp only at hy hx
  obtain ⟨hcg, hsg⟩ := gamma_vals x y hx
  obtain ⟨r, hr_def⟩ : ∃ r, r = Real.sqrt (x*x + y*y) := ⟨_, rfl⟩
  obtain ⟨γ, hγ⟩ : ∃ γ, γ = -x / |x| * Real.arcsin (y / Real.sqrt (x*x + y*y)) := ⟨_, rfl⟩
  have hγ' : γ = gammaOf (⟨x, y, z⟩ : V3 ℝ) := by
    rw [hγ]; unfold gammaOf; simp only [nz_real, ne_eq, hy, hx, not_false_eq_true, if_true]; rfl
  rw [← hγ] at hcg hsg; rw [← hr_def] at hcg hsg
  have hr2 : 0 < x*x + y*y := by have := mul_self_pos.mpr hx; nlinarith [mul_self_nonneg y]
  have hr : 0 < r := by rw [hr_def]; exact Real.sqrt_pos.mpr hr2
  have hrr : r * r = x*x + y*y := by rw [hr_def]; exact Real.mul_self_sqrt hr2.le
  have habs : |x| ≠ 0 := abs_ne_zero.mpr hx
  have habs2 : |x| * |x| = x * x := abs_mul_abs_self x
  have hss : (x / |x|) * (x / |x|) = 1 := by
    rw [div_mul_div_comm, habs2]; exact div_self (mul_ne_zero hx hx)
  have ha1x : (rotZ γ (⟨x, y, z⟩ : V3 ℝ)).x = x / |x| * r := by
    simp only [rotZ, Trig.cos, Trig.sin, hcg, hsg]
    field_simp
    nlinarith [habs2, hrr]
  have ha1z : (rotZ γ (⟨x, y, z⟩ : V3 ℝ)).z = z := rfl
  have hs : x / |x| ≠ 0 := div_ne_zero hx habs
  have h1 : (rotZ γ (⟨x, y, z⟩ : V3 ℝ)).x ≠ 0 := by rw [ha1x]; exact mul_ne_zero hs hr.ne'
  obtain ⟨β, hβ⟩ : ∃ β, β = betaOf (rotZ γ (⟨x, y, z⟩ : V3 ℝ)) := ⟨_, rfl⟩
  rw [rotate_unfold_yx θ ⟨x, y, z⟩ v hy γ β hγ' h1 hβ]
  obtain ⟨hcb, hsb⟩ := beta_vals (rotZ γ (⟨x, y, z⟩ : V3 ℝ)).x z h1
  rw [betaOf_ne _ h1, ha1z] at hβ
  rw [← hβ] at hcb hsb
  have hρ : Real.sqrt ((rotZ γ (⟨x, y, z⟩ : V3 ℝ)).x * (rotZ γ (⟨x, y, z⟩ : V3 ℝ)).x + z * z) = nrm ⟨x, y, z⟩ := by
    unfold nrm; congr 1; rw [ha1x]; simp only; nlinarith [hss, hrr]
  rw [hρ] at hcb hsb
  have hn : 0 < nrm ⟨x, y, z⟩ := by
    unfold nrm; apply Real.sqrt_pos.mpr; simp only; nlinarith [mul_self_nonneg z]
  rw [conj_eq_rod _ _ _ _ _ _ v (Real.cos_sq_add_sin_sq γ) (Real.cos_sq_add_sin_sq β)]
  congr 1
  rw [hcb, hsb, hcg, hsg, ha1x]
  simp only [unit, V3.mk.injEq]
  refine ⟨?_, ?_, trivial⟩
  · field_simp
  · field_simp; nlinarith [hss, habs2]

theorem rotate_caseB (θ : ℝ) (a v : V3 ℝ) (hy : a.y ≠ 0) (hx : a.x = 0) :
    rotateAround θ a v = rodK (Real.cos θ) (Real.sin θ) (unit a) v := by
  obtain ⟨x, y, z⟩ := a
  simp only at hy hx
  subst hx
  have hγ' : Real.pi / 2 = gammaOf (⟨0, y, z⟩ : V3 ℝ) := by
    unfold gammaOf; simp only [nz_real, ne_eq, hy, not_false_eq_true, if_true, not_true_eq_false, if_false]; rfl
  have ha1x : (rotZ (Real.pi / 2) (⟨0, y, z⟩ : V3 ℝ)).x = -y := by
    simp [rotZ, Trig.cos, Trig.sin]
  have ha1z : (rotZ (Real.pi / 2) (⟨0, y, z⟩ : V3 ℝ)).z = z := rfl
  have h1 : (rotZ (Real.pi / 2) (⟨0, y, z⟩ : V3 ℝ)).x ≠ 0 := by rw [ha1x]; exact neg_ne_zero.mpr hy
  obtain ⟨β, hβ⟩ : ∃ β, β = betaOf (rotZ (Real.pi / 2) (⟨0, y, z⟩ : V3 ℝ)) := ⟨_, rfl⟩
  rw [rotate_unfold_yx θ ⟨0, y, z⟩ v hy (Real.pi / 2) β hγ' h1 hβ]
  obtain ⟨hcb, hsb⟩ := beta_vals (rotZ (Real.pi / 2) (⟨0, y, z⟩ : V3 ℝ)).x z h1
  rw [betaOf_ne _ h1, ha1z] at hβ
  rw [← hβ] at hcb hsb
  have hρ : Real.sqrt ((rotZ (Real.pi / 2) (⟨0, y, z⟩ : V3 ℝ)).x * (rotZ (Real.pi / 2) (⟨0, y, z⟩ : V3 ℝ)).x + z * z)
      = nrm ⟨0, y, z⟩ := by
    unfold nrm; congr 1; rw [ha1x]; simp only; ring
  rw [hρ] at hcb hsb
  rw [conj_eq_rod _ _ _ _ _ _ v (Real.cos_sq_add_sin_sq _) (Real.cos_sq_add_sin_sq β)]
  congr 1
  rw [hcb, hsb, ha1x, Real.cos_pi_div_two, Real.sin_pi_div_two]
  simp only [unit, V3.mk.injEq]
  refine ⟨by simp, by ring, trivial⟩

theorem rotate_caseC (θ : ℝ) (a v : V3 ℝ) (hy : a.y = 0) (hx : a.x ≠ 0) :
    rotateAround θ a v = rodK (Real.cos θ) (Real.sin θ) (unit a) v := by
  obtain ⟨x, y, z⟩ := a
  simp only at hy hx
  subst hy
  obtain ⟨β, hβ⟩ : ∃ β, β = betaOf (⟨x, 0, z⟩ : V3 ℝ) := ⟨_, rfl⟩
  have hg0 : gammaOf (⟨x, 0, z⟩ : V3 ℝ) = 0 := by unfold gammaOf; simp
  have hunf : rotateAround θ ⟨x, 0, z⟩ v =
      conj 1 0 (Real.cos β) (Real.sin β) (Real.cos θ) (Real.sin θ) v := by
    unfold rotateAround
    simp only [nz_real]
    simp only [ne_eq, not_true_eq_false, if_false, hx, not_false_eq_true, if_true, hg0]
    rw [← hβ]
    obtain ⟨vx, vy, vz⟩ := v
    simp only [rotZ, rotY, conj, Trig.sin, Trig.cos, Real.cos_neg, Real.sin_neg, neg_zero, Real.cos_zero,
      Real.sin_zero, V3.mk.injEq]
    refine ⟨by ring, by ring, by ring⟩
  rw [hunf]
  obtain ⟨hcb, hsb⟩ := beta_vals x z hx
  rw [betaOf_ne _ hx] at hβ
  rw [← hβ] at hcb hsb
  have hρ : Real.sqrt (x * x + z * z) = nrm ⟨x, 0, z⟩ := by unfold nrm; congr 1; simp
  rw [hρ] at hcb hsb
  rw [conj_eq_rod _ _ _ _ _ _ v (by norm_num) (Real.cos_sq_add_sin_sq β)]
  congr 1
  rw [hcb, hsb]
  simp only [unit, V3.mk.injEq]
  refine ⟨by ring, by simp, trivial⟩

theorem rotate_caseD (θ : ℝ) (a v : V3 ℝ) (hy : a.y = 0) (hx : a.x = 0) (hz : 0 < a.z) :
    rotateAround θ a v = rodK (Real.cos θ) (Real.sin θ) (unit a) v := by
  obtain ⟨x, y, z⟩ := a
  simp only at hy hx hz
  subst hy; subst hx
  have hn : nrm ⟨0, 0, z⟩ = z := by
    unfold nrm; simp only [mul_zero, zero_add]; exact Real.sqrt_mul_self hz.le
  have hg0 : gammaOf (⟨0, 0, z⟩ : V3 ℝ) = 0 := by unfold gammaOf; simp
  have hb0 : betaOf (⟨0, 0, z⟩ : V3 ℝ) = 0 := by
    unfold betaOf; simp only [nz_real, ne_eq, not_true_eq_false, if_false, not_lt.mpr hz.le]
  obtain ⟨vx, vy, vz⟩ := v
  unfold rotateAround
  simp only [nz_real]
  simp only [ne_eq, not_true_eq_false, if_false, hg0, hb0, not_lt.mpr hz.le]
  simp only [rotZ, rotY, rodK, unit, hn, Trig.sin, Trig.cos, Real.cos_neg, Real.sin_neg, neg_zero, Real.cos_zero,
    Real.sin_zero, zero_div, div_self hz.ne', V3.mk.injEq]
  refine ⟨by ring, by ring, by ring⟩

/-- the axis points along −z: the code turns it onto +z by β = π -/
theorem rotate_caseE (θ : ℝ) (a v : V3 ℝ) (hy : a.y = 0) (hx : a.x = 0) (hz : a.z < 0) :
    rotateAround θ a v = rodK (Real.cos θ) (Real.sin θ) (unit a) v := by
  obtain ⟨x, y, z⟩ := a
  simp only at hy hx hz
  subst hy; subst hx
  have hn : nrm ⟨0, 0, z⟩ = -z := by
    unfold nrm; simp only [mul_zero, zero_add]
    rw [show z * z = (-z) * (-z) by ring]; exact Real.sqrt_mul_self (by linarith)
  have hg0 : gammaOf (⟨0, 0, z⟩ : V3 ℝ) = 0 := by unfold gammaOf; simp
  have hb0 : betaOf (⟨0, 0, z⟩ : V3 ℝ) = Real.pi := by
    unfold betaOf; simp only [nz_real, ne_eq, not_true_eq_false, if_false, hz, if_true]; rfl
  have hzn : z / -z = -1 := by rw [div_neg, div_self hz.ne]
  obtain ⟨vx, vy, vz⟩ := v
  unfold rotateAround
  simp only [nz_real]
  simp only [ne_eq, not_true_eq_false, if_false, hg0, hb0, hz, if_true]
  simp only [rotZ, rotY, rodK, unit, hn, hzn, Trig.sin, Trig.cos, Real.cos_neg, Real.sin_neg, neg_zero, Real.cos_zero,
    Real.sin_zero, Real.cos_pi, Real.sin_pi, zero_div, V3.mk.injEq]
  refine ⟨by ring, by ring, by ring⟩

end Rot
end Propka
