import Propka.Model.Params
/-! Helper lemmas for C18: every write into the two matrices is mirrored. -/
namespace Propka.Params

def Symm {β : Type} (t : Tbl β) : Prop := ∀ a b, t a b = t b a

theorem set_both_symm {β : Type} (t : Tbl β) (h : Symm t) (a b : String) (v : β) :
    Symm (set (set t a b v) b a v) := by
  intro x y
  unfold set
  have := h x y
  grind

theorem fold_symm (new : String) (gvs : List (String × String)) (t : Tbl String) (h : Symm t) :
    Symm (gvs.foldl (fun t gv => set (set t gv.1 new gv.2) new gv.1 gv.2) t) := by
  induction gvs generalizing t with
  | nil => exact h
  | cons gv rest ih => exact ih _ (set_both_symm t h gv.1 new gv.2)

theorem IMat.add_symm (m m' : IMat) (words : List String) (h : Symm m.tbl)
    (hadd : m.add words = .ok m') : Symm m'.tbl := by
  unfold IMat.add at hadd
  cases words with
  | nil => simp at hadd
  | cons new vals =>
    simp only at hadd
    split at hadd
    · simp at hadd
    · cases hadd; exact fold_symm new _ _ h

theorem PMat.apply_symm {β : Type} (m : PMat β) (op : POp β) (h : Symm m.tbl) : Symm (m.apply op).tbl := by
  cases op with
  | setDefault v => exact h
  | pair g1 g2 v => exact set_both_symm m.tbl h g1 g2 v

def mentions {β : Type} (a b : String) : POp β → Bool
  | .setDefault _ => false
  | .pair g1 g2 _ => (g1 == a && g2 == b) || (g1 == b && g2 == a)

theorem PMat.apply_none {β : Type} (m : PMat β) (op : POp β) (a b : String) (hm : m.tbl a b = none)
    (hop : mentions a b op = false) : (m.apply op).tbl a b = none := by
  cases op with
  | setDefault v => exact hm
  | pair g1 g2 v =>
    simp only [mentions, Bool.or_eq_false_iff, Bool.and_eq_false_iff, beq_eq_false_iff_ne] at hop
    simp only [PMat.apply, set]
    obtain ⟨h1, h2⟩ := hop
    have e1 : ¬ (a = g2 ∧ b = g1) := by
      rintro ⟨rfl, rfl⟩; rcases h2 with h | h <;> exact h rfl
    have e2 : ¬ (a = g1 ∧ b = g2) := by
      rintro ⟨rfl, rfl⟩; rcases h1 with h | h <;> exact h rfl
    simp [e1, e2, hm]

/-- one line of a parameter file keeps both tables symmetric -/
theorem parseLine_symm {ν : Type} [HalfPow ν] (num isInt : String → Option ν) (kinds : List (String × String))
    (sq : List String) (st st' : PState ν) (line : List Char)
    (h : Symm st.im.tbl ∧ Symm st.pm.tbl) (hp : parseLine num isInt kinds sq st line = .ok st') :
    Symm st'.im.tbl ∧ Symm st'.pm.tbl := by
  unfold parseLine at hp
  simp only at hp
  split at hp
  · cases hp; exact h
  · rename_i name args _
    split at hp
    · -- matrix
      cases hadd : st.im.add args with
      | error e => simp [hadd, Except.map] at hp
      | ok im =>
        simp [hadd, Except.map] at hp; cases hp
        exact ⟨IMat.add_symm _ _ _ h.1 hadd, h.2⟩
    · -- pmatrix
      cases hop : PMat.parseOp num args with
      | error e => simp [hop, Except.map] at hp
      | ok op =>
        simp [hop, Except.map] at hp; cases hp
        exact ⟨h.1, PMat.apply_symm _ _ h.2⟩
    all_goals (repeat (split at hp)) <;> first | (cases hp; exact h) | cases hp

end Propka.Params
