import Propka.Model.Pipeline
import Propka.Proofs.Bonds
/-! Refinement of the bonding phase of the set-up pipeline (`Pipe.bondAll`: a state machine on the atoms' bond lists)
    to the list-of-pairs model of C11 (`Bonds.findBonds`), whose theorem `boxes_eq_pairwise` says that the bonds are those
    of the pairwise criterion. -/
namespace Propka.Pipe
open Propka

section
variable {α : Type} [Add α] [Sub α] [Mul α] [OfNat α 0] [LT α] [DecidableLT α] [Max α] [Bonds.CellIdx α]

theorem at'_modify (s : St α) (k i : Nat) (f : PAtom α → PAtom α) :
    at' (s.modify k f) i = if k = i ∧ i < s.size then f (at' s i) else at' s i := by
  unfold at'
  rw [Array.getD_eq_getD_getElem?, Array.getD_eq_getD_getElem?, Array.getElem?_modify]
  by_cases hk : k = i
  · by_cases hi : i < s.size
    · simp [hk, hi]
    · have : s[i]? = none := by simp; omega
      simp [hk, hi, this]
  · simp [hk]

/-- the bond list of atom `i` -/
def adj (s : St α) (i : Nat) : List Nat := (at' s i).bonded

theorem at'_modify_self (s : St α) (i : Nat) (f : PAtom α → PAtom α) (hi : i < s.size) :
    at' (s.modify i f) i = f (at' s i) := by
  rw [at'_modify, if_pos ⟨rfl, hi⟩]

theorem at'_modify_ne (s : St α) (k i : Nat) (f : PAtom α → PAtom α) (h : k ≠ i) :
    at' (s.modify k f) i = at' s i := by
  rw [at'_modify, if_neg (fun x => h x.1)]

theorem adj_addBond (s : St α) (a b i : Nat) (ha : a < s.size) (hb : b < s.size) (hab : a ≠ b) (hnb : b ∉ adj s a) :
    adj (addBond s a b) i = if i = b then adj s i ++ [a] else if i = a then adj s i ++ [b] else adj s i := by
  have hnb' : ((at' s a).bonded.contains b) = false := by
    unfold adj at hnb; simpa using hnb
  unfold addBond adj
  by_cases hia : i = a
  · subst hia
    rw [at'_modify_self _ _ _ (by rw [Array.size_modify]; exact ha), at'_modify_ne _ _ _ _ (Ne.symm hab)]
    rw [if_neg hab]
    have hm : b ∉ (at' s i).bonded := by simpa using hnb'
    simp [hm]
  · by_cases hib : i = b
    · subst hib
      rw [at'_modify_ne _ _ _ _ (Ne.symm hia), at'_modify_self _ _ _ hb]
      simp
    · rw [at'_modify_ne _ _ _ _ (Ne.symm hia), at'_modify_ne _ _ _ _ (Ne.symm hib)]
      simp [hia, hib]

theorem batom_addBond (s : St α) (a b i : Nat) : batom (addBond s a b) i = batom s i := by
  unfold addBond batom
  rw [at'_modify, at'_modify]
  split <;> split <;> (try split) <;> rfl

theorem size_addBond (s : St α) (a b : Nat) : (addBond s a b).size = s.size := by
  unfold addBond; simp [Array.size_modify]

theorem adj_flagBridge (s : St α) (a b i : Nat) : adj (flagBridge s a b) i = adj s i := by
  unfold flagBridge adj
  rw [at'_modify, at'_modify]
  split <;> split <;> rfl

theorem batom_flagBridge (s : St α) (a b i : Nat) : batom (flagBridge s a b) i = batom s i := by
  unfold flagBridge batom
  rw [at'_modify, at'_modify]
  split <;> split <;> rfl

theorem size_flagBridge (s : St α) (a b : Nat) : (flagBridge s a b).size = s.size := by
  unfold flagBridge; simp [Array.size_modify]

theorem adjOf_append (ps : List (Nat × Nat)) (p : Nat × Nat) (i : Nat) :
    Bonds.adjOf (ps ++ [p]) i = Bonds.adjOf ps i ++ (if p.1 = i then [p.2] else if p.2 = i then [p.1] else []) := by
  unfold Bonds.adjOf
  rw [List.filterMap_append]
  congr 1
  simp only [List.filterMap_cons, List.filterMap_nil]
  split <;> split <;> simp_all

/-- the relation between the two models: same size and geometry as at the start, bond lists = adjacency of the pair list -/
structure Refines (s0 s : St α) (ps : List (Nat × Nat)) : Prop where
  size : s.size = s0.size
  geo : ∀ i, batom s i = batom s0 i
  adjEq : ∀ i, adj s i = Bonds.adjOf ps i

/-- one call of `_find_bonds_for_atoms` in the two models -/
theorem bondStep_refines (P : PP α) (s0 s : St α) (ps : List (Nat × Nat)) (p : Nat × Nat) (h : Refines s0 s ps)
    (h1 : p.1 < s0.size) (h2 : p.2 < s0.size) (hne : p.1 ≠ p.2) :
    Refines s0 (bondStep P s p)
      (Bonds.tryBond (fun i j => Bonds.crit P.bond (batom s0 i) (batom s0 j)) ps p) := by
  obtain ⟨a, b⟩ := p
  simp only at h1 h2 hne
  have hmem : ((at' s b).bonded.contains a = true) ↔ Bonds.bondedIn ps a b := by
    have := h.adjEq b
    unfold adj at this
    rw [List.contains_iff_mem, this, Bonds.mem_adjOf]
    unfold Bonds.bondedIn
    exact Or.comm
  unfold bondStep Bonds.tryBond
  simp only
  by_cases hb : Bonds.bondedIn ps a b
  · rw [if_pos (hmem.mpr hb), if_pos hb]; exact h
  · have hc : ¬ ((at' s b).bonded.contains a = true) := fun x => hb (hmem.mp x)
    rw [if_neg hc, if_neg hb, h.geo a, h.geo b]
    by_cases hcrit : Bonds.crit P.bond (batom s0 a) (batom s0 b) = true
    · rw [if_pos hcrit, if_pos hcrit]
      have hnb : b ∉ adj s a := by
        rw [h.adjEq a, Bonds.mem_adjOf]; exact hb
      have hadj : ∀ i, adj (addBond s a b) i = Bonds.adjOf (ps ++ [(a, b)]) i := by
        intro i
        rw [adj_addBond s a b i (h.size ▸ h1) (h.size ▸ h2) hne hnb, adjOf_append, h.adjEq i]
        by_cases hib : i = b
        · subst hib
          have : ¬ (a = i) := hne
          simp [this]
        · by_cases hia : i = a
          · subst hia; simp [hib]
          · have e1 : ¬ (a = i) := fun e => hia e.symm
            have e2 : ¬ (b = i) := fun e => hib e.symm
            simp [hia, hib, e1, e2]
      split
      · exact ⟨by rw [size_flagBridge, size_addBond, h.size],
               fun i => by rw [batom_flagBridge, batom_addBond, h.geo],
               fun i => by rw [adj_flagBridge, hadj]⟩
      · exact ⟨by rw [size_addBond, h.size], fun i => by rw [batom_addBond, h.geo], hadj⟩
    · rw [if_neg hcrit, if_neg hcrit]; exact h

/-- any call sequence over distinct atoms of the table -/
theorem bondFold_refines (P : PP α) (s0 : St α) :
    ∀ (vis : List (Nat × Nat)) (s : St α) (ps : List (Nat × Nat)), Refines s0 s ps →
      (∀ p ∈ vis, p.1 < s0.size ∧ p.2 < s0.size ∧ p.1 ≠ p.2) →
      Refines s0 (vis.foldl (bondStep P) s)
        (vis.foldl (Bonds.tryBond (fun i j => Bonds.crit P.bond (batom s0 i) (batom s0 j))) ps) := by
  intro vis
  induction vis with
  | nil => intro s ps h _; exact h
  | cons p vis ih =>
    intro s ps h hv
    simp only [List.foldl_cons]
    have hp := hv p List.mem_cons_self
    exact ih _ _ (bondStep_refines P s0 s ps p h hp.1 hp.2.1 hp.2.2) (fun q hq => hv q (List.mem_cons_of_mem _ hq))

/-- **The bonding phase of the set-up pipeline computes the bond lists of the pair-list model of C11**: for a table of atoms
    without bonds, whose cell offsets do not contain the zero offset, the bond list of every atom after `bondAll` is its adjacency
    in `Bonds.findBonds` over the same cells and the same criterion - in the same order. -/
theorem bondAll_refines (P : PP α) (s0 : St α) (h0 : (0, 0, 0) ∉ P.offsets) (hempty : ∀ i, adj s0 i = []) :
    ∀ i, adj (bondAll P s0) i =
      Bonds.adjOf (Bonds.findBonds P.offsets (fun i => Bonds.cellOf P.bond (batom s0 i))
        (fun i j => Bonds.crit P.bond (batom s0 i) (batom s0 j)) s0.size) i := by
  have hstart : Refines s0 s0 [] := ⟨rfl, fun _ => rfl, fun i => by rw [hempty i]; rfl⟩
  have hvis : ∀ p ∈ Bonds.visited P.offsets (Bonds.buildBoxes (fun i => Bonds.cellOf P.bond (batom s0 i)) s0.size),
      p.1 < s0.size ∧ p.2 < s0.size ∧ p.1 ≠ p.2 := by
    intro p hp
    obtain ⟨a, b⟩ := p
    have hlt := Bonds.visited_lt P.offsets (fun i => Bonds.cellOf P.bond (batom s0 i)) s0.size a b hp
    exact ⟨hlt.1, hlt.2, Bonds.visited_ne P.offsets h0 (fun i => Bonds.cellOf P.bond (batom s0 i)) s0.size a b hp⟩
  exact (bondFold_refines P s0 _ s0 [] hstart hvis).adjEq
end

end Propka.Pipe
