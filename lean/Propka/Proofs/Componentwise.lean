import Propka.Model.Iterative
import Mathlib.Algebra.Order.Field.Rat
/-! Helper lemmas for the componentwise behaviour of the iterative scheme (C05): which groups own the
    determinants of a step, the solver as `k` global iterations, and list bookkeeping for restricting
    the interaction list (with its annihilation memory) to a closed sub-system. -/
namespace Propka.Iter


/-- every determinant written by one step belongs to one of the two groups of the interaction -/
theorem interStep_owners (minV : ℚ) (gs : Array (IGroup ℚ)) (old : Array ℚ) (it : Inter ℚ) (ann : ℚ × ℚ) :
    ∀ d ∈ (interStep minV gs old it ann).1, d.owner = it.g1 ∨ d.owner = it.g2 := by
  intro d hd
  unfold interStep at hd
  simp only at hd
  split at hd
  · split at hd <;> simp at hd <;> rcases hd with h | h | h <;> subst h <;> simp
  · split at hd
    · split at hd <;> simp at hd <;> rcases hd with h | h | h <;> subst h <;> simp
    · split at hd
      · unfold ionDets at hd
        simp only [List.mem_append] at hd
        rcases hd with (h | h) | h
        · split at h
          · simp at h; rcases h with h | h <;> subst h <;> simp
          · simp at h
        · split at h
          · simp at h; subst h; simp
          · simp at h
        · split at h
          · simp at h; subst h; simp
          · simp at h
      · simp at hd

/-- `k` global iterations -/
def iterN (minV : ℚ) (gs : Array (IGroup ℚ)) (inters : List (Inter ℚ)) : Nat → State ℚ → State ℚ
  | 0, s => s
  | k+1, s => iterN minV gs inters k (iterate minV gs inters s)

/-- the solver is some number of global iterations, at least one when it has fuel -/
theorem solveLoop_eq_iterN (minV : ℚ) (gs : Array (IGroup ℚ)) (inters : List (Inter ℚ)) (fuel : Nat) (s : State ℚ) :
    ∃ k, k ≤ fuel ∧ (fuel ≠ 0 → k ≠ 0) ∧ solveLoop minV gs inters fuel s = iterN minV gs inters k s := by
  induction fuel generalizing s with
  | zero => exact ⟨0, Nat.le_refl _, fun h => absurd rfl h, rfl⟩
  | succ n ih =>
    unfold solveLoop
    simp only
    split
    · exact ⟨1, by omega, fun _ => by omega, rfl⟩
    · obtain ⟨k, hk, _, he⟩ := ih (iterate minV gs inters s)
      exact ⟨k+1, by omega, fun _ => by omega, by rw [he]; rfl⟩

section
variable (inS : Nat → Bool)

/-- the part of the interaction list (with its annihilation memory) that lies in `S` -/
def subZ (z : List (Inter ℚ × (ℚ × ℚ))) : List (Inter ℚ × (ℚ × ℚ)) := z.filter fun p => inS p.1.g1

theorem zip_sub (l : List (Inter ℚ)) (a : List (ℚ × ℚ)) (h : a.length = l.length) :
    (l.filter fun it => inS it.g1).zip ((subZ inS (l.zip a)).map (·.2)) = subZ inS (l.zip a) := by
  induction l generalizing a with
  | nil => simp [subZ]
  | cons x xs ih =>
    cases a with
    | nil => simp at h
    | cons y ys =>
      simp only [List.length_cons, Nat.add_right_cancel_iff] at h
      have := ih ys h
      unfold subZ at this ⊢
      simp only [List.zip_cons_cons, List.filter_cons]
      by_cases hx : inS x.g1 = true
      · simp only [hx, if_true, List.map_cons, List.zip_cons_cons, this]
      · simp only [hx, Bool.false_eq_true, if_false, this]

theorem sub_map_zip (l : List (Inter ℚ)) (a : List (ℚ × ℚ)) (h : a.length = l.length)
    (f : Inter ℚ × (ℚ × ℚ) → (ℚ × ℚ)) :
    (subZ inS (l.zip ((l.zip a).map f))).map (·.2) = (subZ inS (l.zip a)).map f := by
  induction l generalizing a with
  | nil => simp [subZ]
  | cons x xs ih =>
    cases a with
    | nil => simp at h
    | cons y ys =>
      simp only [List.length_cons, Nat.add_right_cancel_iff] at h
      have := ih ys h
      unfold subZ at this ⊢
      simp only [List.zip_cons_cons, List.map_cons, List.filter_cons]
      by_cases hx : inS x.g1 = true
      · simp only [hx, if_true, List.map_cons, this]
      · simp only [hx, Bool.false_eq_true, if_false, this]

theorem filter_flatMap_sub (z : List (Inter ℚ × (ℚ × ℚ))) (g : Inter ℚ × (ℚ × ℚ) → List (Det ℚ)) (i : Nat) (hi : inS i = true)
    (closed : ∀ p ∈ z, inS p.1.g1 = inS p.1.g2)
    (own : ∀ p ∈ z, ∀ d ∈ g p, d.owner = p.1.g1 ∨ d.owner = p.1.g2) :
    (z.flatMap g).filter (fun d => d.owner = i) = ((subZ inS z).flatMap g).filter (fun d => d.owner = i) := by
  induction z with
  | nil => simp [subZ]
  | cons p ps ih =>
    have ih' := ih (fun q hq => closed q (List.mem_cons_of_mem _ hq)) (fun q hq => own q (List.mem_cons_of_mem _ hq))
    unfold subZ at ih' ⊢
    simp only [List.flatMap_cons, List.filter_append, List.filter_cons]
    by_cases hp : inS p.1.g1 = true
    · simp only [hp, if_true, List.flatMap_cons, List.filter_append, ih']
    · simp only [hp, Bool.false_eq_true, if_false, ih']
      have : (g p).filter (fun d => decide (d.owner = i)) = [] := by
        rw [List.filter_eq_nil_iff]
        intro d hd
        have hc := closed p (List.mem_cons_self ..)
        rcases own p (List.mem_cons_self ..) d hd with h | h
        · simp only [decide_eq_true_eq]; intro e; rw [h] at e; rw [e] at hp; exact hp hi
        · simp only [decide_eq_true_eq]; intro e; rw [h] at e; rw [hc, e] at hp; exact hp hi
      rw [this, List.nil_append]

end

end Propka.Iter
