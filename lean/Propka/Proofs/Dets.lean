import Propka.Model.Dets
import Mathlib.Tactic.Linarith
import Mathlib.Tactic.Ring
import Mathlib.Tactic.FieldSimp
import Mathlib.Algebra.Order.Field.Rat
import Mathlib.Algebra.BigOperators.Group.List.Basic
/-! Helper lemmas for C02 / C08 / C15 over ℚ (exact arithmetic). -/
namespace Propka.Dets

def vsum (ds : List (Det ℚ)) : ℚ := (ds.map (·.value)).sum

theorem dsum_eq (z : ℚ) (ds : List (Det ℚ)) : dsum z ds = z + vsum ds := by
  unfold dsum vsum
  induction ds generalizing z with
  | nil => simp
  | cons d ds ih => simp only [List.foldl_cons, ih, List.map_cons, List.sum_cons]; ring

theorem vsum_perm (a b : List (Det ℚ)) (h : a.Perm b) : vsum a = vsum b := by
  unfold vsum; exact (h.map _).sum_eq

theorem vsum_append (a b : List (Det ℚ)) : vsum (a ++ b) = vsum a + vsum b := by
  unfold vsum; simp

theorem vsum_relabel (l : String) (ds : List (Det ℚ)) : vsum (ds.map (relabel l)) = vsum ds := by
  unfold vsum; rw [List.map_map]; rfl

/-! ### transfer -/
theorem filter_split {α : Type} (xs : List (Det α)) (l : String) :
    (xs.filter (fun d => d.label ≠ l) ++ xs.filter (fun d => d.label = l)).Perm xs := by
  induction xs with
  | nil => simp
  | cons x xs ih =>
    by_cases h : x.label = l
    · simp only [List.filter_cons, h, ne_eq, not_true_eq_false, decide_false, decide_true]
      simp only [Bool.false_eq_true, if_false, if_true]
      exact (List.perm_middle).trans (List.Perm.cons x ih)
    · simp only [List.filter_cons, h, ne_eq, not_false_eq_true, decide_true, decide_false]
      simp only [Bool.false_eq_true, if_false, if_true, List.cons_append]
      exact List.Perm.cons x ih

theorem relabel_back {α : Type} (xs : List (Det α)) (l l' : String) (h : ∀ d ∈ xs, d.label = l) :
    (xs.map (relabel l')).map (relabel l) = xs := by
  induction xs with
  | nil => rfl
  | cons x xs ih =>
    have hx := h x (by simp)
    simp only [List.map_cons]
    rw [ih (fun d hd => h d (by simp [hd]))]
    cases x; simp_all [relabel]

theorem transfer_twice_fst {α : Type} (d1 d2 : List (Det α)) (l1 l2 : String) :
    (transfer (transfer d1 d2 l1 l2).1 (transfer d1 d2 l1 l2).2 l1 l2).1.Perm d1 := by
  simp only [transfer]
  have e1 : (d1.filter (fun d => d.label ≠ l2) ++ (d2.filter (fun d => d.label = l1)).map (relabel l2)).filter
      (fun d => d.label ≠ l2) = d1.filter (fun d => d.label ≠ l2) := by
    rw [List.filter_append, List.filter_filter]
    have : ((d2.filter (fun d => d.label = l1)).map (relabel l2)).filter (fun d => d.label ≠ l2) = [] := by
      simp only [List.filter_eq_nil_iff, List.mem_map, relabel]
      rintro a ⟨x, _, rfl⟩; simp
    rw [this, List.append_nil]
    congr 1; funext d; simp
  have e2 : (d2.filter (fun d => d.label ≠ l1) ++ (d1.filter (fun d => d.label = l2)).map (relabel l1)).filter
      (fun d => d.label = l1) = (d1.filter (fun d => d.label = l2)).map (relabel l1) := by
    rw [List.filter_append, List.filter_filter]
    have h1 : d2.filter (fun a => (decide (a.label = l1) && decide (a.label ≠ l1))) = [] := by
      simp [List.filter_eq_nil_iff]
    have h2 : ((d1.filter (fun d => d.label = l2)).map (relabel l1)).filter (fun d => d.label = l1)
        = (d1.filter (fun d => d.label = l2)).map (relabel l1) := by
      simp only [List.filter_eq_self, List.mem_map, relabel]
      rintro a ⟨x, _, rfl⟩; simp
    rw [h1, h2, List.nil_append]
  rw [e1, e2, relabel_back _ l2 l1 (by intro d hd; simpa using (List.mem_filter.mp hd).2)]
  exact filter_split d1 l2

/-- the second component: `transfer` is symmetric under exchanging the roles of the two groups -/
theorem transfer_swap_args {α : Type} (d1 d2 : List (Det α)) (l1 l2 : String) :
    (transfer d1 d2 l1 l2).2 = (transfer d2 d1 l2 l1).1 ∧ (transfer d1 d2 l1 l2).1 = (transfer d2 d1 l2 l1).2 := by
  simp [transfer]

theorem transfer_twice_snd {α : Type} (d1 d2 : List (Det α)) (l1 l2 : String) :
    (transfer (transfer d1 d2 l1 l2).1 (transfer d1 d2 l1 l2).2 l1 l2).2.Perm d2 := by
  have h := transfer_twice_fst d2 d1 l2 l1
  rw [(transfer_swap_args _ _ l1 l2).1]
  rw [← (transfer_swap_args d2 d1 l2 l1).1, ← (transfer_swap_args d2 d1 l2 l1).2]
  exact h

/-- a transfer moves value between the two lists but keeps the total -/
theorem transfer_total (d1 d2 : List (Det ℚ)) (l1 l2 : String) :
    vsum (transfer d1 d2 l1 l2).1 + vsum (transfer d1 d2 l1 l2).2 = vsum d1 + vsum d2 := by
  simp only [transfer, vsum_append, vsum_relabel]
  have a := vsum_perm _ _ (filter_split d1 l2)
  have b := vsum_perm _ _ (filter_split d2 l1)
  rw [vsum_append] at a b
  linarith

/-! ### add_determinant / averaging -/
theorem vsum_addDet (ds : List (Det ℚ)) (d : Det ℚ) : vsum (addDet ds d) = vsum ds + d.value := by
  induction ds with
  | nil => simp [addDet, vsum]
  | cons x xs ih =>
    unfold addDet
    split
    · simp [vsum]; ring
    · simp only [vsum, List.map_cons, List.sum_cons] at ih ⊢; rw [ih]; ring

theorem vsum_foldl_addDet (acc ds : List (Det ℚ)) : vsum (ds.foldl addDet acc) = vsum acc + vsum ds := by
  induction ds generalizing acc with
  | nil => simp [vsum]
  | cons d ds ih => rw [List.foldl_cons, ih, vsum_addDet]; simp [vsum]; ring

theorem vsum_scale (ds : List (Det ℚ)) (n : ℚ) : vsum (scaleDets ds n) = vsum ds / n := by
  induction ds with
  | nil => simp [scaleDets, vsum]
  | cons d ds ih =>
    simp only [scaleDets, vsum, List.map_cons, List.sum_cons] at ih ⊢
    rw [ih]; ring

end Propka.Dets
