import Propka.Props.C04
import Propka.Props.C20
import Propka.Model.Protonate
/-! The 24 grid rotations (and translations) act on the vector helpers, on the Rodrigues rotation and hence on the
    code's `rotate_vector_around_an_axis` equivariantly (C17 / C04: hydrogen positions in every orientation). -/
namespace Propka.Equiv
open Propka
open Propka.Geom (Mat rot24)

/-- action of an integer matrix on real vectors -/
def act (m : Mat) (v : V3 ℝ) : V3 ℝ :=
  ⟨(m.1.1 : ℝ)*v.x + (m.1.2.1 : ℝ)*v.y + (m.1.2.2 : ℝ)*v.z,
   (m.2.1.1 : ℝ)*v.x + (m.2.1.2.1 : ℝ)*v.y + (m.2.1.2.2 : ℝ)*v.z,
   (m.2.2.1 : ℝ)*v.x + (m.2.2.2.1 : ℝ)*v.y + (m.2.2.2.2 : ℝ)*v.z⟩

set_option hygiene false in
macro "grid24" hm:ident : tactic => `(tactic| (
  simp only [rot24, List.mem_cons, List.not_mem_nil, or_false] at $hm:ident
  rcases $hm:ident with rfl | rfl | rfl | rfl | rfl | rfl | rfl | rfl | rfl | rfl | rfl | rfl | rfl | rfl | rfl | rfl | rfl | rfl | rfl | rfl | rfl | rfl | rfl | rfl))

theorem act_dot (m : Mat) (hm : m ∈ rot24) (a b : V3 ℝ) : Prot.dot (act m a) (act m b) = Prot.dot a b := by
  grid24 hm
  all_goals (simp only [act, Prot.dot]; push_cast; ring)

theorem act_cross (m : Mat) (hm : m ∈ rot24) (a b : V3 ℝ) : Prot.cross (act m a) (act m b) = act m (Prot.cross a b) := by
  grid24 hm
  all_goals (simp only [act, Prot.cross, V3.mk.injEq]; refine ⟨?_, ?_, ?_⟩ <;> (push_cast; ring))

theorem act_add (m : Mat) (a b : V3 ℝ) : act m (Prot.vadd a b) = Prot.vadd (act m a) (act m b) := by
  simp only [act, Prot.vadd, V3.mk.injEq]; refine ⟨?_, ?_, ?_⟩ <;> ring
theorem act_sub (m : Mat) (a b : V3 ℝ) : act m (Prot.vsub a b) = Prot.vsub (act m a) (act m b) := by
  simp only [act, Prot.vsub, V3.mk.injEq]; refine ⟨?_, ?_, ?_⟩ <;> ring
theorem act_neg (m : Mat) (a : V3 ℝ) : act m (Prot.vneg a) = Prot.vneg (act m a) := by
  simp only [act, Prot.vneg, V3.mk.injEq]; refine ⟨?_, ?_, ?_⟩ <;> ring
theorem act_between (m : Mat) (a b : V3 ℝ) : act m (Prot.between a b) = Prot.between (act m a) (act m b) := by
  simp only [act, Prot.between, V3.mk.injEq]; refine ⟨?_, ?_, ?_⟩ <;> ring
theorem act_smul (m : Mat) (a : V3 ℝ) (f : ℝ) : act m ⟨a.x * f, a.y * f, a.z * f⟩ = ⟨(act m a).x * f, (act m a).y * f, (act m a).z * f⟩ := by
  simp only [act, V3.mk.injEq]; refine ⟨?_, ?_, ?_⟩ <;> ring

theorem act_len (m : Mat) (hm : m ∈ rot24) (a : V3 ℝ) : Prot.len (act m a) = Prot.len a := by
  have h := act_dot m hm a a
  unfold Prot.dot at h
  unfold Prot.len
  rw [h]

theorem act_rescale (m : Mat) (hm : m ∈ rot24) (a : V3 ℝ) (l : ℝ) : Prot.rescale (act m a) l = act m (Prot.rescale a l) := by
  unfold Prot.rescale
  simp only [act_len m hm]
  exact (act_smul m a _).symm

/-- a rigid motion of the family: a grid rotation followed by a translation -/
def move (m : Mat) (t : V3 ℝ) (p : V3 ℝ) : V3 ℝ := Prot.vadd (act m p) t

theorem between_move (m : Mat) (t a b : V3 ℝ) : Prot.between (move m t a) (move m t b) = act m (Prot.between a b) := by
  simp only [move, act, Prot.between, Prot.vadd, V3.mk.injEq]; refine ⟨?_, ?_, ?_⟩ <;> ring

theorem move_add (m : Mat) (t a v : V3 ℝ) : Prot.vadd (move m t a) (act m v) = move m t (Prot.vadd a v) := by
  simp only [move, act, Prot.vadd, V3.mk.injEq]; refine ⟨?_, ?_, ?_⟩ <;> ring

theorem act_rodK (m : Mat) (hm : m ∈ rot24) (ct st : ℝ) (k v : V3 ℝ) : Rot.rodK ct st (act m k) (act m v) = act m (Rot.rodK ct st k v) := by
  grid24 hm
  all_goals (simp only [act, Rot.rodK, V3.mk.injEq]; refine ⟨?_, ?_, ?_⟩ <;> (push_cast; ring))

theorem act_unit (m : Mat) (hm : m ∈ rot24) (a : V3 ℝ) : Rot.unit (act m a) = act m (Rot.unit a) := by
  have h := act_dot m hm a a
  unfold Prot.dot at h
  have hn : Rot.nrm (act m a) = Rot.nrm a := by unfold Rot.nrm; rw [h]
  unfold Rot.unit
  rw [hn]
  simp only [act, V3.mk.injEq]; refine ⟨?_, ?_, ?_⟩ <;> ring

theorem act_ne_zero (m : Mat) (hm : m ∈ rot24) (a : V3 ℝ) (ha : a.x ≠ 0 ∨ a.y ≠ 0 ∨ a.z ≠ 0) :
    (act m a).x ≠ 0 ∨ (act m a).y ≠ 0 ∨ (act m a).z ≠ 0 := by
  have h := act_dot m hm a a
  unfold Prot.dot at h
  by_contra hc
  push_neg at hc
  obtain ⟨h1, h2, h3⟩ := hc
  rw [h1, h2, h3] at h
  have : a.x * a.x + a.y * a.y + a.z * a.z = 0 := by linarith
  have hx : a.x = 0 := by nlinarith [mul_self_nonneg a.x, mul_self_nonneg a.y, mul_self_nonneg a.z]
  have hy : a.y = 0 := by nlinarith [mul_self_nonneg a.x, mul_self_nonneg a.y, mul_self_nonneg a.z]
  have hz : a.z = 0 := by nlinarith [mul_self_nonneg a.x, mul_self_nonneg a.y, mul_self_nonneg a.z]
  rcases ha with h | h | h <;> contradiction

/-- **The rotation about an axis commutes with the grid rotations**: rotating axis and vector first gives the rotated result. -/
theorem rotateAround_equivariant (m : Mat) (hm : m ∈ rot24) (θ : ℝ) (a v : V3 ℝ) (ha : a.x ≠ 0 ∨ a.y ≠ 0 ∨ a.z ≠ 0) :
    Rot.rotateAround θ (act m a) (act m v) = act m (Rot.rotateAround θ a v) := by
  rw [Rot.rotate_eq_rodrigues θ a v ha, Rot.rotate_eq_rodrigues θ (act m a) (act m v) (act_ne_zero m hm a ha), act_unit m hm, act_rodK m hm]

open Prot in
/-- the call seen after a rigid motion of the whole structure -/
def moveCall (m : Mat) (t : V3 ℝ) (c : Prot.Call ℝ) : Prot.Call ℝ :=
  { c with atom := move m t c.atom, bonded := c.bonded.map (move m t), nbOthers := c.nbOthers.map (move m t) }

/-- the axis used for the first hydrogen of a trigonal atom whose only neighbour is planar with two further neighbours -/
noncomputable def planarAxis (atom b0 o1 o2 : V3 ℝ) : V3 ℝ :=
  let vec1 := Prot.between atom b0
  let axis := Prot.cross vec1 (Prot.between b0 o1)
  let axis2 := Prot.cross vec1 (Prot.between b0 o2)
  if 0 < Prot.dot axis axis2 then Prot.vadd axis axis2 else Prot.vsub axis axis2

theorem planarAxis_move (m : Mat) (hm : m ∈ rot24) (t atom b0 o1 o2 : V3 ℝ) :
    planarAxis (move m t atom) (move m t b0) (move m t o1) (move m t o2) = act m (planarAxis atom b0 o1 o2) := by
  unfold planarAxis
  simp only [between_move, act_cross m hm, act_dot m hm]
  split
  · exact (act_add m _ _).symm
  · exact (act_sub m _ _).symm

end Propka.Equiv
