import Propka.Model.Iterative
import Mathlib.Tactic.Linarith
import Mathlib.Tactic.NormNum
import Mathlib.Tactic.Ring
import Mathlib.Algebra.Order.Field.Rat
/-! Sign rules of the iterative scheme, proved on the solver model at `ℚ` (C16). -/
namespace Propka.Iter

abbrev Q := ℚ
def coulombDets (ds : List (Det Q)) : List (Det Q) := ds.filter (·.kind == .coulomb)
def minValue : Q := 5 / 1000

instance : DecidableEq (Det Q) := fun a b => by
  cases a; cases b; simp only [Det.mk.injEq]; exact inferInstance

theorem acid_pair_coulomb (gs : Array (IGroup Q)) (old : Array Q) (it : Inter Q) (ann : Q × Q)
    (h1 : (gs.getD it.g1 ⟨0, 0, false⟩).q < 0) (h2 : (gs.getD it.g2 ⟨0, 0, false⟩).q < 0) :
    ∃ o p, coulombDets (interStep minValue gs old it ann).1 = [⟨o, p, .coulomb, it.coul⟩] ∧
      ((o = it.g1 ∧ p = it.g2) ∨ (o = it.g2 ∧ p = it.g1)) := by
  unfold interStep
  simp only [Nat.cast_zero] at *
  simp only [h1, h2, and_self, if_true]
  split
  · exact ⟨it.g1, it.g2, by simp [coulombDets], Or.inl ⟨rfl, rfl⟩⟩
  · exact ⟨it.g2, it.g1, by simp [coulombDets], Or.inr ⟨rfl, rfl⟩⟩

theorem base_pair_coulomb (gs : Array (IGroup Q)) (old : Array Q) (it : Inter Q) (ann : Q × Q)
    (h1 : 0 < (gs.getD it.g1 ⟨0, 0, false⟩).q) (h2 : 0 < (gs.getD it.g2 ⟨0, 0, false⟩).q) :
    ∃ o p, coulombDets (interStep minValue gs old it ann).1 = [⟨o, p, .coulomb, -it.coul⟩] ∧
      ((o = it.g1 ∧ p = it.g2) ∨ (o = it.g2 ∧ p = it.g1)) := by
  unfold interStep
  simp only [Nat.cast_zero] at *
  have n1 : ¬ ((gs.getD it.g1 ⟨0, 0, false⟩).q < 0 ∧ (gs.getD it.g2 ⟨0, 0, false⟩).q < 0) := fun h => absurd h.1 (not_lt.mpr h1.le)
  simp only [n1, if_false, h1, h2, and_self, if_true]
  split
  · exact ⟨it.g1, it.g2, by simp [coulombDets], Or.inl ⟨rfl, rfl⟩⟩
  · exact ⟨it.g2, it.g1, by simp [coulombDets], Or.inr ⟨rfl, rfl⟩⟩

theorem ionDets_coulomb (g1 g2 : Nat) (q1 q2 : Q) (e1 e2 : Bool) (hb coul : Q) :
    coulombDets (ionDets minValue g1 g2 q1 q2 e1 e2 hb coul).1 = [] ∨
    coulombDets (ionDets minValue g1 g2 q1 q2 e1 e2 hb coul).1 =
      [⟨g1, g2, .coulomb, q1 * coul⟩, ⟨g2, g1, .coulomb, q2 * coul⟩] := by
  unfold ionDets coulombDets
  by_cases hc : minValue < coul <;> by_cases hh : minValue < hb <;> cases e1 <;> cases e2 <;> simp [hc, hh]

/-- acid–base pair: the Coulomb determinants come as the pair `q₁·c`, `q₂·c` or not at all -/
theorem ion_pair_coulomb (gs : Array (IGroup Q)) (old : Array Q) (it : Inter Q) (ann : Q × Q)
    (hq : ((gs.getD it.g1 ⟨0, 0, false⟩).q = -1 ∧ (gs.getD it.g2 ⟨0, 0, false⟩).q = 1) ∨
          ((gs.getD it.g1 ⟨0, 0, false⟩).q = 1 ∧ (gs.getD it.g2 ⟨0, 0, false⟩).q = -1)) :
    coulombDets (interStep minValue gs old it ann).1 = [] ∨
    coulombDets (interStep minValue gs old it ann).1 =
      [⟨it.g1, it.g2, .coulomb, (gs.getD it.g1 ⟨0, 0, false⟩).q * it.coul⟩, ⟨it.g2, it.g1, .coulomb, (gs.getD it.g2 ⟨0, 0, false⟩).q * it.coul⟩] := by
  unfold interStep
  simp only [Nat.cast_zero] at *
  have n1 : ¬ ((gs.getD it.g1 ⟨0, 0, false⟩).q < 0 ∧ (gs.getD it.g2 ⟨0, 0, false⟩).q < 0) := by
    rcases hq with ⟨a, b⟩ | ⟨a, b⟩ <;> rw [a, b] <;> norm_num
  have n2 : ¬ (0 < (gs.getD it.g1 ⟨0, 0, false⟩).q ∧ 0 < (gs.getD it.g2 ⟨0, 0, false⟩).q) := by
    rcases hq with ⟨a, b⟩ | ⟨a, b⟩ <;> rw [a, b] <;> norm_num
  simp only [n1, n2, if_false]
  split
  · exact ionDets_coulomb _ _ _ _ _ _ _ _
  · left; simp [coulombDets]

end Propka.Iter
