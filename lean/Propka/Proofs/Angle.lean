import Propka.Model.Angle
import Propka.Proofs.Rotation
/-! Cauchy-Schwarz for the angle factor (C16). -/
namespace Propka.Angle
open Real
theorem unit_dot_le (a1 a2 a3 b1 b2 b3 : ℝ) (ha : 0 < a1*a1 + a2*a2 + a3*a3) (hb : 0 < b1*b1 + b2*b2 + b3*b3) :
    |a1 / √(a1*a1 + a2*a2 + a3*a3) * (b1 / √(b1*b1 + b2*b2 + b3*b3)) + a2 / √(a1*a1 + a2*a2 + a3*a3) * (b2 / √(b1*b1 + b2*b2 + b3*b3))
      + a3 / √(a1*a1 + a2*a2 + a3*a3) * (b3 / √(b1*b1 + b2*b2 + b3*b3))| ≤ 1 := by
  obtain ⟨A, hA⟩ : ∃ A, A = √(a1*a1 + a2*a2 + a3*a3) := ⟨_, rfl⟩
  obtain ⟨B, hB⟩ : ∃ B, B = √(b1*b1 + b2*b2 + b3*b3) := ⟨_, rfl⟩
  rw [← hA, ← hB]
  have hApos : 0 < A := by rw [hA]; exact Real.sqrt_pos.mpr ha
  have hBpos : 0 < B := by rw [hB]; exact Real.sqrt_pos.mpr hb
  have hA2 : A * A = a1*a1 + a2*a2 + a3*a3 := by rw [hA]; exact Real.mul_self_sqrt ha.le
  have hB2 : B * B = b1*b1 + b2*b2 + b3*b3 := by rw [hB]; exact Real.mul_self_sqrt hb.le
  have e : a1 / A * (b1 / B) + a2 / A * (b2 / B) + a3 / A * (b3 / B) = (a1*b1 + a2*b2 + a3*b3) / (A * B) := by
    field_simp
  rw [e, abs_div, abs_of_pos (mul_pos hApos hBpos), div_le_one (mul_pos hApos hBpos)]
  have hsq : (a1*b1 + a2*b2 + a3*b3)^2 ≤ (A * B)^2 := by
    have : (A * B)^2 = (a1*a1 + a2*a2 + a3*a3) * (b1*b1 + b2*b2 + b3*b3) := by rw [mul_pow, sq, sq, hA2, hB2]
    rw [this]
    nlinarith [sq_nonneg (a1*b2 - a2*b1), sq_nonneg (a1*b3 - a3*b1), sq_nonneg (a2*b3 - a3*b2)]
  exact abs_le.mpr (abs_le_of_sq_le_sq' hsq (mul_pos hApos hBpos).le)

end Propka.Angle
