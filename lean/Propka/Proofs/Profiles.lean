import Propka.Model.Profiles
import Mathlib.Analysis.SpecialFunctions.Pow.Real
import Mathlib.Analysis.SpecialFunctions.Log.Base
import Mathlib.Analysis.SpecialFunctions.Pow.Deriv
import Mathlib.Analysis.SpecialFunctions.Log.Deriv
import Mathlib.Analysis.SpecialFunctions.Pow.Continuity
import Mathlib.Topology.Order.IntermediateValue
import Mathlib.Tactic.Ring
import Mathlib.Tactic.Linarith
import Mathlib.Tactic.FieldSimp
import Mathlib.Tactic.Positivity
import Mathlib.Tactic.NormNum
/-! Real-number instance of the profile model and the analytic lemmas for C09 / C10. -/
namespace Propka.Profiles
open Real Set

noncomputable instance : PowLog ℝ := ⟨fun x => (10:ℝ) ^ x, Real.logb 10⟩

theorem chargeAt_real (q pk ph : ℝ) :
    chargeAt q pk ph = q * ((10:ℝ) ^ (q * (pk - ph)) / (1 + (10:ℝ) ^ (q * (pk - ph)))) := by
  simp [chargeAt, PowLog.pow10]

theorem qlog_real (pk ph : ℝ) : qlog pk ph = Real.logb 10 (1 + (10:ℝ) ^ (ph - pk)) := by
  simp [qlog, PowLog.pow10, PowLog.log10]

theorem charge_half (q pk : ℝ) : chargeAt q pk pk = q / 2 := by
  rw [chargeAt_real]; simp; ring

theorem charge_between_pos (q pk ph : ℝ) (hq : 0 < q) : 0 < chargeAt q pk ph ∧ chargeAt q pk ph < q := by
  rw [chargeAt_real]
  have hr : 0 < (10:ℝ) ^ (q * (pk - ph)) := Real.rpow_pos_of_pos (by norm_num) _
  constructor
  · positivity
  · have : (10:ℝ) ^ (q * (pk - ph)) / (1 + (10:ℝ) ^ (q * (pk - ph))) < 1 := by
      rw [div_lt_one (by linarith)]; linarith
    simpa using mul_lt_mul_of_pos_left this hq

theorem charge_between_neg (q pk ph : ℝ) (hq : q < 0) : q < chargeAt q pk ph ∧ chargeAt q pk ph < 0 := by
  rw [chargeAt_real]
  have hr : 0 < (10:ℝ) ^ (q * (pk - ph)) := Real.rpow_pos_of_pos (by norm_num) _
  have h1 : 0 < (10:ℝ) ^ (q * (pk - ph)) / (1 + (10:ℝ) ^ (q * (pk - ph))) := by positivity
  have h2 : (10:ℝ) ^ (q * (pk - ph)) / (1 + (10:ℝ) ^ (q * (pk - ph))) < 1 := by
    rw [div_lt_one (by linarith)]; linarith
  constructor <;> nlinarith

theorem charge_antitone (q pk : ℝ) : Antitone (chargeAt q pk) := by
  intro a b hab
  simp only [chargeAt_real]
  have h10 : (1:ℝ) < 10 := by norm_num
  have hf : ∀ r s : ℝ, 0 < r → r ≤ s → r/(1+r) ≤ s/(1+s) := by
    intro r s hr hrs
    rw [div_le_div_iff₀ (by linarith) (by linarith)]; nlinarith
  rcases le_total 0 q with hq | hq
  · have he : q * (pk - b) ≤ q * (pk - a) := by nlinarith
    have := Real.rpow_le_rpow_of_exponent_le h10.le he
    exact mul_le_mul_of_nonneg_left (hf _ _ (Real.rpow_pos_of_pos (by norm_num) _) this) hq
  · have he : q * (pk - a) ≤ q * (pk - b) := by nlinarith
    have := Real.rpow_le_rpow_of_exponent_le h10.le he
    exact mul_le_mul_of_nonpos_left (hf _ _ (Real.rpow_pos_of_pos (by norm_num) _) this) hq

theorem charge_continuous (q pk : ℝ) : Continuous (chargeAt q pk) := by
  have : chargeAt q pk = fun ph => q * ((10:ℝ) ^ (q * (pk - ph)) / (1 + (10:ℝ) ^ (q * (pk - ph)))) := by
    funext ph; exact chargeAt_real q pk ph
  rw [this]
  have hc : Continuous fun ph : ℝ => (10:ℝ) ^ (q * (pk - ph)) :=
    continuous_const.rpow (by fun_prop) (fun x => Or.inl (by norm_num))
  have hpos : ∀ ph : ℝ, 1 + (10:ℝ) ^ (q * (pk - ph)) ≠ 0 := by
    intro ph; have := Real.rpow_pos_of_pos (by norm_num : (0:ℝ) < 10) (q * (pk - ph)); linarith
  exact continuous_const.mul (hc.div (continuous_const.add hc) hpos)

/-! ### sums -/
theorem foldl_pair_sum (gs : List (TGroup ℝ)) (ph : ℝ) (a b : ℝ) :
    gs.foldl (fun acc g => (acc.1 + chargeAt g.charge g.modelPka ph, acc.2 + chargeAt g.charge g.pka ph)) (a, b)
    = (a + (gs.map fun g => chargeAt g.charge g.modelPka ph).sum, b + (gs.map fun g => chargeAt g.charge g.pka ph).sum) := by
  induction gs generalizing a b with
  | nil => simp
  | cons g gs ih => simp only [List.foldl_cons, ih, List.map_cons, List.sum_cons, add_assoc]

theorem confCharge_sum (gs : List (TGroup ℝ)) (ph : ℝ) :
    confCharge gs ph = (((gs.filter (·.titratable)).map fun g => chargeAt g.charge g.modelPka ph).sum,
                        ((gs.filter (·.titratable)).map fun g => chargeAt g.charge g.pka ph).sum) := by
  unfold confCharge; rw [foldl_pair_sum]; simp

theorem sum_antitone (fs : List (ℝ → ℝ)) (h : ∀ f ∈ fs, Antitone f) : Antitone fun x => (fs.map fun f => f x).sum := by
  induction fs with
  | nil => intro a b _; simp
  | cons f fs ih =>
    intro a b hab
    simp only [List.map_cons, List.sum_cons]
    exact add_le_add (h f (by simp) hab) (ih (fun g hg => h g (List.mem_cons_of_mem _ hg)) hab)

theorem sum_continuous (fs : List (ℝ → ℝ)) (h : ∀ f ∈ fs, Continuous f) : Continuous fun x => (fs.map fun f => f x).sum := by
  induction fs with
  | nil => simpa using continuous_const
  | cons f fs ih =>
    simp only [List.map_cons, List.sum_cons]
    exact (h f (by simp)).add (ih (fun g hg => h g (List.mem_cons_of_mem _ hg)))

/-! ### bisection -/
theorem bisect_root (f : ℝ → ℝ) (prec : ℝ) (hprec : 0 < prec)
    (fuel : ℕ) (lo hi : ℝ) (hlh : lo ≤ hi) (hc : ContinuousOn f (Icc lo hi))
    (hlo : 0 < f lo) (hhi : f hi ≤ 0) (hfuel : hi - lo ≤ prec * 2 ^ fuel) :
    ∃ r ∈ Icc lo hi, f r = 0 ∧ |bisect f prec 2 fuel ((lo + hi) / 2) lo hi - r| ≤ prec := by
  induction fuel generalizing lo hi with
  | zero =>
    simp only [pow_zero, mul_one] at hfuel
    obtain ⟨r, hr, hfr⟩ : ∃ r ∈ Icc lo hi, f r = 0 := by
      have := intermediate_value_Icc' hlh hc
      exact this ⟨hhi, hlo.le⟩
    refine ⟨r, hr, hfr, ?_⟩
    simp only [bisect]
    obtain ⟨h1, h2⟩ := hr
    rw [abs_le]; constructor <;> linarith
  | succ n ih =>
    simp only [bisect]
    by_cases hw : prec < hi - lo
    · simp only [hw, if_true]
      have hmid1 : lo ≤ (lo + hi) / 2 := by linarith
      have hmid2 : (lo + hi) / 2 ≤ hi := by linarith
      by_cases hp : ((0:ℕ):ℝ) < f ((lo + hi) / 2)
      · simp only [hp, if_true]
        have hp' : 0 < f ((lo + hi) / 2) := by simpa using hp
        have hc' : ContinuousOn f (Icc ((lo + hi) / 2) hi) := hc.mono (Icc_subset_Icc hmid1 le_rfl)
        have hf' : hi - (lo + hi) / 2 ≤ prec * 2 ^ n := by rw [pow_succ] at hfuel; linarith
        obtain ⟨r, hr, hfr, hb⟩ := ih ((lo + hi) / 2) hi hmid2 hc' hp' hhi hf'
        exact ⟨r, ⟨le_trans hmid1 hr.1, hr.2⟩, hfr, hb⟩
      · simp only [hp, if_false]
        have hp' : f ((lo + hi) / 2) ≤ 0 := by simpa using hp
        have hc' : ContinuousOn f (Icc lo ((lo + hi) / 2)) := hc.mono (Icc_subset_Icc le_rfl hmid2)
        have hf' : (lo + hi) / 2 - lo ≤ prec * 2 ^ n := by rw [pow_succ] at hfuel; linarith
        obtain ⟨r, hr, hfr, hb⟩ := ih lo ((lo + hi) / 2) hmid1 hc' hlo hp' hf'
        exact ⟨r, ⟨hr.1, le_trans hr.2 hmid2⟩, hfr, hb⟩
    · simp only [hw, if_false]
      obtain ⟨r, hr, hfr⟩ : ∃ r ∈ Icc lo hi, f r = 0 := by
        have := intermediate_value_Icc' hlh hc
        exact this ⟨hhi, hlo.le⟩
      refine ⟨r, hr, hfr, ?_⟩
      obtain ⟨h1, h2⟩ := hr
      have : hi - lo ≤ prec := not_lt.mp hw
      rw [abs_le]; constructor <;> linarith

/-! ### proton linkage -/
theorem qlog_deriv (p x : ℝ) : HasDerivAt (qlog p) ((10:ℝ)^(x-p) / (1 + (10:ℝ)^(x-p))) x := by
  have hq : qlog p = fun x => Real.log (1 + (10:ℝ)^(x - p)) / Real.log 10 := by
    funext y; rw [qlog_real]; rfl
  rw [hq]
  have h10 : (0:ℝ) < 10 := by norm_num
  have hpos : 0 < 1 + (10:ℝ)^(x-p) := by positivity
  have h1 : HasDerivAt (fun x : ℝ => (10:ℝ)^(x - p)) ((10:ℝ)^(x-p) * Real.log 10) x := by
    have := (hasDerivAt_id x).sub_const p
    have h2 := this.const_rpow (a := 10) h10
    simpa [mul_comm] using h2
  have h3 := ((h1.const_add 1).log hpos.ne').div_const (Real.log 10)
  have hl : Real.log 10 ≠ 0 := (Real.log_pos (by norm_num)).ne'
  exact h3.congr_deriv (by field_simp)

theorem charge_neg_one (pk ph : ℝ) :
    chargeAt (-1) pk ph = -((10:ℝ)^(ph - pk) / (1 + (10:ℝ)^(ph - pk))) := by
  rw [chargeAt_real]
  have : (-1:ℝ) * (pk - ph) = ph - pk := by ring
  simp only [this]; ring

theorem charge_pos_one (pk ph : ℝ) :
    chargeAt 1 pk ph = 1 - (10:ℝ)^(ph - pk) / (1 + (10:ℝ)^(ph - pk)) := by
  rw [chargeAt_real]
  have hpos : 0 < (10:ℝ)^(ph - pk) := Real.rpow_pos_of_pos (by norm_num) _
  have e : (1:ℝ) * (pk - ph) = -(ph - pk) := by ring
  simp only [e, Real.rpow_neg (by norm_num : (0:ℝ) ≤ 10)]
  field_simp
  ring

end Propka.Profiles
