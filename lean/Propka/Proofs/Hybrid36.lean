import Propka.Model.Hybrid36
/-! Helper lemmas for C19 (core Lean only). -/
namespace Propka.H36

theorem splitSign_of_ne (c : Char) (r : Str) (h : c ≠ '-') : splitSign (c :: r) = (1, c :: r) := by
  unfold splitSign
  split
  · rename_i r' heq; cases heq; exact absurd rfl h
  · rfl

theorem digits_length (b w m : Nat) : (digits b w m).length = w := by
  induction w generalizing m with
  | zero => rfl
  | succ w ih => simp [digits, ih]

theorem digits_lt (b : Nat) (hb : 0 < b) (w m : Nat) : ∀ d ∈ digits b w m, d < b := by
  induction w generalizing m with
  | zero => simp [digits]
  | succ w ih =>
    intro d hd
    simp only [digits, List.mem_append, List.mem_singleton] at hd
    rcases hd with hd | rfl
    · exact ih _ d hd
    · exact Nat.mod_lt _ hb

theorem digits_head (b : Nat) (hb : 0 < b) (w m : Nat) (hm : m < b ^ (w+1)) :
    (digits b (w+1) m).head? = some (m / b ^ w) := by
  induction w generalizing m with
  | zero =>
    simp only [digits, List.nil_append, List.head?_cons, Nat.pow_zero, Nat.div_one]
    rw [Nat.mod_eq_of_lt (by simpa using hm)]
  | succ w ih =>
    have hdiv : m / b < b ^ (w+1) := by
      rw [Nat.div_lt_iff_lt_mul hb]; rw [Nat.pow_succ] at hm; exact hm
    have h := ih (m / b) hdiv
    rw [digits]
    rw [List.head?_append, h, Option.some_or, Nat.div_div_eq_div_mul, Nat.pow_succ, Nat.mul_comm]

theorem parse_digits_gen (b : Nat) (dig : Nat → Char) (hval : ∀ v, v < b → val (dig v) = v) (hb : 0 < b)
    (w m : Nat) (acc : Nat) (hm : m < b ^ w) :
    ((digits b w m).map dig).foldl (fun acc c => acc * b + val c) acc = acc * b ^ w + m := by
  induction w generalizing m acc with
  | zero => simp [digits] at *; omega
  | succ w ih =>
    simp only [digits, List.map_append, List.map_cons, List.map_nil, List.foldl_append, List.foldl_cons, List.foldl_nil]
    have hdiv : m / b < b ^ w := by
      rw [Nat.div_lt_iff_lt_mul hb]; rw [Nat.pow_succ] at hm; exact hm
    rw [ih (m / b) acc hdiv, hval _ (Nat.mod_lt _ hb)]
    have := Nat.div_add_mod m b
    rw [Nat.pow_succ]
    calc (acc * b ^ w + m / b) * b + m % b = acc * (b ^ w * b) + (b * (m / b) + m % b) := by
          rw [Nat.add_mul, Nat.mul_assoc, Nat.mul_comm (m / b) b, Nat.add_assoc]
      _ = acc * (b ^ w * b) + m := by rw [this]

-- per-character facts, all by evaluation over the digit values
theorem val_decDigit : ∀ v, v < 10 → val (decDigit v) = v := by decide
theorem val_upperDigit : ∀ v, v < 36 → val (upperDigit v) = v := by decide
theorem val_lowerDigit : ∀ v, v < 36 → val (lowerDigit v) = v := by decide
theorem dec_ok : ∀ v, v < 10 → isDigit (decDigit v) = true ∧ isSpace (decDigit v) = false ∧ decDigit v ≠ '-' := by decide
theorem upper_ok : ∀ v, v < 36 → (isUpper (upperDigit v) || isDigit (upperDigit v)) = true ∧ isSpace (upperDigit v) = false := by decide
theorem lower_ok : ∀ v, v < 36 → (isLower (lowerDigit v) || isDigit (lowerDigit v)) = true ∧ isSpace (lowerDigit v) = false := by decide
theorem upper_lead : ∀ v, v < 36 → 10 ≤ v → isUpper (upperDigit v) = true ∧ isDigit (upperDigit v) = false ∧ upperDigit v ≠ '-' := by decide
theorem lower_lead : ∀ v, v < 36 → 10 ≤ v → isLower (lowerDigit v) = true ∧ isUpper (lowerDigit v) = false ∧ isDigit (lowerDigit v) = false ∧ lowerDigit v ≠ '-' := by decide

theorem dropWhile_none (s : Str) (h : ∀ c ∈ s, isSpace c = false) : s.dropWhile isSpace = s := by
  cases s with
  | nil => rfl
  | cons c cs => simp [List.dropWhile, h c (by simp)]

theorem strip_nospace (s : Str) (h : ∀ c ∈ s, isSpace c = false) : strip s = s := by
  unfold strip
  rw [dropWhile_none s h, dropWhile_none s.reverse (by intro c hc; exact h c (List.mem_reverse.mp hc))]
  simp

/-! ### padding -/
theorem dropWhile_spaces (k : Nat) (s : Str) :
    (List.replicate k ' ' ++ s).dropWhile isSpace = s.dropWhile isSpace := by
  induction k with
  | zero => simp
  | succ k ih =>
    rw [List.replicate_succ, List.cons_append, List.dropWhile_cons]
    have : isSpace ' ' = true := by decide
    simp [this, ih]

theorem strip_pad_left (k : Nat) (s : Str) : strip (List.replicate k ' ' ++ s) = strip s := by
  unfold strip; rw [dropWhile_spaces]

/-- stripping a field that is padded with blanks on both sides, when the payload has no blank -/
theorem strip_padded (k j : Nat) (s : Str) (h : ∀ c ∈ s, isSpace c = false) :
    strip (List.replicate k ' ' ++ s ++ List.replicate j ' ') = s := by
  rw [List.append_assoc, strip_pad_left]
  unfold strip
  cases s with
  | nil =>
    have : ([] ++ List.replicate j ' ').dropWhile isSpace = [] := by
      have := dropWhile_spaces j []; simpa using this
    rw [this]; rfl
  | cons c cs =>
    have hc : isSpace c = false := h c (by simp)
    have h1 : ((c :: cs) ++ List.replicate j ' ').dropWhile isSpace = (c :: cs) ++ List.replicate j ' ' := by
      simp [List.dropWhile, hc]
    rw [h1, List.reverse_append, List.reverse_replicate, dropWhile_spaces,
      dropWhile_none _ (by intro x hx; exact h x (List.mem_reverse.mp hx))]
    simp

/-! ### the three segments -/

/-- decoding the upper-case encoding of m (w+1 base-36 digits, leading digit a letter) -/
theorem decode_upper (w m : Nat) (hlo : 10 * 36 ^ w ≤ m) (hhi : m < 36 ^ (w+1)) :
    decode (enc upperDigit 36 (w+1) m) = .ok ((m : Int) - (10 * 36 ^ w : Nat) + (10 ^ (w+1) : Nat)) := by
  have hlen : (enc upperDigit 36 (w+1) m).length = w+1 := by simp [enc, digits_length]
  have hall : ∀ c ∈ enc upperDigit 36 (w+1) m, (isUpper c || isDigit c) = true ∧ isSpace c = false := by
    intro c hc
    simp only [enc, List.mem_map] at hc
    obtain ⟨d, hd, rfl⟩ := hc
    exact upper_ok d (digits_lt 36 (by decide) _ _ d hd)
  have hstrip : strip (enc upperDigit 36 (w+1) m) = enc upperDigit 36 (w+1) m :=
    strip_nospace _ (fun c hc => (hall c hc).2)
  have hhead := digits_head 36 (by decide) w m hhi
  have hlead_lt : m / 36 ^ w < 36 := by
    rw [Nat.div_lt_iff_lt_mul (Nat.pow_pos (by decide))]; rw [Nat.pow_succ, Nat.mul_comm] at hhi; exact hhi
  have hlead_ge : 10 ≤ m / 36 ^ w := by
    rw [Nat.le_div_iff_mul_le (Nat.pow_pos (by decide))]; exact hlo
  obtain ⟨hU, hD, hM⟩ := upper_lead _ hlead_lt hlead_ge
  obtain ⟨c, rest, hcr⟩ : ∃ c rest, enc upperDigit 36 (w+1) m = c :: rest := by
    cases h : enc upperDigit 36 (w+1) m with
    | nil => rw [h] at hlen; simp at hlen
    | cons c rest => exact ⟨c, rest, rfl⟩
  have hc : c = upperDigit (m / 36 ^ w) := by
    have : (enc upperDigit 36 (w+1) m).head? = some (upperDigit (m / 36 ^ w)) := by
      simp [enc, List.head?_map, hhead]
    rw [hcr] at this; simpa using this
  have hparse : parseBase 36 (c :: rest) = m := by
    rw [← hcr]; unfold parseBase enc
    rw [parse_digits_gen 36 upperDigit val_upperDigit (by decide) (w+1) m 0 hhi]; simp
  have hrest : rest.all (fun ch => isUpper ch || isDigit ch) = true := by
    rw [List.all_eq_true]; intro ch hch
    exact (hall ch (by rw [hcr]; exact List.mem_cons_of_mem _ hch)).1
  have hlen' : (c :: rest).length = w + 1 := by rw [← hcr]; exact hlen
  have hcm : c ≠ '-' := by rw [hc]; exact hM
  have hcU : isUpper c = true := by rw [hc]; exact hU
  have hcD : isDigit c = false := by rw [hc]; exact hD
  unfold decode
  rw [hstrip, hcr, splitSign_of_ne c rest hcm]
  simp only [decodeBody, hcD, hcU, hrest, hparse, hlen', Bool.false_eq_true, if_false, if_true,
    Nat.add_sub_cancel, Int.one_mul]

/-- decoding the lower-case encoding of m (w+1 base-36 digits, leading digit a letter) -/
theorem decode_lower (w m : Nat) (hlo : 10 * 36 ^ w ≤ m) (hhi : m < 36 ^ (w+1)) :
    decode (enc lowerDigit 36 (w+1) m) = .ok ((m : Int) + (16 * 36 ^ w : Nat) + (10 ^ (w+1) : Nat)) := by
  have hlen : (enc lowerDigit 36 (w+1) m).length = w+1 := by simp [enc, digits_length]
  have hall : ∀ c ∈ enc lowerDigit 36 (w+1) m, (isLower c || isDigit c) = true ∧ isSpace c = false := by
    intro c hc
    simp only [enc, List.mem_map] at hc
    obtain ⟨d, hd, rfl⟩ := hc
    exact lower_ok d (digits_lt 36 (by decide) _ _ d hd)
  have hstrip : strip (enc lowerDigit 36 (w+1) m) = enc lowerDigit 36 (w+1) m :=
    strip_nospace _ (fun c hc => (hall c hc).2)
  have hhead := digits_head 36 (by decide) w m hhi
  have hlead_lt : m / 36 ^ w < 36 := by
    rw [Nat.div_lt_iff_lt_mul (Nat.pow_pos (by decide))]; rw [Nat.pow_succ, Nat.mul_comm] at hhi; exact hhi
  have hlead_ge : 10 ≤ m / 36 ^ w := by
    rw [Nat.le_div_iff_mul_le (Nat.pow_pos (by decide))]; exact hlo
  obtain ⟨hL, hU, hD, hM⟩ := lower_lead _ hlead_lt hlead_ge
  obtain ⟨c, rest, hcr⟩ : ∃ c rest, enc lowerDigit 36 (w+1) m = c :: rest := by
    cases h : enc lowerDigit 36 (w+1) m with
    | nil => rw [h] at hlen; simp at hlen
    | cons c rest => exact ⟨c, rest, rfl⟩
  have hc : c = lowerDigit (m / 36 ^ w) := by
    have : (enc lowerDigit 36 (w+1) m).head? = some (lowerDigit (m / 36 ^ w)) := by
      simp [enc, List.head?_map, hhead]
    rw [hcr] at this; simpa using this
  have hparse : parseBase 36 (c :: rest) = m := by
    rw [← hcr]; unfold parseBase enc
    rw [parse_digits_gen 36 lowerDigit val_lowerDigit (by decide) (w+1) m 0 hhi]; simp
  have hrest : rest.all (fun ch => isLower ch || isDigit ch) = true := by
    rw [List.all_eq_true]; intro ch hch
    exact (hall ch (by rw [hcr]; exact List.mem_cons_of_mem _ hch)).1
  have hlen' : (c :: rest).length = w + 1 := by rw [← hcr]; exact hlen
  have hcm : c ≠ '-' := by rw [hc]; exact hM
  have hcU : isUpper c = false := by rw [hc]; exact hU
  have hcL : isLower c = true := by rw [hc]; exact hL
  have hcD : isDigit c = false := by rw [hc]; exact hD
  unfold decode
  rw [hstrip, hcr, splitSign_of_ne c rest hcm]
  simp only [decodeBody, hcD, hcU, hcL, hrest, hparse, hlen', Bool.false_eq_true, if_false, if_true,
    Nat.add_sub_cancel, Int.one_mul]

/-! ### decimal segment -/
theorem decLen_pos (m : Nat) : 0 < decLen m := by
  unfold decLen; split <;> omega

theorem lt_pow_decLen (m : Nat) : m < 10 ^ decLen m := by
  induction m using Nat.strongRecOn with
  | _ m ih =>
    unfold decLen
    split
    · simpa using ‹m < 10›
    · have := ih (m / 10) (by omega)
      rw [Nat.pow_succ]; omega

theorem decLen_le_iff (m w : Nat) (hw : 0 < w) : decLen m ≤ w ↔ m < 10 ^ w := by
  induction w generalizing m with
  | zero => omega
  | succ w ih =>
    unfold decLen
    split
    · rename_i h
      constructor
      · intro _; calc m < 10 := h
          _ = 10 ^ 1 := by simp
          _ ≤ 10 ^ (w+1) := Nat.pow_le_pow_right (by decide) (by omega)
      · intro _; omega
    · rename_i h
      by_cases hw0 : w = 0
      · subst hw0; simp; have := decLen_pos (m / 10); omega
      · have := ih (m / 10) (by omega)
        rw [Nat.pow_succ]; constructor
        · intro h1; have := this.mp (by omega); omega
        · intro h1; have := this.mpr (by omega); omega

theorem decStr_all (m : Nat) : ∀ c ∈ decStr m, isDigit c = true ∧ isSpace c = false ∧ c ≠ '-' := by
  intro c hc
  simp only [decStr, enc, List.mem_map] at hc
  obtain ⟨d, hd, rfl⟩ := hc
  exact dec_ok d (digits_lt 10 (by decide) _ _ d hd)

theorem decodeBody_decStr (sign : Int) (m : Nat) : decodeBody sign (decStr m) = .ok (sign * m) := by
  have hlen : (decStr m).length = decLen m := by simp [decStr, enc, digits_length]
  obtain ⟨c, rest, hcr⟩ : ∃ c rest, decStr m = c :: rest := by
    cases h : decStr m with
    | nil => rw [h] at hlen; have := decLen_pos m; simp at hlen; omega
    | cons c rest => exact ⟨c, rest, rfl⟩
  have hall := decStr_all m
  rw [hcr] at hall
  have hc : isDigit c = true := (hall c (by simp)).1
  have hrest : rest.all isDigit = true := by
    rw [List.all_eq_true]; intro ch hch; exact (hall ch (List.mem_cons_of_mem _ hch)).1
  have hparse : parseBase 10 (c :: rest) = m := by
    rw [← hcr]; unfold parseBase decStr enc
    rw [parse_digits_gen 10 decDigit val_decDigit (by decide) _ m 0 (lt_pow_decLen m)]; simp
  rw [hcr]
  simp only [decodeBody, hc, hrest, hparse, if_true]

theorem decode_decStr (m : Nat) : decode (decStr m) = .ok m := by
  have hall := decStr_all m
  have hstrip : strip (decStr m) = decStr m := strip_nospace _ (fun c hc => (hall c hc).2.1)
  have hlen : (decStr m).length = decLen m := by simp [decStr, enc, digits_length]
  obtain ⟨c, rest, hcr⟩ : ∃ c rest, decStr m = c :: rest := by
    cases h : decStr m with
    | nil => rw [h] at hlen; have := decLen_pos m; simp at hlen; omega
    | cons c rest => exact ⟨c, rest, rfl⟩
  unfold decode
  rw [hstrip, hcr, splitSign_of_ne c rest ((hall c (by rw [hcr]; simp)).2.2), ← hcr]
  simp only [decodeBody_decStr, Int.one_mul]

theorem decode_neg_decStr (m : Nat) : decode ('-' :: decStr m) = .ok (-(m : Int)) := by
  have hall := decStr_all m
  have hstrip : strip ('-' :: decStr m) = '-' :: decStr m := by
    apply strip_nospace
    intro c hc
    rcases List.mem_cons.mp hc with rfl | hc
    · decide
    · exact (hall c hc).2.1
  unfold decode
  rw [hstrip]
  simp only [splitSign, decodeBody_decStr]
  congr 1; omega

end Propka.H36
