import Propka.Proofs.Dets
/-! # C15 — coupling analysis observes without disturbing -/
namespace Propka.Dets

/-- what a group's results consist of, up to the order of its determinant lists -/
def SameResults (a b : GRec ℚ) : Prop :=
  a.label = b.label ∧ a.pka = b.pka ∧ a.model = b.model ∧ a.evol = b.evol ∧ a.eloc = b.eloc ∧
  a.sc.Perm b.sc ∧ a.bb.Perm b.bb ∧ a.cb.Perm b.cb ∧ a.bridged = b.bridged

/-- a group whose pKa is up to date (as after `calculate_total_pka`) -/
def UpToDate (fixed : ℚ) (g : GRec ℚ) : Prop := (calculateTotal fixed g).pka = g.pka

theorem total_pka (fixed : ℚ) (g : GRec ℚ) :
    (calculateTotal fixed g).pka = if g.bridged then fixed else g.model + g.evol + g.eloc + vsum g.sc + vsum g.bb + vsum g.cb := by
  unfold calculateTotal
  split
  · rfl
  · simp only [dsum_eq]

theorem total_fields (fixed : ℚ) (g : GRec ℚ) :
    (calculateTotal fixed g).label = g.label ∧ (calculateTotal fixed g).model = g.model ∧ (calculateTotal fixed g).evol = g.evol ∧
    (calculateTotal fixed g).eloc = g.eloc ∧ (calculateTotal fixed g).sc = g.sc ∧ (calculateTotal fixed g).bb = g.bb ∧
    (calculateTotal fixed g).cb = g.cb ∧ (calculateTotal fixed g).bridged = g.bridged ∧ (calculateTotal fixed g).coupled = g.coupled := by
  unfold calculateTotal; split <;> simp

theorem swap_fst (fixed : ℚ) (g1 g2 : GRec ℚ) :
    (swap fixed g1 g2).1 = calculateTotal fixed { g1 with cb := (transfer g1.cb g2.cb g1.label g2.label).1, sc := (transfer g1.sc g2.sc g1.label g2.label).1 } := rfl
theorem swap_snd (fixed : ℚ) (g1 g2 : GRec ℚ) :
    (swap fixed g1 g2).2 = calculateTotal fixed { g2 with cb := (transfer g1.cb g2.cb g1.label g2.label).2, sc := (transfer g1.sc g2.sc g1.label g2.label).2 } := rfl

/-- **Every temporary swap is undone exactly**: swapping the interactions of two groups twice gives
    back both groups' pKa values, desolvation terms and determinants (each determinant with its
    original partner label; list order may change).  No hypothesis on the labels is needed. -/
theorem swap_twice (fixed : ℚ) (g1 g2 : GRec ℚ) (h1 : UpToDate fixed g1) (h2 : UpToDate fixed g2) :
    SameResults (swap fixed (swap fixed g1 g2).1 (swap fixed g1 g2).2).1 g1 ∧
    SameResults (swap fixed (swap fixed g1 g2).1 (swap fixed g1 g2).2).2 g2 := by
  have pc1 := transfer_twice_fst g1.cb g2.cb g1.label g2.label
  have pc2 := transfer_twice_snd g1.cb g2.cb g1.label g2.label
  have ps1 := transfer_twice_fst g1.sc g2.sc g1.label g2.label
  have ps2 := transfer_twice_snd g1.sc g2.sc g1.label g2.label
  unfold UpToDate at h1 h2
  rw [total_pka] at h1 h2
  obtain ⟨a1, a2, a3, a4, a5, a6, a7, a8, _⟩ := total_fields fixed { g1 with cb := (transfer g1.cb g2.cb g1.label g2.label).1, sc := (transfer g1.sc g2.sc g1.label g2.label).1 }
  obtain ⟨b1, b2, b3, b4, b5, b6, b7, b8, _⟩ := total_fields fixed { g2 with cb := (transfer g1.cb g2.cb g1.label g2.label).2, sc := (transfer g1.sc g2.sc g1.label g2.label).2 }
  simp only at a1 a2 a3 a4 a5 a6 a7 a8 b1 b2 b3 b4 b5 b6 b7 b8
  constructor
  · rw [swap_fst fixed (swap fixed g1 g2).1 (swap fixed g1 g2).2]
    obtain ⟨c1, c2, c3, c4, c5, c6, c7, c8, _⟩ := total_fields fixed { (swap fixed g1 g2).1 with cb := (transfer (swap fixed g1 g2).1.cb (swap fixed g1 g2).2.cb (swap fixed g1 g2).1.label (swap fixed g1 g2).2.label).1, sc := (transfer (swap fixed g1 g2).1.sc (swap fixed g1 g2).2.sc (swap fixed g1 g2).1.label (swap fixed g1 g2).2.label).1 }
    simp only [swap_fst fixed g1 g2, swap_snd fixed g1 g2, a1, a5, a6, a7, b1, b5, b7] at c1 c2 c3 c4 c5 c6 c7 c8 ⊢
    refine ⟨by first | rfl | rw [c1, a1] | rw [c1], ?_, by first | rfl | rw [c2, a2] | rw [c2], by first | rfl | rw [c3, a3] | rw [c3],
      by first | rfl | rw [c4, a4] | rw [c4], by rw [c5]; exact ps1, by first | exact List.Perm.refl _ | (rw [c6, a6]) | (rw [c6]),
      by rw [c7]; exact pc1, by first | rfl | rw [c8, a8] | rw [c8]⟩
    rw [total_pka]
    simp only [a1, a2, a3, a4, a5, a6, a7, a8, b1, b5, b7]
    rw [vsum_perm _ _ ps1, vsum_perm _ _ pc1]
    exact h1
  · rw [swap_snd fixed (swap fixed g1 g2).1 (swap fixed g1 g2).2]
    obtain ⟨c1, c2, c3, c4, c5, c6, c7, c8, _⟩ := total_fields fixed { (swap fixed g1 g2).2 with cb := (transfer (swap fixed g1 g2).1.cb (swap fixed g1 g2).2.cb (swap fixed g1 g2).1.label (swap fixed g1 g2).2.label).2, sc := (transfer (swap fixed g1 g2).1.sc (swap fixed g1 g2).2.sc (swap fixed g1 g2).1.label (swap fixed g1 g2).2.label).2 }
    simp only [swap_fst fixed g1 g2, swap_snd fixed g1 g2, a1, a5, a7, b1, b5, b6, b7] at c1 c2 c3 c4 c5 c6 c7 c8 ⊢
    refine ⟨by first | rfl | rw [c1, b1] | rw [c1], ?_, by first | rfl | rw [c2, b2] | rw [c2], by first | rfl | rw [c3, b3] | rw [c3],
      by first | rfl | rw [c4, b4] | rw [c4], by rw [c5]; exact ps2, by first | exact List.Perm.refl _ | (rw [c6, b6]) | (rw [c6]),
      by rw [c7]; exact pc2, by first | rfl | rw [c8, b8] | rw [c8]⟩
    rw [total_pka]
    simp only [a1, a5, a7, b1, b2, b3, b4, b5, b6, b7, b8]
    rw [vsum_perm _ _ ps2, vsum_perm _ _ pc2]
    exact h2

/-- while swapped, the two groups exchange exactly the value directed at each other: the sum of the
    two groups' determinant totals is unchanged by a swap -/
theorem swap_conserves_total (fixed : ℚ) (g1 g2 : GRec ℚ) :
    vsum (swap fixed g1 g2).1.cb + vsum (swap fixed g1 g2).2.cb = vsum g1.cb + vsum g2.cb ∧
    vsum (swap fixed g1 g2).1.sc + vsum (swap fixed g1 g2).2.sc = vsum g1.sc + vsum g2.sc := by
  rw [swap_fst, swap_snd]
  obtain ⟨_, _, _, _, a5, _, a7, _, _⟩ := total_fields fixed { g1 with cb := (transfer g1.cb g2.cb g1.label g2.label).1, sc := (transfer g1.sc g2.sc g1.label g2.label).1 }
  obtain ⟨_, _, _, _, b5, _, b7, _, _⟩ := total_fields fixed { g2 with cb := (transfer g1.cb g2.cb g1.label g2.label).2, sc := (transfer g1.sc g2.sc g1.label g2.label).2 }
  rw [a5, a7, b5, b7]
  exact ⟨transfer_total _ _ _ _, transfer_total _ _ _ _⟩

/-- the analysis of one pair (swap, read the swapped values, swap back) leaves both groups' results as they were -/
def probePair (fixed : ℚ) (g1 g2 : GRec ℚ) : GRec ℚ × GRec ℚ :=
  swap fixed (swap fixed g1 g2).1 (swap fixed g1 g2).2

theorem probe_preserves (fixed : ℚ) (g1 g2 : GRec ℚ) (h1 : UpToDate fixed g1) (h2 : UpToDate fixed g2) :
    SameResults (probePair fixed g1 g2).1 g1 ∧ SameResults (probePair fixed g1 g2).2 g2 := swap_twice fixed g1 g2 h1 h2

/-- results stay up to date after a probe, so probes can be chained over all pairs -/
theorem probe_uptodate (fixed : ℚ) (g1 g2 : GRec ℚ) :
    UpToDate fixed (probePair fixed g1 g2).1 ∧ UpToDate fixed (probePair fixed g1 g2).2 := by
  unfold probePair UpToDate
  constructor
  · rw [swap_fst]
    generalize ({ (swap fixed g1 g2).1 with cb := _, sc := _ } : GRec ℚ) = g
    obtain ⟨_, c2, c3, c4, c5, c6, c7, c8, _⟩ := total_fields fixed g
    rw [total_pka, total_pka, c2, c3, c4, c5, c6, c7, c8]
  · rw [swap_snd]
    generalize ({ (swap fixed g1 g2).2 with cb := _, sc := _ } : GRec ℚ) = g
    obtain ⟨_, c2, c3, c4, c5, c6, c7, c8, _⟩ := total_fields fixed g
    rw [total_pka, total_pka, c2, c3, c4, c5, c6, c7, c8]

/-! ## the probe of a pair with all its gates -/
theorem sameResults_refl (g : GRec ℚ) : SameResults g g :=
  ⟨rfl, rfl, rfl, rfl, rfl, List.Perm.refl _, List.Perm.refl _, List.Perm.refl _, rfl⟩

/-- whatever the gates decide, the probe leaves the pair either untouched or swapped twice -/
theorem probe_state (fixed : ℚ) (p : ProbeP ℚ) (energy : ℚ → GRec ℚ → GRec ℚ → ℚ) (i1 i2 : ℚ) (g1 g2 : GRec ℚ) :
    (probe fixed p energy i1 i2 g1 g2).1 = (g1, g2) ∨ (probe fixed p energy i1 i2 g1 g2).1 = probePair fixed g1 g2 := by
  unfold probe probePair
  simp only
  repeat' split
  all_goals first | exact Or.inl rfl | exact Or.inr rfl

/-- **The probe observes without disturbing**: on every path through its gates (interaction too weak, pKa values out of
    range, free-energy difference too large, swap shift too small, intrinsic pKa values too far apart, or coupled) both
    groups end with the results they had - pKa, desolvation terms and every determinant with its original partner label. -/
theorem probe_restores (fixed : ℚ) (p : ProbeP ℚ) (energy : ℚ → GRec ℚ → GRec ℚ → ℚ) (i1 i2 : ℚ) (g1 g2 : GRec ℚ)
    (h1 : UpToDate fixed g1) (h2 : UpToDate fixed g2) :
    SameResults (probe fixed p energy i1 i2 g1 g2).1.1 g1 ∧ SameResults (probe fixed p energy i1 i2 g1 g2).1.2 g2 := by
  rcases probe_state fixed p energy i1 i2 g1 g2 with h | h
  · rw [h]; exact ⟨sameResults_refl g1, sameResults_refl g2⟩
  · rw [h]; exact probe_preserves fixed g1 g2 h1 h2

/-- … and stay up to date, so that the probes of all pairs can follow one another -/
theorem probe_keeps_uptodate (fixed : ℚ) (p : ProbeP ℚ) (energy : ℚ → GRec ℚ → GRec ℚ → ℚ) (i1 i2 : ℚ) (g1 g2 : GRec ℚ)
    (h1 : UpToDate fixed g1) (h2 : UpToDate fixed g2) :
    UpToDate fixed (probe fixed p energy i1 i2 g1 g2).1.1 ∧ UpToDate fixed (probe fixed p energy i1 i2 g1 g2).1.2 := by
  rcases probe_state fixed p energy i1 i2 g1 g2 with h | h
  · rw [h]; exact ⟨h1, h2⟩
  · rw [h]; exact probe_uptodate fixed g1 g2

theorem pyAbs_nonneg (x : ℚ) : 0 ≤ pyAbs x := by
  unfold pyAbs; simp only [Nat.cast_zero, add_zero]; split <;> linarith

theorem quad_factor_range (d m : ℚ) (hm : 0 < m) (h0 : 0 ≤ d) :
    0 ≤ (if d ≤ m then 1 - sq (d / m) else 0) ∧ (if d ≤ m then 1 - sq (d / m) else 0) ≤ 1 := by
  unfold sq
  split
  · rename_i h
    have hd : 0 ≤ d / m := div_nonneg h0 hm.le
    have hd1 : d / m ≤ 1 := by rw [div_le_iff₀ hm]; linarith
    constructor <;> nlinarith
  · exact ⟨le_refl _, zero_le_one⟩

/-- the three scaling factors lie in [0, 1] (thresholds positive), hence so does the reported coupling factor, their product -/
theorem factors_in_unit_interval (p : ProbeP ℚ) (hE : 0 < p.maxEdiff) (hI : 0 < p.maxIntr) (e1 e2 i1 i2 ie : ℚ) :
    (0 ≤ energyFactor p e1 e2 ∧ energyFactor p e1 e2 ≤ 1) ∧ (0 ≤ pkaFactor p i1 i2 ∧ pkaFactor p i1 i2 ≤ 1) ∧
    (0 ≤ interFactor p ie ∧ interFactor p ie ≤ 1) := by
  refine ⟨?_, ?_, ?_⟩
  · unfold energyFactor; simp only [Nat.cast_zero, Nat.cast_one]
    exact quad_factor_range _ _ hE (pyAbs_nonneg _)
  · unfold pkaFactor; simp only [Nat.cast_zero, Nat.cast_one]
    exact quad_factor_range _ _ hI (pyAbs_nonneg _)
  · unfold interFactor; simp only [Nat.cast_zero, Nat.cast_one]
    split
    · rename_i h
      have hx : 0 ≤ pyAbs ie - p.minInter := by linarith
      have hden : 0 < 1 + pyAbs ie - p.minInter := by linarith
      constructor
      · exact div_nonneg hx hden.le
      · rw [div_le_iff₀ hden]; linarith
    · exact ⟨le_refl _, zero_le_one⟩

/-! ## coupling is symmetric; the star follows the coupled list -/
def CouplingSymm (s : Coupling) : Prop := ∀ a b, b ∈ s a ↔ a ∈ s b

theorem couple_symm (s : Coupling) (a b : String) (h : CouplingSymm s) : CouplingSymm (couple s a b) := by
  intro x y
  unfold couple appendIfNew
  have := h x y
  have hab := h a b
  by_cases hxa : x = a <;> by_cases hxb : x = b <;> by_cases hya : y = a <;> by_cases hyb : y = b <;>
    simp_all [List.mem_append] <;> grind

/-- **Coupling is symmetric after any sequence of `couple_non_covalently` calls.** -/
theorem coupling_symmetric (ops : List (String × String)) :
    CouplingSymm (ops.foldl (fun s p => couple s p.1 p.2) (fun _ => [])) := by
  suffices H : ∀ s, CouplingSymm s → CouplingSymm (ops.foldl (fun s p => couple s p.1 p.2) s) from H _ (by intro a b; simp)
  induction ops with
  | nil => intro s h; exact h
  | cons p ps ih => intro s h; exact ih _ (couple_symm s p.1 p.2 h)

/-- the determinant row of a group carries `*` iff its coupled list is non-empty -/
def starred {α : Type} (g : GRec α) : Bool := !g.coupled.isEmpty
theorem star_iff {α : Type} (g : GRec α) : starred g = true ↔ g.coupled ≠ [] := by
  unfold starred; cases g.coupled <;> simp

/-! ### Non-vacuity: two groups with two determinants towards each other -/
example : let g1 : GRec ℚ := ⟨"ASP   1 A", 38/10, 0, 0, [⟨"GLU   2 A", "GLU   2 A", 1/2⟩], [], [⟨"GLU   2 A", "GLU   2 A", 3/10⟩, ⟨"LYS   3 A", "LYS   3 A", -1/5⟩], 44/10, false, []⟩
    let g2 : GRec ℚ := ⟨"GLU   2 A", 45/10, 0, 0, [⟨"ASP   1 A", "ASP   1 A", -1/2⟩], [], [], 4, false, []⟩
    UpToDate (9999/100) g1 ∧ UpToDate (9999/100) g2 ∧ (swap (9999/100) g1 g2).1.pka = 31/10 ∧ (probePair (9999/100) g1 g2).1.pka = 44/10 := by
  intro g1 g2
  simp only [UpToDate, probePair, g1, g2]
  refine ⟨by decide +kernel, by decide +kernel, by decide +kernel, by decide +kernel⟩

end Propka.Dets

/-! ## the whole search (`identify`: the probes of all visited pairs in turn) -/
namespace Propka.Dets

theorem sameResults_trans (a b c : GRec ℚ) (h1 : SameResults a b) (h2 : SameResults b c) : SameResults a c := by
  obtain ⟨a1, a2, a3, a4, a5, a6, a7, a8, a9⟩ := h1
  obtain ⟨b1, b2, b3, b4, b5, b6, b7, b8, b9⟩ := h2
  exact ⟨a1.trans b1, a2.trans b2, a3.trans b3, a4.trans b4, a5.trans b5, a6.trans b6, a7.trans b7, a8.trans b8, a9.trans b9⟩

theorem getD_set2 (gs : Array (GRec ℚ)) (g : Nat) (x d : GRec ℚ) (i : Nat) (hg : g < gs.size) :
    (gs.setIfInBounds g x).getD i d = if i = g then x else gs.getD i d := by
  simp only [Array.getD_eq_getD_getElem?, Array.getElem?_setIfInBounds]
  by_cases h : g = i
  · subst h; simp [hg]
  · simp [h, Ne.symm h]

/-- **The whole coupling search observes without disturbing**: after the probes of all visited pairs (any list of pairs of two
    different groups of the table, any thresholds, any energy function, any intrinsic pKa values) every group has the results
    it had before the search - pKa, both desolvation terms, every determinant with its original partner label - and is up to
    date.  (Induction over the pairs: `probe_restores` and `probe_keeps_uptodate` for the two groups of the pair, nothing
    touched for the others.) -/
theorem identify_preserves (fixed : ℚ) (p : ProbeP ℚ) (energy : Array (GRec ℚ) → ℚ → GRec ℚ → GRec ℚ → ℚ) (intr : GRec ℚ → ℚ) (dflt : GRec ℚ)
    (pairs : List (Nat × Nat)) (gs : Array (GRec ℚ))
    (hp : ∀ ab ∈ pairs, ab.1 ≠ ab.2 ∧ ab.1 < gs.size ∧ ab.2 < gs.size)
    (hu : ∀ i, i < gs.size → UpToDate fixed (gs.getD i dflt)) :
    (identify fixed p energy intr dflt pairs gs).size = gs.size ∧
    ∀ i, i < gs.size → SameResults ((identify fixed p energy intr dflt pairs gs).getD i dflt) (gs.getD i dflt) ∧
      UpToDate fixed ((identify fixed p energy intr dflt pairs gs).getD i dflt) := by
  unfold identify
  induction pairs generalizing gs with
  | nil => exact ⟨rfl, fun i hi => ⟨sameResults_refl _, hu i hi⟩⟩
  | cons ab rest ih =>
    simp only [List.foldl_cons]
    obtain ⟨hne, h1, h2⟩ := hp ab (by simp)
    -- the state after the first probe
    obtain ⟨gs1, hgs1⟩ : ∃ gs1, gs1 = (gs.setIfInBounds ab.1 (probe fixed p (energy gs) (intr (gs.getD ab.1 dflt)) (intr (gs.getD ab.2 dflt)) (gs.getD ab.1 dflt) (gs.getD ab.2 dflt)).1.1).setIfInBounds ab.2
        (probe fixed p (energy gs) (intr (gs.getD ab.1 dflt)) (intr (gs.getD ab.2 dflt)) (gs.getD ab.1 dflt) (gs.getD ab.2 dflt)).1.2 := ⟨_, rfl⟩
    rw [← hgs1]
    have hsz : gs1.size = gs.size := by rw [hgs1]; simp
    have hr := probe_restores fixed p (energy gs) (intr (gs.getD ab.1 dflt)) (intr (gs.getD ab.2 dflt)) _ _ (hu ab.1 h1) (hu ab.2 h2)
    have hk := probe_keeps_uptodate fixed p (energy gs) (intr (gs.getD ab.1 dflt)) (intr (gs.getD ab.2 dflt)) _ _ (hu ab.1 h1) (hu ab.2 h2)
    have hstep : ∀ i, i < gs.size → SameResults (gs1.getD i dflt) (gs.getD i dflt) ∧ UpToDate fixed (gs1.getD i dflt) := by
      intro i hi
      rw [hgs1, getD_set2 _ _ _ _ _ (by simp; exact h2), getD_set2 _ _ _ _ _ h1]
      by_cases e2 : i = ab.2
      · rw [if_pos e2, e2]; exact ⟨hr.2, hk.2⟩
      · rw [if_neg e2]
        by_cases e1 : i = ab.1
        · rw [if_pos e1, e1]; exact ⟨hr.1, hk.1⟩
        · rw [if_neg e1]; exact ⟨sameResults_refl _, hu i hi⟩
    obtain ⟨s2, r2⟩ := ih gs1 (fun x hx => by rw [hsz]; exact hp x (List.mem_cons_of_mem _ hx)) (fun i hi => (hstep i (by rw [← hsz]; exact hi)).2)
    refine ⟨by rw [s2, hsz], fun i hi => ?_⟩
    obtain ⟨a, b⟩ := r2 i (by rw [hsz]; exact hi)
    exact ⟨sameResults_trans _ _ _ a (hstep i hi).1, b⟩

end Propka.Dets
