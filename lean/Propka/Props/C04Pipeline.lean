import Propka.Props.Pipeline
import Propka.Props.C04
/-! C04 on the bonding phase of the set-up pipeline (`Pipe.bondAll`, the one `Program.run` executes): through the refinement
    `bondAll_refines` and C11's pairwise theorem, the perceived bonds are invariant under the rigid motions of the property. -/
namespace Propka.Pipe
open Propka

/-- **C04 on the set-up pipeline (perceived bonds do not depend on where the structure sits)**: two tables of atoms without bonds,
    of equal size, whose atoms correspond under one of the rigid motions of the property (a rotation of the 24 that map the 0.001 A
    grid onto itself and any translation on the grid), get the same bonds from the pipeline's bonding phase - although the cells,
    the visit order and the order inside the bond lists change.  Exact milli-Angstrom arithmetic, shipped distances and offsets. -/
theorem pipeline_bonds_motion_invariant (P : PP Int) (hb : P.bond = Bonds.Pm) (ho : P.offsets = Bonds.H) (s0 s1 : St Int)
    (m : Geom.Mat) (hm : m ∈ Geom.rot24) (t : Geom.P3) (hsz : s1.size = s0.size)
    (hmove : ∀ i, i < s0.size → batom s1 i = Bonds.moved m t (batom s0 i))
    (he0 : ∀ i, adj s0 i = []) (he1 : ∀ i, adj s1 i = []) (i j : Nat) (hi : i < s0.size) (hj : j < s0.size) (hne : i ≠ j) :
    j ∈ adj (bondAll P s1) i ↔ j ∈ adj (bondAll P s0) i := by
  rw [pipeline_bonds_pairwise_shipped P hb ho s1 he1 i j (hsz ▸ hi) (hsz ▸ hj) hne,
      pipeline_bonds_pairwise_shipped P hb ho s0 he0 i j hi hj hne, hmove i hi, hmove j hj, Bonds.crit_invariant m hm t]

end Propka.Pipe
