import Propka.Proofs.Params
import Propka.Gen.Cfg
import Mathlib.Analysis.Real.Sqrt
/-! # C18 — parameter tables are symmetric, complete and self-consistent

First part: theorems for *any* parameter file (any sequence of lines, any declared field kinds).
Second part: obligations on the shipped `propka.cfg` as the real `Parameters` object holds it
(`Propka.Gen.Cfg`, regenerated from `/repo` on every run) and on the group classes the classifier
can create (introspected from `propka/group.py`). -/
namespace Propka.Params

/-! ## any parameter file -/

theorem foldlM_parseLine_symm {ν : Type} [HalfPow ν] (num isInt : String → Option ν)
    (kinds : List (String × String)) (sq : List String) (lines : List (List Char)) :
    ∀ (s0 : PState ν), (Symm s0.im.tbl ∧ Symm s0.pm.tbl) →
      ∀ s1, lines.foldlM (parseLine num isInt kinds sq) s0 = .ok s1 → (Symm s1.im.tbl ∧ Symm s1.pm.tbl) := by
  induction lines with
  | nil => intro s0 h0 s1 h1; simp [List.foldlM] at h1; cases h1; exact h0
  | cons l ls ih =>
    intro s0 h0 s1 h1
    simp only [List.foldlM_cons] at h1
    cases hl : parseLine num isInt kinds sq s0 l with
    | error e => rw [hl] at h1; cases h1
    | ok s2 =>
      rw [hl] at h1
      exact ih s2 (parseLine_symm num isInt kinds sq s0 s2 l h0 hl) s1 h1

/-- **Both look-ups are symmetric after any parameter file**: for every list of lines that
    `parse_line` accepts, `interaction_matrix.get_value(a,b) = get_value(b,a)` and
    `sidechain_cutoffs.get_value(a,b) = get_value(b,a)`. -/
theorem file_lookups_symm {ν : Type} [HalfPow ν] [NatCast ν] (num isInt : String → Option ν)
    (kinds : List (String × String)) (sq : List String) (lines : List (List Char)) (st : PState ν)
    (h : parseFile num isInt kinds sq lines = .ok st) (a b : String) :
    st.im.get a b = st.im.get b a ∧ st.pm.get a b = st.pm.get b a := by
  have := foldlM_parseLine_symm num isInt kinds sq lines PState.init ⟨fun _ _ => rfl, fun _ _ => rfl⟩ st h
  exact ⟨this.1 a b, by unfold PMat.get; rw [this.2 a b]⟩

theorem foldlM_add_symm (rows : List (List String)) :
    ∀ (m0 : IMat), Symm m0.tbl → ∀ m1, rows.foldlM (fun m w => m.add w) m0 = .ok m1 → Symm m1.tbl := by
  induction rows with
  | nil => intro m0 h0 m1 h1; simp [List.foldlM] at h1; cases h1; exact h0
  | cons w ws ih =>
    intro m0 h0 m1 h1
    simp only [List.foldlM_cons] at h1
    cases hw : m0.add w with
    | error e => rw [hw] at h1; cases h1
    | ok m2 => rw [hw] at h1; exact ih m2 (IMat.add_symm m0 m2 w h0 hw) m1 h1

/-- **InteractionMatrix alone**: any sequence of successful `add` calls leaves `get_value` symmetric. -/
theorem imatrix_symm (rows : List (List String)) (m : IMat)
    (h : rows.foldlM (fun m w => m.add w) IMat.empty = .ok m) (a b : String) : m.get a b = m.get b a :=
  foldlM_add_symm rows _ (fun _ _ => rfl) m h a b

/-- **PairwiseMatrix alone**: symmetric after any operation sequence. -/
theorem pmatrix_symm {β : Type} (ops : List (POp β)) (d : β) (a b : String) :
    (ops.foldl PMat.apply ⟨fun _ _ => none, d⟩).get a b = (ops.foldl PMat.apply ⟨fun _ _ => none, d⟩).get b a := by
  suffices H : ∀ m : PMat β, Symm m.tbl → Symm (ops.foldl PMat.apply m).tbl by
    unfold PMat.get; rw [H _ (fun _ _ => rfl) a b]
  induction ops with
  | nil => intro m h; exact h
  | cons op rest ih => intro m h; exact ih _ (PMat.apply_symm m op h)

/-- **Fallback to the declared default**: a pair that no entry mentions (in either order) yields the
    default in force at look-up time — wherever the `default` line stands in the file. -/
theorem pmatrix_default {β : Type} (ops : List (POp β)) (d : β) (a b : String)
    (h : ∀ op ∈ ops, mentions a b op = false) :
    (ops.foldl PMat.apply ⟨fun _ _ => none, d⟩).get a b = (ops.foldl PMat.apply ⟨fun _ _ => none, d⟩).default := by
  suffices H : ∀ m : PMat β, m.tbl a b = none → (ops.foldl PMat.apply m).tbl a b = none by
    unfold PMat.get; rw [H _ rfl]; rfl
  induction ops with
  | nil => intro m hm; exact hm
  | cons op rest ih =>
    intro m hm
    exact ih (fun o ho => h o (List.mem_cons_of_mem _ ho)) _ (PMat.apply_none m op a b hm (h op (by simp)))

/-- a pair that an entry does mention yields the value of the *last* such entry -/
theorem pmatrix_last_wins {β : Type} (m : PMat β) (g1 g2 : String) (v : β) :
    (m.apply (.pair g1 g2 v)).get g1 g2 = v ∧ (m.apply (.pair g1 g2 v)).get g2 g1 = v := by
  simp only [PMat.apply, PMat.get, set]
  constructor
  · by_cases h : g1 = g2 <;> simp [h]
  · simp

/-- **Squared cut-offs**: whatever was set through either spelling, in any order, reading
    `x_squared` gives the square of what reading `x` gives. -/
theorem squared_is_square {ν : Type} [Mul ν] (sq : List String) (s : Scalars ν) (name : String)
    (hs : sq.contains name = true) (hp : sq.contains (unsquare name) = false) :
    s.getAttr sq name = (s.getAttr sq (unsquare name)).map (fun x => x * x) := by
  have hs' : name ∈ sq := by simpa using hs
  have hp' : unsquare name ∉ sq := by simpa using hp
  simp [Scalars.getAttr, hs', hp']

noncomputable instance : HalfPow ℝ := ⟨Real.sqrt⟩

/-- setting the squared spelling to a non-negative `v` and reading it back returns `v` (over ℝ) -/
theorem squared_roundtrip (sq : List String) (s : Scalars ℝ) (name : String) (v : ℝ) (hv : 0 ≤ v)
    (hs : sq.contains name = true) :
    (Scalars.setAttr sq s name v).getAttr sq name = some v := by
  have hs' : name ∈ sq := by simpa using hs
  simp [Scalars.getAttr, Scalars.setAttr, hs', Scalars.setPlain, Scalars.getPlain, HalfPow.halfPow, Real.mul_self_sqrt hv]

/-- comment and blank lines are no-ops -/
theorem comment_noop {ν : Type} [HalfPow ν] (num isInt : String → Option ν) (kinds : List (String × String))
    (sq : List String) (st : PState ν) (rest : List Char) :
    parseLine num isInt kinds sq st ('#' :: rest) = .ok st := by
  simp [parseLine, stripComment, pySplit, pySplit.go]

/-! ## the shipped parameter file -/
open Propka.Gen.Cfg

def imGet (i j : Nat) : Char := (imMat.getD i []).getD j '?'
def n : Nat := imKeys.length

/-- the shipped interaction matrix is symmetric -/
theorem inst_matrix_symm : ∀ i < n, ∀ j < n, imGet i j = imGet j i := by decide +kernel
/-- **Completeness**: every group type that reaches the pair loop is a key of the matrix, and every
    pair of such types has an interaction type `I`, `N` or `-`. -/
theorem inst_matrix_complete : ∀ i ∈ pairLoopIdx, ∀ j ∈ pairLoopIdx, i < n ∧ imGet i j ∈ ['I', 'N', '-'] := by
  decide +kernel
/-- the index table is the position of each type in the key list (ties `pairLoopIdx` to `pairLoopTypes`) -/
theorem inst_idx_correct : pairLoopIdx = pairLoopTypes.map (fun t => (imKeys.idxOf? t).getD 9999) := by decide +kernel

def lookupI (d : List (String × Int)) (k : String) : Option Int := (d.find? (fun kv => kv.1 == k)).map (·.2)

/-- every creatable group kind with a model pKa is written out exactly once and has a non-zero charge -/
theorem inst_writeout_complete : ∀ kv ∈ titratableKinds,
    f_write_out_order.count kv.1 = 1 ∧ (lookupI f_model_pkas kv.1).isSome ∧
    (∃ q, lookupI f_charge kv.2 = some q ∧ q ≠ 0) := by decide
/-- conversely, every entry of `write_out_order` that a reported group can carry has a model pKa
    (`SER` is listed but no group kind with residue type `SER` can be titratable) -/
theorem inst_writeout_have_pka : ∀ r ∈ f_write_out_order,
    (lookupI f_model_pkas r).isSome ∨ r ∉ titratableKinds.map (·.1) := by decide
theorem inst_writeout_nodup : f_write_out_order.Nodup := by decide

set_option maxRecDepth 8000 in
/-- inner cut-offs are smaller than outer ones: the default, every pair entry, both backbone tables, Coulomb -/
theorem inst_cutoffs_ordered :
    scDefault.1 < scDefault.2 ∧ (∀ e ∈ scPairs, e.2.2.1 < e.2.2.2) ∧
    (∀ e ∈ f_backbone_NH_hydrogen_bond, e.2.getD 1 0 < e.2.getD 2 0) ∧
    (∀ e ∈ f_backbone_CO_hydrogen_bond, e.2.getD 1 0 < e.2.getD 2 0) ∧
    f_coulomb_cutoff1 < f_coulomb_cutoff2 ∧ 0 < f_coulomb_cutoff1 := by decide +kernel

set_option maxRecDepth 8000 in
/-- the shipped pair table is stored both ways round with equal values -/
theorem inst_pairs_symm : ∀ e ∈ scPairs, (e.2.1, e.1, e.2.2) ∈ scPairs := by decide +kernel

/-! ### Non-vacuity -/
example : (IMat.empty.add ["A", "I"]).toOption.isSome ∧ (IMat.empty.add ["A"]).toOption.isNone := by decide
example : mentions (β := Nat) "A" "B" (.pair "B" "A" 1) = true ∧ mentions (β := Nat) "A" "B" (.pair "B" "C" 1) = false := by decide

end Propka.Params
