import Propka.Proofs.Pdb
import Propka.Model.Groups
import Propka.Gen.Cfg
/-! # C01 — every ionizable group is predicted exactly once with the right model pKa

Three layers: (1) the terminus bookkeeping of the parser (which atoms become `N+` / `C-`);
(2) the per-atom classification and `Group.setup` with the shipped tables; (3) the summary rows. -/
namespace Propka.Pdb

/-! ## (1) chain starts -/

/-- **Simulation.** Let the code compare the coarse key `f k` where the specification compares
    residue identity `k`.  If, along the run, `f` separates the residues the state currently
    remembers (the first residue of the segment; the residue carrying the terminal oxygen), then the
    code tags exactly the atoms the specification tags. -/
theorem tagging_correct {κ κ' : Type} [DecidableEq κ] [DecidableEq κ'] (f : κ → κ') (rs : List (Rec κ))
    (h : AgreeRun f St.init rs) :
    run St.init (rs.map (Rec.mapKey f)) = run St.init rs :=
  run_sim f St.init St.init rs ⟨by simp [St.init], by simp [St.init], by simp [St.init]⟩ h

/-- with the key the code uses (chain, number, insertion code) nothing has to be assumed when the
    specification's identity is that same triple -/
theorem tagging_exact (rs : List (Rec (List Char))) : run St.init (rs.map (Rec.mapKey id)) = run St.init rs := by
  have : rs.map (Rec.mapKey id) = rs := by
    induction rs with
    | nil => rfl
    | cons r rs ih => simp [Rec.mapKey, ih]
  rw [this]

/-- a key that drops chain and insertion code (the 4-character number field alone) is **not** enough:
    two residues `52` and `52A` — the first residue of a chain and its insertion-coded twin — both
    get an `N+` -/
theorem number_only_key_counterexample :
    let twin : List (Rec (Nat × Nat)) :=    -- key = (number, insertion code)
      [⟨.atom, true, false, (52, 0), false⟩, ⟨.atom, false, false, (52, 0), false⟩,
       ⟨.atom, true, false, (52, 1), false⟩, ⟨.atom, false, false, (52, 1), false⟩]
    run St.init (twin.map (Rec.mapKey Prod.fst)) = [true, false, true, false] ∧
    run St.init twin = [true, false, false, false] := by decide

/-- the first ATOM record after the start, a `MODEL` or a `TER` opens a chain: its residue key is
    remembered and its `N` is tagged -/
theorem first_atom_opens_chain {κ : Type} [DecidableEq κ] (r : Rec κ) (hk : r.kind = .atom) (hs : r.skip = false)
    (ho : r.isOxt = false) :
    (step (⟨.next, none⟩ : St κ) r).1.nterm = .key r.key ∧ (step (⟨.next, none⟩ : St κ) r).2 = r.isN := by
  unfold step; simp [hk, hs, ho]

theorem ter_resets {κ : Type} [DecidableEq κ] (s : St κ) (r : Rec κ) (hk : r.kind = .ter ∨ r.kind = .model) :
    (step s r).1.nterm = .next ∧ (step s r).2 = false := by
  unfold step; rcases hk with hk | hk <;> simp [hk]

/-- a terminal oxygen closes the chain: the next ATOM residue with a different key opens a new one,
    atoms of the same residue do not -/
theorem oxt_closes_chain {κ : Type} [DecidableEq κ] (s : St κ) (r : Rec κ) (hk : r.kind = .atom) (hs : r.skip = false)
    (ho : r.isOxt = true) : (step s r).1 = ⟨.next, some r.key⟩ ∧ (step s r).2 = false := by
  unfold step; simp [hk, hs, ho]

theorem after_oxt_next_residue {κ : Type} [DecidableEq κ] (k : κ) (r : Rec κ) (hk : r.kind = .atom) (hs : r.skip = false)
    (ho : r.isOxt = false) :
    (r.key ≠ k → (step (⟨.next, some k⟩ : St κ) r).1.nterm = .key r.key ∧ (step (⟨.next, some k⟩ : St κ) r).2 = r.isN) ∧
    (r.key = k → (step (⟨.next, some k⟩ : St κ) r).1 = ⟨.next, some k⟩ ∧ (step (⟨.next, some k⟩ : St κ) r).2 = false) := by
  unfold step
  constructor
  · intro hne
    have : ¬ k = r.key := fun e => hne e.symm
    simp [hk, hs, ho, this]
  · intro he; subst he; simp [hk, hs, ho]

/-- inside a chain only atoms named `N` of the opening residue are tagged -/
theorem inside_chain {κ : Type} [DecidableEq κ] (k : κ) (o : Option κ) (r : Rec κ) (hk : r.kind = .atom) (hs : r.skip = false)
    (ho : r.isOxt = false) : (step (⟨.key k, o⟩ : St κ) r).2 = (r.isN && decide (k = r.key)) ∧
      (step (⟨.key k, o⟩ : St κ) r).1 = ⟨.key k, o⟩ := by
  unfold step; simp [hk, hs, ho]

/-- HETATM records and records that are not ATOM/HETATM/MODEL/TER never change the bookkeeping -/
theorem hetatm_other_noop {κ : Type} [DecidableEq κ] (s : St κ) (r : Rec κ) (h : r.kind = .other ∨ r.kind = .hetatm) :
    step s r = (s, false) := step_other s r h

end Propka.Pdb

namespace Propka.Groups
open Propka.Gen.Cfg

/-- the shipped tables as the real `Parameters` object holds them, and the `type` of each Group class -/
def shipped : Tables :=
  { mapping := f_protein_group_mapping,
    classType := creatable.map fun c => (c.1, c.2.1),
    charge := f_charge, ions := f_ions, modelPkas := f_model_pkas, customPkas := f_custom_model_pkas,
    writeOutOrder := f_write_out_order }

/-! ## (2) classification and set-up with the shipped tables -/

/-- the defining atoms of the seven side chains map to the classes whose `type` carries the right
    charge, and residue types carry the tabulated model pKa values (in millionths) -/
theorem inst_site_table :
    [("ASP-CG", "ASP"), ("GLU-CD", "GLU"), ("HIS-CG", "HIS"), ("CYS-SG", "CYS"), ("TYR-OH", "TYR"), ("LYS-NZ", "LYS"), ("ARG-CZ", "ARG")].map
      (fun kr => ((lookup shipped.mapping kr.1).bind (fun m => lookup shipped.classType (m ++ "Group"))).bind (lookup shipped.charge) |>.map (fun q => (q, lookup shipped.modelPkas kr.2)))
    = [some (-1000000, some 3800000), some (-1000000, some 4500000), some (1000000, some 6500000), some (-1000000, some 9000000),
       some (-1000000, some 10000000), some (1000000, some 10500000), some (1000000, some 12500000)]
    ∧ lookup shipped.modelPkas "N+" = some 8000000 ∧ lookup shipped.modelPkas "C-" = some 3200000
    ∧ (lookup shipped.classType "NtermGroup").bind (lookup shipped.charge) = some 1000000
    ∧ (lookup shipped.classType "CtermGroup").bind (lookup shipped.charge) = some (-1000000) := by decide +kernel

def atomOf (res name term : String) : AtomInfo := ⟨"atom", name, res, "A", 7, " ", term, 0, false⟩

/-- end to end on the model: each of the nine kinds of site yields one titratable group of the right
    residue type, charge and model pKa -/
theorem inst_sites_recognised :
    ([atomOf "ASP" "CG" "", atomOf "GLU" "CD" "", atomOf "HIS" "CG" "", atomOf "CYS" "SG" "", atomOf "TYR" "OH" "",
      atomOf "LYS" "NZ" "", atomOf "ARG" "CZ" "", atomOf "ALA" "N" "N+", atomOf "ALA" "OXT" "C-"].map
        (fun a => (mkGroup shipped none a).map (fun g => (g.residueType, g.charge, g.modelPka, g.titratable, g.reported))))
    = [some ("ASP", -1000000, some 3800000, true, true), some ("GLU", -1000000, some 4500000, true, true),
       some ("HIS", 1000000, some 6500000, true, true), some ("CYS", -1000000, some 9000000, true, true),
       some ("TYR", -1000000, some 10000000, true, true), some ("LYS", 1000000, some 10500000, true, true),
       some ("ARG", 1000000, some 12500000, true, true), some ("N+", 1000000, some 8000000, true, true),
       some ("C-", -1000000, some 3200000, true, true)] := by decide +kernel

/-- **One group per defining atom, nothing else**: the groups are the images of the atoms the
    classifier accepts, in atom order (for every atom list and every titrate-only list). -/
theorem groups_are_classified_atoms (T : Tables) (to : Option (List (String × Int × String))) (atoms : List AtomInfo) :
    (extractGroups T to atoms).map (·.atom) = atoms.filter (fun a => (classOf T a).isSome) := by
  unfold extractGroups
  induction atoms with
  | nil => rfl
  | cons a as ih =>
    simp only [List.filterMap_cons, List.filter_cons]
    cases h : classOf T a with
    | none => simp [mkGroup, h, ih]
    | some c => simp [mkGroup, h, ih]

/-- **A bridged cysteine is not titrated and is fixed at 99.99.** -/
theorem bridged_not_titrated (T : Tables) (to : Option (List (String × Int × String))) (a : AtomInfo) (g : GroupRec)
    (hb : a.bridged = true) (h : mkGroup T to a = some g) : g.titratable = false ∧ g.fixedPka = some 99990000 := by
  unfold mkGroup at h
  cases hc : classOf T a with
  | none => simp [hc] at h
  | some c =>
    simp only [hc] at h
    cases h
    simp [hb, GroupRec.fixedPka]

/-- a titratable group carries the model pKa of its residue type, or the custom value configured for
    its residue-atom pair (DNA bases) -/
theorem model_pka_from_table (T : Tables) (to : Option (List (String × Int × String))) (a : AtomInfo) (g : GroupRec)
    (h : mkGroup T to a = some g) (ht : g.titratable = true) :
    ∃ p, lookup T.modelPkas g.residueType = some p ∧
      g.modelPka = some ((lookup T.customPkas (strip a.resName ++ "-" ++ strip a.name)).getD p) := by
  unfold mkGroup at h
  cases hc : classOf T a with
  | none => simp [hc] at h
  | some c =>
    simp only [hc] at h
    cases h
    simp only at ht ⊢
    cases hm : lookup T.modelPkas (residueTypeOf c a) with
    | none => simp [hm] at ht
    | some p => exact ⟨p, rfl, by simp⟩

/-- an ion group gets the charge configured for its residue name -/
theorem ion_charge (T : Tables) (to : Option (List (String × Int × String))) (a : AtomInfo) (g : GroupRec) (q : Int)
    (h : mkGroup T to a = some g) (hi : lookup T.ions g.residueType = some q) : g.charge = q := by
  unfold mkGroup at h
  cases hc : classOf T a with
  | none => simp [hc] at h
  | some c =>
    simp only [hc] at h
    cases h
    simp only at hi ⊢
    simp [hi]

/-! ## (3) the summary lists every reported group exactly once -/

theorem count_flatMap_filter {γ : Type} [DecidableEq γ] (order : List String) (rt : γ → String) (groups : List γ) (g : γ) :
    (summaryRows order rt groups).count g = order.count (rt g) * groups.count g := by
  unfold summaryRows
  induction order with
  | nil => simp
  | cons r rs ih =>
    simp only [List.flatMap_cons, List.count_append, ih, List.count_cons]
    by_cases h : rt g = r
    · subst h
      have : (groups.filter fun x => rt x == rt g).count g = groups.count g := by
        rw [List.count_filter]; simp
      simp [this, Nat.add_mul, Nat.add_comm]
    · have h' : ¬ r = rt g := fun e => h e.symm
      have : (groups.filter fun x => rt x == r).count g = 0 := by
        rw [List.count_eq_zero]; intro hm; have := (List.mem_filter.mp hm).2; simp_all
      simp [this, h, h']

/-- **Exactly once.** If the write-out order has no duplicates and contains the residue type of a
    group, the group occurs in the summary as often as in the group list (once for a group created
    from one atom). -/
theorem summary_once {γ : Type} [DecidableEq γ] (order : List String) (rt : γ → String) (groups : List γ) (g : γ)
    (hnd : order.Nodup) (hmem : rt g ∈ order) : (summaryRows order rt groups).count g = groups.count g := by
  rw [count_flatMap_filter, hnd.count, if_pos hmem, Nat.one_mul]

/-- obligations on the shipped order: no duplicates, and it contains every residue type that a
    reported group can carry (every creatable kind with a model pKa; CYS is among them) -/
theorem inst_order_ok : f_write_out_order.Nodup ∧ ∀ kv ∈ titratableKinds, kv.1 ∈ f_write_out_order := by decide

end Propka.Groups
