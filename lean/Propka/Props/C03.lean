import Propka.Model.Hidden
/-! # C03 — results are a pure function of input content and options

The Lean model of a run is a pure function, so determinism *of the model* would be vacuous.  What
is proved here is that the hidden, process-level state the real code carries between runs cannot
reach the results: every value a run reads from `PROTONATOR.valence_electrons` is the value it
would read in a fresh process, whatever was computed before.  Set-iteration order (object
addresses) is removed from the code itself (ordered traversal of coupled systems) and is checked
by running the real code under different hash seeds and allocation patterns. -/
namespace Propka.Hidden

/-- states the table can reach from `base`: the base entries are intact and everything else maps to 4 -/
def Reach (base t : Table) : Prop :=
  (∀ k v, get base k = some v → get t k = some v) ∧
  (∀ k v, get t k = some v → get base k = some v ∨ (get base k = none ∧ v = 4))

theorem reach_refl (base : Table) : Reach base base := ⟨fun _ _ h => h, fun _ _ h => Or.inl h⟩

theorem get_cons (t : Table) (e k : String) (v : Nat) :
    get ((e, v) :: t) k = if e = k then some v else get t k := by
  unfold get
  by_cases h : e = k
  · subst h; simp
  · simp [h]

/-- the value read does not depend on the reachable state -/
theorem value_indep (base t : Table) (e : String) (h : Reach base t) :
    (lookupInsert t e).2 = (lookupInsert base e).2 := by
  obtain ⟨h1, h2⟩ := h
  unfold lookupInsert
  cases hb : get base e with
  | some v => simp [h1 e v hb]
  | none =>
    cases ht : get t e with
    | none => rfl
    | some v =>
      rcases h2 e v ht with h | ⟨_, hv⟩
      · rw [hb] at h; cases h
      · simp [hv]

/-- look-ups keep the state reachable -/
theorem reach_step (base t : Table) (e : String) (h : Reach base t) : Reach base (lookupInsert t e).1 := by
  obtain ⟨h1, h2⟩ := h
  unfold lookupInsert
  cases ht : get t e with
  | some v => exact ⟨h1, h2⟩
  | none =>
    refine ⟨?_, ?_⟩
    · intro k v hk
      rw [get_cons]
      by_cases he : e = k
      · subst he; rw [h1 e v hk] at ht; cases ht
      · simp [he, h1 k v hk]
    · intro k v hk
      rw [get_cons] at hk
      by_cases he : e = k
      · subst he
        simp only [if_true, Option.some.injEq] at hk
        cases hb : get base e with
        | none => exact Or.inr ⟨rfl, hk.symm⟩
        | some w => rw [h1 e w hb] at ht; cases ht
      · simp only [he, if_false] at hk; exact h2 k v hk

theorem run_indep (base t : Table) (prog : List String) (h : Reach base t) :
    (runLookups t prog).2 = (runLookups base prog).2 ∧ Reach base (runLookups t prog).1 := by
  induction prog generalizing t base with
  | nil => exact ⟨rfl, h⟩
  | cons e es ih =>
    simp only [runLookups]
    have hv := value_indep base t e h
    have hr := reach_step base t e h
    have hrb := reach_step base base e (reach_refl base)
    obtain ⟨i1, i2⟩ := ih base (lookupInsert t e).1 hr
    obtain ⟨j1, _⟩ := ih base (lookupInsert base e).1 hrb
    exact ⟨by rw [hv, i1, j1], i2⟩

/-- **Every run of a history reads what it would read alone in a fresh process.** -/
theorem history_indep (base : Table) (progs : List (List String)) :
    history base progs = progs.map (fun p => (runLookups base p).2) := by
  suffices H : ∀ t, Reach base t → history t progs = progs.map (fun p => (runLookups base p).2) from H base (reach_refl base)
  induction progs with
  | nil => intro t _; rfl
  | cons p ps ih =>
    intro t ht
    obtain ⟨h1, h2⟩ := run_indep base t p ht
    simp only [history, List.map_cons, h1, ih _ h2]

/-- the `NCCG` singleton: what a call uses is what it was given, whatever the previous state -/
theorem nccg_params_overwritten {P : Type} (s1 s2 : Nccg P) (p : P) :
    (s1.identify p).2 = (s2.identify p).2 ∧ (s1.identify p).1 = (s2.identify p).1 := ⟨rfl, rfl⟩

/-! ### Non-vacuity: an unknown element met in an earlier run -/
example : history [("C", 4), ("N", 5)] [["C", "Xx", "N"], ["Xx", "N", "Yy"]] = [[4, 4, 5], [4, 5, 4]] := by decide

end Propka.Hidden
