import Propka.Model.PairLoop
import Propka.Props.C01
import Propka.Proofs.Scoring
import Mathlib.Logic.Function.Basic
/-! # C06 — residue and chain labels identify residues but never influence the numbers -/
namespace Propka.PairLoop

theorem flatMap_congr_list {α β : Type} (l : List α) (f g : α → List β) (h : ∀ a ∈ l, f a = g a) : l.flatMap f = l.flatMap g := by
  induction l with
  | nil => rfl
  | cons a as ih =>
    simp only [List.flatMap_cons]
    rw [h a (by simp), ih (fun b hb => h b (List.mem_cons_of_mem _ hb))]

theorem inner_identity (i fuel j : Nat) (hj : j ≤ i) (hf : i < j + fuel) :
    inner byIdentity i fuel j = (List.range' j (i - j)).map fun k => (i, k) := by
  induction fuel generalizing j with
  | zero => omega
  | succ f ih =>
    unfold inner
    by_cases h : i = j
    · subst h; simp [byIdentity]
    · have hne : byIdentity i j = false := by simp [byIdentity, h]
      rw [hne]
      simp only [Bool.false_eq_true, if_false]
      rw [ih (j+1) (by omega) (by omega)]
      have : i - j = (i - (j+1)) + 1 := by omega
      rw [this, List.range'_succ]
      simp

/-- **With identity as the stopping test the loop visits exactly the pairs `(i, j)` with `j < i`** —
    a set that does not mention any label. -/
theorem visited_identity (n : Nat) :
    visited byIdentity n = (List.range n).flatMap fun i => (List.range i).map fun j => (i, j) := by
  unfold visited
  apply flatMap_congr_list
  intro i hi
  have hi' : i < n := List.mem_range.mp hi
  rw [inner_identity i n 0 (by omega) (by omega)]
  simp [List.range_eq_range']

theorem inner_congr (s1 s2 : Nat → Nat → Bool) (i fuel j : Nat) (h : ∀ k, j ≤ k → k < j + fuel → s1 i k = s2 i k) :
    inner s1 i fuel j = inner s2 i fuel j := by
  induction fuel generalizing j with
  | zero => rfl
  | succ f ih =>
    unfold inner
    rw [h j (by omega) (by omega)]
    split
    · rfl
    · rw [ih (j+1) (fun k h1 h2 => h k (by omega) (by omega))]

/-- **If the printed labels of the groups are pairwise distinct, stopping on equal labels visits the
    same pairs** — so relabelling that keeps labels distinct cannot change which pairs interact. -/
theorem visited_label_eq_identity (labels : List String) (hd : labels.Nodup) :
    visited (byLabel labels) labels.length = visited byIdentity labels.length := by
  unfold visited
  apply flatMap_congr_list
  intro i hi
  have hi' : i < labels.length := List.mem_range.mp hi
  apply inner_congr
  intro k _ hk
  simp only [byLabel, byIdentity]
  have hk' : k < labels.length := by omega
  have gi : labels.getD i "" = labels[i] := by simp [List.getD, List.getElem?_eq_getElem hi']
  have gk : labels.getD k "" = labels[k] := by simp [List.getD, List.getElem?_eq_getElem hk']
  rw [gi, gk]
  by_cases e : i = k
  · subst e; simp
  · have : labels[i] ≠ labels[k] := fun h => e ((List.getElem_inj hd).mp h)
    rw [beq_eq_false_iff_ne.mpr this, beq_eq_false_iff_ne.mpr e]

/-- two residues that print the same label (same name, number and chain, different insertion code;
    or a structure followed by its own copy): stopping on labels loses pairs — this is what the
    repaired code avoids by stopping on identity -/
theorem twin_labels_counterexample :
    visited (byLabel ["ASP  52 A", "LYS  60 A", "ASP  52 A", "GLU  70 A"]) 4 ≠ visited byIdentity 4 := by decide

end Propka.PairLoop

namespace Propka.Pdb
/-- **Chain starts do not depend on how residues are labelled**: any injective renaming of the
    residue keys (chain identifiers, numbers, insertion codes) yields the same `N+` flags. -/
theorem tags_relabel_invariant {κ κ' : Type} [DecidableEq κ] [DecidableEq κ'] (f : κ → κ')
    (hf : Function.Injective f) (rs : List (Rec κ)) :
    run St.init (rs.map (Rec.mapKey f)) = run St.init rs := by
  apply tagging_correct
  suffices H : ∀ t, AgreeRun f t rs from H _
  induction rs with
  | nil => intro t; trivial
  | cons r rs ih =>
    intro t
    exact ⟨⟨fun k _ => ⟨fun h => hf h, fun h => by rw [h]⟩, fun k _ => ⟨fun h => hf h, fun h => by rw [h]⟩⟩, ih _⟩
end Propka.Pdb

namespace Propka.Groups
/-- **Classification and set-up read no label**: changing chain, number and insertion code of an atom
    changes nothing about the group it defines except those labels (no titrate-only list). -/
theorem group_relabel_invariant (T : Tables) (a : AtomInfo) (c : String) (n : Int) (i : String) :
    (mkGroup T none { a with chain := c, resNum := n, icode := i }).map
        (fun g => (g.cls, g.type, g.residueType, g.charge, g.modelPka, g.titratable, g.reported, g.bridged)) =
    (mkGroup T none a).map (fun g => (g.cls, g.type, g.residueType, g.charge, g.modelPka, g.titratable, g.reported, g.bridged)) := by
  unfold mkGroup
  have hc : classOf T { a with chain := c, resNum := n, icode := i } = classOf T a := rfl
  rw [hc]
  cases classOf T a with
  | none => rfl
  | some cls => rfl
end Propka.Groups

/-! ## the whole scoring phase (`Model/Scoring.lean`) under relabelling -/
namespace Propka.Scoring
open Function

/-- a relabelling of what identifies a group: the printed label and the residue number are renamed, nothing else -/
def relabelId (lab : String → String) (num : Int → Int) (i : GroupId) : GroupId := ⟨lab i.label, i.protein, num i.resNum⟩

set_option linter.unusedSectionVars false in
/-- **Labels identify but never influence.**  Scoring reads chain identifiers, residue numbers and printed labels only
    through three equality tests of the environment (same residue in the desolvation loop, `Group.__eq__` in the coupling
    penalties, label equality when determinants towards penalised groups are removed).  Renaming residue keys and labels
    by injective maps leaves the environment - hence every number `score` produces - unchanged. -/
theorem envOf_relabel_invariant {α : Type} [Add α] [Sub α] [Mul α] [Div α] [NatCast α] [Trig α]
    (ρ : ResKey → ResKey) (hρ : Injective ρ) (lab : String → String) (hlab : Injective lab) (num : Int → Int) (hnum : Injective num)
    (apos gpos : Nat → Angle.P3 α) (ares gres : Nat → ResKey) (gid : Nat → GroupId) :
    envOf apos gpos (fun a => ρ (ares a)) (fun g => ρ (gres g)) (fun g => relabelId lab num (gid g)) = envOf apos gpos ares gres gid := by
  unfold envOf
  congr 1
  · funext g a
    rw [Bool.eq_iff_iff]
    simp only [Bool.and_eq_true, beq_iff_eq]
    constructor
    · intro h; have := hρ (Prod.ext h.1 h.2); rw [this]; exact ⟨rfl, rfl⟩
    · intro h; have : ares a = gres g := Prod.ext h.1 h.2; rw [this]; exact ⟨rfl, rfl⟩
  · funext g h
    rw [Bool.eq_iff_iff]
    simp only [relabelId, Bool.and_eq_true, Bool.or_eq_true, beq_iff_eq, hlab.eq_iff, hnum.eq_iff]
  · funext g h
    rw [Bool.eq_iff_iff]
    simp only [relabelId, beq_iff_eq, hlab.eq_iff]

set_option linter.unusedSectionVars false in
theorem score_relabel_invariant {α : Type} [Add α] [Sub α] [Mul α] [Div α] [Neg α] [NatCast α] [LT α] [LE α]
    [DecidableLT α] [DecidableLE α] [Max α] [Min α] [BEq α] [Inhabited α] [Trig α]
    (ρ : ResKey → ResKey) (hρ : Injective ρ) (lab : String → String) (hlab : Injective lab) (num : Int → Int) (hnum : Injective num)
    (p : SP α) (apos gpos : Nat → Angle.P3 α) (ares gres : Nat → ResKey) (gid : Nat → GroupId) (atoms : Tab AtomT) (groups : Tab (GroupT α)) :
    score p (envOf apos gpos (fun a => ρ (ares a)) (fun g => ρ (gres g)) (fun g => relabelId lab num (gid g))) atoms groups
      = score p (envOf apos gpos ares gres gid) atoms groups := by
  rw [envOf_relabel_invariant ρ hρ lab hlab num hnum]

/-- not vacuous: shifting every residue number by 1000 and renaming chain `A` to `Q` is such a relabelling -/
example : Injective (fun k : ResKey => (k.1 + 1000, if k.2 = "A" then "Q" else if k.2 = "Q" then "A" else k.2)) := by
  intro a b h
  simp only [Prod.mk.injEq] at h
  obtain ⟨h1, h2⟩ := h
  refine Prod.ext (by omega) ?_
  by_cases ha : a.2 = "A" <;> by_cases hb : b.2 = "A" <;> by_cases ha' : a.2 = "Q" <;> by_cases hb' : b.2 = "Q" <;> simp_all

end Propka.Scoring
