import Propka.Proofs.Bonds
import Propka.Gen.Bonds
/-! # C11 — covalent bonds are exactly those the pairwise distance rule gives

The model (`Propka.Bonds`) is instantiated with exact milli-Ångström integer coordinates (PDB
coordinates are a 0.001 Å grid) and with the constants and the half-space offset list that the
translator extracted from `propka/bonds.py` (`Propka.Gen`).  `inst_*` lemmas are obligations on the
generated values and are re-checked whenever the source changes. -/
namespace Propka.Bonds
open Propka.Gen

/-- the parameters of the shipped `BondMaker`, in thousandths of an Ångström -/
def Pm : BondParams Int := ⟨bondDistsMilli, hDistMilli, defaultDistMilli, boxMilli⟩
def H : List Cell := bondOffsets
def dflt : BAtom Int := ⟨0, 0, 0, ""⟩

/-! ### obligations on the generated values -/
/-- of every non-zero neighbour direction, the direction or its opposite is in the offset list -/
theorem inst_half_complete : HalfComplete H := by unfold HalfComplete; decide
/-- the offset list does not pair a box with itself -/
theorem inst_no_zero_offset : (0, 0, 0) ∉ H := by decide
/-- the box is larger than the longest bond distance -/
theorem inst_maxSq_lt_box : maxSq Pm ≤ (boxMilli - 1) * (boxMilli - 1) ∧ 0 < boxMilli := by decide
/-- the pair-specific distance table is symmetric in the two elements -/
theorem inst_table_symm : ∀ kv ∈ Pm.dists, lookupDist Pm.dists (kv.1.2, kv.1.1) = lookupDist Pm.dists kv.1 := by decide

/-! ### the criterion at `Int` -/
theorem lookup_some_mem {α} (ds : List ((String × String) × α)) (k : String × String) (t : α)
    (h : lookupDist ds k = some t) : ∃ kv ∈ ds, kv.1 = k := by
  induction ds with
  | nil => simp [lookupDist] at h
  | cons kv rest ih =>
    obtain ⟨k', v⟩ := kv
    simp only [lookupDist] at h
    by_cases e : k' = k
    · exact ⟨(k', v), by simp, e⟩
    · simp [e] at h; obtain ⟨kv, h1, h2⟩ := ih h; exact ⟨kv, List.mem_cons_of_mem _ h1, h2⟩

theorem lookup_symm (a b : String) : lookupDist Pm.dists (a, b) = lookupDist Pm.dists (b, a) := by
  cases h1 : lookupDist Pm.dists (a, b) with
  | some t =>
    obtain ⟨kv, hm, hk⟩ := lookup_some_mem _ _ _ h1
    have := inst_table_symm kv hm
    rw [hk] at this; simp only at this; rw [this, h1]
  | none =>
    cases h2 : lookupDist Pm.dists (b, a) with
    | none => rfl
    | some t =>
      obtain ⟨kv, hm, hk⟩ := lookup_some_mem _ _ _ h2
      have := inst_table_symm kv hm
      rw [hk] at this; simp only at this; rw [h1, h2] at this; cases this

theorem sqDist_symm (a b : BAtom Int) : sqDist a b = sqDist b a := by
  simp only [sqDist]; ring

theorem hCount_symm (a b : BAtom Int) : hCount a b = hCount b a := by
  simp only [hCount]; omega

/-- the criterion is symmetric -/
theorem crit_symm (a b : BAtom Int) : crit Pm a b = crit Pm b a := by
  unfold crit
  simp only [sqDist_symm b a, hCount_symm b a, lookup_symm b.elem a.elem]

/-- a bonded pair is closer than one box length along every axis, hence in equal or adjacent cells -/
theorem crit_near (a b : BAtom Int) (h : crit Pm a b = true) : nearC (cellOf Pm a) (cellOf Pm b) := by
  obtain ⟨hm, hB⟩ := inst_maxSq_lt_box
  have hd : sqDist a b ≤ maxSq Pm := by
    unfold crit at h
    by_contra hc
    simp only [not_le] at hc
    simp [hc] at h
  have hR : (boxMilli - 1) < boxMilli := by omega
  have hR0 : 0 ≤ boxMilli - 1 := by omega
  have key : ∀ d e f : Int, d*d + e*e + f*f ≤ (boxMilli - 1) * (boxMilli - 1) → d ≤ boxMilli - 1 ∧ -d ≤ boxMilli - 1 := by
    intro d e f hle
    constructor <;> nlinarith [mul_self_nonneg e, mul_self_nonneg f, mul_self_nonneg d]
  simp only [sqDist] at hd
  have hx := key (b.x - a.x) (b.y - a.y) (b.z - a.z) (le_trans hd hm)
  have hy := key (b.y - a.y) (b.x - a.x) (b.z - a.z) (le_trans (by linarith) hm)
  have hz := key (b.z - a.z) (b.y - a.y) (b.x - a.x) (le_trans (by linarith) hm)
  simp only [nearC, cellOf, CellIdx.cellIdx, Pm]
  refine ⟨cell_near_gen _ _ a.x b.x hB hR (by linarith [hx.2]) (by linarith [hx.1]),
          cell_near_gen _ _ a.y b.y hB hR (by linarith [hy.2]) (by linarith [hy.1]),
          cell_near_gen _ _ a.z b.z hB hR (by linarith [hz.2]) (by linarith [hz.1])⟩

/-! ### property theorems -/

/-- `atom.bonded_atoms` of atom `i` after `find_bonds_for_atoms_using_boxes(atoms)` -/
def bondedAtoms (atoms : Array (BAtom Int)) (i : Nat) : List Nat := adjOf (findBondsAtoms H Pm dflt atoms) i

/-- **Main theorem.** For every atom array (any coordinates on the grid, negative or not, any
    elements, any density, any order) and every two distinct atoms: `j` is in `i`'s bond list after
    the cell-list search iff the pair criterion accepts `(i, j)`. -/
theorem bonds_eq_pairwise (atoms : Array (BAtom Int)) (i j : Nat) (hi : i < atoms.size) (hj : j < atoms.size)
    (hne : i ≠ j) :
    j ∈ bondedAtoms atoms i ↔ crit Pm (atoms.getD i dflt) (atoms.getD j dflt) = true := by
  unfold bondedAtoms
  rw [mem_adjOf]
  exact boxes_eq_pairwise H inst_half_complete (fun i => cellOf Pm (atoms.getD i dflt))
    (fun i j => crit Pm (atoms.getD i dflt) (atoms.getD j dflt)) atoms.size
    (fun a b => crit_symm _ _) (fun a b h => crit_near _ _ h) i j hi hj hne

/-- **Bonds are symmetric.** -/
theorem bonds_symm (atoms : Array (BAtom Int)) (i j : Nat) : j ∈ bondedAtoms atoms i ↔ i ∈ bondedAtoms atoms j := by
  unfold bondedAtoms; rw [mem_adjOf, mem_adjOf]; unfold bondedIn; exact Or.comm

/-- **No atom is bonded to itself.** -/
theorem bonds_irrefl (atoms : Array (BAtom Int)) (i : Nat) : i ∉ bondedAtoms atoms i := by
  unfold bondedAtoms; rw [mem_adjOf]
  rintro (h | h) <;> exact no_self_bond H inst_no_zero_offset _ _ _ _ _ h rfl

/-- **Independence of everything else**: whether two atoms are bonded depends on those two atoms
    only — not on their position in the atom list, on the other atoms present, or on where they fall
    relative to the grid of boxes. -/
theorem bond_depends_on_pair_only (as bs : Array (BAtom Int)) (i j i' j' : Nat)
    (hi : i < as.size) (hj : j < as.size) (hne : i ≠ j) (hi' : i' < bs.size) (hj' : j' < bs.size) (hne' : i' ≠ j')
    (ei : as.getD i dflt = bs.getD i' dflt) (ej : as.getD j dflt = bs.getD j' dflt) :
    j ∈ bondedAtoms as i ↔ j' ∈ bondedAtoms bs i' := by
  rw [bonds_eq_pairwise as i j hi hj hne, bonds_eq_pairwise bs i' j' hi' hj' hne', ei, ej]

/-- disulfide flag: `atom.cysteine_bridge` is set for both atoms when a bond between two sulfurs is made -/
def bridged (atoms : Array (BAtom Int)) (i : Nat) : Prop :=
  ∃ p ∈ findBondsAtoms H Pm dflt atoms, (p.1 = i ∨ p.2 = i) ∧
    (atoms.getD p.1 dflt).elem = "S" ∧ (atoms.getD p.2 dflt).elem = "S"

/-- **Both sulfurs of every S–S pair within the criterion are marked as bridged**, and nothing else is. -/
theorem bridged_iff (atoms : Array (BAtom Int)) (i : Nat) (hi : i < atoms.size) :
    bridged atoms i ↔ ∃ j, j < atoms.size ∧ j ≠ i ∧ (atoms.getD i dflt).elem = "S" ∧ (atoms.getD j dflt).elem = "S" ∧
      crit Pm (atoms.getD i dflt) (atoms.getD j dflt) = true := by
  unfold bridged
  constructor
  · rintro ⟨⟨a, b⟩, hp, hor, hs1, hs2⟩
    simp only at hor hs1 hs2
    have hab : a ≠ b := no_self_bond H inst_no_zero_offset _ _ _ _ _ hp
    obtain ⟨ha, hb, hc⟩ := findBonds_lt H _ _ _ a b hp
    rcases hor with rfl | rfl
    · exact ⟨b, hb, fun e => hab e.symm, hs1, hs2, hc⟩
    · exact ⟨a, ha, hab, hs2, hs1, by rw [crit_symm]; exact hc⟩
  · rintro ⟨j, hj, hne, hs1, hs2, hc⟩
    have := (bonds_eq_pairwise atoms i j hi hj (fun e => hne e.symm)).mpr hc
    unfold bondedAtoms at this
    rw [mem_adjOf] at this
    rcases this with h | h
    · exact ⟨(i, j), h, Or.inl rfl, hs1, hs2⟩
    · exact ⟨(j, i), h, Or.inr rfl, hs2, hs1⟩

/-- **`make_bond` over any call sequence** keeps all bond lists symmetric, irreflexive and duplicate-free. -/
theorem make_bond_invariant (ops : List (Nat × Nat)) :
    AdjInv (ops.foldl (fun s p => makeBond s p.1 p.2) (fun _ => [])) :=
  makeBond_seq_inv ops _ ⟨by simp, by simp, by simp⟩

/-! ### Non-vacuity: a concrete structure across a cell boundary at negative coordinates -/
example :
    let atoms : Array (BAtom Int) := #[⟨-10, 0, 0, "C"⟩, ⟨-2520, 100, 0, "N"⟩, ⟨1400, 0, 0, "H"⟩, ⟨5000, 5000, 5000, "S"⟩, ⟨5000, 5000, 7400, "S"⟩]
    findBondsAtoms H Pm dflt atoms = [(2, 0), (4, 3)] ∧ cellOf Pm (atoms.getD 0 dflt) ≠ cellOf Pm (atoms.getD 2 dflt)
      ∧ crit Pm (atoms.getD 0 dflt) (atoms.getD 1 dflt) = false := by decide +kernel

end Propka.Bonds
