import Propka.Proofs.Profiles
import Propka.Gen.Consts
import Propka.Gen.Cfg
import Mathlib.Analysis.Calculus.Deriv.Add
/-! # C10 — proton linkage; optimum and ranges; the requested grid -/
namespace Propka.Profiles
open Real Set

/-! ## proton linkage -/

/-- pH-dependent part of a titratable group's folding free energy -/
noncomputable def ddgLow (s pk pkm : ℝ) (x : ℝ) : ℝ := s * (qlog pk x - qlog pkm x)

/-- the reference-state term of `calculate_folding_energy` does not depend on pH: the whole
    expression is that constant plus `ddgLow` -/
theorem folding_energy_split (s : ℝ) (neutral : Bool) (g : TGroup ℝ) (ht : g.titratable = true) :
    ∃ c : ℝ, ∀ ph, foldingEnergy s neutral g ph = c + ddgLow s g.pka g.modelPka ph := by
  refine ⟨foldingEnergy s neutral g 0 - ddgLow s g.pka g.modelPka 0, ?_⟩
  intro ph
  simp only [foldingEnergy, ht, Bool.not_true, Bool.false_eq_true, if_false, ddgLow]
  ring

/-- **Proton linkage for one group** (formal charge ±1): `d(ΔG)/d(pH) = −s · (Q_folded − Q_unfolded)`
    with the same charge curves that are reported; `s = UNK_PKA_SCALING = −1.36`. -/
theorem linkage_group (s q pk pkm ph : ℝ) (hq : q = 1 ∨ q = -1) :
    HasDerivAt (ddgLow s pk pkm) (-s * (chargeAt q pk ph - chargeAt q pkm ph)) ph := by
  have h := ((qlog_deriv pk ph).sub (qlog_deriv pkm ph)).const_mul s
  unfold ddgLow
  refine h.congr_deriv ?_
  rcases hq with rfl | rfl
  · rw [charge_pos_one, charge_pos_one]; ring
  · rw [charge_neg_one, charge_neg_one]; ring

theorem linkage_folding_energy (s : ℝ) (neutral : Bool) (g : TGroup ℝ) (ph : ℝ) (ht : g.titratable = true)
    (hq : g.charge = 1 ∨ g.charge = -1) :
    HasDerivAt (foldingEnergy s neutral g) (-s * (chargeAt g.charge g.pka ph - chargeAt g.charge g.modelPka ph)) ph := by
  obtain ⟨c, hc⟩ := folding_energy_split s neutral g ht
  have : foldingEnergy s neutral g = fun x => c + ddgLow s g.pka g.modelPka x := funext hc
  rw [this]
  exact (linkage_group s g.charge g.pka g.modelPka ph hq).const_add c

theorem foldl_energy_sum (s : ℝ) (neutral : Bool) (gs : List (TGroup ℝ)) (ph a : ℝ) :
    gs.foldl (fun acc g => acc + foldingEnergy s neutral g ph) a = a + (gs.map fun g => foldingEnergy s neutral g ph).sum := by
  induction gs generalizing a with
  | nil => simp
  | cons g gs ih => simp only [List.foldl_cons, ih, List.map_cons, List.sum_cons, add_assoc]

/-- **Proton linkage for the protein**: if every titratable group has formal charge ±1 (an obligation
    on the shipped charge table, below), the derivative of the reported folding free energy with
    respect to pH is `−s` times the difference of the two reported total charges. -/
theorem linkage_protein (s : ℝ) (neutral : Bool) (gs : List (TGroup ℝ)) (ph : ℝ)
    (hq : ∀ g ∈ gs, g.titratable = true → (g.charge = 1 ∨ g.charge = -1)) :
    HasDerivAt (confFoldingEnergy s neutral gs) (-s * ((confCharge gs ph).2 - (confCharge gs ph).1)) ph := by
  have hfun : confFoldingEnergy s neutral gs = fun x => (gs.map fun g => foldingEnergy s neutral g x).sum := by
    funext x; unfold confFoldingEnergy; rw [foldl_energy_sum]; simp
  rw [hfun, confCharge_sum]
  simp only
  clear hfun
  induction gs with
  | nil => simpa using hasDerivAt_const ph (0:ℝ)
  | cons g gs ih =>
    have ih' := ih (fun g' hg' => hq g' (List.mem_cons_of_mem _ hg'))
    simp only [List.map_cons, List.sum_cons]
    by_cases ht : g.titratable = true
    · have hg := linkage_folding_energy s neutral g ph ht (hq g (by simp) ht)
      have := hg.add ih'
      refine this.congr_deriv ?_
      simp only [List.filter_cons, ht, if_true, List.map_cons, List.sum_cons]; ring
    · have ht' : g.titratable = false := by simpa using ht
      have h0 : (fun x => foldingEnergy s neutral g x) = fun _ => (0:ℝ) := by
        funext x; simp [foldingEnergy, ht']
      have hg : HasDerivAt (fun x => foldingEnergy s neutral g x) 0 ph := by rw [h0]; exact hasDerivAt_const ph 0
      have := hg.add ih'
      refine this.congr_deriv ?_
      simp only [List.filter_cons, ht', Bool.false_eq_true, if_false]; ring

/-- obligations on the generated constants: the scaling is −1.36 kcal/mol per pK unit, and every
    creatable kind of group that can titrate has formal charge ±1 -/
theorem inst_scaling : Propka.Gen.Consts.group_UNK_PKA_SCALING = -1360000 := by decide
theorem inst_unit_charges : ∀ kv ∈ Propka.Gen.Cfg.titratableKinds,
    ((Propka.Gen.Cfg.f_charge.find? (fun c => c.1 == kv.2)).map (·.2)) ∈ [some 1000000, some (-1000000)] := by decide

/-! ## optimum and ranges (any ordered field; stated over ℚ) -/

theorem opt_le (profile : List (ℚ × ℚ)) (init : Option ℚ × ℚ) :
    (∀ p ∈ profile, (profile.foldl optStep init).2 ≤ p.2) ∧ (profile.foldl optStep init).2 ≤ init.2 := by
  induction profile generalizing init with
  | nil => simp
  | cons p ps ih =>
    simp only [List.foldl_cons, List.mem_cons]
    obtain ⟨h1, h2⟩ := ih (optStep init p)
    have hs : (optStep init p).2 ≤ p.2 ∧ (optStep init p).2 ≤ init.2 := by
      unfold optStep; split <;> constructor <;> simp_all <;> linarith
    refine ⟨?_, le_trans h2 hs.2⟩
    rintro q (rfl | hq)
    · exact le_trans h2 hs.1
    · exact h1 q hq

theorem opt_mem (profile : List (ℚ × ℚ)) (init : Option ℚ × ℚ) :
    profile.foldl optStep init = init ∨ ∃ p ∈ profile, profile.foldl optStep init = (some p.1, p.2) := by
  induction profile generalizing init with
  | nil => left; rfl
  | cons p ps ih =>
    simp only [List.foldl_cons]
    rcases ih (optStep init p) with h | ⟨q, hq, h⟩
    · by_cases hp : p.2 < init.2
      · right; refine ⟨p, by simp, ?_⟩; rw [h]; simp [optStep, hp]
      · left; rw [h]; simp [optStep, hp]
    · right; exact ⟨q, List.mem_cons_of_mem _ hq, h⟩

/-- **The reported optimum is the minimum of the computed profile**: no profile value is smaller, and
    unless every value is ≥ the sentinel 1e6 it is a point of the profile. -/
theorem optimum_is_min (big : ℚ) (profile : List (ℚ × ℚ)) :
    (∀ p ∈ profile, (optimum big profile).2 ≤ p.2) ∧
    ((∃ p ∈ profile, p.2 < big) → ∃ p ∈ profile, optimum big profile = (some p.1, p.2)) := by
  refine ⟨(opt_le profile (none, big)).1, ?_⟩
  rintro ⟨p, hp, hlt⟩
  rcases opt_mem profile (none, big) with h | h
  · have := (opt_le profile (none, big)).1 p hp
    unfold optimum
    rw [h] at this; simp only at this
    exact absurd hlt (not_lt.mpr this)
  · exact h

theorem minOf_le (vs : List ℚ) (m : ℚ) (h : minOf vs = some m) : (∀ v ∈ vs, m ≤ v) ∧ m ∈ vs := by
  cases vs with
  | nil => simp [minOf] at h
  | cons x xs =>
    simp only [minOf, Option.some.injEq] at h
    subst h
    have key : ∀ (l : List ℚ) (a : ℚ), (∀ v ∈ l, l.foldl (fun m y => if y < m then y else m) a ≤ v) ∧
        l.foldl (fun m y => if y < m then y else m) a ≤ a ∧
        (l.foldl (fun m y => if y < m then y else m) a = a ∨ l.foldl (fun m y => if y < m then y else m) a ∈ l) := by
      intro l
      induction l with
      | nil => intro a; simp
      | cons y ys ih =>
        intro a
        simp only [List.foldl_cons, List.mem_cons]
        obtain ⟨i1, i2, i3⟩ := ih (if y < a then y else a)
        have hs : (if y < a then y else a) ≤ y ∧ (if y < a then y else a) ≤ a := by
          split <;> constructor <;> linarith
        refine ⟨?_, le_trans i2 hs.2, ?_⟩
        · rintro v (rfl | hv)
          · exact le_trans i2 hs.1
          · exact i1 v hv
        · rcases i3 with h | h
          · by_cases hy : y < a
            · right; left; rw [h]; simp [hy]
            · left; rw [h]; simp [hy]
          · right; right; exact h
    obtain ⟨k1, k2, k3⟩ := key xs x
    refine ⟨?_, ?_⟩
    · intro v hv
      rcases List.mem_cons.mp hv with rfl | hv
      · exact k2
      · exact k1 v hv
    · rcases k3 with h | h
      · rw [h]; simp
      · exact List.mem_cons_of_mem _ h

/-- **Ranges are consistent with the profile**: the lower end of a reported range is a grid pH whose
    value passes the filter, and no passing pH is smaller (likewise for the upper end, by symmetry of
    the definition); in particular, when the optimum is negative its pH passes the stability filter. -/
theorem range_lower_consistent (thr : ℚ) (profile : List (ℚ × ℚ)) (lo : ℚ)
    (h : (rangeBelow thr profile).1 = some lo) :
    (∃ p ∈ profile, p.1 = lo ∧ p.2 < thr) ∧ ∀ p ∈ profile, p.2 < thr → lo ≤ p.1 := by
  unfold rangeBelow at h
  simp only at h
  obtain ⟨h1, h2⟩ := minOf_le _ lo h
  constructor
  · simp only [List.mem_map, List.mem_filter, decide_eq_true_eq] at h2
    obtain ⟨p, ⟨hp, hlt⟩, rfl⟩ := h2
    exact ⟨p, hp, rfl, hlt⟩
  · intro p hp hlt
    exact h1 p.1 (by simp only [List.mem_map, List.mem_filter, decide_eq_true_eq]; exact ⟨p, ⟨hp, hlt⟩, rfl⟩)

/-! ## the requested grid (exact arithmetic on millionths) -/

/-- `numSteps` is the integer part of `(max − min)/step + 1e-9`, as a pair of inequalities -/
theorem numSteps_spec (mn mx step : Int) (hs : 0 < step) :
    numSteps mn mx step * (step * 1000000000) ≤ (mx - mn) * 1000000000 + step ∧
    (mx - mn) * 1000000000 + step < (numSteps mn mx step + 1) * (step * 1000000000) := by
  have hpos : 0 < step * 1000000000 := by positivity
  unfold numSteps
  exact ⟨Int.ediv_mul_le _ (ne_of_gt hpos), Int.lt_ediv_add_one_mul_self _ hpos⟩

/-- **Both end points are grid points**: when `max − min` is a whole number `n` of steps, the grid is
    `min, min+step, …, min+n·step = max`. -/
theorem grid_includes_endpoints (mn step : Int) (n : Nat) (hs : 0 < step) :
    numSteps mn (mn + n * step) step = n := by
  have h := numSteps_spec mn (mn + n * step) step hs
  obtain ⟨h1, h2⟩ := h
  have e : (mn + ↑n * step - mn) * 1000000000 + step = (n:Int) * (step * 1000000000) + step := by ring
  rw [e] at h1 h2
  have hp : 0 < step * 1000000000 := by positivity
  have hlt : step < step * 1000000000 := by nlinarith
  apply le_antisymm
  · by_contra hc
    have : (n:Int) + 1 ≤ numSteps mn (mn + ↑n * step) step := by omega
    have := Int.mul_le_mul_of_nonneg_right this hp.le
    nlinarith
  · by_contra hc
    have : numSteps mn (mn + ↑n * step) step + 1 ≤ (n:Int) := by omega
    have := Int.mul_le_mul_of_nonneg_right this hp.le
    nlinarith

theorem gridPoints_ends (mn step : ℚ) (n : Nat) :
    (gridPoints mn step n).head? = some mn ∧ (gridPoints mn step n).getLast? = some (mn + (n:ℚ) * step) ∧
    (gridPoints mn step n).length = n + 1 := by
  unfold gridPoints
  refine ⟨?_, ?_, by simp⟩
  · simp [List.range_succ_eq_map]
  · simp [List.range_succ]

/-- **Printed window rows**: a profile pH (in thousandths) is printed iff it lies in the window and on
    the lattice `window_min + k·delta`. -/
theorem window_rows (wmin wmax start delta ph : Int) (hd : 0 < delta) :
    windowRow wmin wmax start delta ph = true ↔ (wmin ≤ ph ∧ ph ≤ wmax ∧ ∃ k : Int, ph = start + k * delta) := by
  unfold windowRow
  simp only [Bool.and_eq_true, decide_eq_true_eq]
  constructor
  · rintro ⟨⟨⟨h1, h2⟩, _⟩, h4⟩
    refine ⟨h1, h2, (ph - start) / delta, ?_⟩
    have := Int.emod_add_mul_ediv (ph - start) delta
    rw [h4] at this
    linarith [Int.mul_comm ((ph - start) / delta) delta]
  · rintro ⟨h1, h2, k, hk⟩
    refine ⟨⟨⟨h1, h2⟩, by omega⟩, ?_⟩
    rw [hk]; simp

/-- with `-w 0 14 2` the rows are the even pH values — in particular pH 1.0 … 1.9 are *not* printed -/
example : ((List.range 141).map (fun i => (i:Int) * 100)).filter (windowRow 0 14000 0 2000) = [0, 2000, 4000, 6000, 8000, 10000, 12000, 14000] := by
  decide +kernel

example : numSteps 0 300000 100000 = 3 ∧ numSteps 0 14000000 50000 = 280 ∧ numSteps 0 14000000 100000 = 140 := by decide

end Propka.Profiles
