import Propka.Model.Energy
import Propka.Proofs.Iterative
import Propka.Gen.Cfg
import Propka.Gen.Consts
import Propka.Proofs.Angle
import Propka.Props.C08
import Propka.Proofs.Scoring
import Propka.Proofs.Rotation
import Mathlib.Data.Real.Basic
import Mathlib.Tactic.Linarith
import Mathlib.Tactic.Positivity
import Mathlib.Tactic.NormNum
import Mathlib.Tactic.FieldSimp
import Mathlib.Tactic.Ring
/-! # C16 — every contribution has the physically required sign and stays in model bounds

Kernels of `propka.energy` and sign rules of `propka.determinants` at `ℝ`, parametric in the
parameters; `WellFormed` collects what the proofs need from a parameter set, and `inst_*` decide it
for the shipped file and the module constants (regenerated from `/repo`). -/
namespace Propka.Energy

structure WellFormed (p : EP ℝ) : Prop where
  n : p.nmin < p.nmax
  surf0 : 0 ≤ p.surf
  surf1 : p.surf ≤ 1
  pref : p.prefactor ≤ 0
  cc : 0 < p.cc1 ∧ p.cc1 < p.cc2
  diel : 0 < p.diel2 ∧ p.diel2 ≤ p.diel1
  cs : 0 ≤ p.cscale
  bb : p.bbd2 < p.bbd1
  bbs : 0 ≤ p.bbscale
  md : 0 < p.minDist4

theorem abs_eq (x : ℝ) : absS x = |x| := by
  unfold absS; simp only [Nat.cast_zero]
  by_cases h : x < 0
  · rw [if_pos h, abs_of_neg h]
  · rw [if_neg h, abs_of_nonneg (not_lt.mp h), add_zero]

/-- **The buried fraction lies between 0 and 100 %.** -/
theorem weight_unit (p : EP ℝ) (n : ℝ) : 0 ≤ calculateWeight p n ∧ calculateWeight p n ≤ 1 := by
  unfold calculateWeight
  simp only [Nat.cast_zero, Nat.cast_one]
  exact ⟨le_max_left _ _, max_le (by norm_num) (min_le_left _ _)⟩

theorem pair_weight_unit (p : EP ℝ) (a b : ℝ) : 0 ≤ pairWeight p a b ∧ pairWeight p a b ≤ 1 := by
  unfold pairWeight
  simp only [Nat.cast_zero, Nat.cast_one]
  exact ⟨le_max_left _ _, max_le (by norm_num) (min_le_left _ _)⟩

theorem scale_in (p : EP ℝ) (h : WellFormed p) (w : ℝ) (h0 : 0 ≤ w) (h1 : w ≤ 1) :
    p.surf ≤ scaleFactor p w ∧ scaleFactor p w ≤ 1 := by
  unfold scaleFactor; simp only [Nat.cast_one]
  have := h.surf0; have := h.surf1
  constructor <;> nlinarith

theorem dvInc_nonneg (p : EP ℝ) (h : WellFormed p) (dvol sq : ℝ) (hv : 0 ≤ dvol) : 0 ≤ dvInc p dvol sq := by
  unfold dvInc
  have : 0 < max p.minDist4 (sq * sq) := lt_of_lt_of_le h.md (le_max_left _ _)
  positivity

/-- **Desolvation never lowers an acid's pKa nor raises a base's.** -/
theorem desolvation_sign (p : EP ℝ) (h : WellFormed p) (q vol w : ℝ) (h0 : 0 ≤ w) (h1 : w ≤ 1) :
    (q < 0 → 0 ≤ energyVolume p q vol w) ∧ (0 < q → energyVolume p q vol w ≤ 0) := by
  unfold energyVolume
  simp only [Nat.cast_zero]
  have hs := (scale_in p h w h0 h1).1
  have hs0 : 0 ≤ scaleFactor p w := le_trans h.surf0 hs
  have hm : 0 ≤ max 0 (vol - p.allowance) := le_max_left _ _
  have hp := h.pref
  constructor
  · intro hq
    have : 0 ≤ q * p.prefactor := mul_nonneg_of_nonpos_of_nonpos hq.le hp
    positivity
  · intro hq
    have : q * p.prefactor ≤ 0 := mul_nonpos_of_nonneg_of_nonpos hq.le hp
    have h2 : q * p.prefactor * max 0 (vol - p.allowance) ≤ 0 := mul_nonpos_of_nonpos_of_nonneg this hm
    exact mul_nonpos_of_nonpos_of_nonneg h2 hs0

theorem reorgTerm_nonneg (p : EP ℝ) (h : WellFormed p) (d f : ℝ) : 0 ≤ reorgTerm p d f := by
  unfold reorgTerm
  simp only [Nat.cast_zero, Nat.cast_one]
  split
  · rename_i hc
    have hb := h.bb
    have : 0 ≤ 1 - (d - p.bbd2) / (p.bbd1 - p.bbd2) := by
      rw [sub_nonneg, div_le_one (by linarith)]; linarith [hc.1]
    have : 0 ≤ min 1 (1 - (d - p.bbd2) / (p.bbd1 - p.bbd2)) := le_min (by norm_num) this
    exact mul_nonneg h.bbs this
  · exact le_refl 0

/-- backbone reorganisation (the second desolvation term, for acids) never lowers the pKa -/
theorem reorganisation_nonneg (p : EP ℝ) (h : WellFormed p) (terms : List (ℝ × ℝ)) (w : ℝ) (h0 : 0 ≤ w) :
    0 ≤ energyLocal p terms w := by
  unfold energyLocal
  simp only [Nat.cast_zero]
  have : ∀ (l : List (ℝ × ℝ)) (a : ℝ), 0 ≤ a → 0 ≤ l.foldl (fun acc t => acc + reorgTerm p t.1 t.2) a := by
    intro l
    induction l with
    | nil => intro a ha; exact ha
    | cons t ts ih => intro a ha; exact ih _ (add_nonneg ha (reorgTerm_nonneg p h t.1 t.2))
  exact mul_nonneg (this terms 0 le_rfl) h0

/-- a hydrogen-bond energy is between 0 and `|dpka_max|·|f_angle|` -/
theorem hbond_range (dist dmax c1 c2 f : ℝ) (hc : c1 < c2) :
    0 ≤ hbondEnergy dist dmax c1 c2 f ∧ hbondEnergy dist dmax c1 c2 f ≤ |dmax| * |f| := by
  unfold hbondEnergy
  simp only [Nat.cast_zero, Nat.cast_one, abs_eq]
  refine ⟨abs_nonneg _, ?_⟩
  have hv : ∀ v : ℝ, 0 ≤ v → v ≤ 1 → |dmax * v * f| ≤ |dmax| * |f| := by
    intro v h0 h1
    rw [abs_mul, abs_mul, abs_of_nonneg h0]
    have := mul_le_mul_of_nonneg_left h1 (abs_nonneg dmax)
    nlinarith [abs_nonneg f, abs_nonneg dmax]
  split
  · exact hv 1 (by norm_num) le_rfl
  · split
    · exact hv 0 le_rfl (by norm_num)
    · rename_i h1 h2
      apply hv
      · rw [sub_nonneg, div_le_one (by linarith)]; linarith [not_lt.mp h2]
      · have : 0 ≤ (dist - c1) / (c2 - c1) := div_nonneg (by linarith [not_lt.mp h1]) (by linarith)
        linarith

/-- **A backbone hydrogen bond never raises an acid's pKa nor lowers a base's.** -/
theorem backbone_sign (q e : ℝ) (he : 0 ≤ e) : (q < 0 → backboneValue q e ≤ 0) ∧ (0 < q → 0 ≤ backboneValue q e) := by
  unfold backboneValue
  exact ⟨fun hq => mul_nonpos_of_nonpos_of_nonneg hq.le he, fun hq => mul_nonneg hq.le he⟩

/-- the Coulomb energy is between 0 and its value at the inner cut-off with the buried dielectric -/
theorem coulomb_range (p : EP ℝ) (h : WellFormed p) (d w : ℝ) (hw0 : 0 ≤ w) (hw1 : w ≤ 1) :
    0 ≤ coulombEnergy p d w ∧ coulombEnergy p d w ≤ p.cscale / (p.diel2 * p.cc1) := by
  unfold coulombEnergy
  simp only [Nat.cast_zero, Nat.cast_one, abs_eq]
  obtain ⟨h1, h12⟩ := h.cc
  obtain ⟨hd2, hd12⟩ := h.diel
  set dist := max d p.cc1 with hdist
  have hd : p.cc1 ≤ dist := le_max_right _ _
  have hdpos : 0 < dist := lt_of_lt_of_le h1 hd
  set diel := p.diel1 - (p.diel1 - p.diel2) * w with hdiel
  have hdl : p.diel2 ≤ diel := by rw [hdiel]; nlinarith
  have hdlpos : 0 < diel := lt_of_lt_of_le hd2 hdl
  set sc := min 1 (max 0 ((dist - p.cc2) / (p.cc1 - p.cc2))) with hsc
  have hsc0 : 0 ≤ sc := le_min (by norm_num) (le_max_left _ _)
  have hsc1 : sc ≤ 1 := min_le_left _ _
  have hcs := h.cs
  have hpos : 0 ≤ p.cscale / (diel * dist) * sc := by positivity
  rw [abs_of_nonneg hpos]
  refine ⟨hpos, ?_⟩
  have hden : p.diel2 * p.cc1 ≤ diel * dist := by nlinarith
  calc p.cscale / (diel * dist) * sc ≤ p.cscale / (diel * dist) * 1 := by
        apply mul_le_mul_of_nonneg_left hsc1; positivity
    _ = p.cscale / (diel * dist) := by ring
    _ ≤ p.cscale / (p.diel2 * p.cc1) := by
        apply div_le_div_of_nonneg_left hcs (by positivity) hden

/-- **An ion shifts a pKa against the sign of its own charge** (stabilising for opposite, destabilising
    for like charges, for acids and bases alike), by at most `|Q|` times the Coulomb bound. -/
theorem ion_sign (qIon e : ℝ) (he : 0 ≤ e) :
    (0 < qIon → ionValue qIon e ≤ 0) ∧ (qIon < 0 → 0 ≤ ionValue qIon e) ∧ |ionValue qIon e| = |qIon| * e := by
  unfold ionValue
  refine ⟨fun hq => by nlinarith, fun hq => by nlinarith, ?_⟩
  rw [abs_mul, abs_neg, abs_of_nonneg he]

/-! ## pair rules -/

/-- **Coulomb determinants of a pair**: two acids — one determinant `+v` (pKa up, destabilising) on the
    one with the higher model pKa; two bases — one determinant `−v` on the one with the lower model
    pKa; acid–base — `q₁v` and `q₂v`, i.e. stabilising for both and **equal and opposite**. -/
theorem coulomb_pair_signs (q1 q2 m1 m2 v : ℝ) (hv : 0 ≤ v) :
    (q1 < 0 → q2 < 0 → coulombRule q1 q2 m1 m2 v = [(1, v)] ∨ coulombRule q1 q2 m1 m2 v = [(2, v)]) ∧
    (0 < q1 → 0 < q2 → coulombRule q1 q2 m1 m2 v = [(1, -v)] ∨ coulombRule q1 q2 m1 m2 v = [(2, -v)]) ∧
    (q1 = -1 → q2 = 1 → coulombRule q1 q2 m1 m2 v = [(1, -v), (2, v)]) ∧
    (q1 = 1 → q2 = -1 → coulombRule q1 q2 m1 m2 v = [(1, v), (2, -v)]) := by
  unfold coulombRule
  simp only [Nat.cast_zero]
  refine ⟨?_, ?_, ?_, ?_⟩
  · intro h1 h2; simp only [h1, h2, and_self, if_true]; split <;> simp
  · intro h1 h2
    have n1 : ¬ (q1 < 0 ∧ q2 < 0) := fun h => absurd h.1 (not_lt.mpr h1.le)
    simp only [n1, if_false, h1, h2, and_self, if_true]; split <;> simp
  · intro h1 h2; subst h1; subst h2; norm_num
  · intro h1 h2; subst h1; subst h2; norm_num

theorem ionpair_opposite (q1 q2 m1 m2 v : ℝ) (h : (q1 = -1 ∧ q2 = 1) ∨ (q1 = 1 ∧ q2 = -1)) :
    ((coulombRule q1 q2 m1 m2 v).map (·.2)).sum = 0 ∧ (coulombRule q1 q2 m1 m2 v).length = 2 := by
  rcases h with ⟨rfl, rfl⟩ | ⟨rfl, rfl⟩ <;> (unfold coulombRule; norm_num)

/-- side-chain hydrogen bond between unlike charges: each group gets `v·q` (acid down, base up);
    between like charges: the one with the lower model pKa goes down, the other up, by `v` -/
theorem sidechain_pair_signs (q1 q2 m1 m2 v : ℝ) :
    (q1 ≠ q2 → sidechainRule q1 q2 m1 m2 v = [(1, v * q1), (2, v * q2)]) ∧
    (q1 = q2 → m1 < m2 → sidechainRule q1 q2 m1 m2 v = [(1, -v), (2, v)]) ∧
    (q1 = q2 → ¬ m1 < m2 → sidechainRule q1 q2 m1 m2 v = [(1, v), (2, -v)]) := by
  unfold sidechainRule
  refine ⟨?_, ?_, ?_⟩
  · intro h
    have : ¬ (¬ q1 < q2 ∧ ¬ q2 < q1) := by
      intro ⟨a, b⟩; exact h (le_antisymm (not_lt.mp b) (not_lt.mp a))
    rw [if_neg this]
  · intro h hm; subst h; simp [hm]
  · intro h hm; subst h; simp [hm]

/-- every side-chain determinant of formal charge ±1 groups is bounded by the interaction value -/
theorem sidechain_bound (q1 q2 m1 m2 v : ℝ) (hq1 : |q1| ≤ 1) (hq2 : |q2| ≤ 1) :
    ∀ o ∈ sidechainRule q1 q2 m1 m2 v, |o.2| ≤ |v| := by
  unfold sidechainRule
  intro o ho
  split at ho
  · split at ho <;> (simp only [List.mem_cons, List.mem_nil_iff, or_false] at ho; rcases ho with rfl | rfl <;> simp)
  · simp only [List.mem_cons, List.mem_nil_iff, or_false] at ho
    rcases ho with rfl | rfl <;> (simp only [abs_mul]; nlinarith [abs_nonneg v])

/-- COO–COO multiplies the hydrogen-bond energy by `1 + weight ≤ 2`; COO–ARG adds two of them -/
theorem coo_coo_bound (e w : ℝ) (he : 0 ≤ e) (h0 : 0 ≤ w) (h1 : w ≤ 1) : 0 ≤ e * (1 + w) ∧ e * (1 + w) ≤ 2 * e := by
  constructor <;> nlinarith

/-! ## the shipped parameters -/
open Propka.Gen.Cfg Propka.Gen.Consts

/-- the shipped parameter set, in millionths -/
def shippedMicro : EP ℤ :=
  { nmin := f_Nmin, nmax := f_Nmax, surf := f_desolvationSurfaceScalingFactor, prefactor := f_desolvationPrefactor,
    allowance := f_desolvationAllowance, cc1 := f_coulomb_cutoff1, cc2 := f_coulomb_cutoff2,
    diel1 := energy_UNK_DIELECTRIC1, diel2 := energy_UNK_DIELECTRIC2, cscale := energy_UNK_PKA_SCALING1,
    bbd1 := energy_UNK_BACKBONE_DISTANCE1, bbd2 := energy_UNK_BACKBONE_DISTANCE2, bbscale := energy_UNK_PKA_SCALING2,
    fmin := energy_UNK_FANGLE_MIN, minDist4 := 1 }

/-- the hypotheses of the kernel theorems hold for the shipped values -/
theorem inst_wellformed :
    shippedMicro.nmin < shippedMicro.nmax ∧ 0 ≤ shippedMicro.surf ∧ shippedMicro.surf ≤ 1000000 ∧ shippedMicro.prefactor ≤ 0 ∧
    0 < shippedMicro.cc1 ∧ shippedMicro.cc1 < shippedMicro.cc2 ∧ 0 < shippedMicro.diel2 ∧ shippedMicro.diel2 ≤ shippedMicro.diel1 ∧
    0 ≤ shippedMicro.cscale ∧ shippedMicro.bbd2 < shippedMicro.bbd1 ∧ 0 ≤ shippedMicro.bbscale ∧ 0 < energy_UNK_MIN_DISTANCE := by decide

/-- the shipped parameter set as real numbers (the generated table holds millionths) -/
noncomputable def shippedReal : EP ℝ :=
  let r (z : ℤ) : ℝ := (z : ℝ) / 1000000
  { nmin := r shippedMicro.nmin, nmax := r shippedMicro.nmax, surf := r shippedMicro.surf, prefactor := r shippedMicro.prefactor,
    allowance := r shippedMicro.allowance, cc1 := r shippedMicro.cc1, cc2 := r shippedMicro.cc2, diel1 := r shippedMicro.diel1,
    diel2 := r shippedMicro.diel2, cscale := r shippedMicro.cscale, bbd1 := r shippedMicro.bbd1, bbd2 := r shippedMicro.bbd2,
    bbscale := r shippedMicro.bbscale, fmin := r shippedMicro.fmin, minDist4 := 1 }

theorem micro_lt (a b : ℤ) (h : a < b) : (a : ℝ) / 1000000 < (b : ℝ) / 1000000 :=
  div_lt_div_of_pos_right (by exact_mod_cast h) (by norm_num)
theorem micro_le (a b : ℤ) (h : a ≤ b) : (a : ℝ) / 1000000 ≤ (b : ℝ) / 1000000 :=
  div_le_div_of_nonneg_right (by exact_mod_cast h) (by norm_num)

/-- **The parametric kernel theorems apply to the shipped parameter file**: the hypotheses collected in `WellFormed` follow
    from the integer facts decided on the regenerated tables. -/
theorem shipped_wellformed : WellFormed shippedReal := by
  obtain ⟨h1, h2, h3, h4, h5, h6, h7, h8, h9, h10, h11, _⟩ := inst_wellformed
  have z : ((0:ℤ) : ℝ) / 1000000 = 0 := by norm_num
  refine ⟨micro_lt _ _ h1, ?_, ?_, ?_, ⟨?_, micro_lt _ _ h6⟩, ⟨?_, micro_le _ _ h8⟩, ?_, micro_lt _ _ h10, ?_, by simp [shippedReal]⟩
  · have := micro_le _ _ h2; simpa [shippedReal, z] using this
  · have := micro_le _ _ h3; norm_num at this; simpa [shippedReal] using this
  · have := micro_le _ _ h4; simpa [shippedReal, z] using this
  · have := micro_lt _ _ h5; simpa [shippedReal, z] using this
  · have := micro_lt _ _ h7; simpa [shippedReal, z] using this
  · have := micro_le _ _ h9; simpa [shippedReal, z] using this
  · have := micro_le _ _ h11; simpa [shippedReal, z] using this

/-- van der Waals volumes are positive, cut-off pairs are ordered, every titratable kind has charge ±1 -/
theorem inst_tables : (∀ kv ∈ f_VanDerWaalsVolume, 0 < kv.2) ∧ scDefault.1 < scDefault.2 ∧ (∀ e ∈ scPairs, e.2.2.1 < e.2.2.2) ∧
    (∀ kv ∈ titratableKinds, ((f_charge.find? (fun c => c.1 == kv.2)).map (·.2)) ∈ [some 1000000, some (-1000000)]) ∧
    0 < f_sidechain_interaction := by decide +kernel

/-- the configured maxima the property names: twice the side-chain maximum is 1.70, the exception values are 1.60 / 3.60,
    and the Coulomb value at the inner cut-off with the buried dielectric is 244.12/(30·4) ≈ 2.03 -/
theorem inst_maxima : 2 * f_sidechain_interaction = 1700000 ∧ f_COO_HIS_exception = 1600000 ∧ f_CYS_CYS_exception = 3600000 ∧
    energy_UNK_PKA_SCALING1 * 1000000 / (energy_UNK_DIELECTRIC2 * f_coulomb_cutoff1 / 1000000) = 2034333 := by decide

/-! ## the iterative pair rules (model of `propka.iterative`) -/
open Propka.Iter in
/-- in every iteration two acids get exactly one Coulomb determinant, `+coul`, on one of them; two
    bases exactly one, `−coul`; an acid–base pair gets `q₁·coul` and `q₂·coul` together or nothing -
    hence the two Coulomb determinants of an acid–base pair are equal and opposite -/
theorem iterative_pair_signs (gs : Array (IGroup ℚ)) (old : Array ℚ) (it : Iter.Inter ℚ) (ann : ℚ × ℚ) :
    let q1 := (gs.getD it.g1 ⟨0, 0, false⟩).q
    let q2 := (gs.getD it.g2 ⟨0, 0, false⟩).q
    (q1 < 0 → q2 < 0 → ∃ o p, coulombDets (interStep minValue gs old it ann).1 = [⟨o, p, .coulomb, it.coul⟩]) ∧
    (0 < q1 → 0 < q2 → ∃ o p, coulombDets (interStep minValue gs old it ann).1 = [⟨o, p, .coulomb, -it.coul⟩]) ∧
    (((q1 = -1 ∧ q2 = 1) ∨ (q1 = 1 ∧ q2 = -1)) →
      coulombDets (interStep minValue gs old it ann).1 = [] ∨
      coulombDets (interStep minValue gs old it ann).1 = [⟨it.g1, it.g2, .coulomb, q1 * it.coul⟩, ⟨it.g2, it.g1, .coulomb, q2 * it.coul⟩]) := by
  intro q1 q2
  refine ⟨?_, ?_, ?_⟩
  · intro h1 h2; obtain ⟨o, p, h, _⟩ := acid_pair_coulomb gs old it ann h1 h2; exact ⟨o, p, h⟩
  · intro h1 h2; obtain ⟨o, p, h, _⟩ := base_pair_coulomb gs old it ann h1 h2; exact ⟨o, p, h⟩
  · intro h; exact ion_pair_coulomb gs old it ann h

theorem iterative_ionpair_cancels (q1 q2 c : ℚ) (h : (q1 = -1 ∧ q2 = 1) ∨ (q1 = 1 ∧ q2 = -1)) : q1 * c + q2 * c = 0 := by
  rcases h with ⟨rfl, rfl⟩ | ⟨rfl, rfl⟩ <;> ring

/-! ### Non-vacuity -/
example : WellFormed ⟨280, 560, 0.25, -13, 0, 4, 10, 160, 30, 244.12, 6, 3, 0.8, 0.001, 57.19140625⟩ := by
  constructor <;> norm_num

end Propka.Energy

/-! ## the angle factor of angular-dependent hydrogen bonds -/
namespace Propka.Angle
open Real
/-- **The angle factor is a cosine**: for three atoms with `atom1 ≠ atom2 ≠ atom3` (the code divides by both distances)
    the factor lies in [-1, 1]; the callers clamp negative values to 0, so what enters `hydrogen_bond_energy` lies in [0, 1]. -/
theorem f_angle_range (p1 p2 p3 : P3 ℝ)
    (h12 : 0 < (p1.x - p2.x) * (p1.x - p2.x) + (p1.y - p2.y) * (p1.y - p2.y) + (p1.z - p2.z) * (p1.z - p2.z))
    (h23 : 0 < (p2.x - p3.x) * (p2.x - p3.x) + (p2.y - p3.y) * (p2.y - p3.y) + (p2.z - p3.z) * (p2.z - p3.z)) :
    |(factors p1 p2 p3).2.1| ≤ 1 := by
  unfold factors
  simp only [Trig.sqrt]
  exact unit_dot_le _ _ _ _ _ _ h12 h23

/-- the two distances returned are the Euclidean distances -/
theorem dists (p1 p2 p3 : P3 ℝ) :
    (factors p1 p2 p3).1 = √((p1.x - p2.x) * (p1.x - p2.x) + (p1.y - p2.y) * (p1.y - p2.y) + (p1.z - p2.z) * (p1.z - p2.z)) ∧
    (factors p1 p2 p3).2.2 = √((p2.x - p3.x) * (p2.x - p3.x) + (p2.y - p3.y) * (p2.y - p3.y) + (p2.z - p3.z) * (p2.z - p3.z)) := ⟨rfl, rfl⟩

/-- collinear donor geometry gives the full factor: atom1 on the ray from atom3 through atom2 -/
example : (factors (⟨2, 0, 0⟩ : P3 ℝ) ⟨1, 0, 0⟩ ⟨0, 0, 0⟩).2.1 = 1 := by
  unfold factors; norm_num [Trig.sqrt]

/-- with the factor derived from three distinct atom positions a hydrogen-bond energy never exceeds `|dpka_max|` -/
theorem hbond_geometric_bound (p1 p2 p3 : P3 ℝ) (dist dmax c1 c2 : ℝ) (hc : c1 < c2)
    (h12 : 0 < (p1.x - p2.x) * (p1.x - p2.x) + (p1.y - p2.y) * (p1.y - p2.y) + (p1.z - p2.z) * (p1.z - p2.z))
    (h23 : 0 < (p2.x - p3.x) * (p2.x - p3.x) + (p2.y - p3.y) * (p2.y - p3.y) + (p2.z - p3.z) * (p2.z - p3.z)) :
    Propka.Energy.hbondEnergy dist dmax c1 c2 (factors p1 p2 p3).2.1 ≤ |dmax| := by
  have h := (Propka.Energy.hbond_range dist dmax c1 c2 (factors p1 p2 p3).2.1 hc).2
  have hf := f_angle_range p1 p2 p3 h12 h23
  nlinarith [abs_nonneg dmax, abs_nonneg (factors p1 p2 p3).2.1]
end Propka.Angle

/-! ## reported averages stay in range -/
namespace Propka.Dets
theorem sum_bounds (xs : List ℚ) (a b : ℚ) (h : ∀ x ∈ xs, a ≤ x ∧ x ≤ b) :
    a * xs.length ≤ xs.sum ∧ xs.sum ≤ b * xs.length := by
  induction xs with
  | nil => simp
  | cons x xs ih =>
    have hx := h x (List.mem_cons_self ..)
    have := ih (fun y hy => h y (List.mem_cons_of_mem _ hy))
    simp only [List.sum_cons, List.length_cons, Nat.cast_add, Nat.cast_one]
    constructor <;> nlinarith [this.1, this.2, hx.1, hx.2]

/-- **Averages stay in range**: if a quantity lies in `[a, b]` in every conformation that contains the group (a buried
    fraction in [0, 1], a desolvation penalty of fixed sign), so does the value reported for the average. -/
theorem average_in_range (xs : List ℚ) (hne : xs ≠ []) (a b : ℚ) (h : ∀ x ∈ xs, a ≤ x ∧ x ≤ b) :
    a ≤ avgScalar 0 xs ∧ avgScalar 0 xs ≤ b := by
  rw [scalar_average_is_mean]
  have hpos : (0 : ℚ) < xs.length := by
    have : 0 < xs.length := List.length_pos_iff.mpr hne
    exact_mod_cast this
  obtain ⟨h1, h2⟩ := sum_bounds xs a b h
  constructor
  · rw [le_div_iff₀ hpos]; exact h1
  · rw [div_le_iff₀ hpos]; exact h2

example : avgScalar (0 : ℚ) [1, 1/2] = 3/4 := by unfold avgScalar; norm_num
end Propka.Dets

/-! ## the whole scoring phase (`Model/Scoring.lean`): signs and bounds of everything `score` leaves on a group -/
namespace Propka.Scoring
open Propka.Energy

/-! ### signs and bounds of what `score` leaves on a group (over the reals) -/

theorem zero_eq : (zero : ℝ) = 0 := by simp [zero]

theorem hbond_nonneg (dist dmax c1 c2 f : ℝ) : 0 ≤ hbondEnergy dist dmax c1 c2 f := by
  unfold hbondEnergy; simp only [abs_eq]; exact abs_nonneg _

theorem buried_unit (p : SP ℝ) (groups : Tab (GroupT ℝ)) (nv : Nat → Nat) (g : Nat) :
    0 ≤ buriedOf p groups nv g ∧ buriedOf p groups nv g ≤ 1 := by
  unfold buriedOf
  split
  · exact weight_unit _ _
  · rw [zero_eq]; exact ⟨le_refl _, zero_le_one⟩

/-- **Desolvation terms and buried fraction of every record.** -/
theorem score_desolvation_signs (p : SP ℝ) (h : WellFormed p.ep) (env : Env ℝ) (atoms : Tab AtomT) (groups : Tab (GroupT ℝ))
    (g : Nat) (hg : g < groups.n) :
    ∃ o, (score p env atoms groups)[g]? = some o ∧ 0 ≤ o.buried ∧ o.buried ≤ 1 ∧
      ((gget groups g).q < 0 → 0 ≤ o.evol) ∧ (0 < (gget groups g).q → o.evol ≤ 0) ∧ 0 ≤ o.eloc := by
  obtain ⟨o, ho, hb, hv, hl, _⟩ := record_unfold p env atoms groups g hg
  have hbu := buried_unit p groups (nvF (desTab p env atoms groups)) g
  refine ⟨o, ho, by rw [hb]; exact hbu.1, by rw [hb]; exact hbu.2, ?_, ?_, ?_⟩
  · intro hq; rw [hv]; unfold evolOf
    split
    · exact (desolvation_sign p.ep h _ _ _ hbu.1 hbu.2).1 hq
    · rw [zero_eq]
  · intro hq; rw [hv]; unfold evolOf
    split
    · exact (desolvation_sign p.ep h _ _ _ hbu.1 hbu.2).2 hq
    · rw [zero_eq]
  · rw [hl]; unfold elocOf
    split
    · exact reorganisation_nonneg p.ep h _ _ hbu.1
    · rw [zero_eq]

theorem bbValue_form (p : SP ℝ) (env : Env ℝ) (atoms : Tab AtomT) (tg bg : GroupT ℝ) (r : Best ℝ) (v : ℝ)
    (h : bbValue p env atoms tg bg r = some v) : ∃ e : ℝ, 0 ≤ e ∧ v = tg.q * e := by
  unfold bbValue at h
  simp only at h
  split at h
  · exact absurd h (by simp)
  · split at h
    · split at h
      · exact ⟨_, hbond_nonneg _ _ _ _ _, (Option.some.inj h).symm⟩
      · exact absurd h (by simp)
    · exact absurd h (by simp)

theorem bbDet_form (p : SP ℝ) (env : Env ℝ) (atoms : Tab AtomT) (groups : Tab (GroupT ℝ)) (t b : Nat) (d : Det ℝ)
    (h : bbDet p env atoms groups t b = some d) : ∃ e : ℝ, 0 ≤ e ∧ d.value = (gget groups t).q * e := by
  unfold bbDet at h
  simp only at h
  split at h
  · exact absurd h (by simp)
  · split at h
    · exact absurd h (by simp)
    · split at h
      · exact absurd h (by simp)
      · obtain ⟨v, hv, hdv⟩ := Option.map_eq_some_iff.mp h
        obtain ⟨e, he, hve⟩ := bbValue_form p env atoms _ _ _ v hv
        exact ⟨e, he, by rw [← hdv]; exact hve⟩

/-- **Every backbone determinant of every record is the group's charge times a non-negative hydrogen-bond energy**, so it
    never raises an acid's pKa nor lowers a base's. -/
theorem score_backbone_dets (p : SP ℝ) (env : Env ℝ) (atoms : Tab AtomT) (groups : Tab (GroupT ℝ)) (g : Nat) (hg : g < groups.n) :
    ∃ o, (score p env atoms groups)[g]? = some o ∧
      ∀ d ∈ o.bb, ∃ e : ℝ, 0 ≤ e ∧ d.value = (gget groups g).q * e ∧
        ((gget groups g).q < 0 → d.value ≤ 0) ∧ (0 < (gget groups g).q → 0 ≤ d.value) := by
  obtain ⟨o, ho, _, _, _, hbb, _⟩ := record_unfold p env atoms groups g hg
  refine ⟨o, ho, ?_⟩
  intro d hd
  have h1 := hbb d hd
  unfold bbDets at h1
  split at h1
  · obtain ⟨b, _, hb⟩ := List.mem_filterMap.mp h1
    obtain ⟨e, he, hde⟩ := bbDet_form p env atoms groups g b d hb
    refine ⟨e, he, hde, ?_, ?_⟩
    · intro hq; rw [hde]; exact mul_nonpos_of_nonpos_of_nonneg hq.le he
    · intro hq; rw [hde]; exact mul_nonneg hq.le he
  · exact absurd h1 (by simp)

/-- **Every ion determinant is minus the ion's charge times a Coulomb energy between 0 and the configured maximum.** -/
theorem score_ion_dets (p : SP ℝ) (h : WellFormed p.ep) (env : Env ℝ) (groups : Tab (GroupT ℝ)) (nv : Nat → Nat) (g : Nat) :
    ∀ d ∈ ionDets p env groups nv g, ∃ e : ℝ, 0 ≤ e ∧ e ≤ p.ep.cscale / (p.ep.diel2 * p.ep.cc1) ∧
      d.value = -(gget groups d.partner).q * e := by
  intro d hd
  unfold ionDets at hd
  split at hd
  · obtain ⟨i, _, hi⟩ := List.mem_filterMap.mp hd
    unfold ionDet at hi
    split at hi
    · have := Option.some.inj hi
      subst this
      have hw := pair_weight_unit p.ep ((nv g : ℕ) : ℝ) ((nv i : ℕ) : ℝ)
      exact ⟨_, (coulomb_range p.ep h _ _ hw.1 hw.2).1, (coulomb_range p.ep h _ _ hw.1 hw.2).2, rfl⟩
    · exact absurd hi (by simp)
  · exact absurd hd (by simp)


theorem coulVal_range (p : SP ℝ) (h : WellFormed p.ep) (g1 g2 : GroupT ℝ) (n1 n2 dist v : ℝ) (hv : coulVal p g1 g2 n1 n2 dist = some v) :
    0 ≤ v ∧ v ≤ p.ep.cscale / (p.ep.diel2 * p.ep.cc1) := by
  unfold coulVal at hv
  split at hv
  · have := Option.some.inj hv; subst this
    have hw := pair_weight_unit p.ep n1 n2
    exact coulomb_range p.ep h _ _ hw.1 hw.2
  · exact absurd hv (by simp)


/-- **Every non-iterative Coulomb determinant is an output of the Coulomb pair rule, applied to a pair the loop visited,
    with a Coulomb energy between 0 and the configured maximum**; every non-iterative side-chain determinant is an output
    of the side-chain pair rule.  (`coulomb_pair_signs`, `sidechain_pair_signs` then give the signs.) -/
theorem pair_dets_from_rules (p : SP ℝ) (h : WellFormed p.ep) (env : Env ℝ) (atoms : Tab AtomT) (groups : Tab (GroupT ℝ)) (nv : Nat → Nat)
    (e : Em ℝ) (he : e ∈ nonIterEms (pairResults p env atoms groups nv)) :
    ∃ ab ∈ visited groups, ∃ v : ℝ,
      (e.kind = .coulomb ∧ 0 ≤ v ∧ v ≤ p.ep.cscale / (p.ep.diel2 * p.ep.cc1) ∧
        e ∈ tagOut ab.1 ab.2 .coulomb (coulombRule (gget groups ab.1).q (gget groups ab.2).q (gget groups ab.1).model (gget groups ab.2).model v)) ∨
      (e.kind = .sidechain ∧
        e ∈ tagOut ab.1 ab.2 .sidechain (sidechainRule (gget groups ab.1).q (gget groups ab.2).q (gget groups ab.1).model (gget groups ab.2).model v)) := by
  unfold nonIterEms pairResults at he
  obtain ⟨r, hr, her⟩ := List.mem_flatMap.mp he
  obtain ⟨ab, hab, rfl⟩ := List.mem_map.mp hr
  refine ⟨ab, hab, ?_⟩
  unfold pairStep at her
  simp only at her
  split at her
  · split at her
    · split at her <;> exact absurd her (by simp)
    · simp only [List.mem_append] at her
      rcases her with h1 | h2
      · split at h1
        · rename_i v _
          split at h1
          · exact ⟨v, Or.inr ⟨mem_tagOut_kind _ _ _ _ _ h1, h1⟩⟩
          · exact absurd h1 (by simp)
        · exact absurd h1 (by simp)
      · split at h2
        · rename_i v hv
          split at h2
          · obtain ⟨h0, hb⟩ := coulVal_range p h _ _ _ _ _ v hv
            exact ⟨v, Or.inl ⟨mem_tagOut_kind _ _ _ _ _ h2, h0, hb, h2⟩⟩
          · exact absurd h2 (by simp)
        · exact absurd h2 (by simp)
    · exact absurd her (by simp)
  · exact absurd her (by simp)


/-- every entry of the iterative list stems from a visited pair, with a Coulomb value between 0 and the configured maximum -/
theorem inters_from_pairs (p : SP ℝ) (h : WellFormed p.ep) (env : Env ℝ) (atoms : Tab AtomT) (groups : Tab (GroupT ℝ)) (nv : Nat → Nat)
    (it : Iter.Inter ℝ) (hit : it ∈ iterInters (pairResults p env atoms groups nv)) :
    (it.g1, it.g2) ∈ visited groups ∧ 0 ≤ it.coul ∧ it.coul ≤ p.ep.cscale / (p.ep.diel2 * p.ep.cc1) := by
  unfold iterInters pairResults at hit
  obtain ⟨r, hr, hri⟩ := List.mem_filterMap.mp hit
  obtain ⟨ab, hab, rfl⟩ := List.mem_map.mp hr
  unfold pairStep at hri
  simp only at hri
  have hpos : 0 ≤ p.ep.cscale / (p.ep.diel2 * p.ep.cc1) :=
    div_nonneg h.cs (mul_nonneg h.diel.1.le h.cc.1.le)
  split at hri
  · split at hri
    · split at hri
      · have := Option.some.inj hri; subst this
        refine ⟨hab, ?_⟩
        simp only
        cases hc : coulVal p (gget groups ab.1) (gget groups ab.2) ((nv ab.1 : ℕ) : ℝ) ((nv ab.2 : ℕ) : ℝ) (Trig.sqrt (env.sqGG ab.1 ab.2)) with
        | none => simp only [Option.getD_none, zero_eq]; exact ⟨le_refl _, hpos⟩
        | some v => simp only [Option.getD_some]; exact coulVal_range p h _ _ _ _ _ v hc
      · exact absurd hri (by simp)
    · exact absurd hri (by simp)
    · exact absurd hri (by simp)
  · exact absurd hri (by simp)


theorem mem_iterEms (p : SP ℝ) (groups : Tab (GroupT ℝ)) (st : Nat → Stage ℝ) (inters : List (Iter.Inter ℝ)) (g partner : Nat) (k : Iter.Kind) (v : ℝ)
    (h : (⟨g, partner, iterKind k, v⟩ : Em ℝ) ∈ iterEms p groups st inters) :
    ∃ it ∈ inters, ∃ old ann, (⟨g, partner, k, v⟩ : Iter.Det ℝ) ∈ (Iter.interStep p.minV (iterGroups p groups st) old it ann).1 := by
  unfold iterEms at h
  obtain ⟨d, hd, he⟩ := List.mem_map.mp h
  have hk : d.kind = k := by
    have := congrArg Em.kind he
    simp only at this
    cases hdk : d.kind <;> cases k <;> simp_all [iterKind]
  have : d = ⟨g, partner, k, v⟩ := by
    cases d; simp_all
  rw [← this]
  exact Iter.solve_dets _ _ _ d hd

/-- **Every determinant of every final record was produced by exactly one of the modelled rules** - a backbone hydrogen bond
    (charge times a non-negative energy), an ion (minus the ion's charge times a Coulomb energy in range), a non-iterative
    pair rule applied to a visited pair (Coulomb energy in range), or one of the iterative pair rules applied to a listed
    interaction that stems from a visited pair (Coulomb value in range) - whatever the structure. -/
theorem score_dets_from_rules (p : SP ℝ) (h : WellFormed p.ep) (env : Env ℝ) (atoms : Tab AtomT) (groups : Tab (GroupT ℝ))
    (g : Nat) (hg : g < groups.n) :
    ∃ o, (score p env atoms groups)[g]? = some o ∧
      (∀ d ∈ o.bb, ∃ e : ℝ, 0 ≤ e ∧ d.value = (gget groups g).q * e) ∧
      (∀ d ∈ o.cb,
        (∃ e : ℝ, 0 ≤ e ∧ e ≤ p.ep.cscale / (p.ep.diel2 * p.ep.cc1) ∧ d.value = -(gget groups d.partner).q * e) ∨
        (∃ ab ∈ visited groups, ∃ v : ℝ, 0 ≤ v ∧ v ≤ p.ep.cscale / (p.ep.diel2 * p.ep.cc1) ∧
          (⟨g, d.partner, .coulomb, d.value⟩ : Em ℝ) ∈ tagOut ab.1 ab.2 .coulomb
            (coulombRule (gget groups ab.1).q (gget groups ab.2).q (gget groups ab.1).model (gget groups ab.2).model v)) ∨
        (∃ it : Iter.Inter ℝ, (it.g1, it.g2) ∈ visited groups ∧ 0 ≤ it.coul ∧ it.coul ≤ p.ep.cscale / (p.ep.diel2 * p.ep.cc1) ∧
          ∃ gs old ann, (⟨g, d.partner, .coulomb, d.value⟩ : Iter.Det ℝ) ∈ (Iter.interStep p.minV gs old it ann).1)) ∧
      (∀ d ∈ o.sc,
        (∃ ab ∈ visited groups, ∃ v : ℝ, (⟨g, d.partner, .sidechain, d.value⟩ : Em ℝ) ∈ tagOut ab.1 ab.2 .sidechain
            (sidechainRule (gget groups ab.1).q (gget groups ab.2).q (gget groups ab.1).model (gget groups ab.2).model v)) ∨
        (∃ it : Iter.Inter ℝ, (it.g1, it.g2) ∈ visited groups ∧
          ∃ gs old ann, (⟨g, d.partner, .sidechain, d.value⟩ : Iter.Det ℝ) ∈ (Iter.interStep p.minV gs old it ann).1)) := by
  obtain ⟨o, ho, _, _, _, hbb, hcb, hsc⟩ := record_unfold p env atoms groups g hg
  refine ⟨o, ho, ?_, ?_, ?_⟩
  · intro d hd
    have h1 := hbb d hd
    unfold bbDets at h1
    split at h1
    · obtain ⟨b, _, hb⟩ := List.mem_filterMap.mp h1
      exact bbDet_form p env atoms groups g b d hb
    · exact absurd h1 (by simp)
  · intro d hd
    rcases hcb d hd with h1 | h2 | h3
    · exact Or.inl (score_ion_dets p h env groups _ g d h1)
    · right; left
      have hm := mem_emsOf _ _ _ _ h2
      obtain ⟨ab, hab, v, hv⟩ := pair_dets_from_rules p h env atoms groups _ _ hm
      rcases hv with ⟨_, h0, hb, hmem⟩ | ⟨hk, _⟩
      · exact ⟨ab, hab, v, h0, hb, hmem⟩
      · exact absurd hk (by simp)
    · right; right
      have hm := mem_emsOf _ _ _ _ h3
      obtain ⟨it, hit, old, ann, hd'⟩ := mem_iterEms p groups _ _ g d.partner .coulomb d.value hm
      obtain ⟨hv, h0, hb⟩ := inters_from_pairs p h env atoms groups _ it hit
      exact ⟨it, hv, h0, hb, _, old, ann, hd'⟩
  · intro d hd
    rcases hsc d hd with h2 | h3
    · left
      have hm := mem_emsOf _ _ _ _ h2
      obtain ⟨ab, hab, v, hv⟩ := pair_dets_from_rules p h env atoms groups _ _ hm
      rcases hv with ⟨hk, _⟩ | ⟨_, hmem⟩
      · exact absurd hk (by simp)
      · exact ⟨ab, hab, v, hmem⟩
    · right
      have hm := mem_emsOf _ _ _ _ h3
      obtain ⟨it, hit, old, ann, hd'⟩ := mem_iterEms p groups _ _ g d.partner .sidechain d.value hm
      obtain ⟨hv, _, _⟩ := inters_from_pairs p h env atoms groups _ it hit
      exact ⟨it, hv, _, old, ann, hd'⟩

end Propka.Scoring
