import Propka.Model.Program
import Propka.Model.Output
import Propka.Props.C01
import Propka.Props.C08
import Propka.Props.C07
import Propka.Props.C12
import Propka.Props.C13
/-! Theorems about the program as one function (`Program.run`: parser, `read_pdb`, top-up, set-up pipeline, scoring).
    The parser-level theorems of C07, C12, C13 are lifted to statements about *every number the program computes*:
    whatever reaches the scoring phase - atoms with the hydrogens built, groups, determinants, pKa values - is the
    same.  `Program.run` is tied to the real program on PDB texts by the correspondence of the checks that list this file. -/
namespace Propka.Program
open Propka Propka.Py Propka.Pdb

section
variable {α : Type} [Add α] [Sub α] [Mul α] [Div α] [Neg α] [OfNat α 0] [OfNat α 1] [OfNat α 2]
  [DecidableEq α] [LT α] [LE α] [DecidableLT α] [DecidableLE α] [Max α] [Min α] [NatCast α] [BEq α] [Inhabited α]
  [Trig α] [Bonds.CellIdx α]
variable (P : Pipe.PP α) (sp : Scoring.SP α) (dec : Int → Nat → α)

/-- the program reads its input through the parser only -/
theorem run_congr (po po' : Pdb.Opts) (o : Pipe.Opts) (lines lines' : List Str) (h : parse po lines = parse po' lines') :
    run P sp dec po o lines = run P sp dec po' o lines' := by
  unfold run; rw [h]

/-- **C13, whole program**: running with a chain selection gives, for every conformation, exactly the atoms, hydrogens, groups,
    determinants and pKa values obtained without the option from the file in which the ATOM/HETATM records of the other
    chains were deleted. -/
theorem program_chain_selection (po : Pdb.Opts) (o : Pipe.Opts) (S : List String) (hS : S ≠ []) (lines : List Str)
    (hlen : ∀ l ∈ lines, isAtomLine l = true → 21 < l.length) :
    run P sp dec { po with chains := S } o lines =
      run P sp dec { po with chains := [] } o (lines.filter (fun l => !otherChain S l)) :=
  run_congr P sp dec _ _ o _ _ (chains_eq_delete po S hS lines hlen)

/-- **C07, whole program**: water and the other ignorable residues, and every record that is not ATOM/HETATM/MODEL/TER,
    have no effect on anything the program computes. -/
theorem program_unused_records (po : Pdb.Opts) (o : Pipe.Opts) (lines : List Str) :
    run P sp dec po o lines = run P sp dec po o (lines.filter (fun l => !unused po l)) :=
  run_congr P sp dec _ _ o _ _ (unused_records_have_no_effect po lines)

/-- **C12, whole program**: a text without any atom record is rejected with `ValueError`. -/
theorem program_no_atoms (po : Pdb.Opts) (o : Pipe.Opts) (lines : List Str) (h : ∀ l ∈ lines, unused po l = true) :
    run P sp dec po o lines = .error .valueError := by
  unfold run; rw [no_atoms_no_conformations po lines h]; rfl

theorem core_eq_of_used (a b : AtomRec) (h : usedFields a = usedFields b) : core a = core b := by
  obtain ⟨c1, n1, r1, ch1, rn1, ic1, t1, e1, tm1, s1, x1, y1, z1, xd1, yd1, zd1, oc1, b1⟩ := a
  obtain ⟨c2, n2, r2, ch2, rn2, ic2, t2, e2, tm2, s2, x2, y2, z2, xd2, yd2, zd2, oc2, b2⟩ := b
  simp only [usedFields, Prod.mk.injEq] at h
  obtain ⟨h1, h2, h3, h4, h5, h6, h7, h8, h9, h10, h11, h12, h13, h14, h15⟩ := h
  subst h1 h2 h3 h4 h5 h6 h7 h8 h9 h10 h11 h12 h13 h14 h15
  rfl

theorem map_core_eq_of_used : ∀ (r1 r2 : List AtomRec), r1.map usedFields = r2.map usedFields → r1.map core = r2.map core
  | [], [], _ => rfl
  | [], _ :: _, h => by simp at h
  | _ :: _, [], h => by simp at h
  | a :: r1, b :: r2, h => by
    simp only [List.map_cons, List.cons.injEq] at h ⊢
    exact ⟨core_eq_of_used a b h.1, map_core_eq_of_used r1 r2 h.2⟩

/-- **C07 / C19, whole program**: two texts whose parsed records agree in the used fields (everything but the serial number,
    the occupancy and the B-factor - `columns_have_no_effect` says which columns those are) give the same results: atom serial
    numbers, occupancies and B-factors never influence predictions. -/
theorem program_reads_used_fields (po po' : Pdb.Opts) (o : Pipe.Opts) (l1 l2 : List Str) (r1 r2 : List AtomRec)
    (h1 : parse po l1 = .ok r1) (h2 : parse po' l2 = .ok r2) (h : r1.map usedFields = r2.map usedFields) :
    run P sp dec po o l1 = run P sp dec po' o l2 := by
  unfold run
  rw [h1, h2]
  have hc := map_core_eq_of_used r1 r2 h
  have he : r1.isEmpty = r2.isEmpty := by
    have := congrArg List.length h
    simp only [List.length_map] at this
    cases r1 <;> cases r2 <;> simp_all
  simp only [he, afterParse, hc]
end

/-! ### the average conformation (C08) -/
section
variable {α : Type} [Add α] [Div α] [NatCast α]

theorem foldl_iaddL_scalars (found : List (Dets.GRec α)) (a : Dets.Acc α) :
    (found.foldl iaddL a).pka = found.foldl (fun x g => x + g.pka) a.pka ∧
    (found.foldl iaddL a).evol = found.foldl (fun x g => x + g.evol) a.evol ∧
    (found.foldl iaddL a).eloc = found.foldl (fun x g => x + g.eloc) a.eloc := by
  induction found generalizing a with
  | nil => exact ⟨rfl, rfl, rfl⟩
  | cons g rest ih =>
    simp only [List.foldl]
    obtain ⟨h1, h2, h3⟩ := ih (iaddL a g)
    exact ⟨h1, h2, h3⟩

/-- **C08, on the program model**: the pKa, and both desolvation terms, which the average conformation reports for a group are the
    sum over the conformations in which `find_group` found it, taken in conformation order from zero, divided by their number -
    the arithmetic mean over the conformations that contain the group, whatever the scalar. -/
theorem averageL_is_mean (z : α) (found : List (Dets.GRec α)) :
    (averageL z found).pka = Dets.avgScalar z (found.map (·.pka)) ∧
    (averageL z found).evol = Dets.avgScalar z (found.map (·.evol)) ∧
    (averageL z found).eloc = Dets.avgScalar z (found.map (·.eloc)) := by
  obtain ⟨h1, h2, h3⟩ := foldl_iaddL_scalars found (⟨z, z, z, [], [], []⟩ : Dets.Acc α)
  simp [averageL, Dets.divAcc, Dets.avgScalar, List.foldl_map, List.length_map, h1, h2, h3]

/-- a group found in one conformation only is reported with that conformation's numbers divided by one -/
theorem averageL_single (z : α) (g : Dets.GRec α) :
    (averageL z [g]).pka = (z + g.pka) / ((1 : Nat) : α) := by
  simp [averageL, Dets.divAcc, iaddL]
end

/-! ### topping-up on the program model (C08) -/
/-- the copy loop of the program model (on whole atom records) is the copy loop of the C08 model on the keys of the records -/
theorem copyLoopR_keys (labels : List String) : ∀ (names : TopUp.Names) (l : List AtomRec),
    (copyLoopR labels names l).map keyOf = TopUp.copyLoop labels names (l.map keyOf)
  | _, [] => rfl
  | names, a :: rest => by
    unfold copyLoopR TopUp.copyLoop
    simp only [List.map_cons, keyOf]
    by_cases hl : labels.contains (residueLabel a) = true
    · rw [if_pos hl, if_pos hl]; exact copyLoopR_keys labels names rest
    · rw [if_neg hl, if_neg hl]
      cases hn : TopUp.lookupName names (a.chain, a.resNum, a.icode) with
      | some n =>
        simp only
        by_cases hne : n ≠ a.resName
        · rw [if_pos hne, if_pos hne]; exact copyLoopR_keys labels names rest
        · rw [if_neg hne, if_neg hne, List.map_cons]
          congr 1
          exact copyLoopR_keys labels names rest
      | none =>
        simp only [List.map_cons]
        congr 1
        exact copyLoopR_keys labels _ rest

/-- **C08 on the program model, never merging residue types**: whatever a conformation is completed with, two copied atoms of one
    residue position (chain, number, insertion code) carry one residue name, and it is the name the conformation's own atoms give that
    position when they give one. -/
theorem program_copy_no_merge (labels : List String) (names : TopUp.Names) (ref : List AtomRec) (a b : AtomRec)
    (ha : a ∈ copyLoopR labels names ref) (hb : b ∈ copyLoopR labels names ref)
    (h1 : b.chain = a.chain) (h2 : b.resNum = a.resNum) (h3 : b.icode = a.icode) :
    b.resName = a.resName ∧ ∀ n, TopUp.lookupName names (a.chain, a.resNum, a.icode) = some n → n = a.resName := by
  have hka : keyOf a ∈ TopUp.copyLoop labels names (ref.map keyOf) := by
    rw [← copyLoopR_keys]; exact List.mem_map.mpr ⟨a, ha, rfl⟩
  have hkb : keyOf b ∈ TopUp.copyLoop labels names (ref.map keyOf) := by
    rw [← copyLoopR_keys]; exact List.mem_map.mpr ⟨b, hb, rfl⟩
  have := TopUp.copy_no_merge labels names (ref.map keyOf) (keyOf a) hka
  exact ⟨this.2 (keyOf b) hkb h1 h2 h3, this.1⟩

/-- every conformation keeps its own atoms, in order, in front of the copies -/
theorem program_own_atoms_kept (recs : List AtomRec) (c : String × List AtomRec) (hc : c ∈ toppedUp recs) :
    ∃ own, (c.1, own) ∈ conformations recs ∧ own <+: c.2 := by
  unfold toppedUp toppedUp2 at hc
  simp only [List.mem_map, List.map_map] at hc
  obtain ⟨c0, h0, rfl⟩ := hc
  exact ⟨c0.2, h0, List.prefix_append _ _⟩

/-! ### the summary of the .pka file (C01, C02) -/
/-- **C01 / C02, on the output model**: the summary section of the .pka file has, for every reported group whose residue type is in
    `write_out_order`, exactly as many rows as the average conformation has such groups - one, when no two groups are equal - provided
    `write_out_order` lists no residue type twice (decided for the shipped file: `inst_order_ok`): the rows are the image of a list of
    positions in which the position of every such group occurs exactly once. -/
theorem summaryRows_map {γ δ : Type} (order : List String) (rt : δ → String) (f : γ → δ) (l : List γ) :
    Groups.summaryRows order rt (l.map f) = (Groups.summaryRows order (fun x => rt (f x)) l).map f := by
  unfold Groups.summaryRows
  induction order with
  | nil => rfl
  | cons r rest ih =>
    rw [List.flatMap_cons, List.flatMap_cons, List.map_append, ih, List.filter_map]
    rfl

theorem summary_rows_once (order : List String) (hn : order.Nodup) (gs : List (AvrGroup Float)) (dflt : AvrGroup Float) (i : Nat)
    (hi : i < gs.length) (hg : (gs.getD i dflt).resType ∈ order) :
    Groups.summaryRows order (fun (x : AvrGroup Float) => x.resType) ((List.range gs.length).map fun k => gs.getD k dflt) =
      (Groups.summaryRows order (fun k => (gs.getD k dflt).resType) (List.range gs.length)).map (fun k => gs.getD k dflt) ∧
    (Groups.summaryRows order (fun k => (gs.getD k dflt).resType) (List.range gs.length)).count i = 1 := by
  refine ⟨summaryRows_map order _ _ _, ?_⟩
  rw [Groups.summary_once order (fun k => (gs.getD k dflt).resType) (List.range gs.length) i hn hg]
  exact (List.nodup_range (n := gs.length)).count (a := i) |>.trans (if_pos (List.mem_range.mpr hi))

/-- the pKa printed for a group in the determinant table and in the summary is one and the same rendering (`fmt2`) of one and the
    same number, so the two agree to the printed precision -/
theorem summary_and_table_render_one_number (rp : Bool) (g : AvrGroup Float) (h : (g.ctg.isSome && rp) = false) :
    Output.summaryRow rp g = "   " ++ Pipe.padL 9 g.label ++ " " ++ Pipe.padL 8 (Output.fmt2 g.acc.pka) ++ " " ++ Pipe.padL 10 (Output.fmt2 g.model) ++ " " ++
      Pipe.padL 18 (if g.het then g.type else "") ++ "   " ++
      (match g.ctg with | some l => " NB: Discarded due to coupling with " ++ l | none => "") ++ "\n" := by
  unfold Output.summaryRow; rw [h]; rfl

/-! ### non-vacuity: the C13 demo file satisfies the hypotheses, and it parses -/
example : ∀ l ∈ Pdb.demo, isAtomLine l = true → 21 < l.length := by decide

end Propka.Program
