import Propka.Proofs.Hybrid36
/-! # C19 — hybrid-36 decoding: property theorems

`decode` is the model of `propka.hybrid36.decode`; `encode` is the reference encoder of the
hybrid-36 format.  Everything here is for all widths `w ≥ 1` and all values, by induction on
digit lists — not by enumeration. -/
namespace Propka.H36

/-- a field: the payload with any number of blanks on either side -/
def pad (k j : Nat) (s : Str) : Str := List.replicate k ' ' ++ s ++ List.replicate j ' '

theorem enc_nospace_upper (w m : Nat) : ∀ c ∈ enc upperDigit 36 w m, isSpace c = false := by
  intro c hc; simp only [enc, List.mem_map] at hc; obtain ⟨d, hd, rfl⟩ := hc
  exact (upper_ok d (digits_lt 36 (by decide) _ _ d hd)).2
theorem enc_nospace_lower (w m : Nat) : ∀ c ∈ enc lowerDigit 36 w m, isSpace c = false := by
  intro c hc; simp only [enc, List.mem_map] at hc; obtain ⟨d, hd, rfl⟩ := hc
  exact (lower_ok d (digits_lt 36 (by decide) _ _ d hd)).2

/-- an encoding contains no blank, so padding is removed exactly by `strip` -/
theorem encode_nospace (w : Nat) (n : Int) (s : Str) (h : encode w n = some s) :
    ∀ c ∈ s, isSpace c = false := by
  unfold encode at h
  split at h
  · split at h
    · cases h; intro c hc
      rcases List.mem_cons.mp hc with rfl | hc
      · decide
      · exact (decStr_all _ c hc).2.1
    · cases h
  · simp only at h
    split at h
    · cases h; intro c hc; exact (decStr_all _ c hc).2.1
    · split at h
      · cases h; exact enc_nospace_upper _ _
      · split at h
        · cases h; exact enc_nospace_lower _ _
        · cases h

theorem decode_pad (k j : Nat) (s : Str) (h : ∀ c ∈ s, isSpace c = false) : decode (pad k j s) = decode s := by
  unfold decode pad
  rw [strip_padded k j s h, strip_nospace s h]

/-- **Round trip.** Decoding the standard encoding of `n` in a field of width `w ≥ 1`, padded or
    not, returns `n` — for every width and every representable value. -/
theorem decode_encode (w : Nat) (hw : 1 ≤ w) (n : Int) (s : Str) (k j : Nat)
    (h : encode w n = some s) : decode (pad k j s) = .ok n := by
  rw [decode_pad k j s (encode_nospace w n s h)]
  obtain ⟨w', rfl⟩ : ∃ w', w = w' + 1 := ⟨w - 1, by omega⟩
  unfold encode at h
  split at h
  · rename_i hneg
    split at h
    · cases h
      rw [decode_neg_decStr]; congr 1; omega
    · cases h
  · rename_i hpos
    simp only [Nat.add_sub_cancel] at h
    split at h
    · cases h
      rw [decode_decStr]; congr 1; omega
    · rename_i h1
      generalize hP : 36 ^ w' = P at *
      generalize hT : 10 ^ (w'+1) = T at *
      have hPw : 36 ^ (w'+1) = 36 * P := by rw [Nat.pow_succ, hP]; omega
      split at h
      · rename_i h2
        cases h
        have := decode_upper w' (n.toNat - T + 10 * P) (by rw [hP]; omega) (by rw [hPw]; omega)
        rw [hP, hT] at this
        rw [this]; congr 1; omega
      · rename_i h2
        split at h
        · rename_i h3
          cases h
          have := decode_lower w' (n.toNat - T - 26 * P + 10 * P) (by rw [hP]; omega) (by rw [hPw]; omega)
          rw [hP, hT] at this
          rw [this]; congr 1; omega
        · cases h

/-- **Range.** A value is representable in width `w ≥ 1` exactly when
    `−10^(w−1) < n < 10^w + 52·36^(w−1)` (for `w = 5`: −9999 … 87 440 031). -/
theorem encode_isSome_iff (w : Nat) (hw : 1 ≤ w) (n : Int) :
    (encode w n).isSome ↔ (-(10 ^ (w-1) : Nat) : Int) < n ∧ n < (10 ^ w + 52 * 36 ^ (w-1) : Nat) := by
  have hQ : 0 < 10 ^ (w-1) := Nat.pow_pos (by decide)
  have hT : 10 ^ w = 10 * 10 ^ (w-1) := by
    obtain ⟨w', rfl⟩ : ∃ w', w = w' + 1 := ⟨w - 1, by omega⟩
    rw [Nat.pow_succ]; simp; omega
  have hD : n < 0 → (decLen n.natAbs + 1 ≤ w ↔ n.natAbs < 10 ^ (w-1)) := by
    intro hn
    by_cases hw1 : w = 1
    · subst hw1; have := decLen_pos n.natAbs
      simp only [Nat.sub_self, Nat.pow_zero]; omega
    · have := decLen_le_iff n.natAbs (w-1) (by omega); rw [← this]; omega
  unfold encode
  generalize 10 ^ (w-1) = Q at *
  generalize 36 ^ (w-1) = P at *
  generalize 10 ^ w = T at *
  split
  · rename_i hneg
    split
    · rename_i h; simp only [Option.isSome_some, true_iff]; have := (hD hneg).mp h; omega
    · rename_i h; simp only [Option.isSome_none, Bool.false_eq_true, false_iff]
      intro h1; apply h; apply (hD hneg).mpr; omega
  · simp only
    split
    · simp only [Option.isSome_some, true_iff]; omega
    · split
      · simp only [Option.isSome_some, true_iff]; omega
      · split
        · simp only [Option.isSome_some, true_iff]; omega
        · simp only [Option.isSome_none, Bool.false_eq_true, false_iff]; omega

theorem range_width5 : (-(10 ^ (5-1) : Nat) : Int) = -10000 ∧ ((10 ^ 5 + 52 * 36 ^ (5-1) : Nat) : Int) = 87440032 := by
  decide

/-- the encoding fits the field -/
theorem encode_length (w : Nat) (hw : 1 ≤ w) (n : Int) (s : Str) (h : encode w n = some s) : s.length ≤ w := by
  unfold encode at h
  split at h
  · split at h
    · cases h; simp [decStr, enc, digits_length]; omega
    · cases h
  · simp only at h
    split at h
    · rename_i h1
      cases h
      simp only [decStr, enc, digits_length, List.length_map]
      exact (decLen_le_iff _ w (by omega)).mpr h1
    · split at h
      · cases h; simp [enc, digits_length]
      · split at h
        · cases h; simp [enc, digits_length]
        · cases h

/-- **Strictly increasing.** On representable values of one width, decoding the encodings is
    strictly increasing in the encoded value (and hence injective). -/
theorem decode_strict_mono (w : Nat) (hw : 1 ≤ w) (n m : Int) (s t : Str) (a b : Int)
    (hs : encode w n = some s) (ht : encode w m = some t)
    (ha : decode s = .ok a) (hb : decode t = .ok b) : n < m ↔ a < b := by
  have h1 := decode_encode w hw n s 0 0 hs
  have h2 := decode_encode w hw m t 0 0 ht
  simp only [pad, List.replicate_zero, List.nil_append, List.append_nil] at h1 h2
  rw [h1] at ha; rw [h2] at hb
  cases ha; cases hb; rfl

/-! ### Rejection -/
theorem reject_empty : decode [] = .valueError := by decide
theorem reject_blank (k : Nat) : decode (List.replicate k ' ') = .valueError := by
  have := strip_padded k 0 [] (by simp)
  simp only [List.append_nil, List.replicate_zero] at this
  unfold decode; rw [this]; rfl
theorem reject_sign_only : decode ['-'] = .valueError := by decide

/-- a digit-led field containing any non-digit (letters, `_`, `+`, `.`, inner blank …) is rejected -/
theorem reject_digits (c : Char) (rest : Str) (sign : Int) (hc : isDigit c = true)
    (hbad : ∃ ch ∈ rest, isDigit ch = false) : decodeBody sign (c :: rest) = .valueError := by
  have : rest.all isDigit = false := by
    rw [List.all_eq_false]; obtain ⟨ch, hm, hb⟩ := hbad; exact ⟨ch, hm, by simp [hb]⟩
  simp [decodeBody, hc, this]

/-- an upper-case-led field containing a character outside A–Z/0–9 (e.g. mixed case) is rejected -/
theorem reject_upper (c : Char) (rest : Str) (sign : Int) (hc : isUpper c = true) (hd : isDigit c = false)
    (hbad : ∃ ch ∈ rest, (isUpper ch || isDigit ch) = false) :
    decodeBody sign (c :: rest) = .valueError := by
  have : rest.all (fun ch => isUpper ch || isDigit ch) = false := by
    rw [List.all_eq_false]; obtain ⟨ch, hm, hb⟩ := hbad; exact ⟨ch, hm, by simp [hb]⟩
  simp [decodeBody, hc, hd, this]

theorem reject_lower (c : Char) (rest : Str) (sign : Int) (hl : isLower c = true) (hu : isUpper c = false)
    (hd : isDigit c = false) (hbad : ∃ ch ∈ rest, (isLower ch || isDigit ch) = false) :
    decodeBody sign (c :: rest) = .valueError := by
  have : rest.all (fun ch => isLower ch || isDigit ch) = false := by
    rw [List.all_eq_false]; obtain ⟨ch, hm, hb⟩ := hbad; exact ⟨ch, hm, by simp [hb]⟩
  simp [decodeBody, hl, hu, hd, this]

/-- a field whose first character (after the optional sign) is neither digit nor letter is rejected -/
theorem reject_other (c : Char) (rest : Str) (sign : Int) (hl : isLower c = false) (hu : isUpper c = false)
    (hd : isDigit c = false) : decodeBody sign (c :: rest) = .valueError := by
  simp [decodeBody, hl, hu, hd]

/-- **Anything accepted is well-formed**: the converse of the rejection lemmas in one statement. -/
theorem accepted_wellformed (sign : Int) (s : Str) (n : Int) (h : decodeBody sign s = .ok n) :
    ∃ c rest, s = c :: rest ∧
      ((isDigit c = true ∧ rest.all isDigit = true) ∨
       (isUpper c = true ∧ rest.all (fun ch => isUpper ch || isDigit ch) = true) ∨
       (isLower c = true ∧ rest.all (fun ch => isLower ch || isDigit ch) = true)) := by
  cases s with
  | nil => simp [decodeBody] at h
  | cons c rest =>
    refine ⟨c, rest, rfl, ?_⟩
    simp only [decodeBody] at h
    split at h
    · rename_i hd; split at h
      · rename_i hr; exact Or.inl ⟨hd, hr⟩
      · cases h
    · split at h
      · rename_i hu; split at h
        · rename_i hr; exact Or.inr (Or.inl ⟨hu, hr⟩)
        · cases h
      · split at h
        · rename_i hl; split at h
          · rename_i hr; exact Or.inr (Or.inr ⟨hl, hr⟩)
          · cases h
        · cases h

/-! ### Non-vacuity and the unit-test vectors -/
example : encode 5 87440031 = some "zzzzz".toList ∧ encode 5 (-9999) = some "-9999".toList
    ∧ encode 5 100000 = some "A0000".toList ∧ encode 5 43770016 = some "a0000".toList
    ∧ encode 5 87440032 = none ∧ encode 5 (-10000) = none ∧ encode 1 0 = some ['0'] := by decide +kernel
example : decode "    5".toList = .ok 5 ∧ decode "ZZZZZ".toList = .ok 43770015
    ∧ decode " -0 ".toList = .ok 0 ∧ decode "A000a".toList = .valueError
    ∧ decode "1_2".toList = .valueError ∧ decode "40a".toList = .valueError := by decide

end Propka.H36
