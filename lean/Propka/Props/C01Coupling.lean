import Propka.Model.Coupling
import Mathlib.Algebra.Order.Field.Rat
import Mathlib.Tactic.NormNum
/-! # C01, continued - covalently coupled systems: one group of the system is left out of the printed tables

By design for the protonation sites of one ligand; but protein atoms all carry the empty SYBYL type, so the amino group of
an N-terminal Asp / His / Cys and that residue's own side chain (three bonds apart) also form such a system - finding D20. -/
namespace Propka.Coupling
/-- **Known finding D20, decided**: the amino group and the side chain of an N-terminal aspartate are within three bonds of
    each other and carry the same (empty) SYBYL type, so they form a "covalently coupled system"; the amino group has the
    higher pKa and is a base, the aspartate is penalised and missing from the summary. -/
theorem nterm_asp_dropped :
    summaryRows ([⟨"N+    7 I", 1, 756/100⟩, ⟨"ASP   7 I", -1, 321/100⟩] : List (CG ℚ)) = ["N+    7 I"] := by decide +kernel

theorem nterm_cys_dropped :
    summaryRows ([⟨"N+   42 E", 1, 794/100⟩, ⟨"CYS  42 E", -1, 903/100⟩] : List (CG ℚ)) = ["N+   42 E"] := by decide +kernel

/-- whatever the values, a system of two groups with different labels loses exactly one row -/
theorem pair_loses_one (a b : CG ℚ) (h : a.label ≠ b.label) : (summaryRows [a, b]).length = 1 := by
  unfold summaryRows penalised argmax
  simp only [List.foldl_cons, List.foldl_nil, Nat.cast_zero]
  by_cases hab : a.pka < b.pka
  · simp only [hab, if_true]
    by_cases hq : b.q < (0:ℚ)
    · simp [hq, List.filter, h, Ne.symm h]
    · simp [hq, List.filter, h, Ne.symm h]
  · simp only [hab, if_false]
    by_cases hq : a.q < (0:ℚ)
    · simp [hq, List.filter, h, Ne.symm h]
    · simp [hq, List.filter, h, Ne.symm h]
end Propka.Coupling
