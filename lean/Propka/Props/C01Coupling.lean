import Propka.Model.Coupling
import Propka.Model.Setup
import Propka.Gen.Cfg
import Mathlib.Tactic.SplitIfs
import Mathlib.Algebra.Order.Field.Rat
import Mathlib.Tactic.NormNum
/-! # C01, continued - covalently coupled systems: one group of the system is left out of the printed tables

By design for the protonation sites of one ligand; but protein atoms all carry the empty SYBYL type, so the amino group of
an N-terminal Asp / His / Cys and that residue's own side chain (three bonds apart) also form such a system - finding D20. -/
namespace Propka.Coupling
/-- **Known finding D20, decided**: the amino group and the side chain of an N-terminal aspartate are within three bonds of
    each other and carry the same (empty) SYBYL type, so they form a "covalently coupled system"; the amino group has the
    higher pKa and is a base, the aspartate is penalised and missing from the summary. -/
theorem nterm_asp_dropped :
    summaryRows ([⟨"N+    7 I", 1, 756/100⟩, ⟨"ASP   7 I", -1, 321/100⟩] : List (CG ℚ)) = ["N+    7 I"] := by decide +kernel

theorem nterm_cys_dropped :
    summaryRows ([⟨"N+   42 E", 1, 794/100⟩, ⟨"CYS  42 E", -1, 903/100⟩] : List (CG ℚ)) = ["N+   42 E"] := by decide +kernel

/-- whatever the values, a system of two groups with different labels loses exactly one row -/
theorem pair_loses_one (a b : CG ℚ) (h : a.label ≠ b.label) : (summaryRows [a, b]).length = 1 := by
  unfold summaryRows penalised argmax
  simp only [List.foldl_cons, List.foldl_nil, Nat.cast_zero]
  by_cases hab : a.pka < b.pka
  · simp only [hab, if_true]
    by_cases hq : b.q < (0:ℚ)
    · simp [hq, List.filter, h, Ne.symm h]
    · simp [hq, List.filter, h, Ne.symm h]
  · simp only [hab, if_false]
    by_cases hq : a.q < (0:ℚ)
    · simp [hq, List.filter, h, Ne.symm h]
    · simp [hq, List.filter, h, Ne.symm h]
end Propka.Coupling

/-! ## the covalent coupling search (`Model/Setup.lean`: `find_covalently_coupled_groups`, `couple_covalently`) -/
namespace Propka.Setup

theorem getD_set (cov : Array (List Nat)) (g : Nat) (l : List Nat) (i : Nat) (hg : g < cov.size) :
    (cov.setIfInBounds g l).getD i [] = if i = g then l else cov.getD i [] := by
  simp only [Array.getD_eq_getD_getElem?, Array.getElem?_setIfInBounds]
  by_cases h : g = i
  · subst h; simp [hg]
  · simp [h, Ne.symm h]

/-- one half of `couple_covalently`: `h` is appended to the list of `g` unless it is there -/
def addTo (cov : Array (List Nat)) (g h : Nat) : Array (List Nat) :=
  if (cov.getD g []).contains h then cov else cov.setIfInBounds g (cov.getD g [] ++ [h])

theorem couple_eq (cov : Array (List Nat)) (g h : Nat) : couple cov g h = addTo (addTo cov g h) h g := by
  unfold couple addTo; rfl

theorem addTo_size (cov : Array (List Nat)) (g h : Nat) : (addTo cov g h).size = cov.size := by
  unfold addTo
  by_cases hc : (cov.getD g []).contains h = true
  · rw [if_pos hc]
  · rw [if_neg hc]; simp

theorem mem_addTo (cov : Array (List Nat)) (g h : Nat) (hg : g < cov.size) (i j : Nat) :
    j ∈ (addTo cov g h).getD i [] ↔ j ∈ cov.getD i [] ∨ (i = g ∧ j = h) := by
  unfold addTo
  by_cases hc : (cov.getD g []).contains h = true
  · rw [if_pos hc]
    have : h ∈ cov.getD g [] := by simpa using hc
    constructor
    · exact Or.inl
    · rintro (x | ⟨rfl, rfl⟩)
      · exact x
      · exact this
  · rw [if_neg hc, getD_set _ _ _ _ hg]
    by_cases hi : i = g
    · subst hi; simp only [if_true, List.mem_append, List.mem_singleton, true_and]
    · simp only [hi, if_false, false_and, or_false]

/-- **`couple_covalently` adds exactly the two mutual entries** -/
theorem mem_couple (cov : Array (List Nat)) (g h : Nat) (hg : g < cov.size) (hh : h < cov.size) (i j : Nat) :
    j ∈ (couple cov g h).getD i [] ↔ j ∈ cov.getD i [] ∨ (i = g ∧ j = h) ∨ (i = h ∧ j = g) := by
  rw [couple_eq, mem_addTo _ _ _ (by rw [addTo_size]; exact hh), mem_addTo _ _ _ hg, or_assoc]

/-- coupling lists are symmetric -/
def Sym (cov : Array (List Nat)) : Prop := ∀ i j, j ∈ cov.getD i [] ↔ i ∈ cov.getD j []

theorem couple_sym (cov : Array (List Nat)) (g h : Nat) (hg : g < cov.size) (hh : h < cov.size) (hs : Sym cov) : Sym (couple cov g h) := by
  intro i j
  rw [mem_couple _ _ _ hg hh, mem_couple _ _ _ hg hh, hs i j]
  constructor <;> rintro (x | ⟨a, b⟩ | ⟨a, b⟩)
  · exact Or.inl x
  · exact Or.inr (Or.inr ⟨b, a⟩)
  · exact Or.inr (Or.inl ⟨b, a⟩)
  · exact Or.inl x
  · exact Or.inr (Or.inr ⟨b, a⟩)
  · exact Or.inr (Or.inl ⟨b, a⟩)

theorem couple_size (cov : Array (List Nat)) (g h : Nat) : (couple cov g h).size = cov.size := by
  rw [couple_eq, addTo_size, addTo_size]

/-- **The covalent coupling lists are symmetric**: `h` is in the list of `g` exactly when `g` is in the list of `h`, whatever
    the bonds, the SYBYL types and the titratable flags are (provided every group the bond search returns is one of the `n` groups). -/
theorem covalentCoupling_sym (atoms : Scoring.Tab Scoring.AtomT) (n : Nat) (gatom : Nat → Nat) (grpOf : Nat → Option Nat) (titr : Nat → Bool)
    (sybyl : Nat → String) (maxB : Nat) (hin : ∀ a g, grpOf a = some g → g < n) :
    Sym (covalentCoupling atoms n gatom grpOf titr sybyl maxB) := by
  unfold covalentCoupling
  -- invariant of the two nested folds: size n and symmetric
  have inner : ∀ (g : Nat), g < n → ∀ (l : List Nat), (∀ h ∈ l, h < n) → ∀ cov : Array (List Nat), cov.size = n → Sym cov →
      (let r := l.foldl (fun cov h => if (cov.getD g []).contains h then cov else if sybyl (gatom h) == sybyl (gatom g) then couple cov g h else cov) cov
       r.size = n ∧ Sym r) := by
    intro g hg l
    induction l with
    | nil => intro _ cov hsz hs; exact ⟨hsz, hs⟩
    | cons h l ih =>
      intro hl cov hsz hs
      simp only [List.foldl_cons]
      by_cases hc : (cov.getD g []).contains h = true
      · rw [if_pos hc]; exact ih (fun x hx => hl x (List.mem_cons_of_mem _ hx)) cov hsz hs
      · rw [if_neg hc]
        by_cases hsy : (sybyl (gatom h) == sybyl (gatom g)) = true
        · rw [if_pos hsy]
          exact ih (fun x hx => hl x (List.mem_cons_of_mem _ hx)) _ (by rw [couple_size]; exact hsz)
            (couple_sym cov g h (by rw [hsz]; exact hg) (by rw [hsz]; exact hl h (by simp)) hs)
        · rw [if_neg hsy]; exact ih (fun x hx => hl x (List.mem_cons_of_mem _ hx)) cov hsz hs
  -- the groups the bond search returns are groups of the table
  have hbt : ∀ (orig fuel a nb : Nat), ∀ x ∈ bondedTitr atoms grpOf titr maxB orig fuel a nb, x < n := by
    intro orig fuel
    induction fuel with
    | zero => intro a nb x hx; simp [bondedTitr] at hx
    | succ f ih =>
      intro a nb x hx
      unfold bondedTitr at hx
      -- invariant of the fold over the bonded atoms
      have key : ∀ (l : List Nat) (res : List Nat), (∀ y ∈ res, y < n) →
          ∀ y ∈ l.foldl (fun res b =>
            if b == orig then res else
            let res1 := match grpOf b with
              | some g => if titr g && decide (nb ≤ maxB) then ounion res [g] else res
              | none => res
            if nb < maxB then ounion res1 (bondedTitr atoms grpOf titr maxB orig f b (nb + 1)) else res1) res, y < n := by
        intro l
        induction l with
        | nil => intro res hres y hy; exact hres y hy
        | cons b l ihl =>
          intro res hres y hy
          simp only [List.foldl_cons] at hy
          refine ihl _ ?_ y hy
          have hou : ∀ (p q : List Nat), (∀ y ∈ p, y < n) → (∀ y ∈ q, y < n) → ∀ y ∈ ounion p q, y < n := by
            intro p q hp hq
            unfold ounion
            induction q generalizing p with
            | nil => exact hp
            | cons z q ihq =>
              simp only [List.foldl_cons]
              apply ihq
              · intro y hy
                split at hy
                · exact hp y hy
                · rcases List.mem_append.mp hy with e | e
                  · exact hp y e
                  · rw [List.mem_singleton.mp e]; exact hq z (by simp)
              · exact fun y hy => hq y (List.mem_cons_of_mem _ hy)
          by_cases hbo : (b == orig) = true
          · rw [if_pos hbo]; exact hres
          · rw [if_neg hbo]
            have h1 : ∀ y ∈ (match grpOf b with
                | some g => if titr g && decide (nb ≤ maxB) then ounion res [g] else res
                | none => res), y < n := by
              cases hgb : grpOf b with
              | none => exact hres
              | some g =>
                simp only
                split
                · exact hou _ _ hres (fun y hy => by rw [List.mem_singleton.mp hy]; exact hin b g hgb)
                · exact hres
            by_cases hnb : nb < maxB
            · rw [if_pos hnb]; exact hou _ _ h1 (ih b (nb + 1))
            · rw [if_neg hnb]; exact h1
      exact key _ [] (by simp) x hx
  have outer : ∀ (l : List Nat), (∀ g ∈ l, g < n) → ∀ cov : Array (List Nat), cov.size = n → Sym cov →
      Sym (l.foldl (fun cov g =>
        (bondedTitr atoms grpOf titr maxB (gatom g) (maxB + 1) (gatom g) 1).foldl (fun cov h =>
          if (cov.getD g []).contains h then cov
          else if sybyl (gatom h) == sybyl (gatom g) then couple cov g h else cov) cov) cov) := by
    intro l
    induction l with
    | nil => intro _ cov _ hs; exact hs
    | cons g l ih =>
      intro hl cov hsz hs
      simp only [List.foldl_cons]
      obtain ⟨h1, h2⟩ := inner g (hl g (by simp)) _ (hbt _ _ _ _) cov hsz hs
      exact ih (fun x hx => hl x (List.mem_cons_of_mem _ hx)) _ h1 h2
  apply outer
  · intro g hg; exact List.mem_range.mp (List.mem_filter.mp hg).1
  · simp
  · intro i j
    have e : ∀ k, (Array.replicate n ([] : List Nat)).getD k [] = [] := by
      intro k
      simp only [Array.getD_eq_getD_getElem?, Array.getElem?_replicate]
      split <;> rfl
    rw [e, e]; simp

end Propka.Setup

/-! ## ligand groups (`Model/Setup.lean`: `is_ligand_group_by_groups`) -/
namespace Propka.Setup
open Propka.Scoring

/-- **Every group class the ligand classifier can name is a class the set-up model knows and a class of `propka.group`**
    (the regenerated list of creatable classes), and has a residue type of its own there. -/
theorem ligand_classes_known :
    ∀ name ∈ ligandClassNames, (clsOf name).isSome = true ∧
      (Propka.Gen.Cfg.creatable.any fun c => c.1 == name && c.2.2 != "") = true := by decide +kernel

theorem mem_of_some (c x : String) (hx : x ∈ ligandClassNames) (h : some x = some c) : c ∈ ligandClassNames := by
  injection h with e; subst e; exact hx

/-- whatever the atoms, bonds and SYBYL types: the classifier names one of those classes or none -/
theorem ligandClass_mem (atoms : Tab AtomT) (sy : Nat → String) (a : Nat) (c : String) (h : ligandClass atoms sy a = some c) :
    c ∈ ligandClassNames := by
  have M := mem_of_some c
  unfold ligandClass at h
  cases hk : syKind (sy a) <;> rw [hk] at h <;> simp only at h
  · unfold clsNar at h; split_ifs at h; exact M _ (by simp [ligandClassNames]) h
  · exact M _ (by simp [ligandClassNames]) h
  · unfold clsN3 at h; split_ifs at h <;> exact M _ (by simp [ligandClassNames]) h
  · exact M _ (by simp [ligandClassNames]) h
  · unfold clsNpl3 at h; split at h
    · split_ifs at h; exact M _ (by simp [ligandClassNames]) h
    · exact absurd h (by simp)
  · unfold clsC2 at h; simp only at h; split_ifs at h <;> exact M _ (by simp [ligandClassNames]) h
  · exact M _ (by simp [ligandClassNames]) h
  · exact M _ (by simp [ligandClassNames]) h
  · unfold clsO3 at h; split_ifs at h <;> exact M _ (by simp [ligandClassNames]) h
  · exact M _ (by simp [ligandClassNames]) h
  · unfold clsS3 at h; split_ifs at h; exact M _ (by simp [ligandClassNames]) h
  · exact absurd h (by simp)

end Propka.Setup
