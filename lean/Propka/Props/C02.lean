import Propka.Props.C15
import Propka.Proofs.Scoring
import Propka.Proofs.Rotation
/-! # C02 — reported pKa = model pKa + the contributions listed for it; the file renders the same numbers -/
namespace Propka.Dets

/-- the identity of the property for one group record (disulfide-bridged cysteines, fixed at 99.99, excepted) -/
def Consistent (fixed : ℚ) (g : GRec ℚ) : Prop :=
  if g.bridged then g.pka = fixed else g.pka = g.model + g.evol + g.eloc + vsum g.sc + vsum g.bb + vsum g.cb

/-- **`calculate_total_pka` establishes the identity**, whatever the determinant lists hold. -/
theorem total_consistent (fixed : ℚ) (g : GRec ℚ) : Consistent fixed (calculateTotal fixed g) := by
  obtain ⟨_, a2, a3, a4, a5, a6, a7, a8, _⟩ := total_fields fixed g
  unfold Consistent
  rw [a8, total_pka, a2, a3, a4, a5, a6, a7]
  split <;> simp_all

/-- any mutation of the determinant lists (adding, removing penalised partners, sharing, setting)
    that is followed by the recalculation leaves the group consistent -/
theorem mutate_then_total (fixed : ℚ) (f : GRec ℚ → GRec ℚ) (g : GRec ℚ) : Consistent fixed (calculateTotal fixed (f g)) :=
  total_consistent fixed (f g)

theorem remove_then_total (fixed : ℚ) (labels : List String) (g : GRec ℚ) :
    Consistent fixed (calculateTotal fixed (removeDeterminants labels g)) := total_consistent fixed _

/-- **Swapping interactions keeps both groups consistent** (each swap ends with both recalculations). -/
theorem swap_consistent (fixed : ℚ) (g1 g2 : GRec ℚ) :
    Consistent fixed (swap fixed g1 g2).1 ∧ Consistent fixed (swap fixed g1 g2).2 := by
  rw [swap_fst, swap_snd]; exact ⟨total_consistent _ _, total_consistent _ _⟩

/-! ## the conformation average -/
theorem acc_invariant (m : ℚ) (gs : List (GRec ℚ)) (fixed : ℚ)
    (hc : ∀ g ∈ gs, Consistent fixed g ∧ g.model = m ∧ g.bridged = false) (a : Acc ℚ) (k : ℕ)
    (ha : a.pka = k * m + a.evol + a.eloc + vsum a.sc + vsum a.bb + vsum a.cb) :
    (gs.foldl iadd a).pka = ((k + gs.length : ℕ) : ℚ) * m + (gs.foldl iadd a).evol + (gs.foldl iadd a).eloc
      + vsum (gs.foldl iadd a).sc + vsum (gs.foldl iadd a).bb + vsum (gs.foldl iadd a).cb := by
  induction gs generalizing a k with
  | nil => simpa using ha
  | cons g gs ih =>
    obtain ⟨hg, hm, hb⟩ := hc g (by simp)
    have ha' : (iadd a g).pka = ((k + 1 : ℕ) : ℚ) * m + (iadd a g).evol + (iadd a g).eloc + vsum (iadd a g).sc
        + vsum (iadd a g).bb + vsum (iadd a g).cb := by
      simp only [iadd, vsum_foldl_addDet]
      unfold Consistent at hg
      simp only [hb, Bool.false_eq_true, if_false] at hg
      rw [ha, hg, hm]; push_cast; ring
    have := ih (fun g' hg' => hc g' (List.mem_cons_of_mem _ hg')) (iadd a g) (k + 1) ha'
    simp only [List.foldl_cons, List.length_cons]
    have e : k + 1 + gs.length = k + (gs.length + 1) := by omega
    rw [e] at this
    exact this

/-- **The average is consistent**: averaging the records of the conformations in which a group exists
    (each consistent, same model pKa) gives `pKa = model + desolvation terms + Σ determinants` again. -/
theorem average_consistent (fixed m : ℚ) (found : List (GRec ℚ)) (hne : found ≠ [])
    (hc : ∀ g ∈ found, Consistent fixed g ∧ g.model = m ∧ g.bridged = false) :
    (average 0 found).pka = m + (average 0 found).evol + (average 0 found).eloc
      + vsum (average 0 found).sc + vsum (average 0 found).bb + vsum (average 0 found).cb := by
  have h := acc_invariant m found fixed hc ⟨0, 0, 0, [], [], []⟩ 0 (by simp [vsum])
  have hn : ((found.length : ℕ) : ℚ) ≠ 0 := by
    have : 0 < found.length := List.length_pos_of_ne_nil hne
    exact_mod_cast this.ne'
  unfold average divAcc
  simp only [vsum_scale]
  rw [h]; simp only [Nat.zero_add]
  field_simp

/-- dividing by more conformations than the group was found in (what the unrepaired averaging did)
    breaks the identity: one record with pKa 4 = model 4, divided by 2 -/
example : let a := divAcc ([⟨"X", 4, 0, 0, [], [], [], 4, false, []⟩].foldl iadd (⟨0, 0, 0, [], [], []⟩ : Acc ℚ)) 2
    a.pka ≠ 4 + a.evol + a.eloc + vsum a.sc + vsum a.bb + vsum a.cb := by
  simp [divAcc, iadd, vsum, scaleDets]; norm_num

/-! ## the determinant rows -/
theorem getElem?_range_filterMap {β : Type} (l : List β) (n : Nat) (h : l.length ≤ n) :
    (List.range n).filterMap (fun i => l[i]?) = l := by
  induction n generalizing l with
  | zero => simp at h; simp [h]
  | succ n ih =>
    rw [List.range_succ, List.filterMap_append]
    by_cases hl : l.length ≤ n
    · rw [ih l hl]; simp [List.getElem?_eq_none hl]
    · have hlen : l.length = n + 1 := by omega
      have hne : l ≠ [] := by intro e; subst e; simp at hlen
      have : l = l.dropLast ++ [l.getLast hne] := (List.dropLast_append_getLast hne).symm
      have hd : l.dropLast.length ≤ n := by simp [hlen]
      have e1 : (List.range n).filterMap (fun i => l[i]?) = l.dropLast := by
        rw [← ih l.dropLast hd]
        apply List.filterMap_congr
        intro i hi
        have hi' : i < n := List.mem_range.mp hi
        rw [List.getElem?_dropLast]; simp [hlen, hi']
      rw [e1]
      have e2 : l[n]? = some (l.getLast hne) := by
        rw [List.getLast_eq_getElem]; simp [hlen]
      simp [e2]; exact this.symm

/-- **The printed determinant rows are exactly the group's determinants**: over the
    `max(1, #sidechain, #backbone, #coulomb)` lines of a group's block every determinant of each
    kind appears exactly once, in order, and the other slots hold the filler. -/
theorem rows_exact {β : Type} (sc bb cb : List β) :
    (rowsOf sc bb cb).filterMap (·.1) = sc ∧ (rowsOf sc bb cb).filterMap (·.2.1) = bb ∧
    (rowsOf sc bb cb).filterMap (·.2.2) = cb ∧ (rowsOf sc bb cb).length = max 1 (max sc.length (max bb.length cb.length)) := by
  unfold rowsOf
  simp only [List.filterMap_map, List.length_map, List.length_range, and_true]
  refine ⟨?_, ?_, ?_⟩
  · exact getElem?_range_filterMap sc _ (by omega)
  · exact getElem?_range_filterMap bb _ (by omega)
  · exact getElem?_range_filterMap cb _ (by omega)

end Propka.Dets

/-! ## the whole of `calculate_pka` (the scoring model, `Model/Scoring.lean`)

`score` is the composition of every phase of `ConformationContainer.calculate_pka` - desolvation, backbone and ion
determinants, backbone reorganisation, the pair loop with the non-iterative rules and the iterative scheme, the first
totals, the coupling penalties, the removal of determinants towards penalised groups and the second totals.  Whatever the
structure, the parameters and the switches, the pKa it leaves on a group is `calculate_total_pka` of exactly the
desolvation terms and determinant lists it leaves on that group. -/
namespace Propka.Scoring
open Propka.Energy

set_option linter.unusedSectionVars false in
/-- **Pipeline consistency, for every scalar type (in particular for the `Float` instance that is compared with the code bit
    for bit).** -/
theorem pipeline_consistent {α : Type} [Add α] [Sub α] [Mul α] [Div α] [Neg α] [NatCast α] [LT α] [LE α]
    [DecidableLT α] [DecidableLE α] [Max α] [Min α] [BEq α] [Inhabited α] [Trig α]
    (p : SP α) (env : Env α) (atoms : Tab AtomT) (groups : Tab (GroupT α)) (g : Nat) (hg : g < groups.n) :
    ∃ o, (score p env atoms groups)[g]? = some o ∧
      o.pka = totalPka p (gget groups g) o.evol o.eloc o.sc o.bb o.cb :=
  ⟨_, score_get p env atoms groups g hg, finish_total _ _ _ _ _ _⟩

theorem dsum_eq (z : ℝ) (ds : List (Det ℝ)) : dsum z ds = z + (ds.map (·.value)).sum := by
  unfold dsum
  induction ds generalizing z with
  | nil => simp
  | cons d ds ih => simp only [List.foldl_cons, List.map_cons, List.sum_cons]; rw [ih]; ring

/-- **Over the reals: reported pKa = model pKa + the two desolvation terms + the sum of all listed determinants**
    (a disulfide-bridged cysteine is fixed at the configured value instead). -/
theorem pipeline_sum_identity (p : SP ℝ) (env : Env ℝ) (atoms : Tab AtomT) (groups : Tab (GroupT ℝ)) (g : Nat) (hg : g < groups.n) :
    ∃ o, (score p env atoms groups)[g]? = some o ∧
      (if (gget groups g).bridged then o.pka = p.fixed
       else o.pka = (gget groups g).model + o.evol + o.eloc + (o.sc.map (·.value)).sum + (o.bb.map (·.value)).sum + (o.cb.map (·.value)).sum) := by
  obtain ⟨o, ho, hp⟩ := pipeline_consistent p env atoms groups g hg
  refine ⟨o, ho, ?_⟩
  rw [hp]; unfold totalPka
  split
  · rfl
  · rw [dsum_eq, dsum_eq, dsum_eq]

/-- not vacuous: a two-group table gives two records -/
example (p : SP ℝ) (env : Env ℝ) (atoms : Tab AtomT) (f : Nat → GroupT ℝ) : (score p env atoms ⟨2, f⟩).length = 2 := score_length _ _ _ _

end Propka.Scoring
