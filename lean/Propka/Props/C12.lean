import Propka.Props.C07
import Propka.Props.C14
/-! # C12 — incomplete structures degrade gracefully (the parts that are decision logic)

Parser: whether a line can be converted does not depend on what came before it, so deleting any
records from a file that parses leaves a file that parses.  Census: a group is a function of its own
defining atom, so removing other atoms never removes it. -/
namespace Propka.Pdb
open Propka.Py

def isOk {ε α : Type} : Except ε α → Bool
  | .ok _ => true
  | .error _ => false

theorem mkCoreS_ok_indep (s0 sname sel sres sch snum sic sx sy sz : Str) (c c' t t' : String) (n n' : Int) (o b o' b' : String) :
    isOk (mkCoreS s0 sname sel sres sch snum sic sx sy sz c t n o b) = isOk (mkCoreS s0 sname sel sres sch snum sic sx sy sz c' t' n' o' b') := by
  unfold mkCoreS
  cases parseDecimal sx <;> cases parseDecimal sy <;> cases parseDecimal sz <;> cases parseInt snum <;>
    simp only [bind, Except.bind, pure, Except.pure, throw, throwThe, MonadExceptOf.throw, isOk]
  by_cases h4 : ((strip sname).length == 4) = true
  · simp only [h4, if_true]
    cases stripDigits (strip sel) <;> simp [isOk, throw, throwThe, MonadExceptOf.throw]
  · simp only [h4]; rfl

theorem mkAtom_ok_indep (l : Str) (c c' t t' : String) : isOk (mkAtom l c t) = isOk (mkAtom l c' t') := by
  unfold mkAtom
  cases H36.decode (slice l 6 11) with
  | valueError => rfl
  | ok n => exact mkCoreS_ok_indep _ _ _ _ _ _ _ _ _ _ c c' t t' n n _ _ _ _

/-- whether a line is accepted does not depend on the parser state -/
theorem stepLine_ok_indep (o : Opts) (s s' : PState) (l : Str) : isOk (stepLine o s l) = isOk (stepLine o s' l) := by
  unfold stepLine
  cases lineCheck o l with
  | error e => rfl
  | ok u =>
    simp only
    by_cases ha : (atomKind (classify o l) && !(classify o l).skip) = true
    · simp only [ha, if_true]
      have := mkAtom_ok_indep l
        (confName (if ((classify o l).kind == Kind.model) = true then (parseInt (List.drop 6 l)).getD s.model else s.model) l)
        (confName (if ((classify o l).kind == Kind.model) = true then (parseInt (List.drop 6 l)).getD s'.model else s'.model) l)
        (terminalOf (classify o l) (step s.st (classify o l)).2) (terminalOf (classify o l) (step s'.st (classify o l)).2)
      revert this
      cases mkAtom l (confName (if ((classify o l).kind == Kind.model) = true then (parseInt (List.drop 6 l)).getD s.model else s.model) l)
          (terminalOf (classify o l) (step s.st (classify o l)).2) <;>
        cases mkAtom l (confName (if ((classify o l).kind == Kind.model) = true then (parseInt (List.drop 6 l)).getD s'.model else s'.model) l)
          (terminalOf (classify o l) (step s'.st (classify o l)).2) <;> simp [isOk]
    · simp only [ha, Bool.false_eq_true, if_false]; rfl

theorem parseFrom_ok_cons (o : Opts) (s : PState) (l : Str) (ls : List Str) (h : isOk (parseFrom o s (l :: ls)) = true) :
    isOk (stepLine o s l) = true ∧ ∃ s', isOk (parseFrom o s' ls) = true := by
  simp only [parseFrom, bind, Except.bind] at h
  cases hs : stepLine o s l with
  | error e => rw [hs] at h; simp [isOk] at h
  | ok v =>
    rw [hs] at h
    refine ⟨rfl, v.1, ?_⟩
    cases hp : parseFrom o v.1 ls with
    | error e => simp [hp, isOk] at h
    | ok r => rfl

/-- acceptance of a whole file does not depend on the state either -/
theorem parseFrom_ok_indep (o : Opts) (ls : List Str) : ∀ s s', isOk (parseFrom o s ls) = isOk (parseFrom o s' ls) := by
  induction ls with
  | nil => intro s s'; rfl
  | cons l ls ih =>
    intro s s'
    have h := stepLine_ok_indep o s s' l
    simp only [parseFrom, bind, Except.bind]
    cases h1 : stepLine o s l <;> cases h2 : stepLine o s' l <;> simp only [h1, h2, isOk] at h ⊢
    · cases h
    · cases h
    · rename_i v v'
      have := ih v.1 v'.1
      cases hp : parseFrom o v.1 ls <;> cases hp' : parseFrom o v'.1 ls <;> simp_all [isOk, pure, Except.pure]

/-- **Removing records never makes the parser fail**: if a file is accepted, every file obtained by
    deleting any of its lines (single atoms, side chains, backbone atoms, whole residues, termini,
    TER/MODEL records) is accepted too. -/
theorem parse_ok_of_deletion (o : Opts) (lines kept : List Str) (hsub : kept.Sublist lines)
    (hok : isOk (parse o lines) = true) : isOk (parse o kept) = true := by
  unfold parse at *
  generalize PState.init = s at *
  induction hsub generalizing s with
  | slnil => exact hok
  | cons l _ ih =>
    obtain ⟨_, s', h'⟩ := parseFrom_ok_cons o s l _ hok
    rw [parseFrom_ok_indep o _ s s']; exact ih s' h'
  | cons_cons l hsub ih =>
    obtain ⟨h1, s', h'⟩ := parseFrom_ok_cons o s l _ hok
    simp only [parseFrom, bind, Except.bind]
    cases hs : stepLine o s l with
    | error e => rw [hs] at h1; simp [isOk] at h1
    | ok v =>
      simp only
      have := ih v.1 (by rw [parseFrom_ok_indep o _ v.1 s']; exact h')
      cases hp : parseFrom o v.1 _ with
      | error e => rw [hp] at this; simp [isOk] at this
      | ok r => simp [isOk, pure, Except.pure]

/-- a file without atom records yields no conformation (the caller raises ValueError) -/
theorem no_atoms_no_conformations (o : Opts) (lines : List Str) (h : ∀ l ∈ lines, unused o l = true) : parse o lines = .ok [] := by
  rw [unused_records_have_no_effect]
  have : lines.filter (fun l => !unused o l) = [] := by
    rw [List.filter_eq_nil_iff]; intro l hl; simp [h l hl]
  rw [this]; rfl

end Propka.Pdb

namespace Propka.Groups

theorem mkGroup_atom (T : Tables) (to : Option (List (String × Int × String))) (a : AtomInfo) (g : GroupRec)
    (h : mkGroup T to a = some g) : g.atom = a := by
  unfold mkGroup at h
  cases hc : classOf T a with
  | none => simp [hc] at h
  | some c => simp only [hc] at h; cases h; rfl

/-- **Removing atoms never removes the group of an atom that remains**: the groups of a reduced atom
    list are exactly the groups of the full list whose defining atom was kept (as long as the kept
    atoms keep their own terminal tag, bonded-oxygen count and disulfide flag). -/
theorem census_monotone (T : Tables) (to : Option (List (String × Int × String))) (atoms : List AtomInfo) (p : AtomInfo → Bool) :
    extractGroups T to (atoms.filter p) = (extractGroups T to atoms).filter (fun g => p g.atom) := by
  unfold extractGroups
  induction atoms with
  | nil => rfl
  | cons a as ih =>
    simp only [List.filter_cons, List.filterMap_cons]
    by_cases hp : p a = true
    · simp only [hp, if_true, List.filterMap_cons]
      cases hg : mkGroup T to a with
      | none => simp [ih]
      | some g =>
        have := mkGroup_atom T to a g hg
        simp [List.filter_cons, this, hp, ih]
    · simp only [hp, Bool.false_eq_true, if_false]
      cases hg : mkGroup T to a with
      | none => simp [ih]
      | some g =>
        have := mkGroup_atom T to a g hg
        simp [List.filter_cons, this, hp, ih]

end Propka.Groups
