import Propka.Props.C07
import Propka.Props.C14
import Propka.Model.Setup
import Propka.Proofs.Scoring
/-! # C12 — incomplete structures degrade gracefully (the parts that are decision logic)

Parser: whether a line can be converted does not depend on what came before it, so deleting any
records from a file that parses leaves a file that parses.  Census: a group is a function of its own
defining atom, so removing other atoms never removes it. -/
namespace Propka.Pdb
open Propka.Py

def isOk {ε α : Type} : Except ε α → Bool
  | .ok _ => true
  | .error _ => false

theorem mkCoreS_ok_indep (s0 sname sel sres sch snum sic sx sy sz : Str) (c c' t t' : String) (n n' : Int) (o b o' b' : String) :
    isOk (mkCoreS s0 sname sel sres sch snum sic sx sy sz c t n o b) = isOk (mkCoreS s0 sname sel sres sch snum sic sx sy sz c' t' n' o' b') := by
  unfold mkCoreS
  cases parseDecimal sx <;> cases parseDecimal sy <;> cases parseDecimal sz <;> cases parseInt snum <;>
    simp only [bind, Except.bind, pure, Except.pure, throw, throwThe, MonadExceptOf.throw, isOk]
  by_cases h4 : ((strip sname).length == 4) = true
  · simp only [h4, if_true]
    cases stripDigits (strip sel) <;> simp [isOk, throw, throwThe, MonadExceptOf.throw]
  · simp only [h4]; rfl

theorem mkAtom_ok_indep (l : Str) (c c' t t' : String) : isOk (mkAtom l c t) = isOk (mkAtom l c' t') := by
  unfold mkAtom
  cases H36.decode (slice l 6 11) with
  | valueError => rfl
  | ok n => exact mkCoreS_ok_indep _ _ _ _ _ _ _ _ _ _ c c' t t' n n _ _ _ _

/-- whether a line is accepted does not depend on the parser state -/
theorem stepLine_ok_indep (o : Opts) (s s' : PState) (l : Str) : isOk (stepLine o s l) = isOk (stepLine o s' l) := by
  unfold stepLine
  cases lineCheck o l with
  | error e => rfl
  | ok u =>
    simp only
    by_cases ha : (atomKind (classify o l) && !(classify o l).skip) = true
    · simp only [ha, if_true]
      have := mkAtom_ok_indep l
        (confName (if ((classify o l).kind == Kind.model) = true then (parseInt (List.drop 6 l)).getD s.model else s.model) l)
        (confName (if ((classify o l).kind == Kind.model) = true then (parseInt (List.drop 6 l)).getD s'.model else s'.model) l)
        (terminalOf (classify o l) (step s.st (classify o l)).2) (terminalOf (classify o l) (step s'.st (classify o l)).2)
      revert this
      cases mkAtom l (confName (if ((classify o l).kind == Kind.model) = true then (parseInt (List.drop 6 l)).getD s.model else s.model) l)
          (terminalOf (classify o l) (step s.st (classify o l)).2) <;>
        cases mkAtom l (confName (if ((classify o l).kind == Kind.model) = true then (parseInt (List.drop 6 l)).getD s'.model else s'.model) l)
          (terminalOf (classify o l) (step s'.st (classify o l)).2) <;> simp [isOk]
    · simp only [ha, Bool.false_eq_true, if_false]; rfl

theorem parseFrom_ok_cons (o : Opts) (s : PState) (l : Str) (ls : List Str) (h : isOk (parseFrom o s (l :: ls)) = true) :
    isOk (stepLine o s l) = true ∧ ∃ s', isOk (parseFrom o s' ls) = true := by
  simp only [parseFrom, bind, Except.bind] at h
  cases hs : stepLine o s l with
  | error e => rw [hs] at h; simp [isOk] at h
  | ok v =>
    rw [hs] at h
    refine ⟨rfl, v.1, ?_⟩
    cases hp : parseFrom o v.1 ls with
    | error e => simp [hp, isOk] at h
    | ok r => rfl

/-- acceptance of a whole file does not depend on the state either -/
theorem parseFrom_ok_indep (o : Opts) (ls : List Str) : ∀ s s', isOk (parseFrom o s ls) = isOk (parseFrom o s' ls) := by
  induction ls with
  | nil => intro s s'; rfl
  | cons l ls ih =>
    intro s s'
    have h := stepLine_ok_indep o s s' l
    simp only [parseFrom, bind, Except.bind]
    cases h1 : stepLine o s l <;> cases h2 : stepLine o s' l <;> simp only [h1, h2, isOk] at h ⊢
    · cases h
    · cases h
    · rename_i v v'
      have := ih v.1 v'.1
      cases hp : parseFrom o v.1 ls <;> cases hp' : parseFrom o v'.1 ls <;> simp_all [isOk, pure, Except.pure]

/-- **Removing records never makes the parser fail**: if a file is accepted, every file obtained by
    deleting any of its lines (single atoms, side chains, backbone atoms, whole residues, termini,
    TER/MODEL records) is accepted too. -/
theorem parse_ok_of_deletion (o : Opts) (lines kept : List Str) (hsub : kept.Sublist lines)
    (hok : isOk (parse o lines) = true) : isOk (parse o kept) = true := by
  unfold parse at *
  generalize PState.init = s at *
  induction hsub generalizing s with
  | slnil => exact hok
  | cons l _ ih =>
    obtain ⟨_, s', h'⟩ := parseFrom_ok_cons o s l _ hok
    rw [parseFrom_ok_indep o _ s s']; exact ih s' h'
  | cons_cons l hsub ih =>
    obtain ⟨h1, s', h'⟩ := parseFrom_ok_cons o s l _ hok
    simp only [parseFrom, bind, Except.bind]
    cases hs : stepLine o s l with
    | error e => rw [hs] at h1; simp [isOk] at h1
    | ok v =>
      simp only
      have := ih v.1 (by rw [parseFrom_ok_indep o _ v.1 s']; exact h')
      cases hp : parseFrom o v.1 _ with
      | error e => rw [hp] at this; simp [isOk] at this
      | ok r => simp [isOk, pure, Except.pure]

/-- a file without atom records yields no conformation (the caller raises ValueError) -/
theorem no_atoms_no_conformations (o : Opts) (lines : List Str) (h : ∀ l ∈ lines, unused o l = true) : parse o lines = .ok [] := by
  rw [unused_records_have_no_effect]
  have : lines.filter (fun l => !unused o l) = [] := by
    rw [List.filter_eq_nil_iff]; intro l hl; simp [h l hl]
  rw [this]; rfl

end Propka.Pdb

namespace Propka.Groups

theorem mkGroup_atom (T : Tables) (to : Option (List (String × Int × String))) (a : AtomInfo) (g : GroupRec)
    (h : mkGroup T to a = some g) : g.atom = a := by
  unfold mkGroup at h
  cases hc : classOf T a with
  | none => simp [hc] at h
  | some c => simp only [hc] at h; cases h; rfl

/-- **Removing atoms never removes the group of an atom that remains**: the groups of a reduced atom
    list are exactly the groups of the full list whose defining atom was kept (as long as the kept
    atoms keep their own terminal tag, bonded-oxygen count and disulfide flag). -/
theorem census_monotone (T : Tables) (to : Option (List (String × Int × String))) (atoms : List AtomInfo) (p : AtomInfo → Bool) :
    extractGroups T to (atoms.filter p) = (extractGroups T to atoms).filter (fun g => p g.atom) := by
  unfold extractGroups
  induction atoms with
  | nil => rfl
  | cons a as ih =>
    simp only [List.filter_cons, List.filterMap_cons]
    by_cases hp : p a = true
    · simp only [hp, if_true, List.filterMap_cons]
      cases hg : mkGroup T to a with
      | none => simp [ih]
      | some g =>
        have := mkGroup_atom T to a g hg
        simp [List.filter_cons, this, hp, ih]
    · simp only [hp, Bool.false_eq_true, if_false]
      cases hg : mkGroup T to a with
      | none => simp [ih]
      | some g =>
        have := mkGroup_atom T to a g hg
        simp [List.filter_cons, this, hp, ih]

end Propka.Groups

/-! ## group set-up (`Model/Setup.lean`: `setup_atoms` of every group class, `set_center`, the ring search) -/
namespace Propka.Setup
open Propka.Scoring

/-- **`setup_atoms` never fails except for a carboxylate-type ligand group without oxygens**: for every group class but `OCO`
    the list handed to `set_center` is non-empty whatever atoms and bonds are present (every branch falls back to the group's
    own atom), so `set_center` does not raise; for `OCO` the list is exactly the oxygens bonded to the atom. -/
theorem setup_total (atoms : Tab AtomT) (c : Cls) (a : Nat) (hc : c ≠ .oco) : (setupAtoms atoms c a).centre ≠ [] := by
  cases c
  case oco => exact absurd rfl hc
  case self => simp [setupAtoms]
  case coo => simp only [setupAtoms]; split <;> simp_all
  case his => simp only [setupAtoms]; split <;> simp_all
  case arg => simp [setupAtoms]
  case amd =>
    simp only [setupAtoms]
    split
    · simp
    · rename_i h
      simp only [Bool.or_eq_true, List.isEmpty_iff, not_or] at h
      intro e
      exact h.1 (List.append_eq_nil_iff.mp e).1
  case trp => simp [setupAtoms]
  case cterm => simp only [setupAtoms]; split <;> simp
  case hSelfBoth => simp [setupAtoms]
  case bbc => simp [setupAtoms]
  case cg => simp [setupAtoms]
  case c2n => simp [setupAtoms]
  case hSelfAcid => simp [setupAtoms]

theorem setup_oco (atoms : Tab AtomT) (a : Nat) : (setupAtoms atoms .oco a).centre = bondedEl atoms a "O" := rfl

/-- within two bonds of `a` -/
def near2 (atoms : Tab AtomT) (a x : Nat) : Prop :=
  x = a ∨ x ∈ (aget atoms a).bonded ∨ ∃ n ∈ (aget atoms a).bonded, x ∈ (aget atoms n).bonded

theorem bondedEl_sub (atoms : Tab AtomT) (a : Nat) (el : String) (x : Nat) (h : x ∈ bondedEl atoms a el) : x ∈ (aget atoms a).bonded :=
  (List.mem_filter.mp h).1

theorem hydrogensOf_sub (atoms : Tab AtomT) (ns : List Nat) (x : Nat) (h : x ∈ hydrogensOf atoms ns) : ∃ n ∈ ns, x ∈ (aget atoms n).bonded := by
  unfold hydrogensOf at h
  obtain ⟨n, hn, hx⟩ := List.mem_flatMap.mp h
  exact ⟨n, hn, bondedEl_sub atoms n "H" x hx⟩

/-- **The interaction atoms of a group lie within two bonds of its defining atom** (for every class whose set-up does not
    search a ring): the atom itself, its neighbours, and hydrogens or oxygens on those neighbours.  With C11 (bonds join atoms
    at most 2.5 A apart) this is why the interaction atoms of a part of a structure belong to that part. -/
theorem interaction_atoms_near (atoms : Tab AtomT) (c : Cls) (a : Nat) (hc : c ≠ .his) (x : Nat)
    (hx : x ∈ (setupAtoms atoms c a).acid ∨ x ∈ (setupAtoms atoms c a).base ∨ x ∈ (setupAtoms atoms c a).centre) : near2 atoms a x := by
  have B := bondedEl_sub atoms
  have H := hydrogensOf_sub atoms
  cases c <;> simp only [setupAtoms] at hx <;> try contradiction
  all_goals unfold near2
  -- self
  · simp only [List.mem_singleton, or_self] at hx; exact Or.inl hx
  -- coo
  · rcases hx with h | h | h
    · exact Or.inr (Or.inl (B a _ x h))
    · exact Or.inr (Or.inl (B a _ x h))
    · split at h
      · exact Or.inl (List.mem_singleton.mp h)
      · exact Or.inr (Or.inl (B a _ x h))
  -- arg
  · rcases hx with h | h | h
    · rcases List.mem_append.mp h with h | h
      · exact Or.inr (Or.inl (B a _ x h))
      · obtain ⟨n, hn, hxn⟩ := H _ x h; exact Or.inr (Or.inr ⟨n, B a _ n hn, hxn⟩)
    · exact Or.inr (Or.inl (B a _ x h))
    · exact Or.inl (List.mem_singleton.mp h)
  -- amd
  · split at hx
    · simp only [List.not_mem_nil, List.mem_singleton, false_or] at hx; exact Or.inl hx
    · rename_i hne
      simp only [Bool.or_eq_true, List.isEmpty_iff, not_or] at hne
      rcases hx with h | h | h
      · rcases List.mem_append.mp h with h | h
        · exact Or.inr (Or.inl (B a _ x h))
        · refine Or.inr (Or.inr ⟨(bondedEl atoms a "N").headD a, ?_, B _ _ x h⟩)
          cases hl : bondedEl atoms a "N" with
          | nil => exact absurd hl hne.2
          | cons n ns => simp only [List.headD_cons]; exact B a "N" n (by rw [hl]; simp)
      · exact Or.inr (Or.inl (B a _ x h))
      · rcases List.mem_append.mp h with h | h <;> exact Or.inr (Or.inl (B a _ x h))
  -- trp
  · rcases hx with h | h | h
    · rcases List.mem_append.mp h with h | h
      · exact Or.inr (Or.inl (B a _ x h))
      · exact Or.inl (List.mem_singleton.mp h)
    · exact Or.inl (List.mem_singleton.mp h)
    · exact Or.inl (List.mem_singleton.mp h)
  -- cterm
  · split at hx
    · simp only [List.not_mem_nil, List.mem_singleton, false_or] at hx; exact Or.inl hx
    · rename_i c0 cs hl
      have hc0 : c0 ∈ (aget atoms a).bonded := B a "C" c0 (by rw [hl]; simp)
      have : x ∈ [a] ++ (bondedEl atoms c0 "O").erase a := by rcases hx with h | h | h <;> exact h
      rcases List.mem_append.mp this with h | h
      · exact Or.inl (List.mem_singleton.mp h)
      · exact Or.inr (Or.inr ⟨c0, hc0, B c0 _ x (List.mem_of_mem_erase h)⟩)
  -- hSelfBoth
  · rcases hx with h | h | h
    · rcases List.mem_append.mp h with h | h
      · exact Or.inr (Or.inl (B a _ x h))
      · exact Or.inl (List.mem_singleton.mp h)
    · rcases List.mem_append.mp h with h | h
      · exact Or.inr (Or.inl (B a _ x h))
      · exact Or.inl (List.mem_singleton.mp h)
    · exact Or.inl (List.mem_singleton.mp h)
  -- bbc
  · rcases hx with h | h | h
    · exact Or.inr (Or.inl (B a _ x h))
    · exact Or.inr (Or.inl (B a _ x h))
    · exact Or.inl (List.mem_singleton.mp h)
  -- cg
  · rcases hx with h | h | h
    · rcases List.mem_append.mp h with h | h
      · obtain ⟨n, hn, hxn⟩ := H _ x h; exact Or.inr (Or.inr ⟨n, B a _ n hn, hxn⟩)
      · exact Or.inr (Or.inl (B a _ x h))
    · exact Or.inr (Or.inl (B a _ x h))
    · exact Or.inl (List.mem_singleton.mp h)
  -- c2n
  · rcases hx with h | h | h
    · rcases List.mem_append.mp h with h | h
      · obtain ⟨n, hn, hxn⟩ := H _ x h; exact Or.inr (Or.inr ⟨n, B a _ n (List.mem_filter.mp hn).1, hxn⟩)
      · exact Or.inr (Or.inl (B a _ x (List.mem_filter.mp h).1))
    · exact Or.inr (Or.inl (B a _ x (List.mem_filter.mp h).1))
    · exact Or.inl (List.mem_singleton.mp h)
  -- oco
  · rcases hx with h | h | h <;> exact Or.inr (Or.inl (B a _ x h))
  -- hSelfAcid
  · rcases hx with h | h | h
    · rcases List.mem_append.mp h with h | h
      · exact Or.inr (Or.inl (B a _ x h))
      · exact Or.inl (List.mem_singleton.mp h)
    · exact Or.inl (List.mem_singleton.mp h)
    · exact Or.inl (List.mem_singleton.mp h)

end Propka.Setup
