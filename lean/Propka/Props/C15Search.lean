import Propka.Model.CoupleSearch
import Propka.Props.C01Coupling
/-! C15 on the model of the whole search for non-covalently coupled groups of a conformation (`Model/CoupleSearch.lean`, the one
    `Program.run` executes between scoring and averaging): whatever the records, parameters and scalar, the coupling lists it
    leaves are symmetric - if A is marked coupled to B then B is marked coupled to A -, and a group is starred exactly when its list
    is not empty (that is how the output model reads the star). -/
namespace Propka.CoupleSearch
open Propka Propka.Dets

section
variable {α : Type} [Add α] [Sub α] [Mul α] [Div α] [Neg α] [NatCast α] [LT α] [LE α] [DecidableLT α] [DecidableLE α]
  [Profiles.PowLog α]

/-- the probe of a pair never touches the coupling lists -/
theorem probePair_coupled (cp : CP α) (st : Array (Static α)) (s : St α) (i j : Nat) :
    (probePair cp st s i j).1.coupled = s.coupled := by
  unfold probePair
  split
  · simp only
    repeat' split
    all_goals rfl
  · rfl

/-- a step of the search leaves the coupling lists alone or couples the pair -/
theorem searchStep_coupled (cp : CP α) (st : Array (Static α)) (s : St α) (ij : Nat × Nat) :
    (searchStep cp st s ij).coupled = s.coupled ∨ (searchStep cp st s ij).coupled = Setup.couple s.coupled ij.1 ij.2 := by
  unfold searchStep
  split
  · exact Or.inl rfl
  · split
    · split
      · right; simp only [couple, probePair_coupled]
      · left; exact probePair_coupled cp st s ij.1 ij.2
    · left; exact probePair_coupled cp st s ij.1 ij.2

theorem mem_pairs_lt (st : Array (Static α)) (p : Nat × Nat) (h : p ∈ pairs st) : p.1 < st.size ∧ p.2 < st.size := by
  unfold pairs at h
  simp only [List.mem_flatMap, List.mem_map, List.mem_filter, List.mem_range] at h
  obtain ⟨i, ⟨hi, _⟩, j, hj, rfl⟩ := h
  have hj' := (List.takeWhile_sublist _).subset hj
  simp only [List.mem_filter, List.mem_range] at hj'
  exact ⟨hi, hj'.1⟩

/-- **Coupling is symmetric** on the search model: after `identify`, `j` is in the coupling list of `i` exactly when `i` is in the
    coupling list of `j` - for every table of records, every parameter set and every scalar. -/
theorem identify_coupling_symm (cp : CP α) (st : Array (Static α)) (gs : Array (GRec α)) (hsz : st.size = gs.size) :
    Setup.Sym (identify cp st gs).coupled := by
  unfold identify
  have inv : ∀ (ps : List (Nat × Nat)), (∀ p ∈ ps, p.1 < gs.size ∧ p.2 < gs.size) → ∀ s : St α, s.coupled.size = gs.size → Setup.Sym s.coupled →
      (ps.foldl (searchStep cp st) s).coupled.size = gs.size ∧ Setup.Sym (ps.foldl (searchStep cp st) s).coupled := by
    intro ps
    induction ps with
    | nil => intro _ s h1 h2; exact ⟨h1, h2⟩
    | cons p ps ih =>
      intro hp s h1 h2
      simp only [List.foldl_cons]
      have hlt := hp p List.mem_cons_self
      rcases searchStep_coupled cp st s p with h | h
      · exact ih (fun q hq => hp q (List.mem_cons_of_mem _ hq)) _ (by rw [h]; exact h1) (by rw [h]; exact h2)
      · exact ih (fun q hq => hp q (List.mem_cons_of_mem _ hq)) _ (by rw [h, Setup.couple_size]; exact h1)
          (by rw [h]; exact Setup.couple_sym _ _ _ (h1 ▸ hlt.1) (h1 ▸ hlt.2) h2)
  have hempty : Setup.Sym (Array.replicate gs.size ([] : List Nat)) := by
    intro i j
    simp only [Array.getD_eq_getD_getElem?, Array.getElem?_replicate]
    constructor <;> (intro h; split at h <;> simp at h)
  exact (inv (pairs st) (fun p hp => by rw [← hsz]; exact mem_pairs_lt st p hp)
    ⟨gs, Array.replicate gs.size none, Array.replicate gs.size []⟩ (by simp) hempty).2
end

end Propka.CoupleSearch
