import Propka.Model.CoupleSearch
import Propka.Props.C01Coupling
import Propka.Props.C15
/-! C15 on the model of the whole search for non-covalently coupled groups of a conformation (`Model/CoupleSearch.lean`, the one
    `Program.run` executes between scoring and averaging): whatever the records, parameters and scalar, the coupling lists it
    leaves are symmetric - if A is marked coupled to B then B is marked coupled to A -, and a group is starred exactly when its list
    is not empty (that is how the output model reads the star). -/
namespace Propka.CoupleSearch
open Propka Propka.Dets

section
variable {α : Type} [Add α] [Sub α] [Mul α] [Div α] [Neg α] [NatCast α] [LT α] [LE α] [DecidableLT α] [DecidableLE α]
  [Profiles.PowLog α]

/-- the probe of a pair never touches the coupling lists -/
theorem probePair_coupled (cp : CP α) (st : Array (Static α)) (s : St α) (i j : Nat) :
    (probePair cp st s i j).1.coupled = s.coupled := by
  unfold probePair
  split
  · simp only
    repeat' split
    all_goals rfl
  · rfl

/-- a step of the search leaves the coupling lists alone or couples the pair -/
theorem searchStep_coupled (cp : CP α) (st : Array (Static α)) (s : St α) (ij : Nat × Nat) :
    (searchStep cp st s ij).coupled = s.coupled ∨ (searchStep cp st s ij).coupled = Setup.couple s.coupled ij.1 ij.2 := by
  unfold searchStep
  split
  · exact Or.inl rfl
  · split
    · split
      · right; simp only [couple, probePair_coupled]
      · left; exact probePair_coupled cp st s ij.1 ij.2
    · left; exact probePair_coupled cp st s ij.1 ij.2

theorem mem_pairs_lt (st : Array (Static α)) (p : Nat × Nat) (h : p ∈ pairs st) : p.1 < st.size ∧ p.2 < st.size := by
  unfold pairs at h
  simp only [List.mem_flatMap, List.mem_map, List.mem_filter, List.mem_range] at h
  obtain ⟨i, ⟨hi, _⟩, j, hj, rfl⟩ := h
  have hj' := (List.takeWhile_sublist _).subset hj
  simp only [List.mem_filter, List.mem_range] at hj'
  exact ⟨hi, hj'.1⟩

/-- **Coupling is symmetric** on the search model: after `identify`, `j` is in the coupling list of `i` exactly when `i` is in the
    coupling list of `j` - for every table of records, every parameter set and every scalar. -/
theorem identify_coupling_symm (cp : CP α) (st : Array (Static α)) (gs : Array (GRec α)) (hsz : st.size = gs.size) :
    Setup.Sym (identify cp st gs).coupled := by
  unfold identify
  have inv : ∀ (ps : List (Nat × Nat)), (∀ p ∈ ps, p.1 < gs.size ∧ p.2 < gs.size) → ∀ s : St α, s.coupled.size = gs.size → Setup.Sym s.coupled →
      (ps.foldl (searchStep cp st) s).coupled.size = gs.size ∧ Setup.Sym (ps.foldl (searchStep cp st) s).coupled := by
    intro ps
    induction ps with
    | nil => intro _ s h1 h2; exact ⟨h1, h2⟩
    | cons p ps ih =>
      intro hp s h1 h2
      simp only [List.foldl_cons]
      have hlt := hp p List.mem_cons_self
      rcases searchStep_coupled cp st s p with h | h
      · exact ih (fun q hq => hp q (List.mem_cons_of_mem _ hq)) _ (by rw [h]; exact h1) (by rw [h]; exact h2)
      · exact ih (fun q hq => hp q (List.mem_cons_of_mem _ hq)) _ (by rw [h, Setup.couple_size]; exact h1)
          (by rw [h]; exact Setup.couple_sym _ _ _ (h1 ▸ hlt.1) (h1 ▸ hlt.2) h2)
  have hempty : Setup.Sym (Array.replicate gs.size ([] : List Nat)) := by
    intro i j
    simp only [Array.getD_eq_getD_getElem?, Array.getElem?_replicate]
    constructor <;> (intro h; split at h <;> simp at h)
  exact (inv (pairs st) (fun p hp => by rw [← hsz]; exact mem_pairs_lt st p hp)
    ⟨gs, Array.replicate gs.size none, Array.replicate gs.size []⟩ (by simp) hempty).2
end

/-! ### the search observes without disturbing (exact arithmetic; any model of `10**x` and `log10`) -/
section
variable [Profiles.PowLog ℚ]

/-- whatever the gates decide, the probe leaves the table of records untouched or replaces the two records of the pair by the
    records swapped twice -/
theorem probePair_gs (cp : CP ℚ) (st : Array (Static ℚ)) (s : St ℚ) (i j : Nat) :
    (probePair cp st s i j).1.gs = s.gs ∨
    ∃ g1 g2, s.gs[i]? = some g1 ∧ s.gs[j]? = some g2 ∧
      (probePair cp st s i j).1.gs =
        (s.gs.setIfInBounds i (Dets.probePair cp.fixed g1 g2).1).setIfInBounds j (Dets.probePair cp.fixed g1 g2).2 := by
  unfold probePair
  split
  · rename_i g1 g2 s1 s2 h1 h2 _ _
    simp only
    repeat' split
    all_goals first
      | exact Or.inl rfl
      | exact Or.inr ⟨g1, g2, h1, h2, rfl⟩
  · exact Or.inl rfl

theorem searchStep_gs (cp : CP ℚ) (st : Array (Static ℚ)) (s : St ℚ) (ij : Nat × Nat) :
    (searchStep cp st s ij).gs = s.gs ∨
    ∃ g1 g2, s.gs[ij.1]? = some g1 ∧ s.gs[ij.2]? = some g2 ∧
      (searchStep cp st s ij).gs =
        (s.gs.setIfInBounds ij.1 (Dets.probePair cp.fixed g1 g2).1).setIfInBounds ij.2 (Dets.probePair cp.fixed g1 g2).2 := by
  unfold searchStep
  split
  · exact Or.inl rfl
  · split
    · split
      · exact probePair_gs cp st s ij.1 ij.2
      · exact probePair_gs cp st s ij.1 ij.2
    · exact probePair_gs cp st s ij.1 ij.2

theorem mem_takeWhile_true {β : Type} (p : β → Bool) : ∀ (l : List β) (x : β), x ∈ l.takeWhile p → p x = true
  | [], _, h => by simp at h
  | a :: l, x, h => by
    rw [List.takeWhile_cons] at h
    split at h
    · rcases List.mem_cons.mp h with e | e
      · subst e; assumption
      · exact mem_takeWhile_true p l x e
    · simp at h

theorem mem_pairs_ne (st : Array (Static ℚ)) (p : Nat × Nat) (h : p ∈ pairs st) : p.1 ≠ p.2 := by
  unfold pairs at h
  simp only [List.mem_flatMap, List.mem_map] at h
  obtain ⟨i, _, j, hj, rfl⟩ := h
  have := mem_takeWhile_true _ _ _ hj
  simp only [bne_iff_ne, ne_eq] at this
  exact fun e => this e.symm

/-- **C15 on the program's search**: after `identify` (the probes of all pairs of titratable groups in turn, with every gate, the
    memoised intrinsic pKa values and the folding energy of the whole conformation) every group of the conformation has the results
    it had after scoring - pKa, both desolvation terms, every determinant with its partner and label, as multisets - and is up to
    date: every temporary swap is undone exactly.  For every table of records, every parameter set, exact arithmetic. -/
theorem identify_preserves_results (cp : CP ℚ) (st : Array (Static ℚ)) (gs : Array (GRec ℚ)) (dflt : GRec ℚ) (hsz : st.size = gs.size)
    (hu : ∀ i, i < gs.size → Dets.UpToDate cp.fixed (gs.getD i dflt)) :
    (identify cp st gs).gs.size = gs.size ∧
    ∀ i, i < gs.size → Dets.SameResults ((identify cp st gs).gs.getD i dflt) (gs.getD i dflt) ∧
      Dets.UpToDate cp.fixed ((identify cp st gs).gs.getD i dflt) := by
  unfold identify
  have inv : ∀ (ps : List (Nat × Nat)), (∀ p ∈ ps, p.1 ≠ p.2 ∧ p.1 < gs.size ∧ p.2 < gs.size) → ∀ s : St ℚ, s.gs.size = gs.size →
      (∀ i, i < gs.size → Dets.SameResults (s.gs.getD i dflt) (gs.getD i dflt) ∧ Dets.UpToDate cp.fixed (s.gs.getD i dflt)) →
      (ps.foldl (searchStep cp st) s).gs.size = gs.size ∧
      ∀ i, i < gs.size → Dets.SameResults ((ps.foldl (searchStep cp st) s).gs.getD i dflt) (gs.getD i dflt) ∧
        Dets.UpToDate cp.fixed ((ps.foldl (searchStep cp st) s).gs.getD i dflt) := by
    intro ps
    induction ps with
    | nil => intro _ s h1 h2; exact ⟨h1, h2⟩
    | cons p ps ih =>
      intro hp s h1 h2
      simp only [List.foldl_cons]
      obtain ⟨hne, hl1, hl2⟩ := hp p List.mem_cons_self
      apply ih (fun q hq => hp q (List.mem_cons_of_mem _ hq))
      · rcases searchStep_gs cp st s p with h | ⟨g1, g2, _, _, h⟩
        · rw [h]; exact h1
        · rw [h]; simp [h1]
      · rcases searchStep_gs cp st s p with h | ⟨g1, g2, e1, e2, h⟩
        · rw [h]; exact h2
        · intro i hi
          have d1 : s.gs.getD p.1 dflt = g1 := by rw [Array.getD_eq_getD_getElem?, e1]; rfl
          have d2 : s.gs.getD p.2 dflt = g2 := by rw [Array.getD_eq_getD_getElem?, e2]; rfl
          have u1 := (h2 p.1 hl1).2
          have u2 := (h2 p.2 hl2).2
          rw [d1] at u1; rw [d2] at u2
          have hr := Dets.probe_preserves cp.fixed g1 g2 u1 u2
          have hk := Dets.probe_uptodate cp.fixed g1 g2
          rw [h, Dets.getD_set2 _ _ _ _ _ (by simp; rw [h1]; exact hl2), Dets.getD_set2 _ _ _ _ _ (by rw [h1]; exact hl1)]
          by_cases c2 : i = p.2
          · rw [if_pos c2]
            refine ⟨Dets.sameResults_trans _ _ _ hr.2 ?_, hk.2⟩
            rw [← d2, ← c2]; exact (h2 i hi).1
          · rw [if_neg c2]
            by_cases c1 : i = p.1
            · rw [if_pos c1]
              refine ⟨Dets.sameResults_trans _ _ _ hr.1 ?_, hk.1⟩
              rw [← d1, ← c1]; exact (h2 i hi).1
            · rw [if_neg c1]; exact h2 i hi
  exact inv (pairs st) (fun p hp => ⟨mem_pairs_ne st p hp, by rw [← hsz]; exact (mem_pairs_lt st p hp).1, by rw [← hsz]; exact (mem_pairs_lt st p hp).2⟩)
    ⟨gs, Array.replicate gs.size none, Array.replicate gs.size []⟩ rfl (fun i hi => ⟨Dets.sameResults_refl _, hu i hi⟩)
end

end Propka.CoupleSearch
