import Propka.Proofs.Pdb
/-! # C13 — selecting chains equals deleting the other chains from the file

`parse` is the model of `get_atom_lines_from_pdb` (the only place where the `chains` option is
read).  The theorem is about the concrete line parser, for every list of lines. -/
namespace Propka.Pdb
open Propka.Py

def isAtomLine (l : Str) : Bool := kindOf l = .atom || kindOf l = .hetatm

/-- an ATOM/HETATM record whose chain column is not among the selected identifiers -/
def otherChain (S : List String) (l : Str) : Bool := isAtomLine l && !S.contains (str (slice l 21 22))

theorem stepLine_dropped (o : Opts) (S : List String) (hS : S ≠ []) (s : PState) (l : Str)
    (hd : otherChain S l = true) (hlen : 21 < l.length) :
    stepLine { o with chains := S } s l = pure (s, none) := by
  unfold otherChain isAtomLine at hd
  simp only [Bool.and_eq_true, Bool.or_eq_true, decide_eq_true_eq, Bool.not_eq_true'] at hd
  obtain ⟨hk, hc⟩ := hd
  have hne : S.isEmpty = false := by cases S <;> simp_all
  have hkind : (classify { o with chains := S } l).kind = kindOf l := rfl
  have hskip : (classify { o with chains := S } l).skip = true := by
    simp only [classify, isSkipped, hne, hc]
    rcases hk with hk | hk <;> simp [hk]
  have hak : atomKind (classify { o with chains := S } l) = true := by
    unfold atomKind; rcases hk with hk | hk <;> simp [hkind, hk]
  have hnm : ((classify { o with chains := S } l).kind == Kind.model) = false := by rcases hk with hk | hk <;> simp [hkind, hk]
  have h16 : decide (l.length ≤ 16) = false := by simp; omega
  have h21 : decide (l.length ≤ 21) = false := by simp; omega
  have hstep : step s.st (classify { o with chains := S } l) = (s.st, false) := by
    unfold step
    rcases hk with hk | hk
    · simp [hkind, hk, hskip]
    · simp [hkind, hk]
  have hcheck : lineCheck { o with chains := S } l = .ok () := by
    unfold lineCheck
    simp [hnm, hak, h16, h21]
  unfold stepLine
  simp [hcheck, hnm, hak, hskip, hstep, pure, Except.pure]

theorem classify_chains (o : Opts) (S : List String) (l : Str) (h : isAtomLine l = true → S.contains (str (slice l 21 22)) = true) :
    classify { o with chains := S } l = classify { o with chains := [] } l := by
  simp only [classify, isSkipped]
  by_cases ha : isAtomLine l = true
  · have := h ha
    cases S <;> simp_all
  · unfold isAtomLine at ha
    have : (kindOf l == Kind.atom || kindOf l == Kind.hetatm) = false := by
      simp only [Bool.or_eq_true, decide_eq_true_eq, not_or] at ha
      simp [ha.1, ha.2]
    simp [this]

theorem stepLine_kept (o : Opts) (S : List String) (s : PState) (l : Str)
    (hk : otherChain S l = false) (hlen : isAtomLine l = true → 21 < l.length) :
    stepLine { o with chains := S } s l = stepLine { o with chains := [] } s l := by
  unfold otherChain at hk
  have hcl : classify { o with chains := S } l = classify { o with chains := [] } l := by
    apply classify_chains; intro ha; simp_all
  have hcheck : lineCheck { o with chains := S } l = lineCheck { o with chains := [] } l := by
    unfold lineCheck
    rw [hcl]
    by_cases ha : isAtomLine l = true
    · have h21 : decide (l.length ≤ 21) = false := by have := hlen ha; simp; omega
      simp [h21]
    · have hak : atomKind (classify { o with chains := [] } l) = false := by
        unfold atomKind isAtomLine at *
        have hkind : (classify { o with chains := [] } l).kind = kindOf l := rfl
        simp only [Bool.or_eq_true, decide_eq_true_eq, not_or] at ha
        simp [hkind, ha.1, ha.2]
      simp [hak]
  unfold stepLine
  rw [hcheck, hcl]

/-- **Main theorem.** For every list of lines and every non-empty selection `S`, parsing with the
    selection gives exactly the atom records (fields, conformation names, `N+`/`C-` tags) obtained by
    parsing, without selection, the file from which every ATOM/HETATM record of another chain was
    deleted.  (`hlen`: atom records reach at least the chain column.) -/
theorem chains_eq_delete (o : Opts) (S : List String) (hS : S ≠ []) (lines : List Str)
    (hlen : ∀ l ∈ lines, isAtomLine l = true → 21 < l.length) :
    parse { o with chains := S } lines =
      parse { o with chains := [] } (lines.filter (fun l => !otherChain S l)) := by
  unfold parse
  generalize PState.init = s
  induction lines generalizing s with
  | nil => rfl
  | cons l ls ih =>
    have hl := hlen l (by simp)
    have ih' := fun s => ih (fun l' h' => hlen l' (List.mem_cons_of_mem _ h')) s
    by_cases hd : otherChain S l = true
    · have hat : isAtomLine l = true := by unfold otherChain at hd; simp_all
      simp only [List.filter_cons, hd, Bool.not_true, Bool.false_eq_true, if_false]
      rw [← ih']
      simp only [parseFrom, stepLine_dropped o S hS s l hd (hl hat), pure_bind]
      cases parseFrom { o with chains := S } s ls <;> rfl
    · have hd' : otherChain S l = false := by simpa using hd
      simp only [List.filter_cons, hd', Bool.not_false, if_true]
      have hk := stepLine_kept o S s l hd' hl
      cases h : stepLine { o with chains := [] } s l with
      | error e => simp [parseFrom, hk, h]; rfl
      | ok v => obtain ⟨s', a⟩ := v; simp [parseFrom, hk, h, ih']

/-- a blank chain identifier is selected by a space: the selection test is on column 22 as it stands -/
theorem blank_chain_selected (l : Str) (h : str (slice l 21 22) = " ") : otherChain [" "] l = false := by
  simp [otherChain, h]

/-- records that are neither ATOM nor HETATM (TER, MODEL, anything else) are never deleted -/
theorem non_atom_kept (S : List String) (l : Str) (h : isAtomLine l = false) : otherChain S l = false := by
  simp [otherChain, h]

/-! ### Non-vacuity: a two-chain fragment with a TER, selection of chain B -/
def demo : List Str := [
  "ATOM      1  N   ALA A   1      11.104   6.134  -6.504  1.00  0.00           N\n".toList,
  "ATOM      2  CA  ALA A   1      11.639   6.071  -5.147  1.00  0.00           C\n".toList,
  "TER\n".toList,
  "ATOM      3  N   GLY B   1      21.104   6.134  -6.504  1.00  0.00           N\n".toList,
  "HETATM    4 CA    CA A 101      31.104   6.134  -6.504  1.00  0.00          CA\n".toList]

example : (parse ⟨[], false, ["B"]⟩ demo).toOption.map (·.map (fun a => (a.name, a.chain, a.terminal)))
    = some [("N", "B", "N+")] ∧ (∀ l ∈ demo, isAtomLine l = true → 21 < l.length) := by decide +kernel

end Propka.Pdb
