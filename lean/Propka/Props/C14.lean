import Propka.Model.Groups
import Propka.Model.ResList
/-! # C14 — titrate_only restricts titration exactly to the listed residues

`mkGroup` / `extractGroups` are the model of `is_group` + `Group.setup` + `init_group` (the only
place where the option is read); the list holds `(chain_id, res_num, icode)` triples. -/
namespace Propka.Groups

abbrev Key := String × Int × String
def keyOf (a : AtomInfo) : Key := (a.chain, a.resNum, a.icode)

/-- **Exactly the listed residues titrate**: with a list `L`, a group is titratable iff it would be
    without the option and its residue is listed; it is reported iff it is titratable, or it is a
    listed cysteine; everything else about the group (class, type, residue type, charge, model pKa) is
    what it is without the option — so it still takes part as partner and environment. -/
theorem titrate_only_exact (T : Tables) (L : List Key) (a : AtomInfo) :
    match mkGroup T none a, mkGroup T (some L) a with
    | none, none => True
    | some g0, some g =>
        g.titratable = (g0.titratable && L.contains (keyOf a)) ∧
        g.reported = (g.titratable || (g.residueType == "CYS" && L.contains (keyOf a))) ∧
        g.cls = g0.cls ∧ g.type = g0.type ∧ g.residueType = g0.residueType ∧ g.charge = g0.charge ∧
        g.modelPka = g0.modelPka ∧ g.atom = g0.atom ∧ g.bridged = g0.bridged
    | _, _ => False := by
  unfold mkGroup
  cases hc : classOf T a with
  | none => simp
  | some c =>
    simp only [GroupRec.reported, keyOf]
    cases hl : L.contains (a.chain, a.resNum, a.icode) <;> simp [hl]

/-- **The environment is kept**: the same atoms yield groups with and without the option, in the same order. -/
theorem environment_kept (T : Tables) (L : List Key) (atoms : List AtomInfo) :
    (extractGroups T (some L) atoms).map (fun g => (g.atom, g.cls, g.type, g.charge)) =
    (extractGroups T none atoms).map (fun g => (g.atom, g.cls, g.type, g.charge)) := by
  unfold extractGroups
  induction atoms with
  | nil => rfl
  | cons a as ih =>
    simp only [List.filterMap_cons]
    have := titrate_only_exact T L a
    cases h0 : mkGroup T none a <;> cases h1 : mkGroup T (some L) a <;> simp_all

/-- **Listing every residue is the same as not giving the option.** -/
theorem all_listed_identity (T : Tables) (L : List Key) (atoms : List AtomInfo)
    (h : ∀ a ∈ atoms, L.contains (keyOf a) = true) :
    extractGroups T (some L) atoms = extractGroups T none atoms := by
  unfold extractGroups
  induction atoms with
  | nil => rfl
  | cons a as ih =>
    have ha := h a (by simp)
    have ih' := ih (fun b hb => h b (List.mem_cons_of_mem _ hb))
    simp only [List.filterMap_cons, ih']
    have : mkGroup T (some L) a = mkGroup T none a := by
      unfold mkGroup
      cases hc : classOf T a with
      | none => rfl
      | some c =>
        have ha' : (a.chain, a.resNum, a.icode) ∈ L := by simpa [keyOf] using ha
        simp [ha']
    rw [this]

/-- **Entries that name no residue of the structure have no effect.** -/
theorem absent_entries_noop (T : Tables) (L extra : List Key) (atoms : List AtomInfo)
    (h : ∀ a ∈ atoms, extra.contains (keyOf a) = false) :
    extractGroups T (some (L ++ extra)) atoms = extractGroups T (some L) atoms := by
  unfold extractGroups
  induction atoms with
  | nil => rfl
  | cons a as ih =>
    have ha := h a (by simp)
    have ih' := ih (fun b hb => h b (List.mem_cons_of_mem _ hb))
    simp only [List.filterMap_cons, ih']
    have : mkGroup T (some (L ++ extra)) a = mkGroup T (some L) a := by
      unfold mkGroup
      cases hc : classOf T a with
      | none => rfl
      | some c =>
        have ha' : (a.chain, a.resNum, a.icode) ∉ extra := by simpa [keyOf] using ha
        simp [ha']
    rw [this]

/-- the order of the list and repeated entries are irrelevant: only membership is used -/
theorem list_as_set (T : Tables) (L L' : List Key) (atoms : List AtomInfo)
    (h : ∀ k, L.contains k = L'.contains k) : extractGroups T (some L) atoms = extractGroups T (some L') atoms := by
  unfold extractGroups
  congr 1
  funext a
  unfold mkGroup
  cases hc : classOf T a with
  | none => rfl
  | some c =>
    have h' := h (a.chain, a.resNum, a.icode)
    simp only [h']

/-- residues that share chain and number and differ in the insertion code are matched separately -/
example : keyOf ⟨"atom", "CG", "ASP", "A", 52, "A", "", 0, false⟩ ≠ keyOf ⟨"atom", "CG", "ASP", "A", 52, " ", "", 0, false⟩ := by decide

end Propka.Groups

/-! ## the text of the option: `chain:resnum[inscode]`, comma separated -/
namespace Propka.ResList
open Propka.Py
deriving instance DecidableEq for Except

theorem splitOn_cons (sep c : Char) (cs : Str) :
    splitOn sep (c :: cs) = match splitOn sep cs with
      | [] => [[]]
      | p :: ps => if c = sep then [] :: p :: ps else (c :: p) :: ps := by
  rw [splitOn]; rfl

theorem splitOn_ne_nil (sep : Char) (s : Str) : splitOn sep s ≠ [] := by
  induction s with
  | nil => simp [splitOn]
  | cons c cs ih =>
    unfold splitOn
    split
    · simp
    · split <;> simp

theorem splitOn_free (sep : Char) (a : Str) (h : sep ∉ a) : splitOn sep a = [a] := by
  induction a with
  | nil => rfl
  | cons c cs ih =>
    have hc : c ≠ sep := fun e => h (by simp [e])
    have hcs : sep ∉ cs := fun e => h (List.mem_cons_of_mem _ e)
    unfold splitOn
    rw [ih hcs]
    simp [hc]

theorem splitOn_append (sep : Char) (a b : Str) (h : sep ∉ a) : splitOn sep (a ++ sep :: b) = a :: splitOn sep b := by
  induction a with
  | nil =>
    show splitOn sep (sep :: b) = [] :: splitOn sep b
    rw [splitOn_cons]
    cases hb : splitOn sep b with
    | nil => exact absurd hb (splitOn_ne_nil sep b)
    | cons p ps => simp
  | cons c cs ih =>
    have hc : c ≠ sep := fun e => h (by simp [e])
    have hcs : sep ∉ cs := fun e => h (List.mem_cons_of_mem _ e)
    show splitOn sep (c :: (cs ++ sep :: b)) = (c :: cs) :: splitOn sep b
    rw [splitOn_cons, ih hcs]
    simp [hc]

/-- **An entry without insertion code**: `chain:number` is read as (chain, number, ' ') -/
theorem entry_plain (chain num : Str) (n : Int) (hc : ':' ∉ chain) (hn : ':' ∉ num) (hp : parseInt num = some n) :
    parseResString (chain ++ ':' :: num) = .ok (chain, n, ' ') := by
  unfold parseResString
  rw [splitOn_append ':' chain num hc, splitOn_free ':' num hn]
  simp [hp]

/-- **An entry with insertion code**: when the text after the colon is not a number but becomes one without its last
    character, that character is the insertion code -/
theorem entry_icode (chain num : Str) (ic : Char) (n : Int) (hc : ':' ∉ chain) (hn : ':' ∉ num) (hi : ic ≠ ':')
    (hbad : parseInt (num ++ [ic]) = none) (hp : parseInt num = some n) :
    parseResString (chain ++ ':' :: (num ++ [ic])) = .ok (chain, n, ic) := by
  unfold parseResString
  have hn' : ':' ∉ num ++ [ic] := by
    intro h; rcases List.mem_append.mp h with h | h
    · exact hn h
    · simp at h; exact hi h.symm
  rw [splitOn_append ':' chain _ hc, splitOn_free ':' _ hn']
  simp [hbad, hp]

/-- anything that does not have exactly one colon is rejected -/
theorem entry_no_colon (s : Str) (h : ':' ∉ s) : parseResString s = .error .colons := by
  unfold parseResString; rw [splitOn_free ':' s h]

/-- **The list is read entry by entry**: for comma-free entries, the text `e1,e2,...` parses to the parsed entries in order
    (and fails with the error of the first bad one) -/
theorem list_is_mapM (es : List Str) (hne : es ≠ []) (h : ∀ e ∈ es, ',' ∉ e) :
    parseResList (List.intercalate [','] es) = es.mapM parseResString := by
  unfold parseResList
  congr 1
  induction es with
  | nil => exact absurd rfl hne
  | cons e rest ih =>
    cases rest with
    | nil => simp [List.intercalate, splitOn_free ',' e (h e (List.mem_cons_self ..))]
    | cons e2 r2 =>
      have := ih (by simp) (fun x hx => h x (List.mem_cons_of_mem _ hx))
      have he : ',' ∉ e := h e (List.mem_cons_self ..)
      show splitOn ',' (List.intercalate [','] (e :: e2 :: r2)) = e :: e2 :: r2
      have hi : List.intercalate [','] (e :: e2 :: r2) = e ++ ',' :: List.intercalate [','] (e2 :: r2) := by
        simp [List.intercalate, List.intersperse]
      rw [hi, splitOn_append ',' e _ he, this]

example : parseResList "E:17,E:48A,I:-5".toList = .ok [("E".toList, 17, ' '), ("E".toList, 48, 'A'), ("I".toList, -5, ' ')] := by decide
example : parseResList "E17".toList = .error .colons := by decide
example : parseResList "A:1,B:".toList = .error .number := by decide
example : parseResList "A:1:2".toList = .error .colons := by decide
end Propka.ResList
