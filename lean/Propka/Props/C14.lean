import Propka.Model.Groups
/-! # C14 — titrate_only restricts titration exactly to the listed residues

`mkGroup` / `extractGroups` are the model of `is_group` + `Group.setup` + `init_group` (the only
place where the option is read); the list holds `(chain_id, res_num, icode)` triples. -/
namespace Propka.Groups

abbrev Key := String × Int × String
def keyOf (a : AtomInfo) : Key := (a.chain, a.resNum, a.icode)

/-- **Exactly the listed residues titrate**: with a list `L`, a group is titratable iff it would be
    without the option and its residue is listed; it is reported iff it is titratable, or it is a
    listed cysteine; everything else about the group (class, type, residue type, charge, model pKa) is
    what it is without the option — so it still takes part as partner and environment. -/
theorem titrate_only_exact (T : Tables) (L : List Key) (a : AtomInfo) :
    match mkGroup T none a, mkGroup T (some L) a with
    | none, none => True
    | some g0, some g =>
        g.titratable = (g0.titratable && L.contains (keyOf a)) ∧
        g.reported = (g.titratable || (g.residueType == "CYS" && L.contains (keyOf a))) ∧
        g.cls = g0.cls ∧ g.type = g0.type ∧ g.residueType = g0.residueType ∧ g.charge = g0.charge ∧
        g.modelPka = g0.modelPka ∧ g.atom = g0.atom ∧ g.bridged = g0.bridged
    | _, _ => False := by
  unfold mkGroup
  cases hc : classOf T a with
  | none => simp
  | some c =>
    simp only [GroupRec.reported, keyOf]
    cases hl : L.contains (a.chain, a.resNum, a.icode) <;> simp [hl]

/-- **The environment is kept**: the same atoms yield groups with and without the option, in the same order. -/
theorem environment_kept (T : Tables) (L : List Key) (atoms : List AtomInfo) :
    (extractGroups T (some L) atoms).map (fun g => (g.atom, g.cls, g.type, g.charge)) =
    (extractGroups T none atoms).map (fun g => (g.atom, g.cls, g.type, g.charge)) := by
  unfold extractGroups
  induction atoms with
  | nil => rfl
  | cons a as ih =>
    simp only [List.filterMap_cons]
    have := titrate_only_exact T L a
    cases h0 : mkGroup T none a <;> cases h1 : mkGroup T (some L) a <;> simp_all

/-- **Listing every residue is the same as not giving the option.** -/
theorem all_listed_identity (T : Tables) (L : List Key) (atoms : List AtomInfo)
    (h : ∀ a ∈ atoms, L.contains (keyOf a) = true) :
    extractGroups T (some L) atoms = extractGroups T none atoms := by
  unfold extractGroups
  induction atoms with
  | nil => rfl
  | cons a as ih =>
    have ha := h a (by simp)
    have ih' := ih (fun b hb => h b (List.mem_cons_of_mem _ hb))
    simp only [List.filterMap_cons, ih']
    have : mkGroup T (some L) a = mkGroup T none a := by
      unfold mkGroup
      cases hc : classOf T a with
      | none => rfl
      | some c =>
        have ha' : (a.chain, a.resNum, a.icode) ∈ L := by simpa [keyOf] using ha
        simp [ha']
    rw [this]

/-- **Entries that name no residue of the structure have no effect.** -/
theorem absent_entries_noop (T : Tables) (L extra : List Key) (atoms : List AtomInfo)
    (h : ∀ a ∈ atoms, extra.contains (keyOf a) = false) :
    extractGroups T (some (L ++ extra)) atoms = extractGroups T (some L) atoms := by
  unfold extractGroups
  induction atoms with
  | nil => rfl
  | cons a as ih =>
    have ha := h a (by simp)
    have ih' := ih (fun b hb => h b (List.mem_cons_of_mem _ hb))
    simp only [List.filterMap_cons, ih']
    have : mkGroup T (some (L ++ extra)) a = mkGroup T (some L) a := by
      unfold mkGroup
      cases hc : classOf T a with
      | none => rfl
      | some c =>
        have ha' : (a.chain, a.resNum, a.icode) ∉ extra := by simpa [keyOf] using ha
        simp [ha']
    rw [this]

/-- the order of the list and repeated entries are irrelevant: only membership is used -/
theorem list_as_set (T : Tables) (L L' : List Key) (atoms : List AtomInfo)
    (h : ∀ k, L.contains k = L'.contains k) : extractGroups T (some L) atoms = extractGroups T (some L') atoms := by
  unfold extractGroups
  congr 1
  funext a
  unfold mkGroup
  cases hc : classOf T a with
  | none => rfl
  | some c =>
    have h' := h (a.chain, a.resNum, a.icode)
    simp only [h']

/-- residues that share chain and number and differ in the insertion code are matched separately -/
example : keyOf ⟨"atom", "CG", "ASP", "A", 52, "A", "", 0, false⟩ ≠ keyOf ⟨"atom", "CG", "ASP", "A", 52, " ", "", 0, false⟩ := by decide

end Propka.Groups
