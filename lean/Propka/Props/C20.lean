import Propka.Proofs.Rotation
/-! # C20 — rotation about an axis is the right-handed (Rodrigues) rotation, for every axis

`rotateAround` is the model of `propka.vector_algebra.rotate_vector_around_an_axis`, here at `ℝ`
(`sin/cos/arcsin/arccos/sqrt/|·|/π` are Mathlib's); the same definition text runs at `Float` in the
driver and is compared with the real function by the correspondence check. -/
namespace Propka.Rot
open Real

/-- **Main theorem.** For every angle, every non-zero axis and every vector the code's result is the
    Rodrigues rotation about the unit vector along the axis — including every axis with zero
    components (along or opposite to a coordinate axis, in a coordinate plane). -/
theorem rotate_eq_rodrigues (θ : ℝ) (a v : V3 ℝ) (ha : a.x ≠ 0 ∨ a.y ≠ 0 ∨ a.z ≠ 0) :
    rotateAround θ a v = rodK (Real.cos θ) (Real.sin θ) (unit a) v := by
  by_cases hy : a.y = 0
  · by_cases hx : a.x = 0
    · rcases ha with h | h | h
      · exact absurd hx h
      · exact absurd hy h
      · rcases lt_or_gt_of_ne h with hz | hz
        · exact rotate_caseE θ a v hy hx hz
        · exact rotate_caseD θ a v hy hx hz
    · exact rotate_caseC θ a v hy hx
  · by_cases hx : a.x = 0
    · exact rotate_caseB θ a v hy hx
    · exact rotate_caseA θ a v hy hx

def dot (a b : V3 ℝ) : ℝ := a.x*b.x + a.y*b.y + a.z*b.z
def cross (a b : V3 ℝ) : V3 ℝ := ⟨a.y*b.z - a.z*b.y, a.z*b.x - a.x*b.z, a.x*b.y - a.y*b.x⟩
def sub (a b : V3 ℝ) : V3 ℝ := ⟨a.x - b.x, a.y - b.y, a.z - b.z⟩
def smul (t : ℝ) (a : V3 ℝ) : V3 ℝ := ⟨t*a.x, t*a.y, t*a.z⟩

theorem nrm_pos (a : V3 ℝ) (ha : a.x ≠ 0 ∨ a.y ≠ 0 ∨ a.z ≠ 0) : 0 < nrm a := by
  unfold nrm; apply Real.sqrt_pos.mpr
  rcases ha with h | h | h
  · have := mul_self_pos.mpr h; nlinarith [mul_self_nonneg a.y, mul_self_nonneg a.z]
  · have := mul_self_pos.mpr h; nlinarith [mul_self_nonneg a.x, mul_self_nonneg a.z]
  · have := mul_self_pos.mpr h; nlinarith [mul_self_nonneg a.x, mul_self_nonneg a.y]

/-- the unit vector along a non-zero axis has length one -/
theorem unit_dot_unit (a : V3 ℝ) (ha : a.x ≠ 0 ∨ a.y ≠ 0 ∨ a.z ≠ 0) : dot (unit a) (unit a) = 1 := by
  have hn := nrm_pos a ha
  have hnn : nrm a * nrm a = a.x*a.x + a.y*a.y + a.z*a.z := by
    unfold nrm; exact Real.mul_self_sqrt (by nlinarith [mul_self_nonneg a.x, mul_self_nonneg a.y, mul_self_nonneg a.z])
  simp only [dot, unit]
  field_simp
  nlinarith [hnn]

/-- **Length is preserved.** -/
theorem norm_preserved (θ : ℝ) (a v : V3 ℝ) (ha : a.x ≠ 0 ∨ a.y ≠ 0 ∨ a.z ≠ 0) :
    dot (rotateAround θ a v) (rotateAround θ a v) = dot v v := by
  rw [rotate_eq_rodrigues θ a v ha]
  have hk := unit_dot_unit a ha
  have hcs := Real.cos_sq_add_sin_sq θ
  generalize unit a = k at *
  generalize Real.cos θ = c at *
  generalize Real.sin θ = s at *
  obtain ⟨kx, ky, kz⟩ := k; obtain ⟨vx, vy, vz⟩ := v
  simp only [dot, rodK] at *
  have hk' : kx^2 + ky^2 + kz^2 = 1 := by nlinarith [hk]
  linear_combination ( c^2*kx^2*vx^2 + 2*c^2*kx*ky*vx*vy + 2*c^2*kx*kz*vx*vz + c^2*ky^2*vy^2 + 2*c^2*ky*kz*vy*vz + c^2*kz^2*vz^2 - c^2*vx^2 - 2*c*kx^2*vx^2 - 4*c*kx*ky*vx*vy - 4*c*kx*kz*vx*vz - 2*c*ky^2*vy^2 - 4*c*ky*kz*vy*vz - 2*c*kz^2*vz^2 + kx^2*vx^2 + 2*kx*ky*vx*vy + 2*kx*kz*vx*vz + ky^2*vy^2 + 2*ky*kz*vy*vz + kz^2*vz^2 + s^2*vy^2 + s^2*vz^2 + vx^2 ) * hk' + ( -2*kx*ky*vx*vy - 2*kx*kz*vx*vz + ky^2*vx^2 - ky^2*vy^2 - 2*ky*kz*vy*vz + kz^2*vx^2 - kz^2*vz^2 + vy^2 + vz^2 ) * hcs

/-- **The component along the axis is preserved.** -/
theorem axial_component_preserved (θ : ℝ) (a v : V3 ℝ) (ha : a.x ≠ 0 ∨ a.y ≠ 0 ∨ a.z ≠ 0) :
    dot (unit a) (rotateAround θ a v) = dot (unit a) v := by
  rw [rotate_eq_rodrigues θ a v ha]
  have hk := unit_dot_unit a ha
  generalize unit a = k at *
  generalize Real.cos θ = c at *
  generalize Real.sin θ = s at *
  obtain ⟨kx, ky, kz⟩ := k; obtain ⟨vx, vy, vz⟩ := v
  simp only [dot, rodK] at *
  have hk' : kx^2 + ky^2 + kz^2 = 1 := by nlinarith [hk]
  linear_combination ( -c*kx*vx - c*ky*vy - c*kz*vz + kx*vx + ky*vy + kz*vz ) * hk'

/-- the part of `v` perpendicular to the unit vector `k` -/
def perp (k v : V3 ℝ) : V3 ℝ := sub v (smul (dot k v) k)

/-- **The perpendicular component turns by exactly θ, right-handedly**: with `w` the perpendicular
    part of `v` and `w'` that of the rotated vector, `w'·w = |w|² cos θ` and `(w × w')·k = |w|² sin θ`. -/
theorem perp_turns_by_theta (θ : ℝ) (a v : V3 ℝ) (ha : a.x ≠ 0 ∨ a.y ≠ 0 ∨ a.z ≠ 0) :
    let k := unit a
    let w := perp k v
    let w' := perp k (rotateAround θ a v)
    dot w' w = dot w w * Real.cos θ ∧ dot (cross w w') k = dot w w * Real.sin θ := by
  intro k w w'
  have hax := axial_component_preserved θ a v ha
  have hk := unit_dot_unit a ha
  have hrot := rotate_eq_rodrigues θ a v ha
  simp only [w, w', k, perp, hax]
  rw [hrot]
  generalize unit a = k at *
  generalize Real.cos θ = c at *
  generalize Real.sin θ = s at *
  obtain ⟨kx, ky, kz⟩ := k; obtain ⟨vx, vy, vz⟩ := v
  simp only [dot, rodK, sub, smul, cross] at *
  have hk' : kx^2 + ky^2 + kz^2 = 1 := by nlinarith [hk]
  constructor
  · ring
  · linear_combination (-kx^2*s*vx^2 - 2*kx*ky*s*vx*vy - 2*kx*kz*s*vx*vz - ky^2*s*vy^2 - 2*ky*kz*s*vy*vz - kz^2*s*vz^2 + s*vx^2 + s*vy^2 + s*vz^2) * hk'

/-! ### Non-vacuity: the zero-component families, evaluated -/

/-- axis opposite to z (the family on which the unrepaired code rotated the wrong way):
    a quarter turn about −z takes x to −y -/
example : rotateAround (Real.pi / 2) (⟨0, 0, -1⟩ : V3 ℝ) ⟨1, 0, 0⟩ = ⟨0, -1, 0⟩ := by
  rw [rotate_eq_rodrigues _ _ _ (Or.inr (Or.inr (by norm_num)))]
  have hn : nrm (⟨0, 0, -1⟩ : V3 ℝ) = 1 := by unfold nrm; simp
  simp [rodK, unit, hn]

/-- a quarter turn about +z takes x to +y -/
example : rotateAround (Real.pi / 2) (⟨0, 0, 1⟩ : V3 ℝ) ⟨1, 0, 0⟩ = ⟨0, 1, 0⟩ := by
  rw [rotate_eq_rodrigues _ _ _ (Or.inr (Or.inr (by norm_num)))]
  have hn : nrm (⟨0, 0, 1⟩ : V3 ℝ) = 1 := by unfold nrm; simp
  simp [rodK, unit, hn]

end Propka.Rot
