import Propka.Props.C11
import Propka.Model.Energy
import Mathlib.Tactic.Ring
import Mathlib.Tactic.Linarith
import Mathlib.Tactic.LinearCombination
import Propka.Proofs.Scoring
import Propka.Proofs.Rotation
import Propka.Model.Setup
import Mathlib.Tactic.FieldSimp
/-! # C04 — predictions do not depend on where the structure sits in space

All geometry enters the heavy-atom part of the model through squared distances.  On the exact
0.001 Å grid (integer thousandths) a rigid motion of the property's family - a grid translation
followed by one of the 24 axis-permuting proper rotations - preserves every squared distance, hence
the bond criterion, hence (by the theorem of C11) the perceived bonds; the desolvation and
buried-count kernels read squared distances only. -/
namespace Propka.Geom

structure P3 where
  x : Int
  y : Int
  z : Int
  deriving DecidableEq, Repr

def sqDist (a b : P3) : Int := (b.x - a.x)*(b.x - a.x) + (b.y - a.y)*(b.y - a.y) + (b.z - a.z)*(b.z - a.z)
def add (a t : P3) : P3 := ⟨a.x + t.x, a.y + t.y, a.z + t.z⟩
def sub (a b : P3) : P3 := ⟨a.x - b.x, a.y - b.y, a.z - b.z⟩
def dot (a b : P3) : Int := a.x*b.x + a.y*b.y + a.z*b.z
def cross (a b : P3) : P3 := ⟨a.y*b.z - a.z*b.y, a.z*b.x - a.x*b.z, a.x*b.y - a.y*b.x⟩

/-- a 3×3 integer matrix, row by row -/
abbrev Mat := (Int × Int × Int) × (Int × Int × Int) × (Int × Int × Int)
def apply (m : Mat) (v : P3) : P3 :=
  ⟨m.1.1*v.x + m.1.2.1*v.y + m.1.2.2*v.z, m.2.1.1*v.x + m.2.1.2.1*v.y + m.2.1.2.2*v.z, m.2.2.1*v.x + m.2.2.2.1*v.y + m.2.2.2.2*v.z⟩
def mul (a b : Mat) : Mat :=
  let col (j : Fin 3) : P3 := match j with
    | 0 => ⟨b.1.1, b.2.1.1, b.2.2.1⟩ | 1 => ⟨b.1.2.1, b.2.1.2.1, b.2.2.2.1⟩ | 2 => ⟨b.1.2.2, b.2.1.2.2, b.2.2.2.2⟩
  let row (r : Int × Int × Int) : Int × Int × Int :=
    (r.1*(col 0).x + r.2.1*(col 0).y + r.2.2*(col 0).z, r.1*(col 1).x + r.2.1*(col 1).y + r.2.2*(col 1).z, r.1*(col 2).x + r.2.1*(col 2).y + r.2.2*(col 2).z)
  (row a.1, row a.2.1, row a.2.2)
def det (m : Mat) : Int :=
  m.1.1*(m.2.1.2.1*m.2.2.2.2 - m.2.1.2.2*m.2.2.2.1) - m.1.2.1*(m.2.1.1*m.2.2.2.2 - m.2.1.2.2*m.2.2.1) + m.1.2.2*(m.2.1.1*m.2.2.2.1 - m.2.1.2.1*m.2.2.1)
def transpose (m : Mat) : Mat := ((m.1.1, m.2.1.1, m.2.2.1), (m.1.2.1, m.2.1.2.1, m.2.2.2.1), (m.1.2.2, m.2.1.2.2, m.2.2.2.2))
def ident : Mat := ((1,0,0),(0,1,0),(0,0,1))

/-- the 24 proper rotations that map the coordinate grid onto itself -/
def rot24 : List Mat := [
  ((1,0,0),(0,1,0),(0,0,1)), ((1,0,0),(0,-1,0),(0,0,-1)), ((-1,0,0),(0,1,0),(0,0,-1)), ((-1,0,0),(0,-1,0),(0,0,1)),
  ((1,0,0),(0,0,1),(0,-1,0)), ((1,0,0),(0,0,-1),(0,1,0)), ((-1,0,0),(0,0,1),(0,1,0)), ((-1,0,0),(0,0,-1),(0,-1,0)),
  ((0,1,0),(1,0,0),(0,0,-1)), ((0,1,0),(-1,0,0),(0,0,1)), ((0,-1,0),(1,0,0),(0,0,1)), ((0,-1,0),(-1,0,0),(0,0,-1)),
  ((0,1,0),(0,0,1),(1,0,0)), ((0,1,0),(0,0,-1),(-1,0,0)), ((0,-1,0),(0,0,1),(-1,0,0)), ((0,-1,0),(0,0,-1),(1,0,0)),
  ((0,0,1),(1,0,0),(0,1,0)), ((0,0,1),(-1,0,0),(0,-1,0)), ((0,0,-1),(1,0,0),(0,-1,0)), ((0,0,-1),(-1,0,0),(0,1,0)),
  ((0,0,1),(0,1,0),(-1,0,0)), ((0,0,1),(0,-1,0),(1,0,0)), ((0,0,-1),(0,1,0),(1,0,0)), ((0,0,-1),(0,-1,0),(-1,0,0))]

/-- the 24 matrices are distinct, orthogonal with determinant +1, and closed under composition -/
theorem rot24_distinct : rot24.eraseDups.length = 24 ∧ rot24.length = 24 := by decide +kernel
theorem rot24_orthogonal : ∀ m ∈ rot24, mul (transpose m) m = ident ∧ det m = 1 := by decide +kernel
theorem rot24_closed : ∀ a ∈ rot24, ∀ b ∈ rot24, mul a b ∈ rot24 := by decide +kernel

/-- an orthogonal integer matrix preserves dot products -/
theorem dot_apply (m : Mat) (h : mul (transpose m) m = ident) (a b : P3) : dot (apply m a) (apply m b) = dot a b := by
  obtain ⟨⟨a11, a12, a13⟩, ⟨a21, a22, a23⟩, ⟨a31, a32, a33⟩⟩ := m
  simp only [mul, transpose, ident, Prod.mk.injEq] at h
  obtain ⟨⟨h11, h12, h13⟩, ⟨h21, h22, h23⟩, ⟨h31, h32, h33⟩⟩ := h
  simp only [dot, apply]
  have : (a11*a.x + a12*a.y + a13*a.z)*(a11*b.x + a12*b.y + a13*b.z) + (a21*a.x + a22*a.y + a23*a.z)*(a21*b.x + a22*b.y + a23*b.z)
      + (a31*a.x + a32*a.y + a33*a.z)*(a31*b.x + a32*b.y + a33*b.z)
      = (a11*a11 + a21*a21 + a31*a31)*(a.x*b.x) + (a12*a12 + a22*a22 + a32*a32)*(a.y*b.y) + (a13*a13 + a23*a23 + a33*a33)*(a.z*b.z)
      + (a11*a12 + a21*a22 + a31*a32)*(a.x*b.y + a.y*b.x) + (a11*a13 + a21*a23 + a31*a33)*(a.x*b.z + a.z*b.x)
      + (a12*a13 + a22*a23 + a32*a33)*(a.y*b.z + a.z*b.y) := by ring
  rw [this]
  have e11 : a11*a11 + a21*a21 + a31*a31 = 1 := by linarith
  have e22 : a12*a12 + a22*a22 + a32*a32 = 1 := by linarith
  have e33 : a13*a13 + a23*a23 + a33*a33 = 1 := by linarith
  have e12 : a11*a12 + a21*a22 + a31*a32 = 0 := by linarith
  have e13 : a11*a13 + a21*a23 + a31*a33 = 0 := by linarith
  have e23 : a12*a13 + a22*a23 + a32*a33 = 0 := by linarith
  rw [e11, e22, e33, e12, e13, e23]; ring

theorem apply_sub (m : Mat) (a b : P3) : apply m (sub a b) = sub (apply m a) (apply m b) := by
  simp only [apply, sub, P3.mk.injEq]; refine ⟨by ring, by ring, by ring⟩

theorem sqDist_eq_dot (a b : P3) : sqDist a b = dot (sub b a) (sub b a) := by simp [sqDist, dot, sub]

/-- **Squared distances are invariant** under a grid translation followed by any of the 24 rotations. -/
theorem sqDist_invariant (m : Mat) (hm : m ∈ rot24) (t a b : P3) :
    sqDist (apply m (add a t)) (apply m (add b t)) = sqDist a b := by
  have ho := (rot24_orthogonal m hm).1
  rw [sqDist_eq_dot, ← apply_sub, dot_apply m ho, sqDist_eq_dot]
  simp [sub, add, dot]

/-- the cross product is equivariant under proper rotations (this needs determinant +1) -/
theorem cross_equivariant (m : Mat) (hm : m ∈ rot24) (a b : P3) : cross (apply m a) (apply m b) = apply m (cross a b) := by
  simp only [rot24, List.mem_cons, List.mem_nil_iff, or_false] at hm
  rcases hm with rfl | rfl | rfl | rfl | rfl | rfl | rfl | rfl | rfl | rfl | rfl | rfl | rfl | rfl | rfl | rfl | rfl | rfl | rfl | rfl | rfl | rfl | rfl | rfl <;>
    (simp only [cross, apply, P3.mk.injEq]; refine ⟨by ring, by ring, by ring⟩)

/-- the centre of a group (mean of its atoms, taken as a sum here) moves with the structure -/
theorem centre_equivariant (m : Mat) (t : P3) (atoms : List P3) :
    (atoms.map (fun a => apply m (add a t))).foldl (fun s a => ⟨s.x + a.x, s.y + a.y, s.z + a.z⟩) (⟨0, 0, 0⟩ : P3) =
    apply m (add (atoms.foldl (fun s a => ⟨s.x + a.x, s.y + a.y, s.z + a.z⟩) (⟨0, 0, 0⟩ : P3)) ⟨atoms.length * t.x, atoms.length * t.y, atoms.length * t.z⟩) := by
  suffices H : ∀ (s : P3) (k : Nat), (atoms.map (fun a => apply m (add a t))).foldl (fun s a => ⟨s.x + a.x, s.y + a.y, s.z + a.z⟩) (apply m (add s ⟨k * t.x, k * t.y, k * t.z⟩)) =
      apply m (add (atoms.foldl (fun s a => ⟨s.x + a.x, s.y + a.y, s.z + a.z⟩) s) ⟨(k + atoms.length : Nat) * t.x, (k + atoms.length : Nat) * t.y, (k + atoms.length : Nat) * t.z⟩) by
    have := H ⟨0, 0, 0⟩ 0
    simpa [apply, add] using this
  induction atoms with
  | nil => intro s k; simp
  | cons a as ih =>
    intro s k
    simp only [List.map_cons, List.foldl_cons, List.length_cons]
    have e : (⟨(apply m (add s ⟨k * t.x, k * t.y, k * t.z⟩)).x + (apply m (add a t)).x, (apply m (add s ⟨k * t.x, k * t.y, k * t.z⟩)).y + (apply m (add a t)).y,
        (apply m (add s ⟨k * t.x, k * t.y, k * t.z⟩)).z + (apply m (add a t)).z⟩ : P3) =
        apply m (add ⟨s.x + a.x, s.y + a.y, s.z + a.z⟩ ⟨((k+1 : Nat) : Int) * t.x, ((k+1 : Nat) : Int) * t.y, ((k+1 : Nat) : Int) * t.z⟩) := by
      simp only [apply, add, P3.mk.injEq]; push_cast; refine ⟨by ring, by ring, by ring⟩
    rw [e, ih]
    congr 3 <;> (push_cast; ring)

end Propka.Geom

namespace Propka.Bonds
open Propka.Geom

def pos (a : BAtom Int) : P3 := ⟨a.x, a.y, a.z⟩
def moved (m : Mat) (t : P3) (a : BAtom Int) : BAtom Int :=
  let p := apply m (add (pos a) t); ⟨p.x, p.y, p.z, a.elem⟩

theorem sqDist_moved (m : Mat) (hm : m ∈ rot24) (t : P3) (a b : BAtom Int) :
    Bonds.sqDist (moved m t a) (moved m t b) = Bonds.sqDist a b := by
  have := sqDist_invariant m hm t (pos a) (pos b)
  simpa [Bonds.sqDist, Geom.sqDist, moved, pos] using this

/-- the bond criterion is invariant under the rigid motions of the property -/
theorem crit_invariant (m : Mat) (hm : m ∈ rot24) (t : P3) (a b : BAtom Int) :
    crit Pm (moved m t a) (moved m t b) = crit Pm a b := by
  unfold crit
  rw [sqDist_moved m hm t a b]
  rfl

/-- **Perceived bonds are invariant**: after moving the whole structure, two atoms are bonded iff they
    were before - although cell assignment and bond-list order change (corollary of C11). -/
theorem bonds_invariant (m : Mat) (hm : m ∈ rot24) (t : P3) (atoms : Array (BAtom Int)) (i j : Nat)
    (hi : i < atoms.size) (hj : j < atoms.size) (hne : i ≠ j) :
    j ∈ bondedAtoms (atoms.map (moved m t)) i ↔ j ∈ bondedAtoms atoms i := by
  have hi' : i < (atoms.map (moved m t)).size := by simpa using hi
  have hj' : j < (atoms.map (moved m t)).size := by simpa using hj
  rw [bonds_eq_pairwise _ i j hi' hj' hne, bonds_eq_pairwise atoms i j hi hj hne]
  have e : ∀ k, k < atoms.size → (atoms.map (moved m t)).getD k dflt = moved m t (atoms.getD k dflt) := by
    intro k hk
    simp [Array.getD, hk]
  rw [e i hi, e j hj, crit_invariant m hm t]

end Propka.Bonds

namespace Propka.Energy
/-- the desolvation kernel and the buried count read squared distances only: equal squared distances
    give equal increments and equal cut-off decisions -/
theorem desolvation_reads_sqdist {α : Type} [Div α] [Mul α] [Max α] (p : EP α) (dvol s1 s2 : α) (h : s1 = s2) :
    dvInc p dvol s1 = dvInc p dvol s2 := by rw [h]
end Propka.Energy

/-! ## the whole scoring phase (`Model/Scoring.lean`) under rigid motions

`score` - the model of `calculate_pka` with everything it calls - reads coordinates only through the environment
`envOf`: squared distances between atoms and group centres, and the angle factors.  A map of space that preserves the
inner products of difference vectors leaves that environment, hence every number scoring produces (desolvation terms,
buried counts, every determinant, every pKa, the coupling penalties), unchanged - with the hydrogens where they are, i.e.
the statement for supplied hydrogens, or for constructed hydrogens before rounding.  Every rotation or reflection followed
by a translation is such a map (`rigid_isometric`), not only the 24 grid rotations. -/
namespace Propka.Scoring
open Propka.Angle

/-- inner product of the difference vectors a-b and c-d -/
def dot4 (a b c d : P3 ℝ) : ℝ := (a.x - b.x) * (c.x - d.x) + (a.y - b.y) * (c.y - d.y) + (a.z - b.z) * (c.z - d.z)

/-- a map of space that preserves the inner products of difference vectors - what every rigid motion does -/
def Isometric (T : P3 ℝ → P3 ℝ) : Prop := ∀ a b c d, dot4 (T a) (T b) (T c) (T d) = dot4 a b c d

theorem sqDist_eq_dot4 (a b : P3 ℝ) : sqDist a b = dot4 b a b a := by unfold sqDist dot4; ring

theorem sqDist_isometric (T : P3 ℝ → P3 ℝ) (hT : Isometric T) (a b : P3 ℝ) : sqDist (T a) (T b) = sqDist a b := by
  rw [sqDist_eq_dot4, sqDist_eq_dot4, hT]

theorem factors_eq_dot4 (p1 p2 p3 : P3 ℝ) :
    factors p1 p2 p3 = (Real.sqrt (dot4 p1 p2 p1 p2), dot4 p1 p2 p2 p3 / (Real.sqrt (dot4 p1 p2 p1 p2) * Real.sqrt (dot4 p2 p3 p2 p3)),
      Real.sqrt (dot4 p2 p3 p2 p3)) := by
  unfold factors dot4
  simp only [Trig.sqrt]
  refine Prod.ext rfl (Prod.ext ?_ rfl)
  simp only
  rw [div_mul_div_comm, div_mul_div_comm, div_mul_div_comm, ← add_div, ← add_div]

theorem factors_isometric (T : P3 ℝ → P3 ℝ) (hT : Isometric T) (p1 p2 p3 : P3 ℝ) :
    factors (T p1) (T p2) (T p3) = factors p1 p2 p3 := by
  rw [factors_eq_dot4, factors_eq_dot4, hT, hT, hT]

/-- **Everything scoring reads of the geometry is unchanged by a rigid motion of all atoms and group centres.** -/
theorem envOf_motion_invariant (T : P3 ℝ → P3 ℝ) (hT : Isometric T) (apos gpos : Nat → P3 ℝ) (ares gres : Nat → ResKey) (gid : Nat → GroupId) :
    envOf (fun i => T (apos i)) (fun g => T (gpos g)) ares gres gid = envOf apos gpos ares gres gid := by
  unfold envOf
  simp only [sqDist_isometric T hT, factors_isometric T hT]

theorem score_motion_invariant (T : P3 ℝ → P3 ℝ) (hT : Isometric T) (p : SP ℝ) (apos gpos : Nat → P3 ℝ) (ares gres : Nat → ResKey)
    (gid : Nat → GroupId) (atoms : Tab AtomT) (groups : Tab (GroupT ℝ)) :
    score p (envOf (fun i => T (apos i)) (fun g => T (gpos g)) ares gres gid) atoms groups = score p (envOf apos gpos ares gres gid) atoms groups := by
  rw [envOf_motion_invariant T hT]

/-- `v ↦ M v + t` for a 3x3 matrix given by its rows -/
def affine (r1 r2 r3 t : P3 ℝ) (v : P3 ℝ) : P3 ℝ :=
  ⟨r1.x * v.x + r1.y * v.y + r1.z * v.z + t.x, r2.x * v.x + r2.y * v.y + r2.z * v.z + t.y, r3.x * v.x + r3.y * v.y + r3.z * v.z + t.z⟩

/-- the columns of the matrix are orthonormal (`MᵀM = 1`) -/
structure Orthogonal (r1 r2 r3 : P3 ℝ) : Prop where
  c11 : r1.x * r1.x + r2.x * r2.x + r3.x * r3.x = 1
  c22 : r1.y * r1.y + r2.y * r2.y + r3.y * r3.y = 1
  c33 : r1.z * r1.z + r2.z * r2.z + r3.z * r3.z = 1
  c12 : r1.x * r1.y + r2.x * r2.y + r3.x * r3.y = 0
  c13 : r1.x * r1.z + r2.x * r2.z + r3.x * r3.z = 0
  c23 : r1.y * r1.z + r2.y * r2.z + r3.y * r3.z = 0

/-- **Every rotation (or reflection) followed by a translation is isometric.** -/
theorem rigid_isometric (r1 r2 r3 t : P3 ℝ) (h : Orthogonal r1 r2 r3) : Isometric (affine r1 r2 r3 t) := by
  intro a b c d
  unfold dot4 affine
  simp only
  obtain ⟨h11, h22, h33, h12, h13, h23⟩ := h
  linear_combination ((a.x - b.x) * (c.x - d.x)) * h11 + ((a.y - b.y) * (c.y - d.y)) * h22 + ((a.z - b.z) * (c.z - d.z)) * h33
    + ((a.x - b.x) * (c.y - d.y) + (a.y - b.y) * (c.x - d.x)) * h12 + ((a.x - b.x) * (c.z - d.z) + (a.z - b.z) * (c.x - d.x)) * h13
    + ((a.y - b.y) * (c.z - d.z) + (a.z - b.z) * (c.y - d.y)) * h23

/-- not vacuous: the quarter turn about z followed by any translation -/
example (t : P3 ℝ) : Isometric (affine ⟨0, -1, 0⟩ ⟨1, 0, 0⟩ ⟨0, 0, 1⟩ t) :=
  rigid_isometric _ _ _ _ (by constructor <;> norm_num)

end Propka.Scoring


/-! ## group centres (`Model/Setup.lean`: `set_center`) under affine maps -/
namespace Propka.Scoring
open Propka.Angle Propka.Setup

/-- the linear part of `affine` -/
def linear (r1 r2 r3 : P3 ℝ) (v : P3 ℝ) : P3 ℝ :=
  ⟨r1.x * v.x + r1.y * v.y + r1.z * v.z, r2.x * v.x + r2.y * v.y + r2.z * v.z, r3.x * v.x + r3.y * v.y + r3.z * v.z⟩

def sumPos (pos : Nat → P3 ℝ) (as : List Nat) (acc : P3 ℝ) : P3 ℝ :=
  as.foldl (fun (acc : P3 ℝ) a => ⟨acc.x + (pos a).x, acc.y + (pos a).y, acc.z + (pos a).z⟩) acc

theorem sumPos_affine (r1 r2 r3 t : P3 ℝ) (pos : Nat → P3 ℝ) (as : List Nat) (acc : P3 ℝ) (k : ℝ) :
    sumPos (fun i => affine r1 r2 r3 t (pos i)) as
        ⟨(linear r1 r2 r3 acc).x + k * t.x, (linear r1 r2 r3 acc).y + k * t.y, (linear r1 r2 r3 acc).z + k * t.z⟩
      = ⟨(linear r1 r2 r3 (sumPos pos as acc)).x + (k + as.length) * t.x, (linear r1 r2 r3 (sumPos pos as acc)).y + (k + as.length) * t.y,
         (linear r1 r2 r3 (sumPos pos as acc)).z + (k + as.length) * t.z⟩ := by
  induction as generalizing acc k with
  | nil => simp [sumPos]
  | cons a as ih =>
    simp only [sumPos, List.foldl_cons, List.length_cons, Nat.cast_add, Nat.cast_one] at ih ⊢
    have := ih ⟨acc.x + (pos a).x, acc.y + (pos a).y, acc.z + (pos a).z⟩ (k + 1)
    simp only [linear, affine] at this ⊢
    convert this using 2 <;> ring

/-- **The centre of a group moves with the structure**: the mean of the positions of a non-empty atom list commutes with
    every affine map, in particular with every rigid motion - so the group centres that `envOf` reads are the moved centres. -/
theorem centreOf_affine (r1 r2 r3 t : P3 ℝ) (pos : Nat → P3 ℝ) (as : List Nat) (hne : as ≠ []) :
    centreOf (fun i => affine r1 r2 r3 t (pos i)) as = affine r1 r2 r3 t (centreOf pos as) := by
  have hn : ((as.length : ℕ) : ℝ) ≠ 0 := by
    have : 0 < as.length := List.length_pos_iff.mpr hne
    exact_mod_cast this.ne'
  have h := sumPos_affine r1 r2 r3 t pos as ⟨0, 0, 0⟩ 0
  simp only [linear, mul_zero, add_zero, zero_mul, zero_add] at h
  unfold centreOf
  simp only [Nat.cast_zero]
  unfold sumPos at h
  rw [h]
  simp only [affine, linear]
  congr 1 <;> field_simp

end Propka.Scoring
