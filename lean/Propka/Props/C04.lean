import Propka.Props.C11
import Propka.Model.Energy
import Mathlib.Tactic.Ring
import Mathlib.Tactic.Linarith
/-! # C04 — predictions do not depend on where the structure sits in space

All geometry enters the heavy-atom part of the model through squared distances.  On the exact
0.001 Å grid (integer thousandths) a rigid motion of the property's family - a grid translation
followed by one of the 24 axis-permuting proper rotations - preserves every squared distance, hence
the bond criterion, hence (by the theorem of C11) the perceived bonds; the desolvation and
buried-count kernels read squared distances only. -/
namespace Propka.Geom

structure P3 where
  x : Int
  y : Int
  z : Int
  deriving DecidableEq, Repr

def sqDist (a b : P3) : Int := (b.x - a.x)*(b.x - a.x) + (b.y - a.y)*(b.y - a.y) + (b.z - a.z)*(b.z - a.z)
def add (a t : P3) : P3 := ⟨a.x + t.x, a.y + t.y, a.z + t.z⟩
def sub (a b : P3) : P3 := ⟨a.x - b.x, a.y - b.y, a.z - b.z⟩
def dot (a b : P3) : Int := a.x*b.x + a.y*b.y + a.z*b.z
def cross (a b : P3) : P3 := ⟨a.y*b.z - a.z*b.y, a.z*b.x - a.x*b.z, a.x*b.y - a.y*b.x⟩

/-- a 3×3 integer matrix, row by row -/
abbrev Mat := (Int × Int × Int) × (Int × Int × Int) × (Int × Int × Int)
def apply (m : Mat) (v : P3) : P3 :=
  ⟨m.1.1*v.x + m.1.2.1*v.y + m.1.2.2*v.z, m.2.1.1*v.x + m.2.1.2.1*v.y + m.2.1.2.2*v.z, m.2.2.1*v.x + m.2.2.2.1*v.y + m.2.2.2.2*v.z⟩
def mul (a b : Mat) : Mat :=
  let col (j : Fin 3) : P3 := match j with
    | 0 => ⟨b.1.1, b.2.1.1, b.2.2.1⟩ | 1 => ⟨b.1.2.1, b.2.1.2.1, b.2.2.2.1⟩ | 2 => ⟨b.1.2.2, b.2.1.2.2, b.2.2.2.2⟩
  let row (r : Int × Int × Int) : Int × Int × Int :=
    (r.1*(col 0).x + r.2.1*(col 0).y + r.2.2*(col 0).z, r.1*(col 1).x + r.2.1*(col 1).y + r.2.2*(col 1).z, r.1*(col 2).x + r.2.1*(col 2).y + r.2.2*(col 2).z)
  (row a.1, row a.2.1, row a.2.2)
def det (m : Mat) : Int :=
  m.1.1*(m.2.1.2.1*m.2.2.2.2 - m.2.1.2.2*m.2.2.2.1) - m.1.2.1*(m.2.1.1*m.2.2.2.2 - m.2.1.2.2*m.2.2.1) + m.1.2.2*(m.2.1.1*m.2.2.2.1 - m.2.1.2.1*m.2.2.1)
def transpose (m : Mat) : Mat := ((m.1.1, m.2.1.1, m.2.2.1), (m.1.2.1, m.2.1.2.1, m.2.2.2.1), (m.1.2.2, m.2.1.2.2, m.2.2.2.2))
def ident : Mat := ((1,0,0),(0,1,0),(0,0,1))

/-- the 24 proper rotations that map the coordinate grid onto itself -/
def rot24 : List Mat := [
  ((1,0,0),(0,1,0),(0,0,1)), ((1,0,0),(0,-1,0),(0,0,-1)), ((-1,0,0),(0,1,0),(0,0,-1)), ((-1,0,0),(0,-1,0),(0,0,1)),
  ((1,0,0),(0,0,1),(0,-1,0)), ((1,0,0),(0,0,-1),(0,1,0)), ((-1,0,0),(0,0,1),(0,1,0)), ((-1,0,0),(0,0,-1),(0,-1,0)),
  ((0,1,0),(1,0,0),(0,0,-1)), ((0,1,0),(-1,0,0),(0,0,1)), ((0,-1,0),(1,0,0),(0,0,1)), ((0,-1,0),(-1,0,0),(0,0,-1)),
  ((0,1,0),(0,0,1),(1,0,0)), ((0,1,0),(0,0,-1),(-1,0,0)), ((0,-1,0),(0,0,1),(-1,0,0)), ((0,-1,0),(0,0,-1),(1,0,0)),
  ((0,0,1),(1,0,0),(0,1,0)), ((0,0,1),(-1,0,0),(0,-1,0)), ((0,0,-1),(1,0,0),(0,-1,0)), ((0,0,-1),(-1,0,0),(0,1,0)),
  ((0,0,1),(0,1,0),(-1,0,0)), ((0,0,1),(0,-1,0),(1,0,0)), ((0,0,-1),(0,1,0),(1,0,0)), ((0,0,-1),(0,-1,0),(-1,0,0))]

/-- the 24 matrices are distinct, orthogonal with determinant +1, and closed under composition -/
theorem rot24_distinct : rot24.eraseDups.length = 24 ∧ rot24.length = 24 := by decide +kernel
theorem rot24_orthogonal : ∀ m ∈ rot24, mul (transpose m) m = ident ∧ det m = 1 := by decide +kernel
theorem rot24_closed : ∀ a ∈ rot24, ∀ b ∈ rot24, mul a b ∈ rot24 := by decide +kernel

/-- an orthogonal integer matrix preserves dot products -/
theorem dot_apply (m : Mat) (h : mul (transpose m) m = ident) (a b : P3) : dot (apply m a) (apply m b) = dot a b := by
  obtain ⟨⟨a11, a12, a13⟩, ⟨a21, a22, a23⟩, ⟨a31, a32, a33⟩⟩ := m
  simp only [mul, transpose, ident, Prod.mk.injEq] at h
  obtain ⟨⟨h11, h12, h13⟩, ⟨h21, h22, h23⟩, ⟨h31, h32, h33⟩⟩ := h
  simp only [dot, apply]
  have : (a11*a.x + a12*a.y + a13*a.z)*(a11*b.x + a12*b.y + a13*b.z) + (a21*a.x + a22*a.y + a23*a.z)*(a21*b.x + a22*b.y + a23*b.z)
      + (a31*a.x + a32*a.y + a33*a.z)*(a31*b.x + a32*b.y + a33*b.z)
      = (a11*a11 + a21*a21 + a31*a31)*(a.x*b.x) + (a12*a12 + a22*a22 + a32*a32)*(a.y*b.y) + (a13*a13 + a23*a23 + a33*a33)*(a.z*b.z)
      + (a11*a12 + a21*a22 + a31*a32)*(a.x*b.y + a.y*b.x) + (a11*a13 + a21*a23 + a31*a33)*(a.x*b.z + a.z*b.x)
      + (a12*a13 + a22*a23 + a32*a33)*(a.y*b.z + a.z*b.y) := by ring
  rw [this]
  have e11 : a11*a11 + a21*a21 + a31*a31 = 1 := by linarith
  have e22 : a12*a12 + a22*a22 + a32*a32 = 1 := by linarith
  have e33 : a13*a13 + a23*a23 + a33*a33 = 1 := by linarith
  have e12 : a11*a12 + a21*a22 + a31*a32 = 0 := by linarith
  have e13 : a11*a13 + a21*a23 + a31*a33 = 0 := by linarith
  have e23 : a12*a13 + a22*a23 + a32*a33 = 0 := by linarith
  rw [e11, e22, e33, e12, e13, e23]; ring

theorem apply_sub (m : Mat) (a b : P3) : apply m (sub a b) = sub (apply m a) (apply m b) := by
  simp only [apply, sub, P3.mk.injEq]; refine ⟨by ring, by ring, by ring⟩

theorem sqDist_eq_dot (a b : P3) : sqDist a b = dot (sub b a) (sub b a) := by simp [sqDist, dot, sub]

/-- **Squared distances are invariant** under a grid translation followed by any of the 24 rotations. -/
theorem sqDist_invariant (m : Mat) (hm : m ∈ rot24) (t a b : P3) :
    sqDist (apply m (add a t)) (apply m (add b t)) = sqDist a b := by
  have ho := (rot24_orthogonal m hm).1
  rw [sqDist_eq_dot, ← apply_sub, dot_apply m ho, sqDist_eq_dot]
  simp [sub, add, dot]

/-- the cross product is equivariant under proper rotations (this needs determinant +1) -/
theorem cross_equivariant (m : Mat) (hm : m ∈ rot24) (a b : P3) : cross (apply m a) (apply m b) = apply m (cross a b) := by
  simp only [rot24, List.mem_cons, List.mem_nil_iff, or_false] at hm
  rcases hm with rfl | rfl | rfl | rfl | rfl | rfl | rfl | rfl | rfl | rfl | rfl | rfl | rfl | rfl | rfl | rfl | rfl | rfl | rfl | rfl | rfl | rfl | rfl | rfl <;>
    (simp only [cross, apply, P3.mk.injEq]; refine ⟨by ring, by ring, by ring⟩)

/-- the centre of a group (mean of its atoms, taken as a sum here) moves with the structure -/
theorem centre_equivariant (m : Mat) (t : P3) (atoms : List P3) :
    (atoms.map (fun a => apply m (add a t))).foldl (fun s a => ⟨s.x + a.x, s.y + a.y, s.z + a.z⟩) (⟨0, 0, 0⟩ : P3) =
    apply m (add (atoms.foldl (fun s a => ⟨s.x + a.x, s.y + a.y, s.z + a.z⟩) (⟨0, 0, 0⟩ : P3)) ⟨atoms.length * t.x, atoms.length * t.y, atoms.length * t.z⟩) := by
  suffices H : ∀ (s : P3) (k : Nat), (atoms.map (fun a => apply m (add a t))).foldl (fun s a => ⟨s.x + a.x, s.y + a.y, s.z + a.z⟩) (apply m (add s ⟨k * t.x, k * t.y, k * t.z⟩)) =
      apply m (add (atoms.foldl (fun s a => ⟨s.x + a.x, s.y + a.y, s.z + a.z⟩) s) ⟨(k + atoms.length : Nat) * t.x, (k + atoms.length : Nat) * t.y, (k + atoms.length : Nat) * t.z⟩) by
    have := H ⟨0, 0, 0⟩ 0
    simpa [apply, add] using this
  induction atoms with
  | nil => intro s k; simp
  | cons a as ih =>
    intro s k
    simp only [List.map_cons, List.foldl_cons, List.length_cons]
    have e : (⟨(apply m (add s ⟨k * t.x, k * t.y, k * t.z⟩)).x + (apply m (add a t)).x, (apply m (add s ⟨k * t.x, k * t.y, k * t.z⟩)).y + (apply m (add a t)).y,
        (apply m (add s ⟨k * t.x, k * t.y, k * t.z⟩)).z + (apply m (add a t)).z⟩ : P3) =
        apply m (add ⟨s.x + a.x, s.y + a.y, s.z + a.z⟩ ⟨((k+1 : Nat) : Int) * t.x, ((k+1 : Nat) : Int) * t.y, ((k+1 : Nat) : Int) * t.z⟩) := by
      simp only [apply, add, P3.mk.injEq]; push_cast; refine ⟨by ring, by ring, by ring⟩
    rw [e, ih]
    congr 3 <;> (push_cast; ring)

end Propka.Geom

namespace Propka.Bonds
open Propka.Geom

def pos (a : BAtom Int) : P3 := ⟨a.x, a.y, a.z⟩
def moved (m : Mat) (t : P3) (a : BAtom Int) : BAtom Int :=
  let p := apply m (add (pos a) t); ⟨p.x, p.y, p.z, a.elem⟩

theorem sqDist_moved (m : Mat) (hm : m ∈ rot24) (t : P3) (a b : BAtom Int) :
    Bonds.sqDist (moved m t a) (moved m t b) = Bonds.sqDist a b := by
  have := sqDist_invariant m hm t (pos a) (pos b)
  simpa [Bonds.sqDist, Geom.sqDist, moved, pos] using this

/-- the bond criterion is invariant under the rigid motions of the property -/
theorem crit_invariant (m : Mat) (hm : m ∈ rot24) (t : P3) (a b : BAtom Int) :
    crit Pm (moved m t a) (moved m t b) = crit Pm a b := by
  unfold crit
  rw [sqDist_moved m hm t a b]
  rfl

/-- **Perceived bonds are invariant**: after moving the whole structure, two atoms are bonded iff they
    were before - although cell assignment and bond-list order change (corollary of C11). -/
theorem bonds_invariant (m : Mat) (hm : m ∈ rot24) (t : P3) (atoms : Array (BAtom Int)) (i j : Nat)
    (hi : i < atoms.size) (hj : j < atoms.size) (hne : i ≠ j) :
    j ∈ bondedAtoms (atoms.map (moved m t)) i ↔ j ∈ bondedAtoms atoms i := by
  have hi' : i < (atoms.map (moved m t)).size := by simpa using hi
  have hj' : j < (atoms.map (moved m t)).size := by simpa using hj
  rw [bonds_eq_pairwise _ i j hi' hj' hne, bonds_eq_pairwise atoms i j hi hj hne]
  have e : ∀ k, k < atoms.size → (atoms.map (moved m t)).getD k dflt = moved m t (atoms.getD k dflt) := by
    intro k hk
    simp [Array.getD, hk]
  rw [e i hi, e j hj, crit_invariant m hm t]

end Propka.Bonds

namespace Propka.Energy
/-- the desolvation kernel and the buried count read squared distances only: equal squared distances
    give equal increments and equal cut-off decisions -/
theorem desolvation_reads_sqdist {α : Type} [Div α] [Mul α] [Max α] (p : EP α) (dvol s1 s2 : α) (h : s1 = s2) :
    dvInc p dvol s1 = dvInc p dvol s2 := by rw [h]
end Propka.Energy
