import Propka.Props.C13
/-! # C07 — content the model does not use has no effect on any result

Theorems about the concrete line parser (`get_atom_lines_from_pdb` + `Atom.set_properties`), the
only place where the text of the file is read. -/
namespace Propka.Pdb
open Propka.Py

/-- a line that the parser passes over: neither ATOM/HETATM/MODEL/TER, or an ATOM/HETATM record of a
    residue configured as ignorable (water etc.) -/
def unused (o : Opts) (l : Str) : Bool :=
  (kindOf l == .other) || (isAtomLine l && decide (16 < l.length) && o.ignore.contains (str (slice l 17 20)))

theorem stepLine_unused (o : Opts) (s : PState) (l : Str) (h : unused o l = true) : stepLine o s l = pure (s, none) := by
  unfold unused at h
  simp only [Bool.or_eq_true, Bool.and_eq_true, beq_iff_eq, decide_eq_true_eq] at h
  have hkind : (classify o l).kind = kindOf l := rfl
  rcases h with hk | ⟨⟨ha, hlen⟩, hign⟩
  · have hak : atomKind (classify o l) = false := by unfold atomKind; simp [hkind, hk]
    have hstep : step s.st (classify o l) = (s.st, false) := step_other _ _ (Or.inl (hkind.trans hk))
    have hcheck : lineCheck o l = .ok () := by unfold lineCheck; simp [hkind, hk, hak]
    unfold stepLine
    simp [hcheck, hkind, hk, hak, hstep, pure, Except.pure]
  · unfold isAtomLine at ha
    simp only [Bool.or_eq_true, decide_eq_true_eq] at ha
    have hak : atomKind (classify o l) = true := by unfold atomKind; rcases ha with ha | ha <;> simp [hkind, ha]
    have hskip : (classify o l).skip = true := by
      simp only [classify, isSkipped, hign, Bool.true_or, Bool.and_true]
      rcases ha with ha | ha <;> simp [ha]
    have hnm : ((classify o l).kind == Kind.model) = false := by rcases ha with ha | ha <;> simp [hkind, ha]
    have h16 : decide (l.length ≤ 16) = false := by simp; omega
    have hstep : step s.st (classify o l) = (s.st, false) := by
      unfold step
      rcases ha with ha | ha
      · simp [hkind, ha, hskip]
      · simp [hkind, ha]
    have hign' : str (slice l 17 20) ∈ o.ignore := by simpa using hign
    have hcheck : lineCheck o l = .ok () := by unfold lineCheck; simp [hnm, hak, h16, hign']
    unfold stepLine
    simp [hcheck, hnm, hak, hskip, hstep, pure, Except.pure]

/-- **Water and the other ignorable residues, and every record that is not ATOM/HETATM/MODEL/TER, can
    be inserted or removed freely**: the parser's output (all atom records with their fields,
    conformation names and `N+`/`C-` tags) is that of the file without them. -/
theorem unused_records_have_no_effect (o : Opts) (lines : List Str) :
    parse o lines = parse o (lines.filter (fun l => !unused o l)) := by
  unfold parse
  generalize PState.init = s
  induction lines generalizing s with
  | nil => rfl
  | cons l ls ih =>
    by_cases hu : unused o l = true
    · simp only [List.filter_cons, hu, Bool.not_true, Bool.false_eq_true, if_false]
      rw [← ih]
      simp only [parseFrom, stepLine_unused o s l hu, pure_bind]
      cases parseFrom o s ls <;> rfl
    · have hu' : unused o l = false := by simpa using hu
      simp only [List.filter_cons, hu', Bool.not_false, if_true]
      simp only [parseFrom]
      cases h : stepLine o s l with
      | error e => rfl
      | ok v => obtain ⟨s', a⟩ := v; simp [ih]

/-- inside a chain (the N-terminal residue has been fixed and no terminal oxygen has been seen since)
    an ATOM record that is not a terminal oxygen leaves the bookkeeping untouched - in particular a
    hydrogen record, which is then dropped unless keep-protons is set -/
theorem atom_inside_chain_keeps_state (o : Opts) (k : Str) (old : Option Str) (l : Str)
    (hk : (classify o l).kind = .atom) (ho : (classify o l).isOxt = false) :
    (step (⟨.key k, old⟩ : St Str) (classify o l)).1 = ⟨.key k, old⟩ := by
  unfold step
  simp only [hk]
  by_cases hs : (classify o l).skip = true
  · simp [hs]
  · simp [hs, ho]

/-! ## columns -/
/-- the fields of an atom record that anything downstream reads -/
def usedFields (a : AtomRec) : String × String × String × String × Int × String × String × String × String × Int × Int × Int × Nat × Nat × Nat :=
  (a.conf, a.name, a.resName, a.chain, a.resNum, a.icode, a.typ, a.element, a.terminal, a.xm, a.ym, a.zm, a.xd, a.yd, a.zd)

/-- the used fields computed by `mkCoreS` do not depend on the serial number and the occupancy / B-factor strings -/
theorem mkCoreS_used (s0 sname sel sres sch snum sic sx sy sz : Str) (conf term : String) (n1 n2 : Int) (o1 b1 o2 b2 : String)
    (a1 a2 : AtomRec) (r1 : mkCoreS s0 sname sel sres sch snum sic sx sy sz conf term n1 o1 b1 = .ok a1)
    (r2 : mkCoreS s0 sname sel sres sch snum sic sx sy sz conf term n2 o2 b2 = .ok a2) : usedFields a1 = usedFields a2 := by
  unfold mkCoreS at r1 r2
  cases hxx : parseDecimal sx with
  | none => simp [hxx, bind, Except.bind, throw, throwThe, MonadExceptOf.throw] at r1
  | some x =>
    cases hyy : parseDecimal sy with
    | none => simp [hxx, hyy, bind, Except.bind, pure, Except.pure, throw, throwThe, MonadExceptOf.throw] at r1
    | some y =>
      cases hzz : parseDecimal sz with
      | none => simp [hxx, hyy, hzz, bind, Except.bind, pure, Except.pure, throw, throwThe, MonadExceptOf.throw] at r1
      | some z =>
        cases hnn : parseInt snum with
        | none => simp [hxx, hyy, hzz, hnn, bind, Except.bind, pure, Except.pure, throw, throwThe, MonadExceptOf.throw] at r1
        | some n =>
          simp only [hxx, hyy, hzz, hnn, bind, Except.bind, pure, Except.pure] at r1 r2
          by_cases h4 : ((strip sname).length == 4) = true
          · simp only [h4, if_true] at r1 r2
            cases he : stripDigits (strip sel) with
            | nil => simp [he, throw, throwThe, MonadExceptOf.throw] at r1
            | cons c cs =>
              simp only [he] at r1 r2
              cases r1; cases r2; rfl
          · simp only [h4] at r1 r2
            cases r1; cases r2; rfl

/-- **Serial number, occupancy, B-factor, element and charge columns do not reach the results**: two
    lines that agree on the record type (columns 1-6), the atom name, alternate location, residue
    name, chain, number, insertion code and the three coordinates (columns 13-54) give atom records
    with the same used fields, whatever columns 7-11 hold (as long as they decode) and whatever
    follows column 54.  The element is inferred from columns 13-14. -/
theorem columns_have_no_effect (l1 l2 : Str) (conf term : String) (a1 a2 : AtomRec)
    (h0 : slice l1 0 6 = slice l2 0 6) (hname : slice l1 12 16 = slice l2 12 16) (hel : slice l1 12 14 = slice l2 12 14)
    (hres : slice l1 17 20 = slice l2 17 20) (hch : slice l1 21 22 = slice l2 21 22) (hnum : slice l1 22 26 = slice l2 22 26)
    (hic : slice l1 26 27 = slice l2 26 27) (hx : slice l1 30 38 = slice l2 30 38) (hy : slice l1 38 46 = slice l2 38 46)
    (hz : slice l1 46 54 = slice l2 46 54)
    (r1 : mkAtom l1 conf term = .ok a1) (r2 : mkAtom l2 conf term = .ok a2) : usedFields a1 = usedFields a2 := by
  unfold mkAtom at r1 r2
  rw [h0, hname, hel, hres, hch, hnum, hic, hx, hy, hz] at r1
  cases hs1 : H36.decode (slice l1 6 11) with
  | valueError => rw [hs1] at r1; cases r1
  | ok n1 =>
    cases hs2 : H36.decode (slice l2 6 11) with
    | valueError => rw [hs2] at r2; cases r2
    | ok n2 =>
      rw [hs1] at r1; rw [hs2] at r2
      simp only at r1 r2
      exact mkCoreS_used _ _ _ _ _ _ _ _ _ _ conf term n1 n2 _ _ _ _ a1 a2 r1 r2

end Propka.Pdb
