import Propka.Proofs.Profiles
/-! # C09 — charge curves and isoelectric points follow Henderson–Hasselbalch

The definitions are the generic model `Propka.Profiles` at `ℝ` (`10^x` and `log₁₀` are Mathlib's);
the same definitions run at `Float` in the driver. -/
namespace Propka.Profiles
open Real Set

/-- **Half charge at pH = pKa.** -/
theorem group_charge_half (q pk : ℝ) : chargeAt q pk pk = q / 2 := charge_half q pk

/-- **Between zero and the formal charge**, for a base (`q > 0`) and for an acid (`q < 0`). -/
theorem group_charge_between (q pk ph : ℝ) :
    (0 < q → 0 < chargeAt q pk ph ∧ chargeAt q pk ph < q) ∧ (q < 0 → q < chargeAt q pk ph ∧ chargeAt q pk ph < 0) :=
  ⟨charge_between_pos q pk ph, charge_between_neg q pk ph⟩

/-- **Never increases with pH**, whatever the sign of the formal charge. -/
theorem group_charge_antitone (q pk : ℝ) : Antitone (chargeAt q pk) := charge_antitone q pk

/-- **The reported protein charges are the sums of the group charges**: unfolded with the model
    pKa values (first), folded with the predicted ones (second), over the titratable groups only. -/
theorem protein_charge_is_sum (gs : List (TGroup ℝ)) (ph : ℝ) :
    confCharge gs ph = (((gs.filter (·.titratable)).map fun g => chargeAt g.charge g.modelPka ph).sum,
                        ((gs.filter (·.titratable)).map fun g => chargeAt g.charge g.pka ph).sum) :=
  confCharge_sum gs ph

/-- every row of the charge profile is `(pH, Q_unfolded(pH), Q_folded(pH))` at a grid point, in grid order -/
theorem profile_rows (gs : List (TGroup ℝ)) (grid : List ℝ) :
    chargeProfile gs grid = grid.map fun ph => (ph, (confCharge gs ph).1, (confCharge gs ph).2) := rfl

theorem folded_charge_antitone (gs : List (TGroup ℝ)) : Antitone fun ph => (confCharge gs ph).2 := by
  have : (fun ph => (confCharge gs ph).2) = fun ph => (((gs.filter (·.titratable)).map fun g => chargeAt g.charge g.pka).map fun f => f ph).sum := by
    funext ph; rw [confCharge_sum]; simp only [List.map_map]; rfl
  rw [this]
  exact sum_antitone _ (by intro f hf; simp only [List.mem_map] at hf; obtain ⟨g, _, rfl⟩ := hf; exact charge_antitone _ _)

theorem unfolded_charge_antitone (gs : List (TGroup ℝ)) : Antitone fun ph => (confCharge gs ph).1 := by
  have : (fun ph => (confCharge gs ph).1) = fun ph => (((gs.filter (·.titratable)).map fun g => chargeAt g.charge g.modelPka).map fun f => f ph).sum := by
    funext ph; rw [confCharge_sum]; simp only [List.map_map]; rfl
  rw [this]
  exact sum_antitone _ (by intro f hf; simp only [List.mem_map] at hf; obtain ⟨g, _, rfl⟩ := hf; exact charge_antitone _ _)

theorem folded_charge_continuous (gs : List (TGroup ℝ)) : Continuous fun ph => (confCharge gs ph).2 := by
  have : (fun ph => (confCharge gs ph).2) = fun ph => (((gs.filter (·.titratable)).map fun g => chargeAt g.charge g.pka).map fun f => f ph).sum := by
    funext ph; rw [confCharge_sum]; simp only [List.map_map]; rfl
  rw [this]
  exact sum_continuous _ (by intro f hf; simp only [List.mem_map] at hf; obtain ⟨g, _, rfl⟩ := hf; exact charge_continuous _ _)

theorem unfolded_charge_continuous (gs : List (TGroup ℝ)) : Continuous fun ph => (confCharge gs ph).1 := by
  have : (fun ph => (confCharge gs ph).1) = fun ph => (((gs.filter (·.titratable)).map fun g => chargeAt g.charge g.modelPka).map fun f => f ph).sum := by
    funext ph; rw [confCharge_sum]; simp only [List.map_map]; rfl
  rw [this]
  exact sum_continuous _ (by intro f hf; simp only [List.mem_map] at hf; obtain ⟨g, _, rfl⟩ := hf; exact charge_continuous _ _)

/-- **Each reported pI is within the stated precision of a root** of its total-charge curve, whenever
    that curve is positive at the window minimum and non-positive at the maximum (it changes sign
    inside the window), the precision is positive and the recursion is allowed enough halvings;
    the folded pI (first component) is a root of the curve built from the *predicted* pKa values,
    the unfolded pI (second) of the one built from the *model* pKa values. -/
theorem pi_is_root (gs : List (TGroup ℝ)) (lo hi prec : ℝ) (fuel : ℕ) (hprec : 0 < prec) (hlh : lo ≤ hi)
    (hfuel : hi - lo ≤ prec * 2 ^ fuel) :
    (0 < (confCharge gs lo).2 → (confCharge gs hi).2 ≤ 0 →
      ∃ r ∈ Icc lo hi, (confCharge gs r).2 = 0 ∧ |(getPi gs lo hi prec 2 fuel).1 - r| ≤ prec) ∧
    (0 < (confCharge gs lo).1 → (confCharge gs hi).1 ≤ 0 →
      ∃ r ∈ Icc lo hi, (confCharge gs r).1 = 0 ∧ |(getPi gs lo hi prec 2 fuel).2 - r| ≤ prec) := by
  constructor
  · intro h1 h2
    exact bisect_root (fun ph => (confCharge gs ph).2) prec hprec fuel lo hi hlh
      (folded_charge_continuous gs).continuousOn h1 h2 hfuel
  · intro h1 h2
    exact bisect_root (fun ph => (confCharge gs ph).1) prec hprec fuel lo hi hlh
      (unfolded_charge_continuous gs).continuousOn h1 h2 hfuel

/-- with the default window (0, 14) and precision 1e-4, eighteen halvings suffice -/
theorem default_fuel : (14:ℝ) - 0 ≤ 1e-4 * 2 ^ 18 := by norm_num

/-! ### Non-vacuity: one acid (pKa 4) and one base (pKa 10); the folded curve changes sign in [4, 10] -/
theorem frac_lt_half (x : ℝ) (h0 : 0 < x) (h1 : x < 1) : x / (1 + x) < 1 / 2 := by
  rw [div_lt_div_iff₀ (by linarith) (by norm_num)]; linarith

example : let gs : List (TGroup ℝ) := [⟨-1, 4, 4, true, []⟩, ⟨1, 10, 10, true, []⟩]
    0 < (confCharge gs 4).2 ∧ (confCharge gs 10).2 ≤ 0 := by
  intro gs
  have hx : (10:ℝ) ^ ((4:ℝ) - 10) < 1 := Real.rpow_lt_one_of_one_lt_of_neg (by norm_num) (by norm_num)
  have hx0 : 0 < (10:ℝ) ^ ((4:ℝ) - 10) := Real.rpow_pos_of_pos (by norm_num) _
  have hy : (10:ℝ) ^ ((10:ℝ) - 4) > 1 := Real.one_lt_rpow (by norm_num) (by norm_num)
  have e1 : (confCharge gs 4).2 = chargeAt (-1) 4 4 + (chargeAt 1 10 4 + 0) := by
    simp [gs, confCharge_sum]
  have e2 : (confCharge gs 10).2 = chargeAt (-1) 4 10 + (chargeAt 1 10 10 + 0) := by
    simp [gs, confCharge_sum]
  rw [e1, e2, charge_half, charge_half, charge_pos_one, charge_neg_one]
  have f1 := frac_lt_half _ hx0 hx
  have f2 : (10:ℝ) ^ ((10:ℝ) - 4) / (1 + (10:ℝ) ^ ((10:ℝ) - 4)) > 1 / 2 := by
    rw [gt_iff_lt, div_lt_div_iff₀ (by norm_num) (by linarith)]; linarith
  constructor <;> linarith

end Propka.Profiles
