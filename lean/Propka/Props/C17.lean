import Propka.Model.Protonate
import Propka.Props.C20
import Propka.Gen.Topology
import Propka.Gen.Protonate
import Propka.Proofs.Equivariance
/-! # C17 — added hydrogens are chemically placed and complete

Geometry over `ℝ` on the generic constructions of `Propka.Prot` (the same text runs at `Float`);
completeness by `decide` over the generated electron-counting table of the standard residues. -/
namespace Propka.Prot
open Propka Propka.Rot Real

/-! ## bond length -/
theorem len_sq (v : V3 ℝ) : len v * len v = v.x*v.x + v.y*v.y + v.z*v.z := by
  unfold len; exact Real.mul_self_sqrt (by nlinarith [mul_self_nonneg v.x, mul_self_nonneg v.y, mul_self_nonneg v.z])

theorem len_pos (v : V3 ℝ) (h : v.x ≠ 0 ∨ v.y ≠ 0 ∨ v.z ≠ 0) : 0 < len v := by
  unfold len; apply Real.sqrt_pos.mpr
  rcases h with h | h | h
  · have := mul_self_pos.mpr h; nlinarith [mul_self_nonneg v.y, mul_self_nonneg v.z]
  · have := mul_self_pos.mpr h; nlinarith [mul_self_nonneg v.x, mul_self_nonneg v.z]
  · have := mul_self_pos.mpr h; nlinarith [mul_self_nonneg v.x, mul_self_nonneg v.y]

/-- **Every constructed hydrogen lies at the tabulated X–H bond length from its parent** (before the
    coordinates are rounded to 0.001 Å): `set_bond_distance` rescales a non-zero direction to the
    bond length exactly. -/
theorem rescale_length (v : V3 ℝ) (l : ℝ) (hl : 0 ≤ l) (h : v.x ≠ 0 ∨ v.y ≠ 0 ∨ v.z ≠ 0) : len (rescale v l) = l := by
  have hp := len_pos v h
  have hs := len_sq v
  unfold len rescale
  simp only
  have : v.x * (l / len v) * (v.x * (l / len v)) + v.y * (l / len v) * (v.y * (l / len v)) + v.z * (l / len v) * (v.z * (l / len v))
      = l * l := by
    field_simp
    nlinarith [hs]
  rw [this]
  exact Real.sqrt_mul_self hl

/-- the hydrogen position is parent + rescaled direction, so its distance to the parent is the bond length -/
theorem hydrogen_at_bond_length (atom v : V3 ℝ) (l : ℝ) (hl : 0 ≤ l) (h : v.x ≠ 0 ∨ v.y ≠ 0 ∨ v.z ≠ 0) :
    len (between atom (vadd atom (rescale v l))) = l := by
  have : between atom (vadd atom (rescale v l)) = rescale v l := by
    unfold between vadd; cases rescale v l; simp
  rw [this]; exact rescale_length v l hl h

/-! ## separation of hydrogens on one atom -/

/-- completing a trigonal centre: for unit bond directions `u₁, u₂` the new direction `−u₁−u₂` makes
    the same angle with both, and when `u₁·u₂ = −1/2` (120°) it is a unit vector at 120° to each -/
theorem trigonal_completion (u1 u2 : V3 ℝ) (h1 : dot u1 u1 = 1) (h2 : dot u2 u2 = 1) :
    let n := vsub (vneg u1) u2
    dot n u1 = -1 - dot u1 u2 ∧ dot n u2 = -1 - dot u1 u2 ∧ dot n n = 2 + 2 * dot u1 u2 := by
  obtain ⟨a, b, c⟩ := u1; obtain ⟨d, e, f⟩ := u2
  simp only [dot, vsub, vneg] at *
  refine ⟨by nlinarith, by nlinarith, by nlinarith⟩

/-- two hydrogens at bond length `d` along unit directions 120° apart are `d·√3` apart — far more than 0.5 Å -/
theorem separation_trigonal (c u w : V3 ℝ) (d : ℝ) (hu : dot u u = 1) (hw : dot w w = 1) (huw : dot u w = -1/2) :
    let p := vadd c ⟨d * u.x, d * u.y, d * u.z⟩
    let q := vadd c ⟨d * w.x, d * w.y, d * w.z⟩
    dot (between p q) (between p q) = 3 * d * d := by
  obtain ⟨a, b, e⟩ := u; obtain ⟨f, g, h⟩ := w; obtain ⟨x, y, z⟩ := c
  simp only [dot, vadd, between] at *
  nlinarith

/-- the first hydrogen of an –XH₂ / –XH group: turning the bond vector about any axis perpendicular to
    it by θ puts the new direction at angle θ to the bond (from the rotation theorem of C20) -/
theorem first_hydrogen_angle (θ : ℝ) (k v : V3 ℝ) (hk : k.x ≠ 0 ∨ k.y ≠ 0 ∨ k.z ≠ 0)
    (hperp : k.x * v.x + k.y * v.y + k.z * v.z = 0) :
    Rot.dot (rotateAround θ k v) v = Rot.dot v v * Real.cos θ := by
  have h := (perp_turns_by_theta θ k v hk).1
  have hax := axial_component_preserved θ k v hk
  have hn := nrm_pos k hk
  have hu : Rot.dot (unit k) v = 0 := by
    simp only [Rot.dot, unit]
    have : k.x / nrm k * v.x + k.y / nrm k * v.y + k.z / nrm k * v.z = (k.x * v.x + k.y * v.y + k.z * v.z) / nrm k := by ring
    rw [this, hperp, zero_div]
  rw [show perp (unit k) v = v by
        simp only [perp, hu, Rot.sub, Rot.smul]; cases v; simp] at h
  rw [show perp (unit k) (rotateAround θ k v) = rotateAround θ k v by
        simp only [perp, hax, hu, Rot.sub, Rot.smul]; cases rotateAround θ k v; simp] at h
  exact h

/-- both axes the code uses for that turn are perpendicular to the bond vector -/
theorem orthogonal_perp (v : V3 ℝ) : (orthogonal v).x * v.x + (orthogonal v).y * v.y + (orthogonal v).z * v.z = 0 := by
  unfold orthogonal; split <;> (simp only; ring)

theorem cross_perp (v w : V3 ℝ) : (cross v w).x * v.x + (cross v w).y * v.y + (cross v w).z * v.z = 0 := by
  unfold cross; simp only; ring

/-! ## one parent -/
/-- bond lists after `add_proton(atom, position)`: the new hydrogen is bonded to the parent only, and
    the parent gains exactly that hydrogen -/
def addProton (adj : Nat → List Nat) (parent h : Nat) : Nat → List Nat :=
  fun k => if k = h then [parent] else if k = parent then adj parent ++ [h] else adj k

theorem one_parent (adj : Nat → List Nat) (parent h : Nat) (hne : parent ≠ h) :
    addProton adj parent h h = [parent] ∧ h ∈ addProton adj parent h parent ∧
    ∀ k, k ≠ h → k ≠ parent → addProton adj parent h k = adj k := by
  unfold addProton
  refine ⟨by simp, by simp [hne], ?_⟩
  intro k h1 h2; simp [h1, h2]

/-! ## the full complement -/
open Propka.Gen.Topology

/-- **Every nitrogen of a complete standard residue with peptide neighbours gets its full complement**:
    electron counting gives exactly the expected number of hydrogens (His 1+1, Arg 1+2+2, Asn/Gln 2,
    Trp 1, backbone amide 1, Pro 0), the steric number is 3 or 4, and the construction that handles
    that steric number has a branch for the atom's bond count. -/
theorem inst_complement : ∀ r ∈ rows,
    toAdd r.valence r.bonds r.pi r.charge = r.expectedH ∧
    (steric r.valence r.bonds r.pi r.conj r.charge = 3 ∨ steric r.valence r.bonds r.pi r.conj r.charge = 4) ∧
    (r.expectedH = 0 ∨ (1 ≤ r.bonds ∧ r.bonds + r.expectedH ≤ (steric r.valence r.bonds r.pi r.conj r.charge).toNat)) := by
  decide

/-- per group the hydrogens add up to what the group expects among its interaction atoms, so no
    'missing atoms or failed protonation' warning is issued -/
theorem inst_group_totals :
    ((rows.filter (fun r => r.res == "HIS" && r.group == "HIS")).map (·.expectedH)).sum = 2 ∧
    ((rows.filter (fun r => r.res == "ARG" && r.group == "ARG")).map (·.expectedH)).sum = 5 ∧
    (∀ r ∈ rows, r.group = "AMD" → r.expectedH = 2) ∧ (∀ r ∈ rows, r.group = "TRP" → r.expectedH = 1) ∧
    (∀ r ∈ rows, r.group = "BBN" → r.expectedH = (if r.res = "PRO" then 0 else 1)) ∧
    (∀ g ∈ ["HIS", "ARG", "AMD", "TRP", "BBN"], (expectedAcidH.find? (fun kv => kv.1 == g)).map (·.2) =
        some (if g = "HIS" then 2 else if g = "ARG" then 5 else if g = "AMD" then 2 else 1)) := by decide

/-- both expectation tables have the same keys, so the look-ups of the warning path cannot fail -/
theorem inst_expected_keys : expectedKeysAcid = expectedKeysBase := by decide

/-- the construction methods cover steric numbers 3 and 4, and every element met in proteins has a bond length -/
theorem inst_methods : Propka.Gen.Protonate.protonationMethods = [4, 3] ∧
    (∀ e ∈ ["C", "N", "O", "S"], (Propka.Gen.Protonate.bondLengthsMilli.find? (fun kv => kv.1 == e)).isSome) := by decide

/-! ### Non-vacuity -/
example : dot (⟨1, 0, 0⟩ : V3 ℝ) ⟨1, 0, 0⟩ = 1 ∧ dot (⟨1, 0, 0⟩ : V3 ℝ) ⟨-1/2, Real.sqrt 3 / 2, 0⟩ = -1/2 := by
  simp [dot]

end Propka.Prot

/-! ## the same hydrogens in every orientation

For the rigid motions of the property's family on the coordinate grid (one of the 24 axis-permuting rotations followed by a
translation), every construction that does not fall back on an arbitrary perpendicular direction (`Vector.orthogonal()`, used
only for an atom whose single neighbour defines no plane) builds, in the moved frame, the moved hydrogens - provided the
rounding commutes with the motion (`hr`; it does on the 0.001 A grid, where the motion maps grid points to grid points). -/
namespace Propka.Equiv
open Propka
open Propka.Geom (Mat rot24)
/-- **Completing a trigonal centre** (two neighbours present, one hydrogen to add: backbone amide N-H, His, Trp, Arg NE):
    the hydrogen built in the moved frame is the moved hydrogen. -/
theorem trigonal_completion_equivariant (m : Mat) (hm : m ∈ rot24) (t : V3 ℝ) (rnd rnd' : V3 ℝ → V3 ℝ)
    (hr : ∀ p, rnd' (move m t p) = move m t (rnd p)) (d120 : ℝ) (c : Prot.Call ℝ) (b1 b2 : V3 ℝ)
    (hb : c.bonded = [b1, b2]) (ht : c.toAdd = 1) :
    Prot.trigonal rnd' d120 (moveCall m t c) = (Prot.trigonal rnd d120 c).map (move m t) := by
  unfold Prot.trigonal moveCall
  simp only [hb, ht, List.map_cons, List.map_nil, List.length_cons, List.length_nil]
  norm_num
  rw [between_move, between_move, act_rescale m hm, act_rescale m hm, ← act_neg, ← act_sub, act_rescale m hm, move_add, hr]

/-- **Completing a tetrahedral centre** (three neighbours present, one hydrogen to add: C-alpha, branched carbons) -/
theorem tetrahedral_completion_equivariant (m : Mat) (hm : m ∈ rot24) (t : V3 ℝ) (rnd rnd' : V3 ℝ → V3 ℝ)
    (hr : ∀ p, rnd' (move m t p) = move m t (rnd p)) (d1095 d90 : ℝ) (c : Prot.Call ℝ) (b1 b2 b3 : V3 ℝ)
    (hb : c.bonded = [b1, b2, b3]) (ht : c.toAdd = 1) :
    Prot.tetrahedral rnd' d1095 d90 (moveCall m t c) = (Prot.tetrahedral rnd d1095 d90 c).map (move m t) := by
  unfold Prot.tetrahedral moveCall
  simp only [hb, ht, List.map_cons, List.map_nil, List.length_cons, List.length_nil]
  norm_num
  rw [between_move, between_move, between_move, act_rescale m hm, act_rescale m hm, act_rescale m hm, ← act_neg, ← act_sub, ← act_sub,
    act_rescale m hm, move_add, hr]

/-- **A methylene group** (two neighbours present, two hydrogens to add): the first hydrogen is the reversed first bond turned by
    90 degrees about the bisector, the second completes the tetrahedron of the two neighbours and the (rounded) first hydrogen.
    Needs the bisector to be non-zero (the two neighbours not exactly opposite). -/
theorem methylene_equivariant (m : Mat) (hm : m ∈ rot24) (t : V3 ℝ) (rnd rnd' : V3 ℝ → V3 ℝ)
    (hr : ∀ p, rnd' (move m t p) = move m t (rnd p)) (d1095 d90 : ℝ) (c : Prot.Call ℝ) (b1 b2 : V3 ℝ)
    (hb : c.bonded = [b1, b2]) (ht : c.toAdd = 2)
    (hax : let ax := Prot.vadd (Prot.rescale (Prot.between c.atom b1) 1) (Prot.rescale (Prot.between c.atom b2) 1)
           ax.x ≠ 0 ∨ ax.y ≠ 0 ∨ ax.z ≠ 0) :
    Prot.tetrahedral rnd' d1095 d90 (moveCall m t c) = (Prot.tetrahedral rnd d1095 d90 c).map (move m t) := by
  unfold Prot.tetrahedral moveCall
  simp only [hb, ht, List.map_cons, List.map_nil, List.length_cons, List.length_nil]
  norm_num
  simp only at hax
  have h1 : rnd' (Prot.vadd (move m t c.atom) (Prot.rescale (Rot.rotateAround d90
        (Prot.vadd (Prot.rescale (Prot.between (move m t c.atom) (move m t b1)) 1) (Prot.rescale (Prot.between (move m t c.atom) (move m t b2)) 1))
        (Prot.vneg (Prot.rescale (Prot.between (move m t c.atom) (move m t b1)) 1))) c.bondLen)) =
      move m t (rnd (Prot.vadd c.atom (Prot.rescale (Rot.rotateAround d90
        (Prot.vadd (Prot.rescale (Prot.between c.atom b1) 1) (Prot.rescale (Prot.between c.atom b2) 1))
        (Prot.vneg (Prot.rescale (Prot.between c.atom b1) 1))) c.bondLen))) := by
    rw [between_move, between_move, act_rescale m hm, act_rescale m hm, ← act_neg, ← act_add,
      rotateAround_equivariant m hm _ _ _ hax, act_rescale m hm, move_add, hr]
  refine ⟨h1, ?_⟩
  rw [h1, between_move, between_move, between_move, act_rescale m hm, act_rescale m hm, act_rescale m hm, ← act_neg, ← act_sub, ← act_sub,
    act_rescale m hm, move_add, hr]

/-- **An amide / guanidinium NH2** (one neighbour, which is planar and has two further neighbours; two hydrogens to add: Asn ND2,
    Gln NE2, Arg NH1/NH2): the first hydrogen is the bond turned by 120 degrees about the normal of the neighbour's plane, the
    second completes the trigonal centre.  Needs that normal to be non-zero. -/
theorem amide_nh2_equivariant (m : Mat) (hm : m ∈ rot24) (t : V3 ℝ) (rnd rnd' : V3 ℝ → V3 ℝ)
    (hr : ∀ p, rnd' (move m t p) = move m t (rnd p)) (d120 : ℝ) (c : Prot.Call ℝ) (b0 o1 o2 : V3 ℝ)
    (hb : c.bonded = [b0]) (ho : c.nbOthers = [o1, o2]) (hs : c.nbSteric = 3) (ht : c.toAdd = 2)
    (hax : (planarAxis c.atom b0 o1 o2).x ≠ 0 ∨ (planarAxis c.atom b0 o1 o2).y ≠ 0 ∨ (planarAxis c.atom b0 o1 o2).z ≠ 0) :
    Prot.trigonal rnd' d120 (moveCall m t c) = (Prot.trigonal rnd d120 c).map (move m t) := by
  have hp := planarAxis_move m hm t c.atom b0 o1 o2
  unfold planarAxis at hp hax
  simp only at hp hax
  unfold Prot.trigonal moveCall
  simp only [hb, ho, hs, ht, List.map_cons, List.map_nil, List.length_cons, List.length_nil]
  norm_num
  have h1 : rnd' (Prot.vadd (move m t c.atom) (Prot.rescale (Rot.rotateAround d120
        (if 0 < Prot.dot (Prot.cross (Prot.between (move m t c.atom) (move m t b0)) (Prot.between (move m t b0) (move m t o1)))
              (Prot.cross (Prot.between (move m t c.atom) (move m t b0)) (Prot.between (move m t b0) (move m t o2)))
         then Prot.vadd (Prot.cross (Prot.between (move m t c.atom) (move m t b0)) (Prot.between (move m t b0) (move m t o1)))
              (Prot.cross (Prot.between (move m t c.atom) (move m t b0)) (Prot.between (move m t b0) (move m t o2)))
         else Prot.vsub (Prot.cross (Prot.between (move m t c.atom) (move m t b0)) (Prot.between (move m t b0) (move m t o1)))
              (Prot.cross (Prot.between (move m t c.atom) (move m t b0)) (Prot.between (move m t b0) (move m t o2))))
        (Prot.between (move m t c.atom) (move m t b0))) c.bondLen)) =
      move m t (rnd (Prot.vadd c.atom (Prot.rescale (Rot.rotateAround d120
        (if 0 < Prot.dot (Prot.cross (Prot.between c.atom b0) (Prot.between b0 o1)) (Prot.cross (Prot.between c.atom b0) (Prot.between b0 o2))
         then Prot.vadd (Prot.cross (Prot.between c.atom b0) (Prot.between b0 o1)) (Prot.cross (Prot.between c.atom b0) (Prot.between b0 o2))
         else Prot.vsub (Prot.cross (Prot.between c.atom b0) (Prot.between b0 o1)) (Prot.cross (Prot.between c.atom b0) (Prot.between b0 o2)))
        (Prot.between c.atom b0)) c.bondLen))) := by
    rw [hp, between_move, rotateAround_equivariant m hm _ _ _ hax, act_rescale m hm, move_add, hr]
  refine ⟨h1, ?_⟩
  rw [h1, between_move, between_move, act_rescale m hm, act_rescale m hm, ← act_neg, ← act_sub, act_rescale m hm, move_add, hr]
end Propka.Equiv
