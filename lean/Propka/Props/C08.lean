import Propka.Props.C02
import Propka.Model.TopUp
/-! # C08 — the conformation average is the mean over the conformations that contain a group -/
namespace Propka.Dets

/-- total value directed at partner `p` in a determinant list -/
def psum (p : String) (ds : List (Det ℚ)) : ℚ := ((ds.filter (fun d => d.grp = p)).map (·.value)).sum

theorem psum_cons (p : String) (d : Det ℚ) (ds : List (Det ℚ)) :
    psum p (d :: ds) = (if d.grp = p then d.value else 0) + psum p ds := by
  unfold psum
  by_cases h : d.grp = p <;> simp [List.filter_cons, h]

theorem psum_addDet (p : String) (ds : List (Det ℚ)) (d : Det ℚ) :
    psum p (addDet ds d) = psum p ds + (if d.grp = p then d.value else 0) := by
  induction ds with
  | nil => by_cases h : d.grp = p <;> simp [addDet, psum, List.filter_cons, h]
  | cons x xs ih =>
    unfold addDet
    by_cases hx : x.grp = d.grp
    · simp only [hx, if_true, psum_cons]
      by_cases hp : d.grp = p <;> simp [hp] <;> ring
    · simp only [hx, if_false, psum_cons, ih]; ring

theorem psum_foldl_addDet (p : String) (acc ds : List (Det ℚ)) :
    psum p (ds.foldl addDet acc) = psum p acc + psum p ds := by
  induction ds generalizing acc with
  | nil => simp [psum]
  | cons d ds ih => rw [List.foldl_cons, ih, psum_addDet, psum_cons]; ring

theorem psum_scale (p : String) (ds : List (Det ℚ)) (n : ℚ) : psum p (scaleDets ds n) = psum p ds / n := by
  induction ds with
  | nil => simp [scaleDets, psum]
  | cons d ds ih =>
    have : scaleDets (d :: ds) n = { d with value := d.value / n } :: scaleDets ds n := rfl
    rw [this, psum_cons, psum_cons, ih]
    by_cases h : d.grp = p <;> simp [h] <;> ring

theorem acc_sums (gs : List (GRec ℚ)) (a : Acc ℚ) (p : String) :
    (gs.foldl iadd a).pka = a.pka + (gs.map (·.pka)).sum ∧
    (gs.foldl iadd a).evol = a.evol + (gs.map (·.evol)).sum ∧
    (gs.foldl iadd a).eloc = a.eloc + (gs.map (·.eloc)).sum ∧
    psum p (gs.foldl iadd a).sc = psum p a.sc + (gs.map (fun g => psum p g.sc)).sum ∧
    psum p (gs.foldl iadd a).bb = psum p a.bb + (gs.map (fun g => psum p g.bb)).sum ∧
    psum p (gs.foldl iadd a).cb = psum p a.cb + (gs.map (fun g => psum p g.cb)).sum := by
  induction gs generalizing a with
  | nil => simp
  | cons g gs ih =>
    obtain ⟨h1, h2, h3, h4, h5, h6⟩ := ih (iadd a g)
    simp only [List.foldl_cons, List.map_cons, List.sum_cons]
    refine ⟨?_, ?_, ?_, ?_, ?_, ?_⟩
    · rw [h1]; simp [iadd]; ring
    · rw [h2]; simp [iadd]; ring
    · rw [h3]; simp [iadd]; ring
    · rw [h4]; simp only [iadd, psum_foldl_addDet]; ring
    · rw [h5]; simp only [iadd, psum_foldl_addDet]; ring
    · rw [h6]; simp only [iadd, psum_foldl_addDet]; ring

/-- **The average is the arithmetic mean over the conformations in which the group exists**: for the
    `k ≥ 1` records found, the averaged pKa and both desolvation terms are `(Σ over found)/k`, and for
    every partner the averaged determinant value is the mean of the values directed at that partner. -/
theorem average_is_mean (found : List (GRec ℚ)) (p : String) :
    let k : ℚ := found.length
    (average 0 found).pka = (found.map (·.pka)).sum / k ∧
    (average 0 found).evol = (found.map (·.evol)).sum / k ∧
    (average 0 found).eloc = (found.map (·.eloc)).sum / k ∧
    psum p (average 0 found).sc = (found.map (fun g => psum p g.sc)).sum / k ∧
    psum p (average 0 found).bb = (found.map (fun g => psum p g.bb)).sum / k ∧
    psum p (average 0 found).cb = (found.map (fun g => psum p g.cb)).sum / k := by
  intro k
  obtain ⟨h1, h2, h3, h4, h5, h6⟩ := acc_sums found ⟨0, 0, 0, [], [], []⟩ p
  unfold average divAcc
  simp only [psum_scale, h1, h2, h3, h4, h5, h6]
  simp [psum, k]

theorem foldl_add_eq (xs : List ℚ) (z : ℚ) : xs.foldl (fun a x => a + x) z = z + xs.sum := by
  induction xs generalizing z with
  | nil => simp
  | cons x xs ih => simp [ih, add_assoc]

/-- the averaged buried fraction, atom counts … are arithmetic means over the conformations that contain the group -/
theorem scalar_average_is_mean (xs : List ℚ) : avgScalar 0 xs = xs.sum / xs.length := by
  unfold avgScalar; rw [foldl_add_eq]; simp

/-- **A single conformation is reported as it is.** -/
theorem single_conformation_identity (g : GRec ℚ) (p : String) :
    (average 0 [g]).pka = g.pka ∧ (average 0 [g]).evol = g.evol ∧ (average 0 [g]).eloc = g.eloc ∧
    psum p (average 0 [g]).sc = psum p g.sc ∧ psum p (average 0 [g]).bb = psum p g.bb ∧ psum p (average 0 [g]).cb = psum p g.cb := by
  have := average_is_mean [g] p
  simpa using this

/-- **Repeating a structure as `n` identical models changes nothing.** -/
theorem identical_models (g : GRec ℚ) (n : ℕ) (hn : 0 < n) (p : String) :
    (average 0 (List.replicate n g)).pka = g.pka ∧ (average 0 (List.replicate n g)).evol = g.evol ∧
    (average 0 (List.replicate n g)).eloc = g.eloc ∧ psum p (average 0 (List.replicate n g)).cb = psum p g.cb ∧
    psum p (average 0 (List.replicate n g)).sc = psum p g.sc ∧ psum p (average 0 (List.replicate n g)).bb = psum p g.bb := by
  obtain ⟨h1, h2, h3, h4, h5, h6⟩ := average_is_mean (List.replicate n g) p
  have hn' : (n : ℚ) ≠ 0 := by exact_mod_cast hn.ne'
  simp only [List.length_replicate, List.map_replicate, List.sum_replicate, nsmul_eq_mul] at h1 h2 h3 h4 h5 h6
  refine ⟨by rw [h1]; field_simp, by rw [h2]; field_simp, by rw [h3]; field_simp, by rw [h6]; field_simp,
          by rw [h4]; field_simp, by rw [h5]; field_simp⟩

end Propka.Dets

namespace Propka.TopUp

theorem lookupName_cons (k key : String × Int × String) (v : String) (rest : Names) :
    lookupName ((k, v) :: rest) key = if k = key then some v else lookupName rest key := rfl

/-- **Completion**: every atom offered whose residue label the conformation lacks is copied, unless
    its `(chain, number)` already holds a different residue name. -/
theorem copy_complete (labels : List String) (names : Names) (others : List A) (a : A) (ha : a ∈ others)
    (hl : labels.contains a.label = false) :
    a ∈ copyLoop labels names others ∨
    ∃ n, n ≠ a.resName ∧ (lookupName names (a.chain, a.num, a.icode) = some n ∨ ∃ b ∈ others, b.chain = a.chain ∧ b.num = a.num ∧ b.icode = a.icode ∧ b.resName = n) := by
  induction others generalizing names with
  | nil => simp at ha
  | cons b rest ih =>
    unfold copyLoop
    by_cases hb : labels.contains b.label = true
    · rw [if_pos hb]
      have hne : a ≠ b := by intro e; subst e; rw [hl] at hb; cases hb
      have ha' : a ∈ rest := by rcases List.mem_cons.mp ha with h | h; exact absurd h hne; exact h
      rcases ih names ha' with h | ⟨n, hn, h | ⟨c, hc, h⟩⟩
      · exact Or.inl h
      · exact Or.inr ⟨n, hn, Or.inl h⟩
      · exact Or.inr ⟨n, hn, Or.inr ⟨c, List.mem_cons_of_mem _ hc, h⟩⟩
    · rw [if_neg hb]
      cases hn : lookupName names (b.chain, b.num, b.icode) with
      | some n =>
        simp only
        by_cases hne : n ≠ b.resName
        · rw [if_pos hne]
          rcases List.mem_cons.mp ha with rfl | ha'
          · exact Or.inr ⟨n, hne, Or.inl hn⟩
          · rcases ih names ha' with h | ⟨m, hm, h | ⟨c, hc, h⟩⟩
            · exact Or.inl h
            · exact Or.inr ⟨m, hm, Or.inl h⟩
            · exact Or.inr ⟨m, hm, Or.inr ⟨c, List.mem_cons_of_mem _ hc, h⟩⟩
        · rw [if_neg hne]
          rcases List.mem_cons.mp ha with rfl | ha'
          · exact Or.inl (by simp)
          · rcases ih names ha' with h | ⟨m, hm, h | ⟨c, hc, h⟩⟩
            · exact Or.inl (List.mem_cons_of_mem _ h)
            · exact Or.inr ⟨m, hm, Or.inl h⟩
            · exact Or.inr ⟨m, hm, Or.inr ⟨c, List.mem_cons_of_mem _ hc, h⟩⟩
      | none =>
        simp only
        rcases List.mem_cons.mp ha with rfl | ha'
        · exact Or.inl (by simp)
        · rcases ih (((b.chain, b.num, b.icode), b.resName) :: names) ha' with h | ⟨m, hm, h | ⟨c, hc, h⟩⟩
          · exact Or.inl (List.mem_cons_of_mem _ h)
          · rw [lookupName_cons] at h
            by_cases hk : (b.chain, b.num, b.icode) = (a.chain, a.num, a.icode)
            · rw [if_pos hk] at h
              simp only [Option.some.injEq] at h
              simp only [Prod.mk.injEq] at hk
              exact Or.inr ⟨m, hm, Or.inr ⟨b, by simp, hk.1, hk.2.1, hk.2.2, h⟩⟩
            · rw [if_neg hk] at h; exact Or.inr ⟨m, hm, Or.inl h⟩
          · exact Or.inr ⟨m, hm, Or.inr ⟨c, List.mem_cons_of_mem _ hc, h⟩⟩

/-- **Never merging residue types**: a copied atom's residue name is the one its `(chain, number)`
    was bound to — by the conformation's own atoms, or by the first atom copied there. -/
theorem copy_no_merge (labels : List String) (names : Names) (others : List A) (a : A)
    (ha : a ∈ copyLoop labels names others) :
    (∀ n, lookupName names (a.chain, a.num, a.icode) = some n → n = a.resName) ∧
    (∀ b ∈ copyLoop labels names others, b.chain = a.chain → b.num = a.num → b.icode = a.icode → b.resName = a.resName) := by
  suffices H : ∀ names others, (∀ b ∈ copyLoop labels names others,
      (∀ n, lookupName names (b.chain, b.num, b.icode) = some n → n = b.resName) ∧
      (∀ c ∈ copyLoop labels names others, c.chain = b.chain → c.num = b.num → c.icode = b.icode → c.resName = b.resName)) from H names others a ha
  intro names others
  induction others generalizing names with
  | nil => intro b hb; simp [copyLoop] at hb
  | cons x rest ih =>
    intro b hb
    unfold copyLoop at hb ⊢
    by_cases hx : labels.contains x.label = true
    · rw [if_pos hx] at hb ⊢; exact ih names b hb
    · rw [if_neg hx] at hb ⊢
      cases hn : lookupName names (x.chain, x.num, x.icode) with
      | some n =>
        simp only [hn] at hb ⊢
        by_cases hne : n ≠ x.resName
        · rw [if_pos hne] at hb ⊢; exact ih names b hb
        · rw [if_neg hne] at hb ⊢
          have hnx : n = x.resName := by simpa using hne
          have key : ∀ c ∈ x :: copyLoop labels names rest, ∀ m, lookupName names (c.chain, c.num, c.icode) = some m → m = c.resName := by
            intro c hc m hm
            rcases List.mem_cons.mp hc with rfl | hc
            · rw [hn] at hm; cases hm; exact hnx
            · exact (ih names c hc).1 m hm
          refine ⟨key b hb, ?_⟩
          intro c hc h1 h2 h3
          rcases List.mem_cons.mp hb with rfl | hb' <;> rcases List.mem_cons.mp hc with rfl | hc'
          · rfl
          · have := key c hc n (by rw [h1, h2, h3]; exact hn); rw [← this, hnx]
          · have := key b hb n (by rw [← h1, ← h2, ← h3]; exact hn); rw [← this, hnx]
          · exact (ih names b hb').2 c hc' h1 h2 h3
      | none =>
        simp only [hn] at hb ⊢
        have ih' := ih (((x.chain, x.num, x.icode), x.resName) :: names)
        have key : ∀ c ∈ copyLoop labels (((x.chain, x.num, x.icode), x.resName) :: names) rest,
            c.chain = x.chain → c.num = x.num → c.icode = x.icode → c.resName = x.resName := by
          intro c hc h1 h2 h3
          have := (ih' c hc).1 x.resName (by rw [lookupName_cons, h1, h2, h3]; simp)
          exact this.symm
        have lk : ∀ c ∈ copyLoop labels (((x.chain, x.num, x.icode), x.resName) :: names) rest, ∀ m,
            lookupName names (c.chain, c.num, c.icode) = some m → m = c.resName := by
          intro c hc m hm
          apply (ih' c hc).1 m
          rw [lookupName_cons]
          by_cases hk : (x.chain, x.num, x.icode) = (c.chain, c.num, c.icode)
          · rw [← hk, hn] at hm; cases hm
          · rw [if_neg hk]; exact hm
        constructor
        · intro m hm
          rcases List.mem_cons.mp hb with rfl | hb'
          · rw [hn] at hm; cases hm
          · exact lk b hb' m hm
        · intro c hc h1 h2 h3
          rcases List.mem_cons.mp hb with rfl | hb' <;> rcases List.mem_cons.mp hc with rfl | hc'
          · rfl
          · exact key c hc' h1 h2 h3
          · exact (key b hb' h1.symm h2.symm h3.symm).symm
          · exact (ih' b hb').2 c hc' h1 h2 h3

/-- the conformation's own atoms are all kept, in order, in front of the copies -/
theorem own_atoms_kept (mine others : List A) : mine <+: topUpFrom mine others := by
  unfold topUpFrom; exact List.prefix_append _ _

/-! ### Non-vacuity: ASP in one conformation, VAL at the same position in the other -/
example :
    let asp : List A := [⟨"CG   50 A", "A", 50, " ", "ASP"⟩, ⟨"CA   50 A", "A", 50, " ", "ASP"⟩]
    let val : List A := [⟨"CG1  50 A", "A", 50, " ", "VAL"⟩, ⟨"CA   50 A", "A", 50, " ", "VAL"⟩, ⟨"N    51 A", "A", 51, " ", "GLY"⟩]
    topUpFrom asp (refAtoms [asp, val]) = asp ++ [⟨"N    51 A", "A", 51, " ", "GLY"⟩] := by decide

end Propka.TopUp
