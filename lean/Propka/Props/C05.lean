import Propka.Props.C16
import Propka.Model.Iterative
import Propka.Proofs.Componentwise
import Propka.Proofs.Scoring
import Propka.Proofs.Rotation
import Mathlib.Algebra.Order.Field.Rat
/-! # C05 — parts of a structure beyond interaction range do not influence each other

Phase by phase: every kernel that couples two groups or a group and an atom vanishes beyond its
cut-off, the accumulation loops skip far atoms without touching their accumulators (for any
scalar, floats included), and one step of the iterative scheme reads only the two groups of the
interaction it processes.  The global stopping rule of the iterative scheme is *not* local:
`iter_leak_counterexample` decides a four-group system whose result changes when an unrelated
pair is added (known finding D11); `iterate_componentwise` shows that the number of global iterations is
the only thing unrelated clusters share. -/
namespace Propka.Energy

/-- far atoms (at or beyond both cut-offs) are skipped by the desolvation loop: dropping them from the
    atom list changes neither the accumulated volume nor the count - for any scalar type -/
theorem desolvation_skips_far_atoms {α : Type} [Add α] [Mul α] [Div α] [NatCast α] [LT α] [DecidableLT α] [Max α]
    (p : EP α) (c1 c2 : α) (atoms : List (α × α)) :
    desolvLoop p c1 c2 atoms = desolvLoop p c1 c2 (atoms.filter fun a => decide (a.2 < c1) || decide (a.2 < c2)) := by
  unfold desolvLoop
  generalize (((0:Nat):α), 0) = acc
  induction atoms generalizing acc with
  | nil => rfl
  | cons a as ih =>
    simp only [List.foldl_cons, List.filter_cons]
    by_cases h1 : a.2 < c1 <;> by_cases h2 : a.2 < c2 <;> simp [h1, h2, ih]

/-- the Coulomb energy vanishes at and beyond the outer cut-off -/
theorem coulomb_zero_beyond (p : EP ℝ) (h : WellFormed p) (d w : ℝ) (hd : p.cc2 ≤ d) : coulombEnergy p d w = 0 := by
  unfold coulombEnergy
  simp only [Nat.cast_zero, Nat.cast_one, abs_eq]
  obtain ⟨h1, h12⟩ := h.cc
  have hm : max d p.cc1 = d := max_eq_left (by linarith)
  rw [hm]
  have hneg : (d - p.cc2) / (p.cc1 - p.cc2) ≤ 0 := div_nonpos_of_nonneg_of_nonpos (by linarith) (by linarith)
  have : max 0 ((d - p.cc2) / (p.cc1 - p.cc2)) = 0 := max_eq_left hneg
  rw [this]; simp

/-- a hydrogen-bond energy vanishes beyond the outer cut-off -/
theorem hbond_zero_beyond (dist dmax c1 c2 f : ℝ) (hc : c1 < c2) (hd : c2 < dist) : hbondEnergy dist dmax c1 c2 f = 0 := by
  unfold hbondEnergy
  simp only [Nat.cast_zero, Nat.cast_one, abs_eq]
  have h1 : ¬ dist < c1 := by linarith
  simp [h1, hd]

/-- the backbone-reorganisation term vanishes beyond its distance -/
theorem reorg_zero_beyond (p : EP ℝ) (d f : ℝ) (hd : p.bbd1 ≤ d) : reorgTerm p d f = 0 := by
  unfold reorgTerm
  have : ¬ (d < p.bbd1 ∧ p.fmin < f) := fun h => absurd h.1 (not_lt.mpr hd)
  simp [this]

/-- the interaction ranges of the shipped model: everything is cut off at or below 20 Å from a group centre -/
theorem inst_ranges : Propka.Gen.Cfg.f_desolv_cutoff = 20000000 ∧ Propka.Gen.Cfg.f_buried_cutoff ≤ 20000000 ∧
    Propka.Gen.Cfg.f_coulomb_cutoff2 ≤ 20000000 ∧ Propka.Gen.Consts.energy_UNK_BACKBONE_DISTANCE1 ≤ 20000000 ∧
    (∀ e ∈ Propka.Gen.Cfg.scPairs, e.2.2.2 ≤ 20000000) ∧ Propka.Gen.Cfg.scDefault.2 ≤ 20000000 := by decide +kernel

/-- the backbone hydrogen-bond tables `[dpKa_max, inner, outer]` (the pair loop of `set_backbone_determinants` has no distance
    pre-filter of its own: the outer cut-off of the table is the range of the interaction): outer cut-offs at most 20 A, inner
    below outer -/
theorem inst_backbone_ranges :
    (∀ e ∈ Propka.Gen.Cfg.f_backbone_NH_hydrogen_bond, e.2.getD 2 0 ≤ 20000000 ∧ e.2.getD 1 0 < e.2.getD 2 0 ∧ e.2.length = 3) ∧
    (∀ e ∈ Propka.Gen.Cfg.f_backbone_CO_hydrogen_bond, e.2.getD 2 0 ≤ 20000000 ∧ e.2.getD 1 0 < e.2.getD 2 0 ∧ e.2.length = 3) := by decide +kernel

/-- a table entry `[dpKa_max, inner, outer]` in millionths, read as reals -/
noncomputable def cut (e : String × List Int) (k : Nat) : ℝ := ((e.2.getD k 0 : Int) : ℝ) / 1000000

/-- **No backbone hydrogen bond beyond 20 A with the shipped tables**: for every entry of both backbone tables the
    hydrogen-bond energy vanishes at every distance above 20 A, whatever the angle factor (the decided table facts
    `inst_backbone_ranges` combined with the kernel lemma `hbond_zero_beyond`). -/
theorem inst_backbone_zero_beyond_20 (e : String × List Int)
    (he : e ∈ Propka.Gen.Cfg.f_backbone_NH_hydrogen_bond ∨ e ∈ Propka.Gen.Cfg.f_backbone_CO_hydrogen_bond) (dist f : ℝ) (hd : 20 < dist) :
    hbondEnergy dist (cut e 0) (cut e 1) (cut e 2) f = 0 := by
  have h : e.2.getD 2 0 ≤ 20000000 ∧ e.2.getD 1 0 < e.2.getD 2 0 ∧ e.2.length = 3 := by
    rcases he with he | he
    · exact inst_backbone_ranges.1 e he
    · exact inst_backbone_ranges.2 e he
  obtain ⟨h2, h12, _⟩ := h
  apply hbond_zero_beyond
  · unfold cut
    have : ((e.2.getD 1 0 : Int) : ℝ) < ((e.2.getD 2 0 : Int) : ℝ) := by exact_mod_cast h12
    exact div_lt_div_of_pos_right this (by norm_num)
  · unfold cut
    have : ((e.2.getD 2 0 : Int) : ℝ) ≤ 20000000 := by exact_mod_cast h2
    have : ((e.2.getD 2 0 : Int) : ℝ) / 1000000 ≤ 20 := by
      rw [div_le_iff₀ (by norm_num)]; linarith
    linarith

/-- with the shipped parameters: the buried-fraction weights are fractions, the Coulomb energy is bounded and vanishes from
    10 A on, the desolvation penalty has the sign of the charge -/
theorem shipped_coulomb_zero_beyond (d w : ℝ) (hd : 10 ≤ d) : coulombEnergy shippedReal d w = 0 := by
  apply coulomb_zero_beyond shippedReal shipped_wellformed
  have : shippedReal.cc2 = 10 := by
    show ((shippedMicro.cc2 : ℤ) : ℝ) / 1000000 = 10
    have h : shippedMicro.cc2 = 10000000 := by decide
    rw [h]; norm_num
  rw [this]; exact hd

end Propka.Energy

namespace Propka.Iter

/-- one step of the iterative scheme for an interaction reads only the two groups it couples -/
theorem interStep_local (minV : ℚ) (gs gs' : Array (IGroup ℚ)) (old old' : Array ℚ) (it : Inter ℚ) (ann : ℚ × ℚ)
    (h1 : gs.getD it.g1 ⟨0, 0, false⟩ = gs'.getD it.g1 ⟨0, 0, false⟩) (h2 : gs.getD it.g2 ⟨0, 0, false⟩ = gs'.getD it.g2 ⟨0, 0, false⟩)
    (o1 : old.getD it.g1 0 = old'.getD it.g1 0) (o2 : old.getD it.g2 0 = old'.getD it.g2 0) :
    interStep minV gs old it ann = interStep minV gs' old' it ann := by
  unfold interStep
  simp only [Nat.cast_zero]
  rw [h1, h2, o1, o2]

/-- a group's new pKa depends only on the determinants it owns -/
theorem pkaNew_local (gs : Array (IGroup ℚ)) (d1 d2 : List (Det ℚ)) (i : Nat)
    (h : d1.filter (fun d => d.owner = i) = d2.filter (fun d => d.owner = i)) : pkaNew gs d1 i = pkaNew gs d2 i := by
  have key : ∀ (k : Kind) (ds : List (Det ℚ)) (a : ℚ),
      ds.foldl (fun acc d => if d.owner = i ∧ d.kind = k then acc + d.value else acc) a =
      (ds.filter (fun d => d.owner = i)).foldl (fun acc d => if d.owner = i ∧ d.kind = k then acc + d.value else acc) a := by
    intro k ds
    induction ds with
    | nil => intro a; rfl
    | cons d ds ih =>
      intro a
      simp only [List.foldl_cons, List.filter_cons]
      by_cases ho : d.owner = i
      · simp only [ho, decide_true, if_true, List.foldl_cons, true_and]; exact ih _
      · simp only [ho, decide_false, Bool.false_eq_true, if_false, false_and]; exact ih _
  unfold pkaNew
  simp only
  rw [key .sidechain d1, key .sidechain d2, h, key .coulomb d1, key .coulomb d2, h]

/-! ### the iterative scheme acts componentwise; only the number of iterations is shared -/
section
variable (inS : Nat → Bool)

/-- the relation between the state of the whole system and the state of the sub-system `S` run alone -/
structure Rel (inters : List (Inter ℚ)) (s s' : State ℚ) : Prop where
  len : s.ann.length = inters.length
  ann : s'.ann = (subZ inS (inters.zip s.ann)).map (·.2)
  old : ∀ i, inS i = true → s.old.getD i 0 = s'.old.getD i 0
  dets : ∀ i, inS i = true → s.dets.filter (fun d => d.owner = i) = s'.dets.filter (fun d => d.owner = i)

/-- one global iteration acts on a closed sub-system exactly as it does when that sub-system is iterated alone -/
theorem iterate_rel (minV : ℚ) (gs : Array (IGroup ℚ)) (inters : List (Inter ℚ))
    (closed : ∀ it ∈ inters, inS it.g1 = inS it.g2) (s s' : State ℚ) (h : Rel inS inters s s') :
    Rel inS inters (iterate minV gs inters s) (iterate minV gs (inters.filter fun it => inS it.g1) s') := by
  obtain ⟨hlen, hann, hold, _⟩ := h
  have hz : (inters.filter fun it => inS it.g1).zip s'.ann = subZ inS (inters.zip s.ann) := by
    rw [hann]; exact zip_sub inS inters s.ann hlen
  -- on the sub-system the two runs take the same steps
  have hstep : ∀ p ∈ subZ inS (inters.zip s.ann),
      interStep minV gs s'.old p.1 p.2 = interStep minV gs s.old p.1 p.2 := by
    intro p hp
    unfold subZ at hp
    rw [List.mem_filter] at hp
    have hmem : p.1 ∈ inters := (List.of_mem_zip hp.1).1
    have h1 : inS p.1.g1 = true := hp.2
    have h2 : inS p.1.g2 = true := by rw [← closed _ hmem]; exact h1
    exact interStep_local minV gs gs s'.old s.old p.1 p.2 rfl rfl (hold _ h1).symm (hold _ h2).symm
  have hrs : ((inters.filter fun it => inS it.g1).zip s'.ann).map (fun p => interStep minV gs s'.old p.1 p.2) =
      (subZ inS (inters.zip s.ann)).map (fun p => interStep minV gs s.old p.1 p.2) := by
    rw [hz]; exact List.map_congr_left hstep
  have hdets : ∀ i, inS i = true →
      (iterate minV gs inters s).dets.filter (fun d => d.owner = i) =
      (iterate minV gs (inters.filter fun it => inS it.g1) s').dets.filter (fun d => d.owner = i) := by
    intro i hi
    unfold iterate
    simp only [hrs, List.flatMap_map]
    exact filter_flatMap_sub inS (inters.zip s.ann) _ i hi
      (fun p hp => closed _ (List.of_mem_zip hp).1)
      (fun p _ d hd => interStep_owners minV gs s.old p.1 p.2 d hd)
  refine ⟨?_, ?_, ?_, hdets⟩
  · unfold iterate
    simp only [List.length_map, List.length_zip, hlen, Nat.min_self]
  · unfold iterate
    simp only [hrs, List.map_map]
    exact (sub_map_zip inS inters s.ann hlen _).symm
  · intro i hi
    have hd := hdets i hi
    have hp := pkaNew_local gs _ _ i hd
    unfold iterate at hp ⊢
    simp only at hp ⊢
    by_cases hlt : i < gs.size
    · simp [Array.getD, hlt, hp]
    · simp [Array.getD, hlt]

/-- … and so does any number of global iterations -/
theorem iterN_rel (minV : ℚ) (gs : Array (IGroup ℚ)) (inters : List (Inter ℚ))
    (closed : ∀ it ∈ inters, inS it.g1 = inS it.g2) (k : Nat) (s s' : State ℚ) (h : Rel inS inters s s') :
    Rel inS inters (iterN minV gs inters k s) (iterN minV gs (inters.filter fun it => inS it.g1) k s') := by
  induction k generalizing s s' with
  | zero => exact h
  | succ n ih => exact ih _ _ (iterate_rel inS minV gs inters closed s s' h)

theorem init_rel (gs : Array (IGroup ℚ)) (inters : List (Inter ℚ)) :
    Rel inS inters (initState gs inters) (initState gs (inters.filter fun it => inS it.g1)) := by
  refine ⟨by simp [initState], ?_, fun _ _ => rfl, fun _ _ => rfl⟩
  simp only [initState]
  induction inters with
  | nil => simp [subZ]
  | cons x xs ih =>
    unfold subZ at ih ⊢
    simp only [List.map_cons, List.zip_cons_cons, List.filter_cons]
    by_cases hx : inS x.g1 = true
    · simp only [hx, if_true, List.map_cons, ih]
    · simp only [hx, Bool.false_eq_true, if_false, ih]

/-- **Componentwise iteration.**  If every iterative interaction lies inside `S` or outside it, then after
    the same number `k` of global iterations every group of `S` has the same pKa and owns the same
    determinants in the whole system as in `S` run alone.  The iterative scheme couples unrelated clusters
    through nothing but the number of iterations (the stopping rule: finding D11). -/
theorem iterate_componentwise (minV : ℚ) (gs : Array (IGroup ℚ)) (inters : List (Inter ℚ))
    (closed : ∀ it ∈ inters, inS it.g1 = inS it.g2) (k i : Nat) (hi : inS i = true) :
    let whole := iterN minV gs inters k (initState gs inters)
    let alone := iterN minV gs (inters.filter fun it => inS it.g1) k (initState gs (inters.filter fun it => inS it.g1))
    whole.old.getD i 0 = alone.old.getD i 0 ∧
    whole.dets.filter (fun d => d.owner = i) = alone.dets.filter (fun d => d.owner = i) ∧
    pkaNew gs (whole.dets.filter fun d => decide (minV < d.value) || decide (d.value < -minV)) i =
      pkaNew gs (alone.dets.filter fun d => decide (minV < d.value) || decide (d.value < -minV)) i := by
  have h := iterN_rel inS minV gs inters closed k _ _ (init_rel inS gs inters)
  refine ⟨h.old i hi, h.dets i hi, pkaNew_local gs _ _ i ?_⟩
  rw [List.filter_filter, List.filter_filter]
  have := congrArg (List.filter fun d => decide (minV < d.value) || decide (d.value < -minV)) (h.dets i hi)
  rw [List.filter_filter, List.filter_filter] at this
  simpa [Bool.and_comm] using this

/-- the solver stops the whole system after some `k ≤ 10` iterations; what it then reports for a group of a
    closed sub-system is what that sub-system reports after the same `k` iterations.  (Full locality would
    need `k` to be the sub-system's own stopping time; `iter_leak_counterexample` shows it need not be.) -/
theorem solve_componentwise_partial (minV : ℚ) (gs : Array (IGroup ℚ)) (inters : List (Inter ℚ))
    (closed : ∀ it ∈ inters, inS it.g1 = inS it.g2) (i : Nat) (hi : inS i = true) :
    ∃ k, 1 ≤ k ∧ k ≤ 10 ∧ total minV gs inters i =
      pkaNew gs ((iterN minV gs (inters.filter fun it => inS it.g1) k
        (initState gs (inters.filter fun it => inS it.g1))).dets.filter
          fun d => decide (minV < d.value) || decide (d.value < -minV)) i := by
  obtain ⟨k, hk, hk0, he⟩ := solveLoop_eq_iterN minV gs inters 10 (initState gs inters)
  refine ⟨k, Nat.one_le_iff_ne_zero.mpr (hk0 (by decide)), hk, ?_⟩
  unfold total solve
  rw [he]
  exact (iterate_componentwise inS minV gs inters closed k i hi).2.2
end

/-! ### the stopping rule is global: a decided counter-example (known finding D11) -/
def gA : Array (IGroup ℚ) := #[⟨1, 11, false⟩, ⟨-1, 21/2, false⟩, ⟨1, 21/2, false⟩, ⟨-1, 9/2, false⟩]
def iA : List (Inter ℚ) := [⟨2, 0, 0, 1⟩, ⟨2, 1, 0, 1⟩, ⟨3, 1, 0, 1⟩]
def gAB : Array (IGroup ℚ) := gA ++ #[⟨-1, 4, false⟩, ⟨-1, 5, false⟩]
def iAB : List (Inter ℚ) := iA ++ [⟨5, 4, 1/2, 1⟩]

/-- the hypotheses of `iterate_componentwise` are met by the counter-example: cluster A (groups 0-3) is closed in A+B -/
example : ∀ it ∈ iAB, (fun i => decide (i < 4)) it.g1 = (fun i => decide (i < 4)) it.g2 := by decide

/-- cluster A alone stops after one iteration (its pKa values happen not to move although its state
    is not a fixed point); next to an unrelated acid pair that needs more iterations it keeps
    iterating and reports a different pKa for its first group -/
theorem iter_leak_counterexample : total (5/1000) gA iA 0 ≠ total (5/1000) gAB iAB 0 := by decide +kernel

end Propka.Iter

/-! ## the whole scoring phase (`Model/Scoring.lean`): every term that couples two parts vanishes beyond range -/
namespace Propka.Scoring
open Propka.Energy

/-- the closest pair of two atom lists is no closer than every pair is -/
theorem smallest_ge (sq : Nat → Nat → ℝ) (R2 : ℝ) (as bs : List Nat) (h : ∀ a ∈ as, ∀ b ∈ bs, R2 ≤ sq a b)
    (r : Best ℝ) (hr : smallest sq as bs = some r) : R2 ≤ r.d := by
  unfold smallest at hr
  have inner : ∀ (a : Nat) (ha : ∀ b ∈ bs, R2 ≤ sq a b) (l : List Nat) (hl : ∀ b ∈ l, b ∈ bs) (acc : Option (Best ℝ)),
      (∀ x, acc = some x → R2 ≤ x.d) → ∀ x, l.foldl (bestStep sq a) acc = some x → R2 ≤ x.d := by
    intro a ha l
    induction l with
    | nil => intro _ acc hacc x hx; exact hacc x hx
    | cons b bs' ih =>
      intro hl acc hacc x hx
      simp only [List.foldl_cons] at hx
      refine ih (fun b' hb' => hl b' (List.mem_cons_of_mem _ hb')) _ ?_ x hx
      intro y hy
      have hb := ha b (hl b (by simp))
      unfold bestStep at hy
      cases acc with
      | none => simp only [Option.some.injEq] at hy; rw [← hy]; exact hb
      | some r0 =>
        simp only at hy
        split at hy
        · simp only [Option.some.injEq] at hy; rw [← hy]; exact hb
        · simp only [Option.some.injEq] at hy; rw [← hy]; exact hacc r0 rfl
  have outer : ∀ (l : List Nat) (hl : ∀ a ∈ l, a ∈ as) (acc : Option (Best ℝ)), (∀ x, acc = some x → R2 ≤ x.d) →
      ∀ x, l.foldl (fun best a => bs.foldl (bestStep sq a) best) acc = some x → R2 ≤ x.d := by
    intro l
    induction l with
    | nil => intro _ acc hacc x hx; exact hacc x hx
    | cons a as' ih =>
      intro hl acc hacc x hx
      simp only [List.foldl_cons] at hx
      refine ih (fun a' ha' => hl a' (List.mem_cons_of_mem _ ha')) _ ?_ x hx
      intro y hy
      exact inner a (h a (hl a (by simp))) bs (fun b hb => hb) acc hacc y hy
  exact outer as (fun a ha => ha) none (by simp) r hr

/-- **No backbone hydrogen bond between parts beyond range**: if every interaction atom of the backbone group is at least
    `R` from every interaction atom of the titratable group, and no outer cut-off of the backbone tables exceeds `R`, the pair
    gets no determinant. -/
theorem bbDet_far (p : SP ℝ) (env : Env ℝ) (atoms : Tab AtomT) (groups : Tab (GroupT ℝ)) (t b : Nat) (R : ℝ) (hR : 0 ≤ R)
    (hfar : ∀ x ∈ interAtoms p (gget groups b) (gget groups t), ∀ y ∈ (gget groups t).iaAcid, R * R ≤ env.sqAA x y)
    (hNH : ∀ ty r, p.bbNH ty = some r → r.2.2 ≤ R) (hCO : ∀ ty r, p.bbCO ty = some r → r.2.2 ≤ R) :
    bbDet p env atoms groups t b = none := by
  unfold bbDet
  simp only
  split
  · rfl
  · split
    · rfl
    · split
      · rfl
      · rename_i r hr
        have hd := smallest_ge env.sqAA (R * R) _ _ hfar r hr
        have hs : R ≤ Real.sqrt r.d := by
          rw [show R = Real.sqrt (R * R) from (Real.sqrt_mul_self hR).symm]
          exact Real.sqrt_le_sqrt hd
        unfold bbValue
        simp only [Trig.sqrt]
        split
        · rfl
        · rename_i prm hprm
          have hc : prm.2.2 ≤ R := by
            unfold bbParams at hprm
            split at hprm
            · exact hCO _ _ hprm
            · split at hprm
              · exact hNH _ _ hprm
              · exact absurd hprm (by simp)
          have : ¬ Real.sqrt r.d < prm.2.2 := not_lt.mpr (le_trans hc hs)
          simp [this]

/-- no ion determinant beyond the Coulomb cut-off -/
theorem ionDet_far (p : SP ℝ) (env : Env ℝ) (groups : Tab (GroupT ℝ)) (nv : Nat → Nat) (t i : Nat) (h : p.cc2sq ≤ env.sqGG t i) :
    ionDet p env groups nv t i = none := by
  unfold ionDet; simp [not_lt.mpr h]

/-- **A pair of groups whose centres are at or beyond the Coulomb cut-off is skipped by the pair loop**: no non-iterative
    determinant, no entry in the iterative list. -/
theorem pairStep_far (p : SP ℝ) (env : Env ℝ) (atoms : Tab AtomT) (groups : Tab (GroupT ℝ)) (nv : Nat → ℝ) (ab : Nat × Nat)
    (h : p.ep.cc2 ≤ Real.sqrt (env.sqGG ab.1 ab.2)) :
    (pairStep p env atoms groups nv ab).ems = [] ∧ (pairStep p env atoms groups nv ab).inter = none := by
  unfold pairStep
  simp only [Trig.sqrt, not_lt.mpr h, if_false, and_self]

/-- far atoms leave the desolvation loop where it is: appending atoms at or beyond both cut-offs changes neither the
    accumulated volume nor the buried count -/
theorem desolvLoop_append_far (p : EP ℝ) (c1 c2 : ℝ) (near far : List (ℝ × ℝ)) (h : ∀ a ∈ far, c1 ≤ a.2 ∧ c2 ≤ a.2) :
    desolvLoop p c1 c2 (near ++ far) = desolvLoop p c1 c2 near := by
  rw [desolvation_skips_far_atoms p c1 c2 (near ++ far), desolvation_skips_far_atoms p c1 c2 near, List.filter_append]
  have : far.filter (fun a => decide (a.2 < c1) || decide (a.2 < c2)) = [] := by
    rw [List.filter_eq_nil_iff]
    intro a ha
    obtain ⟨h1, h2⟩ := h a ha
    simp [not_lt.mpr h1, not_lt.mpr h2]
  rw [this, List.append_nil]

/-- backbone C=O groups at or beyond the reorganisation distance add nothing to the local desolvation term -/
theorem energyLocal_append_far (p : EP ℝ) (near far : List (ℝ × ℝ)) (w : ℝ) (h : ∀ t ∈ far, p.bbd1 ≤ t.1) :
    energyLocal p (near ++ far) w = energyLocal p near w := by
  unfold energyLocal
  rw [List.foldl_append]
  congr 1
  generalize near.foldl (fun acc t => acc + reorgTerm p t.1 t.2) ((0:ℕ):ℝ) = acc
  induction far generalizing acc with
  | nil => rfl
  | cons t ts ih =>
    simp only [List.foldl_cons]
    rw [reorg_zero_beyond p t.1 t.2 (h t (by simp)), add_zero]
    exact ih (fun t' ht' => h t' (List.mem_cons_of_mem _ ht')) acc

/-! ### a system extended by a part beyond range -/

/-- the second system extends the first by atoms and groups that are beyond range `R` of everything in the first: the
    tables agree on the old indices, the old part is closed (its interaction atoms, bonds and covalent couplings stay inside
    it), the environments agree on the old indices, and everything new is at least `R` from everything old -/
structure FarExtension (p : SP ℝ) (env env' : Env ℝ) (atoms atoms' : Tab AtomT) (groups groups' : Tab (GroupT ℝ)) (R : ℝ) : Prop where
  rpos : 0 ≤ R
  na : atoms.n ≤ atoms'.n
  ng : groups.n ≤ groups'.n
  atomsEq : ∀ i, i < atoms.n → atoms'.get i = atoms.get i
  groupsEq : ∀ g, g < groups.n → groups'.get g = groups.get g
  iaAcidIn : ∀ g, g < groups.n → ∀ a ∈ (groups.get g).iaAcid, a < atoms.n
  iaBaseIn : ∀ g, g < groups.n → ∀ a ∈ (groups.get g).iaBase, a < atoms.n
  atomIn : ∀ g, g < groups.n → (groups.get g).atom < atoms.n
  bondedIn : ∀ a, a < atoms.n → ∀ b ∈ (atoms.get a).bonded, b < atoms.n
  newIaAcid : ∀ h, groups.n ≤ h → ∀ a ∈ (groups'.get h).iaAcid, atoms.n ≤ a
  newIaBase : ∀ h, groups.n ≤ h → ∀ a ∈ (groups'.get h).iaBase, atoms.n ≤ a
  envAA : ∀ i j, i < atoms.n → j < atoms.n → env'.sqAA i j = env.sqAA i j
  envGA : ∀ g a, g < groups.n → a < atoms.n → env'.sqGA g a = env.sqGA g a
  envGG : ∀ g h, g < groups.n → h < groups.n → env'.sqGG g h = env.sqGG g h
  envAngA : ∀ a b c, a < atoms.n → b < atoms.n → c < atoms.n → env'.angA a b c = env.angA a b c
  envAngC : ∀ g b c, g < groups.n → b < atoms.n → c < atoms.n → env'.angC g b c = env.angC g b c
  envRes : ∀ g a, g < groups.n → a < atoms.n → env'.sameRes g a = env.sameRes g a
  farGA : ∀ g a, g < groups.n → atoms.n ≤ a → R * R ≤ env'.sqGA g a
  farAA : ∀ i j, i < atoms.n → atoms.n ≤ j → R * R ≤ env'.sqAA i j ∧ R * R ≤ env'.sqAA j i
  farGG : ∀ g h, g < groups.n → groups.n ≤ h → R * R ≤ env'.sqGG g h ∧ R * R ≤ env'.sqGG h g
  farC : ∀ g b c, g < groups.n → atoms.n ≤ b → R ≤ (env'.angC g b c).d12
  desolvR : p.desolvCut2 ≤ R * R
  buriedR : p.buriedCut2 ≤ R * R
  ccR : p.cc2sq ≤ R * R
  bbdR : p.ep.bbd1 ≤ R
  nhR : ∀ ty r, p.bbNH ty = some r → r.2.2 ≤ R
  coR : ∀ ty r, p.bbCO ty = some r → r.2.2 ≤ R
  newBBC : ∀ h, groups.n ≤ h → ((groups'.get h).type == "BBC") = true → (groups'.get h).iaAcid ≠ [] ∧ (groups'.get h).iaBase ≠ []

theorem range_split (m k : Nat) : List.range (m + k) = List.range m ++ (List.range k).map (m + ·) := List.range_add

/-- **Desolvation of a group does not see atoms beyond range**: volume and buried count of every old group are the same in
    the extended system. -/
theorem desolv_extend (p : SP ℝ) (env env' : Env ℝ) (atoms atoms' : Tab AtomT) (groups groups' : Tab (GroupT ℝ)) (R : ℝ)
    (h : FarExtension p env env' atoms atoms' groups groups' R) (g : Nat) (hg : g < groups.n) :
    desolv p env' atoms' g = desolv p env atoms g := by
  unfold desolv desolvInput heavy
  obtain ⟨k, hk⟩ := Nat.exists_eq_add_of_le h.na
  rw [hk, range_split, List.filter_append, List.filter_append, List.map_append]
  have hold : (List.map (fun a => (dvol p (aget atoms' a), env'.sqGA g a))
        (List.filter (fun a => !env'.sameRes g a) (List.filter (fun i => (aget atoms' i).elem != "H") (List.range atoms.n))))
      = List.map (fun a => (dvol p (aget atoms a), env.sqGA g a))
        (List.filter (fun a => !env.sameRes g a) (List.filter (fun i => (aget atoms i).elem != "H") (List.range atoms.n))) := by
    have e1 : List.filter (fun i => (aget atoms' i).elem != "H") (List.range atoms.n) = List.filter (fun i => (aget atoms i).elem != "H") (List.range atoms.n) := by
      apply List.filter_congr
      intro i hi
      simp only [aget, h.atomsEq i (List.mem_range.mp hi)]
    rw [e1]
    have e2 : List.filter (fun a => !env'.sameRes g a) (List.filter (fun i => (aget atoms i).elem != "H") (List.range atoms.n))
        = List.filter (fun a => !env.sameRes g a) (List.filter (fun i => (aget atoms i).elem != "H") (List.range atoms.n)) := by
      apply List.filter_congr
      intro a ha
      rw [h.envRes g a hg (List.mem_range.mp (List.mem_filter.mp ha).1)]
    rw [e2]
    apply List.map_congr_left
    intro a ha
    have hlt : a < atoms.n := List.mem_range.mp (List.mem_filter.mp (List.mem_filter.mp ha).1).1
    simp only [aget, h.atomsEq a hlt, h.envGA g a hg hlt]
  rw [hold]
  apply desolvLoop_append_far
  intro x hx
  obtain ⟨a, ha, rfl⟩ := List.mem_map.mp hx
  have hge : atoms.n ≤ a := by
    obtain ⟨j, _, rfl⟩ := List.mem_map.mp (List.mem_filter.mp (List.mem_filter.mp ha).1).1
    exact Nat.le_add_right _ _
  exact ⟨le_trans h.desolvR (h.farGA g a hg hge), le_trans h.buriedR (h.farGA g a hg hge)⟩


theorem smallest_congr (sq sq' : Nat → Nat → ℝ) (as bs : List Nat) (h : ∀ a ∈ as, ∀ b ∈ bs, sq' a b = sq a b) :
    smallest sq' as bs = smallest sq as bs := by
  unfold smallest
  have inner : ∀ (a : Nat), (∀ b ∈ bs, sq' a b = sq a b) → ∀ (l : List Nat), (∀ b ∈ l, b ∈ bs) → ∀ acc,
      l.foldl (bestStep sq' a) acc = l.foldl (bestStep sq a) acc := by
    intro a ha l
    induction l with
    | nil => intro _ _; rfl
    | cons b l ih =>
      intro hl acc
      simp only [List.foldl_cons]
      have : bestStep sq' a acc b = bestStep sq a acc b := by unfold bestStep; rw [ha b (hl b (by simp))]
      rw [this]
      exact ih (fun b' hb' => hl b' (List.mem_cons_of_mem _ hb')) _
  have outer : ∀ (l : List Nat), (∀ a ∈ l, a ∈ as) → ∀ acc,
      l.foldl (fun best a => bs.foldl (bestStep sq' a) best) acc = l.foldl (fun best a => bs.foldl (bestStep sq a) best) acc := by
    intro l
    induction l with
    | nil => intro _ _; rfl
    | cons a l ih =>
      intro hl acc
      simp only [List.foldl_cons]
      rw [inner a (h a (hl a (by simp))) bs (fun b hb => hb)]
      exact ih (fun a' ha' => hl a' (List.mem_cons_of_mem _ ha')) _
  exact outer as (fun a ha => ha) none

/-- the closest pair consists of an atom of each list -/
theorem smallest_mem (sq : Nat → Nat → ℝ) (as bs : List Nat) (r : Best ℝ) (hr : smallest sq as bs = some r) : r.a ∈ as ∧ r.b ∈ bs := by
  unfold smallest at hr
  have inner : ∀ (a : Nat), a ∈ as → ∀ (l : List Nat), (∀ b ∈ l, b ∈ bs) → ∀ acc, (∀ x, acc = some x → x.a ∈ as ∧ x.b ∈ bs) →
      ∀ x, l.foldl (bestStep sq a) acc = some x → x.a ∈ as ∧ x.b ∈ bs := by
    intro a ha l
    induction l with
    | nil => intro _ acc hacc x hx; exact hacc x hx
    | cons b l ih =>
      intro hl acc hacc x hx
      simp only [List.foldl_cons] at hx
      refine ih (fun b' hb' => hl b' (List.mem_cons_of_mem _ hb')) _ ?_ x hx
      intro y hy
      unfold bestStep at hy
      cases acc with
      | none => simp only [Option.some.injEq] at hy; rw [← hy]; exact ⟨ha, hl b (by simp)⟩
      | some r0 =>
        simp only at hy
        split at hy
        · simp only [Option.some.injEq] at hy; rw [← hy]; exact ⟨ha, hl b (by simp)⟩
        · simp only [Option.some.injEq] at hy; rw [← hy]; exact hacc r0 rfl
  have outer : ∀ (l : List Nat), (∀ a ∈ l, a ∈ as) → ∀ acc, (∀ x, acc = some x → x.a ∈ as ∧ x.b ∈ bs) →
      ∀ x, l.foldl (fun best a => bs.foldl (bestStep sq a) best) acc = some x → x.a ∈ as ∧ x.b ∈ bs := by
    intro l
    induction l with
    | nil => intro _ acc hacc x hx; exact hacc x hx
    | cons a l ih =>
      intro hl acc hacc x hx
      simp only [List.foldl_cons] at hx
      refine ih (fun a' ha' => hl a' (List.mem_cons_of_mem _ ha')) _ ?_ x hx
      intro y hy
      exact inner a (hl a (by simp)) bs (fun b hb => hb) acc hacc y hy
  exact outer as (fun a ha => ha) none (by simp) r hr

section
variable {p : SP ℝ} {env env' : Env ℝ} {atoms atoms' : Tab AtomT} {groups groups' : Tab (GroupT ℝ)} {R : ℝ}

theorem FarExtension.gget_eq (h : FarExtension p env env' atoms atoms' groups groups' R) (g : Nat) (hg : g < groups.n) :
    gget groups' g = gget groups g := h.groupsEq g hg
theorem FarExtension.aget_eq (h : FarExtension p env env' atoms atoms' groups groups' R) (a : Nat) (ha : a < atoms.n) :
    aget atoms' a = aget atoms a := h.atomsEq a ha

theorem FarExtension.interAtoms_in (h : FarExtension p env env' atoms atoms' groups groups' R) (g : Nat) (hg : g < groups.n) (o : GroupT ℝ) :
    ∀ a ∈ interAtoms p (gget groups g) o, a < atoms.n := by
  intro a ha
  unfold interAtoms at ha
  split at ha
  · exact h.iaBaseIn g hg a ha
  · exact h.iaAcidIn g hg a ha

theorem FarExtension.interAtoms_new (h : FarExtension p env env' atoms atoms' groups groups' R) (b : Nat) (hb : groups.n ≤ b) (o : GroupT ℝ) :
    ∀ a ∈ interAtoms p (gget groups' b) o, atoms.n ≤ a := by
  intro a ha
  unfold interAtoms at ha
  split at ha
  · exact h.newIaBase b hb a ha
  · exact h.newIaAcid b hb a ha

theorem FarExtension.bond0_in (h : FarExtension p env env' atoms atoms' groups groups' R) (a : Nat) (ha : a < atoms.n) :
    bond0 atoms' a = bond0 atoms a ∧ bond0 atoms a < atoms.n := by
  unfold bond0
  rw [h.aget_eq a ha]
  refine ⟨rfl, ?_⟩
  cases hb : (aget atoms a).bonded with
  | nil => exact ha
  | cons x xs => exact h.bondedIn a ha x (by unfold aget at hb; rw [hb]; simp)

/-- a backbone hydrogen bond inside the old part is computed from the old part alone -/
theorem bbDet_extend (h : FarExtension p env env' atoms atoms' groups groups' R) (t b : Nat) (ht : t < groups.n) (hb : b < groups.n) :
    bbDet p env' atoms' groups' t b = bbDet p env atoms groups t b := by
  unfold bbDet
  simp only
  rw [h.gget_eq t ht, h.gget_eq b hb]
  have hsm := smallest_congr env.sqAA env'.sqAA (interAtoms p (gget groups b) (gget groups t)) (gget groups t).iaAcid
    (fun x hx y hy => h.envAA x y (h.interAtoms_in b hb _ x hx) (h.iaAcidIn t ht y hy))
  rw [hsm]
  split
  · rfl
  · split
    · rfl
    · split
      · rfl
      · rename_i r hr
        obtain ⟨ha, hbb⟩ := smallest_mem _ _ _ r hr
        have hra := h.interAtoms_in b hb _ r.a ha
        have hrb := h.iaAcidIn t ht r.b hbb
        congr 1
        unfold bbValue bbAngle
        simp only
        rw [h.aget_eq r.a hra, h.aget_eq r.b hrb, (h.bond0_in r.a hra).1, (h.bond0_in r.b hrb).1,
          h.envAngA _ _ _ (h.bond0_in r.b hrb).2 hrb hra, h.envAngA _ _ _ hrb hra (h.bond0_in r.a hra).2]

theorem filter_range_extend {β : Type} (m k : Nat) (f f' : Nat → Bool) (hf : ∀ i, i < m → f' i = f i) :
    (List.range (m + k)).filter f' = (List.range m).filter f ++ ((List.range k).map (m + ·)).filter f' := by
  rw [List.range_add, List.filter_append]
  congr 1
  apply List.filter_congr
  intro i hi
  exact hf i (List.mem_range.mp hi)

/-- **The backbone determinants of an old group are the same in the extended system.** -/
theorem bbDets_extend (h : FarExtension p env env' atoms atoms' groups groups' R) (t : Nat) (ht : t < groups.n) :
    bbDets p env' atoms' groups' t = bbDets p env atoms groups t := by
  unfold bbDets
  rw [h.gget_eq t ht]
  split
  · unfold bbGroups
    obtain ⟨k, hk⟩ := Nat.exists_eq_add_of_le h.ng
    rw [hk, filter_range_extend (β := Nat) groups.n k (fun i => hasBB (gget groups i).type) (fun i => hasBB (gget groups' i).type)
      (fun i hi => by rw [h.gget_eq i hi]), List.filterMap_append]
    have hnew : List.filterMap (bbDet p env' atoms' groups' t)
        (List.filter (fun i => hasBB (gget groups' i).type) (List.map (fun x => groups.n + x) (List.range k))) = [] := by
      rw [List.filterMap_eq_nil_iff]
      intro b hb
      have hge : groups.n ≤ b := by
        obtain ⟨j, _, rfl⟩ := List.mem_map.mp (List.mem_filter.mp hb).1
        exact Nat.le_add_right _ _
      apply bbDet_far p env' atoms' groups' t b R h.rpos _ h.nhR h.coR
      intro x hx y hy
      rw [h.gget_eq t ht] at hy
      exact (h.farAA y x (h.iaAcidIn t ht y hy) (h.interAtoms_new b hge _ x hx)).2
    rw [hnew, List.append_nil]
    apply List.filterMap_congr
    intro b hb
    exact bbDet_extend h t b ht (List.mem_range.mp (List.mem_filter.mp hb).1)
  · rfl

/-- **The ion determinants of an old group are the same in the extended system.** -/
theorem ionDets_extend (h : FarExtension p env env' atoms atoms' groups groups' R) (nv nv' : Nat → Nat)
    (hnv : ∀ g, g < groups.n → nv' g = nv g) (t : Nat) (ht : t < groups.n) :
    ionDets p env' groups' nv' t = ionDets p env groups nv t := by
  unfold ionDets
  rw [h.gget_eq t ht]
  split
  · unfold ionGroups
    obtain ⟨k, hk⟩ := Nat.exists_eq_add_of_le h.ng
    rw [hk, filter_range_extend (β := Nat) groups.n k (fun i => p.ionRes (gget groups i).resType) (fun i => p.ionRes (gget groups' i).resType)
      (fun i hi => by rw [h.gget_eq i hi]), List.filterMap_append]
    have hnew : List.filterMap (ionDet p env' groups' nv' t)
        (List.filter (fun i => p.ionRes (gget groups' i).resType) (List.map (fun x => groups.n + x) (List.range k))) = [] := by
      rw [List.filterMap_eq_nil_iff]
      intro b hb
      have hge : groups.n ≤ b := by
        obtain ⟨j, _, rfl⟩ := List.mem_map.mp (List.mem_filter.mp hb).1
        exact Nat.le_add_right _ _
      exact ionDet_far p env' groups' nv' t b (le_trans h.ccR (h.farGG t b ht hge).1)
    rw [hnew, List.append_nil]
    apply List.filterMap_congr
    intro b hb
    have hbl : b < groups.n := List.mem_range.mp (List.mem_filter.mp hb).1
    unfold ionDet
    rw [h.envGG t b ht hbl, h.gget_eq b hbl, hnv t ht, hnv b hbl]
  · rfl

theorem buriedOf_extend (h : FarExtension p env env' atoms atoms' groups groups' R) (nv nv' : Nat → Nat)
    (hnv : ∀ g, g < groups.n → nv' g = nv g) (t : Nat) (ht : t < groups.n) :
    buriedOf p groups' nv' t = buriedOf p groups nv t := by
  unfold buriedOf; rw [h.gget_eq t ht, hnv t ht]

/-- **The local desolvation term (backbone reorganisation) of an old group is the same in the extended system.** -/
theorem elocOf_extend (h : FarExtension p env env' atoms atoms' groups groups' R) (nv nv' : Nat → Nat)
    (hnv : ∀ g, g < groups.n → nv' g = nv g) (t : Nat) (ht : t < groups.n) :
    elocOf p env' groups' nv' t = elocOf p env groups nv t := by
  unfold elocOf
  rw [h.gget_eq t ht, buriedOf_extend h nv nv' hnv t ht]
  split
  · unfold reorgInput bbcGroups
    obtain ⟨k, hk⟩ := Nat.exists_eq_add_of_le h.ng
    rw [hk, filter_range_extend (β := Nat) groups.n k (fun i => (gget groups i).type == "BBC") (fun i => (gget groups' i).type == "BBC")
      (fun i hi => by rw [h.gget_eq i hi]), List.map_append]
    refine Eq.trans (energyLocal_append_far _ _ _ _ ?_) ?_
    · intro x hx
      obtain ⟨b, hb, rfl⟩ := List.mem_map.mp hx
      have hge : groups.n ≤ b := by
        obtain ⟨j, _, rfl⟩ := List.mem_map.mp (List.mem_filter.mp hb).1
        exact Nat.le_add_right _ _
      simp only
      refine le_trans h.bbdR (h.farC t _ _ ht ?_)
      have hty : ((groups'.get b).type == "BBC") = true := (List.mem_filter.mp hb).2
      cases hl : interAtoms p (gget groups' b) (gget groups' t) with
      | nil =>
        exfalso
        unfold interAtoms at hl
        split at hl
        · exact (h.newBBC b hge hty).2 hl
        · exact (h.newBBC b hge hty).1 hl
      | cons x xs => exact h.interAtoms_new b hge _ x (by rw [hl]; simp)
    · congr 1
      apply List.map_congr_left
      intro b hb
      have hbl : b < groups.n := List.mem_range.mp (List.mem_filter.mp hb).1
      simp only
      rw [h.gget_eq b hbl, h.gget_eq t ht]
      have hat : (gget groups b).atom < atoms.n := h.atomIn b hbl
      have hhd : (interAtoms p (gget groups b) (gget groups t)).headD 0 < atoms.n := by
        cases hl : interAtoms p (gget groups b) (gget groups t) with
        | nil => exact Nat.lt_of_le_of_lt (Nat.zero_le _) hat
        | cons x xs => exact h.interAtoms_in b hbl _ x (by rw [hl]; simp)
      rw [h.envAngC t _ _ ht hhd hat]
  · rfl

/-- **Everything the non-iterative single-group phases leave on an old group - buried count and fraction, both desolvation
    terms, the backbone and the ion determinants - is the same in the extended system**: atoms and groups beyond range do not
    influence them. -/
theorem single_group_phases_extend (h : FarExtension p env env' atoms atoms' groups groups' R) (t : Nat) (ht : t < groups.n) :
    desolvOf p env' atoms' groups' t = desolvOf p env atoms groups t ∧
    bbDets p env' atoms' groups' t = bbDets p env atoms groups t ∧
    ionDets p env' groups' (nvF (desTab p env' atoms' groups')) t = ionDets p env groups (nvF (desTab p env atoms groups)) t ∧
    evolOf p groups' (volF (desTab p env' atoms' groups')) (nvF (desTab p env' atoms' groups')) t
      = evolOf p groups (volF (desTab p env atoms groups)) (nvF (desTab p env atoms groups)) t ∧
    elocOf p env' groups' (nvF (desTab p env' atoms' groups')) t = elocOf p env groups (nvF (desTab p env atoms groups)) t := by
  have hdes : ∀ g, g < groups.n → desolvOf p env' atoms' groups' g = desolvOf p env atoms groups g := by
    intro g hg
    unfold desolvOf
    rw [h.gget_eq g hg, desolv_extend p env env' atoms atoms' groups groups' R h g hg]
  have htab : ∀ g, g < groups.n → tab (desTab p env' atoms' groups') (zero, 0) g = tab (desTab p env atoms groups) (zero, 0) g := by
    intro g hg
    unfold desTab
    rw [tab_map_range _ _ _ _ hg, tab_map_range _ _ _ _ (Nat.lt_of_lt_of_le hg h.ng), hdes g hg]
  have hnv : ∀ g, g < groups.n → nvF (desTab p env' atoms' groups') g = nvF (desTab p env atoms groups) g := by
    intro g hg; unfold nvF; rw [htab g hg]
  have hvol : volF (desTab p env' atoms' groups') t = volF (desTab p env atoms groups) t := by
    unfold volF; rw [htab t ht]
  refine ⟨hdes t ht, bbDets_extend h t ht, ionDets_extend h _ _ hnv t ht, ?_, elocOf_extend h _ _ hnv t ht⟩
  unfold evolOf
  rw [h.gget_eq t ht, hvol, buriedOf_extend h _ _ hnv t ht]
end

/-! ### the pair loop of the extended system, and everything before the iterative scheme -/
theorem any_congr_mem {β : Type} (l : List β) (f g : β → Bool) (h : ∀ x ∈ l, f x = g x) : l.any f = l.any g := by
  induction l with
  | nil => rfl
  | cons x xs ih =>
    simp only [List.any_cons]
    rw [h x (by simp), ih (fun y hy => h y (List.mem_cons_of_mem _ hy))]

section
variable {p : SP ℝ} {env env' : Env ℝ} {atoms atoms' : Tab AtomT} {groups groups' : Tab (GroupT ℝ)} {R : ℝ}

theorem withinBonds_extend (h : FarExtension p env env' atoms atoms' groups groups' R) (other : Nat) (fuel : Nat) (a : Nat) (ha : a < atoms.n) :
    withinBonds atoms' other fuel a = withinBonds atoms other fuel a := by
  induction fuel generalizing a with
  | zero => rfl
  | succ n ih =>
    unfold withinBonds
    rw [h.aget_eq a ha]
    apply any_congr_mem
    intro b hb
    rw [ih b (h.bondedIn a ha b hb)]

theorem scAngle_extend (h : FarExtension p env env' atoms atoms' groups groups' R) (g1 g2 : GroupT ℝ) (r : Best ℝ)
    (ha : r.a < atoms.n) (hb : r.b < atoms.n) :
    scAngle p env' atoms' g1 g2 r = scAngle p env atoms g1 g2 r := by
  unfold scAngle
  rw [h.aget_eq r.a ha, h.aget_eq r.b hb, (h.bond0_in r.a ha).1, (h.bond0_in r.b hb).1,
    h.envAngA _ _ _ ha hb (h.bond0_in r.b hb).2, h.envAngA _ _ _ hb ha (h.bond0_in r.a ha).2]

theorem erase_sub (l : List Nat) (x : Nat) (P : Nat → Prop) (hl : ∀ a ∈ l, P a) : ∀ a ∈ l.erase x, P a :=
  fun a ha => hl a (List.mem_of_mem_erase ha)

theorem cooArgRound_extend (h : FarExtension p env env' atoms atoms' groups groups' R) (ang : Bool) (st : ℝ × List Nat × List Nat)
    (h1 : ∀ a ∈ st.2.1, a < atoms.n) (h2 : ∀ a ∈ st.2.2, a < atoms.n) :
    cooArgRound p env' atoms' ang st = cooArgRound p env atoms ang st ∧
    (∀ a ∈ (cooArgRound p env atoms ang st).2.1, a < atoms.n) ∧ (∀ a ∈ (cooArgRound p env atoms ang st).2.2, a < atoms.n) := by
  unfold cooArgRound
  rw [smallest_congr env.sqAA env'.sqAA st.2.1 st.2.2 (fun x hx y hy => h.envAA x y (h1 x hx) (h2 y hy))]
  split
  · exact ⟨rfl, h1, h2⟩
  · rename_i r hr
    obtain ⟨hra, hrb⟩ := smallest_mem _ _ _ r hr
    have ha := h1 r.a hra
    have hb := h2 r.b hrb
    simp only
    rw [h.aget_eq r.a ha, h.aget_eq r.b hb, (h.bond0_in r.b hb).1, h.envAngA _ _ _ ha hb (h.bond0_in r.b hb).2]
    exact ⟨rfl, erase_sub _ _ _ h1, erase_sub _ _ _ h2⟩

theorem cooArg_extend (h : FarExtension p env env' atoms atoms' groups groups' R) (c a : Nat) (hc : c < groups.n) (ha : a < groups.n) :
    cooArg p env' atoms' (gget groups c) (gget groups a) = cooArg p env atoms (gget groups c) (gget groups a) := by
  unfold cooArg
  simp only
  obtain ⟨e1, i1, i2⟩ := cooArgRound_extend h (p.angular (gget groups a).type)
    (zero, interAtoms p (gget groups c) (gget groups a), interAtoms p (gget groups a) (gget groups c))
    (h.interAtoms_in c hc _) (h.interAtoms_in a ha _)
  rw [e1]
  rw [(cooArgRound_extend h _ _ i1 i2).1]

theorem cooCoo_extend (h : FarExtension p env env' atoms atoms' groups groups' R) (a b : Nat) (ha : a < groups.n) (hb : b < groups.n) (n1 n2 : ℝ) :
    cooCoo p env' atoms' (gget groups a) (gget groups b) n1 n2 = cooCoo p env atoms (gget groups a) (gget groups b) n1 n2 := by
  unfold cooCoo
  rw [smallest_congr env.sqAA env'.sqAA _ _ (fun x hx y hy => h.envAA x y (h.interAtoms_in a ha _ x hx) (h.interAtoms_in b hb _ y hy))]
  split
  · rfl
  · rename_i r hr
    obtain ⟨hra, hrb⟩ := smallest_mem _ _ _ r hr
    simp only
    rw [h.aget_eq r.a (h.interAtoms_in a ha _ r.a hra), h.aget_eq r.b (h.interAtoms_in b hb _ r.b hrb)]

theorem exceptionValue_extend (h : FarExtension p env env' atoms atoms' groups groups' R) (a b : Nat) (ha : a < groups.n) (hb : b < groups.n) (n1 n2 : ℝ) :
    exceptionValue p env' atoms' (gget groups a) (gget groups b) n1 n2 = exceptionValue p env atoms (gget groups a) (gget groups b) n1 n2 := by
  unfold exceptionValue
  simp only
  rw [cooArg_extend h a b ha hb, cooArg_extend h b a hb ha, cooCoo_extend h a b ha hb]

theorem hbVal_extend (h : FarExtension p env env' atoms atoms' groups groups' R) (a b : Nat) (ha : a < groups.n) (hb : b < groups.n) (n1 n2 : ℝ) :
    hbVal p env' atoms' (gget groups a) (gget groups b) n1 n2 = hbVal p env atoms (gget groups a) (gget groups b) n1 n2 := by
  unfold hbVal
  rw [smallest_congr env.sqAA env'.sqAA _ _ (fun x hx y hy => h.envAA x y (h.interAtoms_in a ha _ x hx) (h.interAtoms_in b hb _ y hy))]
  split
  · rfl
  · rename_i r hr
    obtain ⟨hra, hrb⟩ := smallest_mem _ _ _ r hr
    have h1 := h.interAtoms_in a ha _ r.a hra
    have h2 := h.interAtoms_in b hb _ r.b hrb
    simp only
    have hat : (gget groups a).atom < atoms.n := h.atomIn a ha
    rw [h.aget_eq r.a h1, h.aget_eq r.b h2, withinBonds_extend h _ _ _ hat, scAngle_extend h _ _ r h1 h2,
      exceptionValue_extend h a b ha hb]

/-- a pair of old groups is treated in the extended system exactly as in the old one -/
theorem pairStep_extend (h : FarExtension p env env' atoms atoms' groups groups' R) (nv nv' : Nat → ℝ)
    (hnv : ∀ g, g < groups.n → nv' g = nv g) (ab : Nat × Nat) (ha : ab.1 < groups.n) (hb : ab.2 < groups.n) :
    pairStep p env' atoms' groups' nv' ab = pairStep p env atoms groups nv ab := by
  unfold pairStep
  simp only
  rw [h.gget_eq ab.1 ha, h.gget_eq ab.2 hb, h.envGG ab.1 ab.2 ha hb, hnv ab.1 ha, hnv ab.2 hb, hbVal_extend h ab.1 ab.2 ha hb]

theorem flatMap_congr_mem {β γ : Type} (l : List β) (f g : β → List γ) (h : ∀ a ∈ l, f a = g a) : l.flatMap f = l.flatMap g := by
  induction l with
  | nil => rfl
  | cons a as ih =>
    simp only [List.flatMap_cons]
    rw [h a (by simp), ih (fun b hb => h b (List.mem_cons_of_mem _ hb))]

theorem innerPairs_prefix (G : Tab (GroupT ℝ)) (a : Nat) (l1 l2 : List Nat) (ha : a ∈ l1) :
    innerPairs G a (l1 ++ l2) = innerPairs G a l1 := by
  induction l1 with
  | nil => exact absurd ha (by simp)
  | cons b l ih =>
    simp only [List.cons_append, innerPairs]
    split
    · rfl
    · rename_i hc
      have hne : b ≠ a := by
        intro e; apply hc; simp [e]
      have : a ∈ l := by
        rcases List.mem_cons.mp ha with e | e
        · exact absurd e.symm hne
        · exact e
      rw [ih this]

theorem innerPairs_congr (G G' : Tab (GroupT ℝ)) (a : Nat) (l : List Nat) (hc : (gget G' a).cov = (gget G a).cov) :
    innerPairs G' a l = innerPairs G a l := by
  induction l with
  | nil => rfl
  | cons b l ih => simp only [innerPairs, hc, ih]

theorem innerPairs_mem (G : Tab (GroupT ℝ)) (a : Nat) (l : List Nat) (ab : Nat × Nat) (h : ab ∈ innerPairs G a l) : ab.1 = a ∧ ab.2 ∈ l := by
  induction l with
  | nil => exact absurd h (by simp [innerPairs])
  | cons b l ih =>
    simp only [innerPairs] at h
    split at h
    · exact absurd h (by simp)
    · rcases List.mem_cons.mp h with e | e
      · rw [e]; exact ⟨rfl, by simp⟩
      · exact ⟨(ih e).1, List.mem_cons_of_mem _ (ih e).2⟩

/-- the pairs the loop visits in the extended system: those of the old system, then pairs whose first member is new -/
theorem visited_extend (h : FarExtension p env env' atoms atoms' groups groups' R) :
    ∃ extra, visited groups' = visited groups ++ extra ∧ (∀ ab ∈ extra, groups.n ≤ ab.1) ∧
      (∀ ab ∈ visited groups, ab.1 < groups.n ∧ ab.2 < groups.n) := by
  obtain ⟨k, hk⟩ := Nat.exists_eq_add_of_le h.ng
  have hsc : sidechainGroups groups' = sidechainGroups groups ++
      (List.filter (fun i => !hasBB (gget groups' i).type && !(gget groups' i).bridged) (List.map (fun x => groups.n + x) (List.range k))) := by
    unfold sidechainGroups
    rw [hk, filter_range_extend (β := Nat) groups.n k (fun i => !hasBB (gget groups i).type && !(gget groups i).bridged)
      (fun i => !hasBB (gget groups' i).type && !(gget groups' i).bridged) (fun i hi => by rw [h.gget_eq i hi])]
  have hold : ∀ x ∈ sidechainGroups groups, x < groups.n := by
    intro x hx; unfold sidechainGroups at hx; exact List.mem_range.mp (List.mem_filter.mp hx).1
  refine ⟨(List.filter (fun i => !hasBB (gget groups' i).type && !(gget groups' i).bridged) (List.map (fun x => groups.n + x) (List.range k))).flatMap
      (fun a => innerPairs groups' a (sidechainGroups groups')), ?_, ?_, ?_⟩
  · unfold visited
    rw [hsc, List.flatMap_append]
    congr 1
    apply flatMap_congr_mem
    intro a ha
    rw [innerPairs_prefix groups' a _ _ ha, innerPairs_congr groups groups' a _ (by rw [h.gget_eq a (hold a ha)])]
  · intro ab hab
    obtain ⟨a, ha, hm⟩ := List.mem_flatMap.mp hab
    rw [(innerPairs_mem _ _ _ _ hm).1]
    obtain ⟨j, _, rfl⟩ := List.mem_map.mp (List.mem_filter.mp ha).1
    exact Nat.le_add_right _ _
  · intro ab hab
    unfold visited at hab
    obtain ⟨a, ha, hm⟩ := List.mem_flatMap.mp hab
    obtain ⟨e1, e2⟩ := innerPairs_mem _ _ _ _ hm
    exact ⟨by rw [e1]; exact hold a ha, hold _ e2⟩

theorem tagOut_owner (a b : Nat) (k : Kind) (o : Out ℝ) (e : Em ℝ) (h : e ∈ tagOut a b k o) : e.owner = a ∨ e.owner = b := by
  unfold tagOut at h
  obtain ⟨r, _, rfl⟩ := List.mem_map.mp h
  split
  · exact Or.inl rfl
  · exact Or.inr rfl

theorem pairStep_owner (p : SP ℝ) (env : Env ℝ) (atoms : Tab AtomT) (groups : Tab (GroupT ℝ)) (nv : Nat → ℝ) (ab : Nat × Nat) :
    (∀ e ∈ (pairStep p env atoms groups nv ab).ems, e.owner = ab.1 ∨ e.owner = ab.2) ∧
    (∀ it, (pairStep p env atoms groups nv ab).inter = some it → it.g1 = ab.1 ∧ it.g2 = ab.2) := by
  unfold pairStep
  simp only
  split
  · split
    · split
      · exact ⟨fun e he => absurd he (by simp), fun it hit => by have := Option.some.inj hit; subst this; exact ⟨rfl, rfl⟩⟩
      · exact ⟨fun e he => absurd he (by simp), fun it hit => absurd hit (by simp)⟩
    · refine ⟨?_, fun it hit => absurd hit (by simp)⟩
      intro e he
      simp only [List.mem_append] at he
      rcases he with h1 | h2
      · split at h1
        · split at h1
          · exact tagOut_owner _ _ _ _ _ h1
          · exact absurd h1 (by simp)
        · exact absurd h1 (by simp)
      · split at h2
        · split at h2
          · exact tagOut_owner _ _ _ _ _ h2
          · exact absurd h2 (by simp)
        · exact absurd h2 (by simp)
    · exact ⟨fun e he => absurd he (by simp), fun it hit => absurd hit (by simp)⟩
  · exact ⟨fun e he => absurd he (by simp), fun it hit => absurd hit (by simp)⟩

theorem emsOf_append (l1 l2 : List (Em ℝ)) (g : Nat) (k : Kind) : emsOf (l1 ++ l2) g k = emsOf l1 g k ++ emsOf l2 g k := by
  unfold emsOf; rw [List.filter_append, List.map_append]

theorem emsOf_nil_of_owner (l : List (Em ℝ)) (g : Nat) (k : Kind) (n : Nat) (hg : g < n) (h : ∀ e ∈ l, n ≤ e.owner) : emsOf l g k = [] := by
  unfold emsOf
  rw [List.map_eq_nil_iff, List.filter_eq_nil_iff]
  intro e he
  have := h e he
  simp only [Bool.and_eq_true, beq_iff_eq, not_and]
  intro ho; omega

/-- what a pair with a new first member does: nothing that reaches an old group -/
theorem pairStep_new (h : FarExtension p env env' atoms atoms' groups groups' R) (hcc : p.ep.cc2 ≤ R) (nv' : Nat → ℝ) (ab : Nat × Nat)
    (hge : groups.n ≤ ab.1) :
    (∀ e ∈ (pairStep p env' atoms' groups' nv' ab).ems, groups.n ≤ e.owner) ∧
    (∀ it, (pairStep p env' atoms' groups' nv' ab).inter = some it → groups.n ≤ it.g1 ∧ groups.n ≤ it.g2) := by
  by_cases hb : ab.2 < groups.n
  · have hfar : p.ep.cc2 ≤ Real.sqrt (env'.sqGG ab.1 ab.2) := by
      refine le_trans hcc ?_
      rw [show R = Real.sqrt (R * R) from (Real.sqrt_mul_self h.rpos).symm]
      exact Real.sqrt_le_sqrt (h.farGG ab.2 ab.1 hb hge).2
    obtain ⟨e1, e2⟩ := pairStep_far p env' atoms' groups' nv' ab hfar
    rw [e1, e2]
    exact ⟨fun e he => absurd he (by simp), fun it hit => absurd hit (by simp)⟩
  · obtain ⟨o1, o2⟩ := pairStep_owner p env' atoms' groups' nv' ab
    refine ⟨?_, ?_⟩
    · intro e he
      rcases o1 e he with r | r <;> rw [r]
      · exact hge
      · exact Nat.le_of_not_lt hb
    · intro it hit
      obtain ⟨r1, r2⟩ := o2 it hit
      rw [r1, r2]; exact ⟨hge, Nat.le_of_not_lt hb⟩

/-- **The pair loop of the extended system**: the non-iterative determinants of every old group are those of the old system,
    and the list handed to the iterative scheme is the old list followed by interactions among new groups only. -/
theorem pair_loop_extend (h : FarExtension p env env' atoms atoms' groups groups' R) (hcc : p.ep.cc2 ≤ R) (nv nv' : Nat → Nat)
    (hnv : ∀ g, g < groups.n → nv' g = nv g) :
    (∀ g, g < groups.n → ∀ k, emsOf (nonIterEms (pairResults p env' atoms' groups' nv')) g k = emsOf (nonIterEms (pairResults p env atoms groups nv)) g k) ∧
    (∃ extra, iterInters (pairResults p env' atoms' groups' nv') = iterInters (pairResults p env atoms groups nv) ++ extra ∧
      (∀ it ∈ extra, groups.n ≤ it.g1 ∧ groups.n ≤ it.g2)) ∧
    (∀ it ∈ iterInters (pairResults p env atoms groups nv), it.g1 < groups.n ∧ it.g2 < groups.n) := by
  obtain ⟨extra, hv, hnew, hold⟩ := visited_extend h
  have hrs : pairResults p env' atoms' groups' nv' = pairResults p env atoms groups nv ++
      extra.map (pairStep p env' atoms' groups' fun g => ((nv' g : ℕ) : ℝ)) := by
    unfold pairResults
    rw [hv, List.map_append]
    congr 1
    apply List.map_congr_left
    intro ab hab
    exact pairStep_extend h _ _ (fun g hg => by rw [hnv g hg]) ab (hold ab hab).1 (hold ab hab).2
  refine ⟨?_, ⟨(extra.map (pairStep p env' atoms' groups' fun g => ((nv' g : ℕ) : ℝ))).filterMap (·.inter), ?_, ?_⟩, ?_⟩
  · intro g hg k
    rw [hrs]
    unfold nonIterEms
    rw [List.flatMap_append, emsOf_append]
    have hnil : emsOf (List.flatMap (fun x => x.ems) (List.map (pairStep p env' atoms' groups' fun g => ((nv' g : ℕ) : ℝ)) extra)) g k = [] := by
      apply emsOf_nil_of_owner _ g k groups.n hg
      intro e he
      obtain ⟨r, hr, her⟩ := List.mem_flatMap.mp he
      obtain ⟨ab, hab, rfl⟩ := List.mem_map.mp hr
      exact (pairStep_new h hcc _ ab (hnew ab hab)).1 e her
    rw [hnil, List.append_nil]
  · rw [hrs]; unfold iterInters; rw [List.filterMap_append]
  · intro it hit
    obtain ⟨r, hr, hri⟩ := List.mem_filterMap.mp hit
    obtain ⟨ab, hab, rfl⟩ := List.mem_map.mp hr
    exact (pairStep_new h hcc _ ab (hnew ab hab)).2 it hri
  · intro it hit
    unfold iterInters pairResults at hit
    obtain ⟨r, hr, hri⟩ := List.mem_filterMap.mp hit
    obtain ⟨ab, hab, rfl⟩ := List.mem_map.mp hr
    obtain ⟨r1, r2⟩ := (pairStep_owner p env atoms groups _ ab).2 it hri
    rw [r1, r2]; exact hold ab hab

theorem desTab_extend (h : FarExtension p env env' atoms atoms' groups groups' R) (g : Nat) (hg : g < groups.n) :
    nvF (desTab p env' atoms' groups') g = nvF (desTab p env atoms groups) g ∧
    volF (desTab p env' atoms' groups') g = volF (desTab p env atoms groups) g := by
  have htab : tab (desTab p env' atoms' groups') (zero, 0) g = tab (desTab p env atoms groups) (zero, 0) g := by
    unfold desTab
    rw [tab_map_range _ _ _ _ hg, tab_map_range _ _ _ _ (Nat.lt_of_lt_of_le hg h.ng)]
    unfold desolvOf
    rw [h.gget_eq g hg, desolv_extend p env env' atoms atoms' groups groups' R h g hg]
  unfold nvF volF
  rw [htab]; exact ⟨rfl, rfl⟩

/-- **Everything `calculate_pka` does before the iterative scheme is local.**  In a system extended by a part beyond range,
    the record of every old group after the non-iterative section - buried count and fraction, both desolvation terms, backbone,
    ion, non-iterative side-chain and Coulomb determinants - is the record it has in the old system alone, and the list of
    interactions handed to the iterative scheme is the old list followed by interactions among new groups only (so the old
    groups form a closed sub-system of the solver, to which `iterate_componentwise` applies). -/
theorem before_iterative_extend (h : FarExtension p env env' atoms atoms' groups groups' R) (hcc : p.ep.cc2 ≤ R) :
    (∀ g, g < groups.n →
      stage1 p env' atoms' groups' (volF (desTab p env' atoms' groups')) (nvF (desTab p env' atoms' groups'))
          (nonIterEms (pairResults p env' atoms' groups' (nvF (desTab p env' atoms' groups')))) g
        = stage1 p env atoms groups (volF (desTab p env atoms groups)) (nvF (desTab p env atoms groups))
          (nonIterEms (pairResults p env atoms groups (nvF (desTab p env atoms groups)))) g) ∧
    (∃ extra, iterInters (pairResults p env' atoms' groups' (nvF (desTab p env' atoms' groups')))
        = iterInters (pairResults p env atoms groups (nvF (desTab p env atoms groups))) ++ extra ∧
      (∀ it ∈ extra, groups.n ≤ it.g1 ∧ groups.n ≤ it.g2)) ∧
    (∀ it ∈ iterInters (pairResults p env atoms groups (nvF (desTab p env atoms groups))), it.g1 < groups.n ∧ it.g2 < groups.n) := by
  have hnv : ∀ g, g < groups.n → nvF (desTab p env' atoms' groups') g = nvF (desTab p env atoms groups) g :=
    fun g hg => (desTab_extend h g hg).1
  obtain ⟨hems, hint, hold⟩ := pair_loop_extend h hcc _ _ hnv
  refine ⟨?_, hint, hold⟩
  intro g hg
  obtain ⟨_, hbb, hion, hev, hel⟩ := single_group_phases_extend h g hg
  unfold stage1
  rw [hnv g hg, buriedOf_extend h _ _ hnv g hg, hev, hel, hems g hg, hems g hg, hbb, hion]
end

/-- not vacuous: any system whose parameters have no cut-off above `R` is a far extension of the empty system -/
example (p : SP ℝ) (env : Env ℝ) (atoms : Tab AtomT) (groups : Tab (GroupT ℝ)) (R : ℝ) (hR : 0 ≤ R)
    (h1 : p.desolvCut2 ≤ R * R) (h2 : p.buriedCut2 ≤ R * R) (h3 : p.cc2sq ≤ R * R) (h4 : p.ep.bbd1 ≤ R)
    (h5 : ∀ ty r, p.bbNH ty = some r → r.2.2 ≤ R) (h6 : ∀ ty r, p.bbCO ty = some r → r.2.2 ≤ R)
    (h7 : ∀ h, ((groups.get h).type == "BBC") = true → (groups.get h).iaAcid ≠ [] ∧ (groups.get h).iaBase ≠ []) :
    FarExtension p env env ⟨0, atoms.get⟩ atoms ⟨0, groups.get⟩ groups R := by
  constructor <;> first | exact hR | exact h1 | exact h2 | exact h3 | exact h4 | exact h5 | exact h6 | (intros; omega) | (intros; simp_all) | skip
  all_goals first | exact Nat.zero_le _ | (intro h _ hb; exact h7 h hb) | skip

end Propka.Scoring
