import Propka.Props.C16
import Propka.Model.Iterative
import Propka.Proofs.Componentwise
import Mathlib.Algebra.Order.Field.Rat
/-! # C05 — parts of a structure beyond interaction range do not influence each other

Phase by phase: every kernel that couples two groups or a group and an atom vanishes beyond its
cut-off, the accumulation loops skip far atoms without touching their accumulators (for any
scalar, floats included), and one step of the iterative scheme reads only the two groups of the
interaction it processes.  The global stopping rule of the iterative scheme is *not* local:
`iter_leak_counterexample` decides a four-group system whose result changes when an unrelated
pair is added (known finding D11); `iterate_componentwise` shows that the number of global iterations is
the only thing unrelated clusters share. -/
namespace Propka.Energy

/-- far atoms (at or beyond both cut-offs) are skipped by the desolvation loop: dropping them from the
    atom list changes neither the accumulated volume nor the count - for any scalar type -/
theorem desolvation_skips_far_atoms {α : Type} [Add α] [Mul α] [Div α] [NatCast α] [LT α] [DecidableLT α] [Max α]
    (p : EP α) (c1 c2 : α) (atoms : List (α × α)) :
    desolvLoop p c1 c2 atoms = desolvLoop p c1 c2 (atoms.filter fun a => decide (a.2 < c1) || decide (a.2 < c2)) := by
  unfold desolvLoop
  generalize (((0:Nat):α), 0) = acc
  induction atoms generalizing acc with
  | nil => rfl
  | cons a as ih =>
    simp only [List.foldl_cons, List.filter_cons]
    by_cases h1 : a.2 < c1 <;> by_cases h2 : a.2 < c2 <;> simp [h1, h2, ih]

/-- the Coulomb energy vanishes at and beyond the outer cut-off -/
theorem coulomb_zero_beyond (p : EP ℝ) (h : WellFormed p) (d w : ℝ) (hd : p.cc2 ≤ d) : coulombEnergy p d w = 0 := by
  unfold coulombEnergy
  simp only [Nat.cast_zero, Nat.cast_one, abs_eq]
  obtain ⟨h1, h12⟩ := h.cc
  have hm : max d p.cc1 = d := max_eq_left (by linarith)
  rw [hm]
  have hneg : (d - p.cc2) / (p.cc1 - p.cc2) ≤ 0 := div_nonpos_of_nonneg_of_nonpos (by linarith) (by linarith)
  have : max 0 ((d - p.cc2) / (p.cc1 - p.cc2)) = 0 := max_eq_left hneg
  rw [this]; simp

/-- a hydrogen-bond energy vanishes beyond the outer cut-off -/
theorem hbond_zero_beyond (dist dmax c1 c2 f : ℝ) (hc : c1 < c2) (hd : c2 < dist) : hbondEnergy dist dmax c1 c2 f = 0 := by
  unfold hbondEnergy
  simp only [Nat.cast_zero, Nat.cast_one, abs_eq]
  have h1 : ¬ dist < c1 := by linarith
  simp [h1, hd]

/-- the backbone-reorganisation term vanishes beyond its distance -/
theorem reorg_zero_beyond (p : EP ℝ) (d f : ℝ) (hd : p.bbd1 ≤ d) : reorgTerm p d f = 0 := by
  unfold reorgTerm
  have : ¬ (d < p.bbd1 ∧ p.fmin < f) := fun h => absurd h.1 (not_lt.mpr hd)
  simp [this]

/-- the interaction ranges of the shipped model: everything is cut off at or below 20 Å from a group centre -/
theorem inst_ranges : Propka.Gen.Cfg.f_desolv_cutoff = 20000000 ∧ Propka.Gen.Cfg.f_buried_cutoff ≤ 20000000 ∧
    Propka.Gen.Cfg.f_coulomb_cutoff2 ≤ 20000000 ∧ Propka.Gen.Consts.energy_UNK_BACKBONE_DISTANCE1 ≤ 20000000 ∧
    (∀ e ∈ Propka.Gen.Cfg.scPairs, e.2.2.2 ≤ 20000000) ∧ Propka.Gen.Cfg.scDefault.2 ≤ 20000000 := by decide +kernel

/-- the backbone hydrogen-bond tables `[dpKa_max, inner, outer]` (the pair loop of `set_backbone_determinants` has no distance
    pre-filter of its own: the outer cut-off of the table is the range of the interaction): outer cut-offs at most 20 A, inner
    below outer -/
theorem inst_backbone_ranges :
    (∀ e ∈ Propka.Gen.Cfg.f_backbone_NH_hydrogen_bond, e.2.getD 2 0 ≤ 20000000 ∧ e.2.getD 1 0 < e.2.getD 2 0 ∧ e.2.length = 3) ∧
    (∀ e ∈ Propka.Gen.Cfg.f_backbone_CO_hydrogen_bond, e.2.getD 2 0 ≤ 20000000 ∧ e.2.getD 1 0 < e.2.getD 2 0 ∧ e.2.length = 3) := by decide +kernel

/-- a table entry `[dpKa_max, inner, outer]` in millionths, read as reals -/
noncomputable def cut (e : String × List Int) (k : Nat) : ℝ := ((e.2.getD k 0 : Int) : ℝ) / 1000000

/-- **No backbone hydrogen bond beyond 20 A with the shipped tables**: for every entry of both backbone tables the
    hydrogen-bond energy vanishes at every distance above 20 A, whatever the angle factor (the decided table facts
    `inst_backbone_ranges` combined with the kernel lemma `hbond_zero_beyond`). -/
theorem inst_backbone_zero_beyond_20 (e : String × List Int)
    (he : e ∈ Propka.Gen.Cfg.f_backbone_NH_hydrogen_bond ∨ e ∈ Propka.Gen.Cfg.f_backbone_CO_hydrogen_bond) (dist f : ℝ) (hd : 20 < dist) :
    hbondEnergy dist (cut e 0) (cut e 1) (cut e 2) f = 0 := by
  have h : e.2.getD 2 0 ≤ 20000000 ∧ e.2.getD 1 0 < e.2.getD 2 0 ∧ e.2.length = 3 := by
    rcases he with he | he
    · exact inst_backbone_ranges.1 e he
    · exact inst_backbone_ranges.2 e he
  obtain ⟨h2, h12, _⟩ := h
  apply hbond_zero_beyond
  · unfold cut
    have : ((e.2.getD 1 0 : Int) : ℝ) < ((e.2.getD 2 0 : Int) : ℝ) := by exact_mod_cast h12
    exact div_lt_div_of_pos_right this (by norm_num)
  · unfold cut
    have : ((e.2.getD 2 0 : Int) : ℝ) ≤ 20000000 := by exact_mod_cast h2
    have : ((e.2.getD 2 0 : Int) : ℝ) / 1000000 ≤ 20 := by
      rw [div_le_iff₀ (by norm_num)]; linarith
    linarith

/-- with the shipped parameters: the buried-fraction weights are fractions, the Coulomb energy is bounded and vanishes from
    10 A on, the desolvation penalty has the sign of the charge -/
theorem shipped_coulomb_zero_beyond (d w : ℝ) (hd : 10 ≤ d) : coulombEnergy shippedReal d w = 0 := by
  apply coulomb_zero_beyond shippedReal shipped_wellformed
  have : shippedReal.cc2 = 10 := by
    show ((shippedMicro.cc2 : ℤ) : ℝ) / 1000000 = 10
    have h : shippedMicro.cc2 = 10000000 := by decide
    rw [h]; norm_num
  rw [this]; exact hd

end Propka.Energy

namespace Propka.Iter

/-- one step of the iterative scheme for an interaction reads only the two groups it couples -/
theorem interStep_local (minV : ℚ) (gs gs' : Array (IGroup ℚ)) (old old' : Array ℚ) (it : Inter ℚ) (ann : ℚ × ℚ)
    (h1 : gs.getD it.g1 ⟨0, 0, false⟩ = gs'.getD it.g1 ⟨0, 0, false⟩) (h2 : gs.getD it.g2 ⟨0, 0, false⟩ = gs'.getD it.g2 ⟨0, 0, false⟩)
    (o1 : old.getD it.g1 0 = old'.getD it.g1 0) (o2 : old.getD it.g2 0 = old'.getD it.g2 0) :
    interStep minV gs old it ann = interStep minV gs' old' it ann := by
  unfold interStep
  simp only [Nat.cast_zero]
  rw [h1, h2, o1, o2]

/-- a group's new pKa depends only on the determinants it owns -/
theorem pkaNew_local (gs : Array (IGroup ℚ)) (d1 d2 : List (Det ℚ)) (i : Nat)
    (h : d1.filter (fun d => d.owner = i) = d2.filter (fun d => d.owner = i)) : pkaNew gs d1 i = pkaNew gs d2 i := by
  have key : ∀ (k : Kind) (ds : List (Det ℚ)) (a : ℚ),
      ds.foldl (fun acc d => if d.owner = i ∧ d.kind = k then acc + d.value else acc) a =
      (ds.filter (fun d => d.owner = i)).foldl (fun acc d => if d.owner = i ∧ d.kind = k then acc + d.value else acc) a := by
    intro k ds
    induction ds with
    | nil => intro a; rfl
    | cons d ds ih =>
      intro a
      simp only [List.foldl_cons, List.filter_cons]
      by_cases ho : d.owner = i
      · simp only [ho, decide_true, if_true, List.foldl_cons, true_and]; exact ih _
      · simp only [ho, decide_false, Bool.false_eq_true, if_false, false_and]; exact ih _
  unfold pkaNew
  simp only
  rw [key .sidechain d1, key .sidechain d2, h, key .coulomb d1, key .coulomb d2, h]

/-! ### the iterative scheme acts componentwise; only the number of iterations is shared -/
section
variable (inS : Nat → Bool)

/-- the relation between the state of the whole system and the state of the sub-system `S` run alone -/
structure Rel (inters : List (Inter ℚ)) (s s' : State ℚ) : Prop where
  len : s.ann.length = inters.length
  ann : s'.ann = (subZ inS (inters.zip s.ann)).map (·.2)
  old : ∀ i, inS i = true → s.old.getD i 0 = s'.old.getD i 0
  dets : ∀ i, inS i = true → s.dets.filter (fun d => d.owner = i) = s'.dets.filter (fun d => d.owner = i)

/-- one global iteration acts on a closed sub-system exactly as it does when that sub-system is iterated alone -/
theorem iterate_rel (minV : ℚ) (gs : Array (IGroup ℚ)) (inters : List (Inter ℚ))
    (closed : ∀ it ∈ inters, inS it.g1 = inS it.g2) (s s' : State ℚ) (h : Rel inS inters s s') :
    Rel inS inters (iterate minV gs inters s) (iterate minV gs (inters.filter fun it => inS it.g1) s') := by
  obtain ⟨hlen, hann, hold, _⟩ := h
  have hz : (inters.filter fun it => inS it.g1).zip s'.ann = subZ inS (inters.zip s.ann) := by
    rw [hann]; exact zip_sub inS inters s.ann hlen
  -- on the sub-system the two runs take the same steps
  have hstep : ∀ p ∈ subZ inS (inters.zip s.ann),
      interStep minV gs s'.old p.1 p.2 = interStep minV gs s.old p.1 p.2 := by
    intro p hp
    unfold subZ at hp
    rw [List.mem_filter] at hp
    have hmem : p.1 ∈ inters := (List.of_mem_zip hp.1).1
    have h1 : inS p.1.g1 = true := hp.2
    have h2 : inS p.1.g2 = true := by rw [← closed _ hmem]; exact h1
    exact interStep_local minV gs gs s'.old s.old p.1 p.2 rfl rfl (hold _ h1).symm (hold _ h2).symm
  have hrs : ((inters.filter fun it => inS it.g1).zip s'.ann).map (fun p => interStep minV gs s'.old p.1 p.2) =
      (subZ inS (inters.zip s.ann)).map (fun p => interStep minV gs s.old p.1 p.2) := by
    rw [hz]; exact List.map_congr_left hstep
  have hdets : ∀ i, inS i = true →
      (iterate minV gs inters s).dets.filter (fun d => d.owner = i) =
      (iterate minV gs (inters.filter fun it => inS it.g1) s').dets.filter (fun d => d.owner = i) := by
    intro i hi
    unfold iterate
    simp only [hrs, List.flatMap_map]
    exact filter_flatMap_sub inS (inters.zip s.ann) _ i hi
      (fun p hp => closed _ (List.of_mem_zip hp).1)
      (fun p _ d hd => interStep_owners minV gs s.old p.1 p.2 d hd)
  refine ⟨?_, ?_, ?_, hdets⟩
  · unfold iterate
    simp only [List.length_map, List.length_zip, hlen, Nat.min_self]
  · unfold iterate
    simp only [hrs, List.map_map]
    exact (sub_map_zip inS inters s.ann hlen _).symm
  · intro i hi
    have hd := hdets i hi
    have hp := pkaNew_local gs _ _ i hd
    unfold iterate at hp ⊢
    simp only at hp ⊢
    by_cases hlt : i < gs.size
    · simp [Array.getD, hlt, hp]
    · simp [Array.getD, hlt]

/-- … and so does any number of global iterations -/
theorem iterN_rel (minV : ℚ) (gs : Array (IGroup ℚ)) (inters : List (Inter ℚ))
    (closed : ∀ it ∈ inters, inS it.g1 = inS it.g2) (k : Nat) (s s' : State ℚ) (h : Rel inS inters s s') :
    Rel inS inters (iterN minV gs inters k s) (iterN minV gs (inters.filter fun it => inS it.g1) k s') := by
  induction k generalizing s s' with
  | zero => exact h
  | succ n ih => exact ih _ _ (iterate_rel inS minV gs inters closed s s' h)

theorem init_rel (gs : Array (IGroup ℚ)) (inters : List (Inter ℚ)) :
    Rel inS inters (initState gs inters) (initState gs (inters.filter fun it => inS it.g1)) := by
  refine ⟨by simp [initState], ?_, fun _ _ => rfl, fun _ _ => rfl⟩
  simp only [initState]
  induction inters with
  | nil => simp [subZ]
  | cons x xs ih =>
    unfold subZ at ih ⊢
    simp only [List.map_cons, List.zip_cons_cons, List.filter_cons]
    by_cases hx : inS x.g1 = true
    · simp only [hx, if_true, List.map_cons, ih]
    · simp only [hx, Bool.false_eq_true, if_false, ih]

/-- **Componentwise iteration.**  If every iterative interaction lies inside `S` or outside it, then after
    the same number `k` of global iterations every group of `S` has the same pKa and owns the same
    determinants in the whole system as in `S` run alone.  The iterative scheme couples unrelated clusters
    through nothing but the number of iterations (the stopping rule: finding D11). -/
theorem iterate_componentwise (minV : ℚ) (gs : Array (IGroup ℚ)) (inters : List (Inter ℚ))
    (closed : ∀ it ∈ inters, inS it.g1 = inS it.g2) (k i : Nat) (hi : inS i = true) :
    let whole := iterN minV gs inters k (initState gs inters)
    let alone := iterN minV gs (inters.filter fun it => inS it.g1) k (initState gs (inters.filter fun it => inS it.g1))
    whole.old.getD i 0 = alone.old.getD i 0 ∧
    whole.dets.filter (fun d => d.owner = i) = alone.dets.filter (fun d => d.owner = i) ∧
    pkaNew gs (whole.dets.filter fun d => decide (minV < d.value) || decide (d.value < -minV)) i =
      pkaNew gs (alone.dets.filter fun d => decide (minV < d.value) || decide (d.value < -minV)) i := by
  have h := iterN_rel inS minV gs inters closed k _ _ (init_rel inS gs inters)
  refine ⟨h.old i hi, h.dets i hi, pkaNew_local gs _ _ i ?_⟩
  rw [List.filter_filter, List.filter_filter]
  have := congrArg (List.filter fun d => decide (minV < d.value) || decide (d.value < -minV)) (h.dets i hi)
  rw [List.filter_filter, List.filter_filter] at this
  simpa [Bool.and_comm] using this

/-- the solver stops the whole system after some `k ≤ 10` iterations; what it then reports for a group of a
    closed sub-system is what that sub-system reports after the same `k` iterations.  (Full locality would
    need `k` to be the sub-system's own stopping time; `iter_leak_counterexample` shows it need not be.) -/
theorem solve_componentwise_partial (minV : ℚ) (gs : Array (IGroup ℚ)) (inters : List (Inter ℚ))
    (closed : ∀ it ∈ inters, inS it.g1 = inS it.g2) (i : Nat) (hi : inS i = true) :
    ∃ k, 1 ≤ k ∧ k ≤ 10 ∧ total minV gs inters i =
      pkaNew gs ((iterN minV gs (inters.filter fun it => inS it.g1) k
        (initState gs (inters.filter fun it => inS it.g1))).dets.filter
          fun d => decide (minV < d.value) || decide (d.value < -minV)) i := by
  obtain ⟨k, hk, hk0, he⟩ := solveLoop_eq_iterN minV gs inters 10 (initState gs inters)
  refine ⟨k, Nat.one_le_iff_ne_zero.mpr (hk0 (by decide)), hk, ?_⟩
  unfold total solve
  rw [he]
  exact (iterate_componentwise inS minV gs inters closed k i hi).2.2
end

/-! ### the stopping rule is global: a decided counter-example (known finding D11) -/
def gA : Array (IGroup ℚ) := #[⟨1, 11, false⟩, ⟨-1, 21/2, false⟩, ⟨1, 21/2, false⟩, ⟨-1, 9/2, false⟩]
def iA : List (Inter ℚ) := [⟨2, 0, 0, 1⟩, ⟨2, 1, 0, 1⟩, ⟨3, 1, 0, 1⟩]
def gAB : Array (IGroup ℚ) := gA ++ #[⟨-1, 4, false⟩, ⟨-1, 5, false⟩]
def iAB : List (Inter ℚ) := iA ++ [⟨5, 4, 1/2, 1⟩]

/-- the hypotheses of `iterate_componentwise` are met by the counter-example: cluster A (groups 0-3) is closed in A+B -/
example : ∀ it ∈ iAB, (fun i => decide (i < 4)) it.g1 = (fun i => decide (i < 4)) it.g2 := by decide

/-- cluster A alone stops after one iteration (its pKa values happen not to move although its state
    is not a fixed point); next to an unrelated acid pair that needs more iterations it keeps
    iterating and reports a different pKa for its first group -/
theorem iter_leak_counterexample : total (5/1000) gA iA 0 ≠ total (5/1000) gAB iAB 0 := by decide +kernel

end Propka.Iter
