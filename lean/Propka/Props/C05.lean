import Propka.Props.C16
import Propka.Model.Iterative
import Mathlib.Algebra.Order.Field.Rat
/-! # C05 — parts of a structure beyond interaction range do not influence each other

Phase by phase: every kernel that couples two groups or a group and an atom vanishes beyond its
cut-off, the accumulation loops skip far atoms without touching their accumulators (for any
scalar, floats included), and one step of the iterative scheme reads only the two groups of the
interaction it processes.  The global stopping rule of the iterative scheme is *not* local:
`iter_leak_counterexample` decides a four-group system whose result changes when an unrelated
pair is added (known finding D11). -/
namespace Propka.Energy

/-- far atoms (at or beyond both cut-offs) are skipped by the desolvation loop: dropping them from the
    atom list changes neither the accumulated volume nor the count - for any scalar type -/
theorem desolvation_skips_far_atoms {α : Type} [Add α] [Mul α] [Div α] [NatCast α] [LT α] [DecidableLT α] [Max α]
    (p : EP α) (c1 c2 : α) (atoms : List (α × α)) :
    desolvLoop p c1 c2 atoms = desolvLoop p c1 c2 (atoms.filter fun a => decide (a.2 < c1) || decide (a.2 < c2)) := by
  unfold desolvLoop
  generalize (((0:Nat):α), 0) = acc
  induction atoms generalizing acc with
  | nil => rfl
  | cons a as ih =>
    simp only [List.foldl_cons, List.filter_cons]
    by_cases h1 : a.2 < c1 <;> by_cases h2 : a.2 < c2 <;> simp [h1, h2, ih]

/-- the Coulomb energy vanishes at and beyond the outer cut-off -/
theorem coulomb_zero_beyond (p : EP ℝ) (h : WellFormed p) (d w : ℝ) (hd : p.cc2 ≤ d) : coulombEnergy p d w = 0 := by
  unfold coulombEnergy
  simp only [Nat.cast_zero, Nat.cast_one, abs_eq]
  obtain ⟨h1, h12⟩ := h.cc
  have hm : max d p.cc1 = d := max_eq_left (by linarith)
  rw [hm]
  have hneg : (d - p.cc2) / (p.cc1 - p.cc2) ≤ 0 := div_nonpos_of_nonneg_of_nonpos (by linarith) (by linarith)
  have : max 0 ((d - p.cc2) / (p.cc1 - p.cc2)) = 0 := max_eq_left hneg
  rw [this]; simp

/-- a hydrogen-bond energy vanishes beyond the outer cut-off -/
theorem hbond_zero_beyond (dist dmax c1 c2 f : ℝ) (hc : c1 < c2) (hd : c2 < dist) : hbondEnergy dist dmax c1 c2 f = 0 := by
  unfold hbondEnergy
  simp only [Nat.cast_zero, Nat.cast_one, abs_eq]
  have h1 : ¬ dist < c1 := by linarith
  simp [h1, hd]

/-- the backbone-reorganisation term vanishes beyond its distance -/
theorem reorg_zero_beyond (p : EP ℝ) (d f : ℝ) (hd : p.bbd1 ≤ d) : reorgTerm p d f = 0 := by
  unfold reorgTerm
  have : ¬ (d < p.bbd1 ∧ p.fmin < f) := fun h => absurd h.1 (not_lt.mpr hd)
  simp [this]

/-- the interaction ranges of the shipped model: everything is cut off at or below 20 Å from a group centre -/
theorem inst_ranges : Propka.Gen.Cfg.f_desolv_cutoff = 20000000 ∧ Propka.Gen.Cfg.f_buried_cutoff ≤ 20000000 ∧
    Propka.Gen.Cfg.f_coulomb_cutoff2 ≤ 20000000 ∧ Propka.Gen.Consts.energy_UNK_BACKBONE_DISTANCE1 ≤ 20000000 ∧
    (∀ e ∈ Propka.Gen.Cfg.scPairs, e.2.2.2 ≤ 20000000) ∧ Propka.Gen.Cfg.scDefault.2 ≤ 20000000 := by decide +kernel

end Propka.Energy

namespace Propka.Iter

/-- one step of the iterative scheme for an interaction reads only the two groups it couples -/
theorem interStep_local (minV : ℚ) (gs gs' : Array (IGroup ℚ)) (old old' : Array ℚ) (it : Inter ℚ) (ann : ℚ × ℚ)
    (h1 : gs.getD it.g1 ⟨0, 0, false⟩ = gs'.getD it.g1 ⟨0, 0, false⟩) (h2 : gs.getD it.g2 ⟨0, 0, false⟩ = gs'.getD it.g2 ⟨0, 0, false⟩)
    (o1 : old.getD it.g1 0 = old'.getD it.g1 0) (o2 : old.getD it.g2 0 = old'.getD it.g2 0) :
    interStep minV gs old it ann = interStep minV gs' old' it ann := by
  unfold interStep
  simp only [Nat.cast_zero]
  rw [h1, h2, o1, o2]

/-- a group's new pKa depends only on the determinants it owns -/
theorem pkaNew_local (gs : Array (IGroup ℚ)) (d1 d2 : List (Det ℚ)) (i : Nat)
    (h : d1.filter (fun d => d.owner = i) = d2.filter (fun d => d.owner = i)) : pkaNew gs d1 i = pkaNew gs d2 i := by
  have key : ∀ (k : Kind) (ds : List (Det ℚ)) (a : ℚ),
      ds.foldl (fun acc d => if d.owner = i ∧ d.kind = k then acc + d.value else acc) a =
      (ds.filter (fun d => d.owner = i)).foldl (fun acc d => if d.owner = i ∧ d.kind = k then acc + d.value else acc) a := by
    intro k ds
    induction ds with
    | nil => intro a; rfl
    | cons d ds ih =>
      intro a
      simp only [List.foldl_cons, List.filter_cons]
      by_cases ho : d.owner = i
      · simp only [ho, decide_true, if_true, List.foldl_cons, true_and]; exact ih _
      · simp only [ho, decide_false, Bool.false_eq_true, if_false, false_and]; exact ih _
  unfold pkaNew
  simp only
  rw [key .sidechain d1, key .sidechain d2, h, key .coulomb d1, key .coulomb d2, h]

/-! ### the stopping rule is global: a decided counter-example (known finding D11) -/
def gA : Array (IGroup ℚ) := #[⟨1, 11, false⟩, ⟨-1, 21/2, false⟩, ⟨1, 21/2, false⟩, ⟨-1, 9/2, false⟩]
def iA : List (Inter ℚ) := [⟨2, 0, 0, 1⟩, ⟨2, 1, 0, 1⟩, ⟨3, 1, 0, 1⟩]
def gAB : Array (IGroup ℚ) := gA ++ #[⟨-1, 4, false⟩, ⟨-1, 5, false⟩]
def iAB : List (Inter ℚ) := iA ++ [⟨5, 4, 1/2, 1⟩]

/-- cluster A alone stops after one iteration (its pKa values happen not to move although its state
    is not a fixed point); next to an unrelated acid pair that needs more iterations it keeps
    iterating and reports a different pKa for its first group -/
theorem iter_leak_counterexample : total (5/1000) gA iA 0 ≠ total (5/1000) gAB iAB 0 := by decide +kernel

end Propka.Iter
