import Propka.Model.Program
import Propka.Props.C02
import Propka.Props.C16
/-! The scoring theorems instantiated on the program model: `Program.scorePrepared` is `Scoring.score` applied to the tables
    and the environment the set-up pipeline produced, so every theorem about `score` - which quantify over *all* tables and
    environments - speaks about every number `Program.run` reports. -/
namespace Propka.Program
open Propka Propka.Scoring

noncomputable instance : Bonds.CellIdx ℝ := ⟨fun x b => Int.floor (x / b)⟩
/-- the scoring phase never calls `10**x` or `log10` (they belong to the profiles): any model of them serves here -/
noncomputable instance : Profiles.PowLog ℝ := ⟨fun x => x, fun x => x⟩

section
variable {α : Type} [Add α] [Sub α] [Mul α] [Div α] [Neg α] [OfNat α 0] [OfNat α 1] [OfNat α 2]
  [DecidableEq α] [LT α] [LE α] [DecidableLT α] [DecidableLE α] [Max α] [Min α] [NatCast α] [BEq α] [Inhabited α]
  [Trig α] [Bonds.CellIdx α] [Profiles.PowLog α]

set_option linter.unusedSectionVars false in
/-- **C02 on the program model, any scalar (the `Float` instance is the one compared with the program bit for bit)**: the pKa
    reported for every group of a prepared conformation is `calculate_total_pka` of its own record - model pKa plus the two
    desolvation terms plus every listed determinant, or the fixed value for a bridged cysteine. -/
theorem program_pka_consistent (sp : SP α) (r : Pipe.Prepared α) (g : Nat) (gr : Pipe.PGroup α) (hgr : r.groups[g]? = some gr) :
    ∃ o, (scorePrepared sp r)[g]? = some o ∧ o.pka = totalPka sp (groupOf r gr) o.evol o.eloc o.sc o.bb o.cb := by
  have hg : g < r.groups.size := by
    by_contra hc
    have : r.groups[g]? = none := by simp; omega
    rw [this] at hgr; cases hgr
  unfold scorePrepared
  obtain ⟨o, h1, h2⟩ := pipeline_consistent sp (envTab r) (atomTab r) (groupTab r) g hg
  refine ⟨o, h1, ?_⟩
  rw [h2]
  simp only [gget, groupTab, hgr]
end

/-- **C16 on the program model, over the reals**: for every prepared conformation - whatever the structure was - the buried fraction
    of every group lies in [0, 1], desolvation never lowers an acid's pKa nor raises a base's, and the local term is non-negative. -/
theorem program_desolvation_signs (sp : SP ℝ) (h : Energy.WellFormed sp.ep) (r : Pipe.Prepared ℝ) (g : Nat) (gr : Pipe.PGroup ℝ)
    (hgr : r.groups[g]? = some gr) :
    ∃ o, (scorePrepared sp r)[g]? = some o ∧ 0 ≤ o.buried ∧ o.buried ≤ 1 ∧ (gr.q < 0 → 0 ≤ o.evol) ∧ (0 < gr.q → o.evol ≤ 0) ∧ 0 ≤ o.eloc := by
  have hg : g < r.groups.size := by
    by_contra hc
    have : r.groups[g]? = none := by simp; omega
    rw [this] at hgr; cases hgr
  unfold scorePrepared
  obtain ⟨o, h1, h2, h3, h4, h5, h6⟩ := score_desolvation_signs sp h (envTab r) (atomTab r) (groupTab r) g hg
  simp only [gget, groupTab, hgr, groupOf] at h4 h5
  exact ⟨o, h1, h2, h3, h4, h5, h6⟩

end Propka.Program
