import Propka.Model.Pipeline
import Propka.Proofs.Pipeline
import Propka.Props.C11
/-! Theorems about the set-up pipeline (`Model/Pipeline.lean`), for every input atom table, every parameter table and every
    scalar: the loop of `extract_groups` creates at most one group per atom, in atom order, only for non-hydrogen atoms of the
    list (C01); a bridged cysteine never titrates (C01, C11); `--titrate_only` changes nothing but the `titratable` and
    `exclude_cys_from_results` flags of the groups of unlisted residues - atoms, hydrogens built, group classes, centres and
    interaction atoms stay as they are -, a titratable group is always a listed one, and listing everything is the same as not
    giving the option (C14). -/
namespace Propka.Pipe
open Propka

section
variable {α : Type} [Add α] [Sub α] [Mul α] [Div α] [Neg α] [OfNat α 0] [OfNat α 1] [OfNat α 2]
  [DecidableEq α] [LT α] [DecidableLT α] [Max α] [NatCast α] [Trig α] [Bonds.CellIdx α]

theorem foldl_extractStep_none (P : PP α) (o : Opts) (L : List Nat) : L.foldl (extractStep P o) none = none := by
  induction L with
  | nil => rfl
  | cons i L ih => simpa [List.foldl, extractStep] using ih

theorem mkGroupCore_atom (P : PP α) (s s' : St α) (cls : String) (i : Nat) (g : PGroup α)
    (h : mkGroupCore P s cls i = some (s', g)) : g.atom = i := by
  unfold mkGroupCore at h
  split at h
  · exact absurd h (by simp)
  · split at h
    · exact absurd h (by simp)
    · simp only [Option.some.injEq] at h
      have := congrArg (fun r => r.2.atom) h
      simpa [buildGroup] using this.symm

theorem applyTO_atom (o : Opts) (g : PGroup α) : (applyTO o g).atom = g.atom := by
  unfold applyTO; split
  · rfl
  · split <;> rfl

/-- the groups created while the loop runs over the atoms `L` are appended, and their atoms form a sublist of `L` -/
theorem foldl_extractStep_atoms (P : PP α) (o : Opts) :
    ∀ (L : List Nat) (s : St α) (gs : List (PGroup α)) (s' : St α) (gs' : List (PGroup α)),
      L.foldl (extractStep P o) (some (s, gs)) = some (s', gs') →
      ∃ t, gs' = gs ++ t ∧ (t.map (·.atom)).Sublist L := by
  intro L
  induction L with
  | nil =>
    intro s gs s' gs' h
    simp only [List.foldl, Option.some.injEq, Prod.mk.injEq] at h
    exact ⟨[], by simp [h.2], by simp⟩
  | cons i L ih =>
    intro s gs s' gs' h
    simp only [List.foldl] at h
    cases hc : classOfAtom P s i with
    | mk s0 c =>
      cases c with
      | none =>
        have : extractStep P o (some (s, gs)) i = some (s0, gs) := by simp [extractStep, hc]
        rw [this] at h
        obtain ⟨t, ht, hsub⟩ := ih s0 gs s' gs' h
        exact ⟨t, ht, hsub.cons i⟩
      | some cls =>
        cases hm : mkGroupCore P s0 cls i with
        | none =>
          have : extractStep P o (some (s, gs)) i = none := by simp [extractStep, hc, hm]
          rw [this, foldl_extractStep_none] at h
          exact absurd h (by simp)
        | some r =>
          obtain ⟨s1, g⟩ := r
          have : extractStep P o (some (s, gs)) i = some (s1, gs ++ [applyTO o g]) := by simp [extractStep, hc, hm]
          rw [this] at h
          obtain ⟨t, ht, hsub⟩ := ih s1 (gs ++ [applyTO o g]) s' gs' h
          refine ⟨applyTO o g :: t, by simp [ht], ?_⟩
          simp only [List.map_cons, applyTO_atom, mkGroupCore_atom P s0 s1 cls i g hm]
          exact hsub.cons₂ i

theorem heavyLive_nodup (s : St α) : (heavyLive s).Nodup := by
  unfold heavyLive
  exact List.Nodup.sublist List.filter_sublist List.nodup_range

/-- **C01 (every group exactly once)**: whatever the atoms, tables and options, the atoms that define the groups of a
    conformation form a sublist of its non-hydrogen atoms in list order: no atom defines two groups, no hydrogen and no atom
    outside the list defines one, and the groups come in atom order. -/
theorem extract_groups_once (P : PP α) (o : Opts) (s s' : St α) (gs : List (PGroup α))
    (h : extractGroups P o s = some (s', gs)) :
    (gs.map (·.atom)).Sublist (heavyLive s) ∧ (gs.map (·.atom)).Nodup := by
  unfold extractGroups at h
  obtain ⟨t, ht, hsub⟩ := foldl_extractStep_atoms P o (heavyLive s) s [] s' gs h
  simp only [List.nil_append] at ht
  subst ht
  exact ⟨hsub, List.Nodup.sublist hsub (heavyLive_nodup s)⟩

/-- an atom that defines a group is a non-hydrogen atom of the list -/
theorem extract_groups_heavy (P : PP α) (o : Opts) (s s' : St α) (gs : List (PGroup α))
    (h : extractGroups P o s = some (s', gs)) (g : PGroup α) (hg : g ∈ gs) :
    g.atom < s.size ∧ (at' s g.atom).live = true ∧ (at' s g.atom).elem ≠ "H" := by
  have hm : g.atom ∈ heavyLive s := (extract_groups_once P o s s' gs h).1.subset (List.mem_map.mpr ⟨g, hg, rfl⟩)
  unfold heavyLive at hm
  simp only [List.mem_filter, List.mem_range, Bool.and_eq_true, bne_iff_ne, ne_eq] at hm
  exact ⟨hm.1, hm.2.1, hm.2.2⟩

/-! ### bridged cysteines -/
/-- **C01 / C11**: a group whose atom carries the disulfide flag is never titratable -/
theorem bridged_not_titratable (P : PP α) (o : Opts) (s s' : St α) (cls : String) (i : Nat) (g : PGroup α)
    (h : mkGroupCore P s cls i = some (s', g)) (hb : (at' s i).bridged = true) : (applyTO o g).titratable = false := by
  have ht : g.titratable = false := by
    unfold mkGroupCore at h
    split at h
    · exact absurd h (by simp)
    · split at h
      · exact absurd h (by simp)
      · simp only [Option.some.injEq] at h
        have := congrArg (fun r => r.2.titratable) h
        simpa [buildGroup, hb] using this.symm
  unfold applyTO; split
  · exact ht
  · split
    · exact ht
    · rfl

/-! ### model pKa and charge come from the tables (C01) -/
/-- **C01 (the tabulated model pKa of its type)**: the model pKa a group is created with is the entry of the parameter file for its
    residue type - or the custom entry for its residue and atom name when there is one -, and its charge is the entry of its group
    type, or of its ion; nothing else enters (whatever the atoms, bonds and geometry). -/
theorem group_model_from_tables (P : PP α) (s s' : St α) (cls : String) (i : Nat) (g : PGroup α)
    (h : mkGroupCore P s cls i = some (s', g)) :
    (g.modelSet = (Groups.lookup P.T.modelPkas g.resType).isSome) ∧
    (∀ p, Groups.lookup P.T.modelPkas g.resType = some p →
      g.model = P.micro ((Groups.lookup P.T.customPkas (Groups.strip (at' s i).resName ++ "-" ++ Groups.strip (at' s i).name)).getD p)) ∧
    (g.q = match Groups.lookup P.T.ions g.resType with
           | some q => P.micro q
           | none => (match Groups.lookup P.T.charge g.type with | some q => P.micro q | none => P.ofInt 0)) := by
  unfold mkGroupCore at h
  split at h
  · exact absurd h (by simp)
  · split at h
    · exact absurd h (by simp)
    · simp only [Option.some.injEq] at h
      have hg := congrArg Prod.snd h
      simp only [buildGroup] at hg
      subst hg
      refine ⟨?_, ?_, rfl⟩
      · simp only
        cases Groups.lookup P.T.modelPkas _ <;> rfl
      · intro p hp
        simp only at hp ⊢
        rw [hp]

/-! ### --titrate_only -/
/-- what --titrate_only may change of a group -/
def eraseFlags (g : PGroup α) : PGroup α := { g with titratable := false, excludeCys := false }

theorem applyTO_eraseFlags (o : Opts) (g : PGroup α) : eraseFlags (applyTO o g) = eraseFlags g := by
  unfold applyTO eraseFlags; split
  · rfl
  · split <;> rfl

/-- the loop of `extract_groups` under two option sets runs in lock step: same atom states, same groups up to the two flags -/
theorem foldl_extractStep_options (P : PP α) (o1 o2 : Opts) :
    ∀ (L : List Nat) (s : St α) (g1 g2 : List (PGroup α)), g1.map eraseFlags = g2.map eraseFlags →
      (L.foldl (extractStep P o1) (some (s, g1))).map (fun r => (r.1, r.2.map eraseFlags)) =
      (L.foldl (extractStep P o2) (some (s, g2))).map (fun r => (r.1, r.2.map eraseFlags)) := by
  intro L
  induction L with
  | nil => intro s g1 g2 h; simp [h]
  | cons i L ih =>
    intro s g1 g2 h
    simp only [List.foldl]
    cases hc : classOfAtom P s i with
    | mk s0 c =>
      cases c with
      | none =>
        have e1 : extractStep P o1 (some (s, g1)) i = some (s0, g1) := by simp [extractStep, hc]
        have e2 : extractStep P o2 (some (s, g2)) i = some (s0, g2) := by simp [extractStep, hc]
        rw [e1, e2]; exact ih s0 g1 g2 h
      | some cls =>
        cases hm : mkGroupCore P s0 cls i with
        | none =>
          have e1 : extractStep P o1 (some (s, g1)) i = none := by simp [extractStep, hc, hm]
          have e2 : extractStep P o2 (some (s, g2)) i = none := by simp [extractStep, hc, hm]
          rw [e1, e2, foldl_extractStep_none, foldl_extractStep_none]
        | some r =>
          obtain ⟨s1, g⟩ := r
          have e1 : extractStep P o1 (some (s, g1)) i = some (s1, g1 ++ [applyTO o1 g]) := by simp [extractStep, hc, hm]
          have e2 : extractStep P o2 (some (s, g2)) i = some (s1, g2 ++ [applyTO o2 g]) := by simp [extractStep, hc, hm]
          rw [e1, e2]
          apply ih
          simp [h, applyTO_eraseFlags]

/-- **C14 (the environment is kept)**: with any --titrate_only list the set-up of a conformation builds the same hydrogens,
    leaves the same atom states and creates the same groups - class, type, label, charge, model pKa, centre, interaction atoms -
    as without the option; only the `titratable` / `exclude_cys_from_results` flags can differ. -/
theorem titrate_only_keeps_environment (P : PP α) (pa : Bool) (l : List (String × Int × String)) (s : St α) :
    (extractGroups P ⟨pa, some l⟩ s).map (fun r => (r.1, r.2.map eraseFlags)) =
    (extractGroups P ⟨pa, none⟩ s).map (fun r => (r.1, r.2.map eraseFlags)) := by
  unfold extractGroups
  exact foldl_extractStep_options P _ _ (heavyLive s) s [] [] rfl

theorem applyTO_titratable_listed (pa : Bool) (l : List (String × Int × String)) (g : PGroup α)
    (h : (applyTO ⟨pa, some l⟩ g).titratable = true) : l.contains g.key = true := by
  unfold applyTO at h
  simp only at h
  split at h
  · assumption
  · simp at h

theorem applyTO_key (o : Opts) (g : PGroup α) : (applyTO o g).key = g.key := by
  unfold applyTO; split
  · rfl
  · split <;> rfl

theorem foldl_extractStep_listed (P : PP α) (pa : Bool) (l : List (String × Int × String)) :
    ∀ (L : List Nat) (s : St α) (gs : List (PGroup α)) (s' : St α) (gs' : List (PGroup α)),
      (∀ g ∈ gs, g.titratable = true → l.contains g.key = true) →
      L.foldl (extractStep P ⟨pa, some l⟩) (some (s, gs)) = some (s', gs') →
      ∀ g ∈ gs', g.titratable = true → l.contains g.key = true := by
  intro L
  induction L with
  | nil =>
    intro s gs s' gs' inv h
    simp only [List.foldl, Option.some.injEq, Prod.mk.injEq] at h
    rw [← h.2]; exact inv
  | cons i L ih =>
    intro s gs s' gs' inv h
    simp only [List.foldl] at h
    cases hc : classOfAtom P s i with
    | mk s0 c =>
      cases c with
      | none =>
        have : extractStep P ⟨pa, some l⟩ (some (s, gs)) i = some (s0, gs) := by simp [extractStep, hc]
        rw [this] at h; exact ih s0 gs s' gs' inv h
      | some cls =>
        cases hm : mkGroupCore P s0 cls i with
        | none =>
          have : extractStep P ⟨pa, some l⟩ (some (s, gs)) i = none := by simp [extractStep, hc, hm]
          rw [this, foldl_extractStep_none] at h
          exact absurd h (by simp)
        | some r =>
          obtain ⟨s1, g⟩ := r
          have : extractStep P ⟨pa, some l⟩ (some (s, gs)) i = some (s1, gs ++ [applyTO ⟨pa, some l⟩ g]) := by
            simp [extractStep, hc, hm]
          rw [this] at h
          apply ih s1 _ s' gs' _ h
          intro g' hg' ht
          rcases List.mem_append.mp hg' with hin | hin
          · exact inv g' hin ht
          · simp only [List.mem_singleton] at hin
            subst hin
            rw [applyTO_key]
            exact applyTO_titratable_listed pa l g ht

/-- **C14 (exactly the listed residues titrate)**: with a --titrate_only list every titratable group of the conformation
    belongs to a residue (chain, number, insertion code) on the list. -/
theorem titrate_only_listed (P : PP α) (pa : Bool) (l : List (String × Int × String)) (s s' : St α) (gs : List (PGroup α))
    (h : extractGroups P ⟨pa, some l⟩ s = some (s', gs)) (g : PGroup α) (hg : g ∈ gs) (ht : g.titratable = true) :
    l.contains g.key = true := by
  unfold extractGroups at h
  exact foldl_extractStep_listed P pa l (heavyLive s) s [] s' gs (by simp) h g hg ht

theorem applyTO_listed (pa : Bool) (l : List (String × Int × String)) (g : PGroup α) (h : l.contains g.key = true) :
    applyTO ⟨pa, some l⟩ g = applyTO ⟨pa, none⟩ g := by
  unfold applyTO
  simp only
  rw [if_pos h]

/-- the loop with a list that contains the residue of every group it meets = the loop without the option -/
theorem foldl_extractStep_all_listed (P : PP α) (pa : Bool) (l : List (String × Int × String)) (hall : ∀ k, l.contains k = true) :
    ∀ (L : List Nat) (acc : Option (St α × List (PGroup α))),
      L.foldl (extractStep P ⟨pa, some l⟩) acc = L.foldl (extractStep P ⟨pa, none⟩) acc := by
  intro L
  induction L with
  | nil => intro acc; rfl
  | cons i L ih =>
    intro acc
    simp only [List.foldl]
    have : extractStep P ⟨pa, some l⟩ acc i = extractStep P ⟨pa, none⟩ acc i := by
      unfold extractStep
      cases acc with
      | none => rfl
      | some r =>
        obtain ⟨s, gs⟩ := r
        simp only
        cases classOfAtom P s i with
        | mk s0 c =>
          cases c with
          | none => rfl
          | some cls =>
            simp only
            cases mkGroupCore P s0 cls i with
            | none => rfl
            | some r => simp [applyTO_listed pa l r.2 (hall _)]
    rw [this]; exact ih _
end

/-! ### bonds (C11) -/
section
variable {α : Type} [Add α] [Sub α] [Mul α] [OfNat α 0] [LT α] [DecidableLT α] [Max α] [Bonds.CellIdx α]

/-- **C11 on the set-up pipeline, any scalar**: if the offset list covers half of the neighbour cells, the criterion is symmetric
    and bonded atoms lie in equal or adjacent cells, then after the bonding phase `j` is in the bond list of `i` exactly when the
    criterion accepts the pair - wherever the atoms lie relative to the cells, in whatever order they come. -/
theorem pipeline_bonds_pairwise (P : PP α) (s0 : St α) (hH : Bonds.HalfComplete P.offsets) (h0 : (0, 0, 0) ∉ P.offsets)
    (hempty : ∀ i, adj s0 i = [])
    (hsym : ∀ a b, Bonds.crit P.bond (batom s0 a) (batom s0 b) = Bonds.crit P.bond (batom s0 b) (batom s0 a))
    (hnear : ∀ a b, Bonds.crit P.bond (batom s0 a) (batom s0 b) = true →
      Bonds.nearC (Bonds.cellOf P.bond (batom s0 a)) (Bonds.cellOf P.bond (batom s0 b)))
    (i j : Nat) (hi : i < s0.size) (hj : j < s0.size) (hne : i ≠ j) :
    j ∈ adj (bondAll P s0) i ↔ Bonds.crit P.bond (batom s0 i) (batom s0 j) = true := by
  rw [bondAll_refines P s0 h0 hempty i, Bonds.mem_adjOf]
  exact Bonds.boxes_eq_pairwise P.offsets hH _ _ s0.size hsym hnear i j hi hj hne

/-- the bond lists after the bonding phase are symmetric -/
theorem pipeline_bonds_symm (P : PP α) (s0 : St α) (h0 : (0, 0, 0) ∉ P.offsets) (hempty : ∀ i, adj s0 i = []) (i j : Nat) :
    j ∈ adj (bondAll P s0) i ↔ i ∈ adj (bondAll P s0) j := by
  rw [bondAll_refines P s0 h0 hempty i, bondAll_refines P s0 h0 hempty j, Bonds.mem_adjOf, Bonds.mem_adjOf]
  unfold Bonds.bondedIn
  exact Or.comm
end

/-- **C11 on the set-up pipeline with the shipped distances and offsets, exact milli-Angstrom arithmetic**: for every table of atoms
    (any coordinates, negative or not, any elements, any density, any order), after the bonding phase `j` is bonded to `i` exactly
    when the element-dependent distance criterion accepts the pair. -/
theorem pipeline_bonds_pairwise_shipped (P : PP Int) (hb : P.bond = Bonds.Pm) (ho : P.offsets = Bonds.H) (s0 : St Int)
    (hempty : ∀ i, adj s0 i = []) (i j : Nat) (hi : i < s0.size) (hj : j < s0.size) (hne : i ≠ j) :
    j ∈ adj (bondAll P s0) i ↔ Bonds.crit Bonds.Pm (batom s0 i) (batom s0 j) = true := by
  have h0 : (0, 0, 0) ∉ P.offsets := by rw [ho]; exact Bonds.inst_no_zero_offset
  have := pipeline_bonds_pairwise P s0 (by rw [ho]; exact Bonds.inst_half_complete) h0 hempty
    (fun a b => by rw [hb]; exact Bonds.crit_symm _ _) (fun a b h => by rw [hb] at h ⊢; exact Bonds.crit_near _ _ h) i j hi hj hne
  rw [hb] at this
  exact this

/-! ### non-vacuity: three atoms across a cell boundary at negative coordinates (milli-Angstrom) -/
def demoPP : PP Int :=
  { bond := Bonds.Pm, offsets := Bonds.H, valence := fun _ => none, bondLen := fun _ => none, stdCharge := fun _ => none,
    sybCharge := fun _ => none, piSide := fun _ => none, piConjSide := fun _ => none, piBB := fun _ => none, piConjBB := fun _ => none,
    piLig := fun _ => none, piConjLig := fun _ => none, rnd := id, deg120 := 0, deg1095 := 0, deg90 := 0, tripleSq := 0, doubleSq := 0,
    margin := 0, T := ⟨[], [], [], [], [], [], []⟩, ligandTyping := "groups", maxCouplingBonds := 3, uniMul := 10000000, resMul := 1000,
    micro := id, ofInt := id }

def demoAtom (x y z : Int) (e : String) : PAtom Int := { (PAtom.dflt : PAtom Int) with pos := ⟨x, y, z⟩, elem := e, live := true }

def demoState : St Int := #[demoAtom (-10) 0 0 "C", demoAtom (-2520) 100 0 "N", demoAtom 1400 0 0 "H", demoAtom 1300 0 900 "O"]

example : (∀ i, adj demoState i = []) ∧ adj (bondAll demoPP demoState) 0 = [2, 3] ∧ adj (bondAll demoPP demoState) 1 = [] ∧
    Bonds.cellOf Bonds.Pm (batom demoState 0) ≠ Bonds.cellOf Bonds.Pm (batom demoState 2) := by
  refine ⟨fun i => ?_, by decide +kernel, by decide +kernel, by decide +kernel⟩
  unfold adj at'
  rw [Array.getD_eq_getD_getElem?]
  by_cases h : i < demoState.size
  · have : i = 0 ∨ i = 1 ∨ i = 2 ∨ i = 3 := by simp [demoState] at h; omega
    rcases this with rfl | rfl | rfl | rfl <;> rfl
  · have : demoState[i]? = none := by simp; omega
    rw [this]; rfl

end Propka.Pipe
