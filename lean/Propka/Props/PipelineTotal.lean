import Propka.Model.Pipeline
import Propka.Model.Program
import Propka.Props.C12
import Propka.Props.C01Coupling
import Propka.Gen.Cfg
/-! C12 on the set-up pipeline: the only Python exception the set-up model can raise is `set_center([])` (ValueError), and it
    never does: whatever atoms, bonds, SYBYL types and options, `prepare` returns a prepared conformation - provided every
    residue-to-group mapping of the parameter file names a group class the set-up knows (decided for the shipped file). -/
namespace Propka.Pipe
open Propka

/-- the classes the protein / ion classifier can name, for a mapping table, are known to the set-up and are not OCO -/
def MappingKnown (T : Groups.Tables) : Prop :=
  ∀ kv ∈ T.mapping, ∃ sh, Setup.clsOf (kv.2 ++ "Group") = some sh ∧ sh ≠ .oco

theorem lookup_mem {β : Type} (d : List (String × β)) (k : String) (v : β) (h : Groups.lookup d k = some v) : ∃ kv ∈ d, kv.2 = v := by
  unfold Groups.lookup at h
  cases hf : d.find? (fun kv => kv.1 == k) with
  | none => rw [hf] at h; cases h
  | some kv =>
    rw [hf] at h
    simp only [Option.map_some, Option.some.injEq] at h
    exact ⟨kv, List.mem_of_find?_eq_some hf, h⟩

theorem classOf_known (T : Groups.Tables) (hT : MappingKnown T) (a : Groups.AtomInfo) (c : String) (h : Groups.classOf T a = some c) :
    ∃ sh, Setup.clsOf c = some sh ∧ sh ≠ .oco := by
  unfold Groups.classOf at h
  simp only at h
  split at h
  · rename_i c' hc
    injection h with h; subst h
    split at hc
    · cases hc
    · split at hc
      · injection hc with e; subst e; exact ⟨.self, by decide, by decide⟩
      · split at hc
        · injection hc with e; subst e; exact ⟨.cterm, by decide, by decide⟩
        · split at hc
          · injection hc with e; subst e; exact ⟨.hSelfBoth, by decide, by decide⟩
          · split at hc
            · injection hc with e; subst e; exact ⟨.bbc, by decide, by decide⟩
            · cases hl : Groups.lookup T.mapping (a.resName ++ "-" ++ a.name) with
              | none => rw [hl] at hc; cases hc
              | some v =>
                rw [hl] at hc
                simp only [Option.map_some, Option.some.injEq] at hc
                subst hc
                obtain ⟨kv, hkv, e⟩ := lookup_mem _ _ _ hl
                subst e
                exact hT kv hkv
  · split at h
    · injection h with e; subst e; exact ⟨.self, by decide, by decide⟩
    · cases h

/-- the ligand classifier names OCO only for an atom with bonded oxygens -/
theorem ligandClass_oco (atoms : Scoring.Tab Scoring.AtomT) (sy : Nat → String) (a : Nat)
    (h : Setup.ligandClass atoms sy a = some "OCOGroup") : Setup.bondedEl atoms a "O" ≠ [] := by
  unfold Setup.ligandClass at h
  cases hk : Setup.syKind (sy a) <;> rw [hk] at h <;> simp only at h
  · unfold Setup.clsNar at h; split at h <;> simp at h
  · simp at h
  · unfold Setup.clsN3 at h; repeat' split at h
    all_goals simp at h
  · simp at h
  · unfold Setup.clsNpl3 at h; repeat' split at h
    all_goals simp at h
  · unfold Setup.clsC2 at h
    simp only at h
    split at h
    · simp at h
    · split at h
      · simp at h
      · split at h
        · rename_i hlen
          intro he
          rw [he] at hlen
          simp at hlen
        · cases h
  · simp at h
  · simp at h
  · unfold Setup.clsO3 at h; repeat' split at h
    all_goals simp at h
  · simp at h
  · unfold Setup.clsS3 at h; split at h <;> simp at h
  · cases h

section
variable {α : Type} [Add α] [Sub α] [Mul α] [Div α] [Neg α] [OfNat α 0] [OfNat α 1] [OfNat α 2]
  [DecidableEq α] [LT α] [DecidableLT α] [Max α] [NatCast α] [Trig α] [Bonds.CellIdx α]

theorem mkGroupCore_isSome (P : PP α) (s : St α) (cls : String) (i : Nat) (sh : Setup.Cls) (hc : Setup.clsOf cls = some sh)
    (hoco : sh = .oco → Setup.bondedEl (view (setupState P s cls i)) i "O" ≠ []) : (mkGroupCore P s cls i).isSome = true := by
  unfold mkGroupCore
  rw [hc]
  simp only
  have hne : (Setup.setupAtoms (view (setupState P s cls i)) sh i).centre ≠ [] := by
    by_cases ho : sh = .oco
    · subst ho; rw [Setup.setup_oco]; exact hoco rfl
    · exact Setup.setup_total _ _ _ ho
  have : (Setup.setupAtoms (view (setupState P s cls i)) sh i).centre.isEmpty = false := by
    cases hcen : (Setup.setupAtoms (view (setupState P s cls i)) sh i).centre with
    | nil => exact absurd hcen hne
    | cons _ _ => rfl
  rw [if_neg (by rw [this]; simp)]
  rfl

theorem setupState_oco (P : PP α) (s : St α) (i : Nat) : setupState P s "OCOGroup" i = s := by
  unfold setupState protTargets
  simp

/-- one atom of the loop never raises -/
theorem extractStep_isSome (P : PP α) (hT : MappingKnown P.T) (o : Opts) (s : St α) (gs : List (PGroup α)) (i : Nat) :
    (extractStep P o (some (s, gs)) i).isSome = true := by
  unfold extractStep
  simp only
  cases hcl : classOfAtom P s i with
  | mk s0 c =>
    cases c with
    | none => rfl
    | some cls =>
      simp only
      have hsome : (mkGroupCore P s0 cls i).isSome = true := by
        unfold classOfAtom at hcl
        cases hp : Groups.classOf P.T (infoOf s i) with
        | some c' =>
          rw [hp] at hcl
          simp only [Prod.mk.injEq, Option.some.injEq] at hcl
          obtain ⟨e1, e2⟩ := hcl
          subst e1; subst e2
          obtain ⟨sh, h1, h2⟩ := classOf_known P.T hT _ _ hp
          exact mkGroupCore_isSome P s c' i sh h1 (fun e => absurd e h2)
        | none =>
          rw [hp] at hcl
          simp only at hcl
          split at hcl
          · simp only [Prod.mk.injEq] at hcl
            obtain ⟨e1, e2⟩ := hcl
            subst e1
            have hmem := Setup.ligandClass_mem _ _ _ _ e2
            obtain ⟨hk, _⟩ := Setup.ligand_classes_known cls hmem
            cases hsh : Setup.clsOf cls with
            | none => rw [hsh] at hk; cases hk
            | some sh =>
              refine mkGroupCore_isSome P _ cls i sh hsh (fun e => ?_)
              subst e
              -- the only class of shape `oco` is OCOGroup
              have hname : cls = "OCOGroup" := by
                have : cls ∈ Setup.ligandClassNames := hmem
                simp only [Setup.ligandClassNames, List.mem_cons, List.mem_nil_iff, or_false] at this
                rcases this with h | h | h | h | h | h | h | h | h | h | h | h | h | h | h | h | h | h <;> subst h <;> first | rfl | (revert hsh; decide)
              subst hname
              rw [setupState_oco]
              exact ligandClass_oco _ _ _ e2
          · simp only [Prod.mk.injEq] at hcl
            exact absurd hcl.2 (by simp)
      cases hm : mkGroupCore P s0 cls i with
      | none => rw [hm] at hsome; cases hsome
      | some r => rfl

/-- **C12 on the set-up pipeline**: the loop of `extract_groups` - with the protonation it triggers and the set-up of every group
    class - never raises, whatever atoms are present or missing. -/
theorem extractGroups_isSome (P : PP α) (hT : MappingKnown P.T) (o : Opts) (s : St α) : (extractGroups P o s).isSome = true := by
  unfold extractGroups
  generalize heavyLive s = L
  suffices H : ∀ (L : List Nat) (s : St α) (gs : List (PGroup α)), (L.foldl (extractStep P o) (some (s, gs))).isSome = true from H L s []
  intro L
  induction L with
  | nil => intro s gs; rfl
  | cons i L ih =>
    intro s gs
    simp only [List.foldl_cons]
    have := extractStep_isSome P hT o s gs i
    cases hs : extractStep P o (some (s, gs)) i with
    | none => rw [hs] at this; cases this
    | some r => exact ih r.1 r.2

/-- **C12, the whole set-up of a conformation**: bonding, typing, protonation, group extraction and set-up, sorting and coupling
    return a prepared conformation for every table of atoms - complete or not. -/
theorem prepare_isSome (P : PP α) (hT : MappingKnown P.T) (o : Opts) (s0 : St α) : (prepare P o s0).isSome = true := by
  unfold prepare
  simp only
  split
  · rename_i h
    have := extractGroups_isSome P hT o (if o.protonateAll = true then protonateEverything P (piAll P (sybylAll P (bondAll P s0))) else piAll P (sybylAll P (bondAll P s0)))
    rw [h] at this; cases this
  · rfl
end

/-- the shipped residue-to-group mapping names only classes the set-up knows (regenerated from /repo on every run) -/
theorem inst_mapping_known : ∀ kv ∈ Gen.Cfg.f_protein_group_mapping, ∃ sh, Setup.clsOf (kv.2 ++ "Group") = some sh ∧ sh ≠ .oco := by
  decide +kernel

end Propka.Pipe

namespace Propka.Program
open Propka
section
variable {α : Type} [Add α] [Sub α] [Mul α] [Div α] [Neg α] [OfNat α 0] [OfNat α 1] [OfNat α 2]
  [DecidableEq α] [LT α] [LE α] [DecidableLT α] [DecidableLE α] [Max α] [Min α] [NatCast α] [BEq α] [Inhabited α]
  [Trig α] [Bonds.CellIdx α] [Profiles.PowLog α]

/-- **C12 on the program model**: once the parser has accepted the text, every conformation gets its results - no conformation's
    set-up raises, whichever atoms or residues the text lacks. -/
theorem program_setup_never_raises (P : Pipe.PP α) (hT : Pipe.MappingKnown P.T) (sp : Scoring.SP α) (dec : Int → Nat → α) (o : Pipe.Opts)
    (recs : List Pdb.AtomRec) (c : ConfOut α) (hc : c ∈ afterParse P sp dec o recs) : c.2.isSome = true := by
  unfold afterParse at hc
  simp only [List.mem_map] at hc
  obtain ⟨c0, _, rfl⟩ := hc
  simp only [Option.isSome_map]
  exact Pipe.prepare_isSome P hT o _
end
end Propka.Program
