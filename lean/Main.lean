import Propka.Model.Hybrid36
import Propka.Model.Rotation
import Propka.Model.BondsDriver
import Propka.Model.ParamsDriver
import Propka.Model.PdbDriver
import Propka.Model.GroupsDriver
import Propka.Model.HiddenDriver
import Propka.Model.ProfilesDriver
import Propka.Model.DetsDriver
import Propka.Model.EnergyDriver
import Propka.Model.Protonate
import Propka.Model.PairLoop
import Propka.Model.Angle
import Propka.Model.Coupling
import Propka.Model.ResList
import Propka.Model.ScoringDriver
import Propka.Model.SetupDriver
import Propka.Model.PipelineDriver
/-! Line-protocol driver: one request per line `<module> <args…>`, one response line each. -/
open Propka

def dispatch (ws : List String) : String :=
  match ws with
  | "h36" :: r => H36.handle r
  | "rot" :: r => Rot.handle r
  | "bonds" :: r => Bonds.handle r
  | "params" :: r => Params.handle r
  | "pdb" :: r => Pdb.handle r
  | "groups" :: r => Groups.handle r
  | "hidden" :: r => Hidden.handle r
  | "prof" :: r => Profiles.handle r
  | "dets" :: r => Dets.handle r
  | "energy" :: r => Energy.handle r
  | "iter" :: r => Iter.handle r
  | "prot" :: r => Prot.handle r
  | "pairloop" :: r => PairLoop.handle r
  | "topup" :: r => TopUp.handle r
  | "angle" :: r => Angle.handle r
  | "coupling" :: r => Coupling.handle r
  | "reslist" :: r => ResList.handle r
  | "scoring" :: r => Scoring.handle r
  | "setup" :: r => Setup.handle r
  | "pipe" :: r => Pipe.handle r
  | ["ping"] => "pong"
  | _ => "bad-op"

partial def loop (hin : IO.FS.Stream) (hout : IO.FS.Stream) : IO Unit := do
  let line ← hin.getLine
  if line.isEmpty then return ()
  let ws := (line.trimAscii.toString.splitOn " ").filter (· ≠ "")
  hout.putStrLn (dispatch ws)
  if ws.head? == some "flush" || true then hout.flush
  loop hin hout

def main : IO Unit := do loop (← IO.getStdin) (← IO.getStdout)
