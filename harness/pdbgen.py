"""PDB text generators and mutators (all randomness from the caller's rng).

A structure is a list of lines (each ending in a newline).  Residues are cut from the repository's
own test files, so generated inputs are mostly valid chemistry; mutators then perturb records,
labels, termini, conformations and geometry."""
import math
from .common import REPO

PDBDIR = REPO / "tests" / "pdb"


def test_files(names=None):
    out = []
    for p in sorted(PDBDIR.glob("*.pdb")):
        if names is None or p.stem in names:
            t = p.read_text()
            if not t.endswith("\n"):
                t += "\n"
            out.append((p.stem, t))
    return out


def lines_of(text):
    return text.splitlines(keepends=True)


def is_atom(line):
    return line[:6] in ("ATOM  ", "HETATM")


def setcols(line, a, b, text):
    """replace columns a..b (0-based, b exclusive), padding the line if needed"""
    nl = "\n" if line.endswith("\n") else ""
    body = line.rstrip("\n")
    if len(body) < b:
        body = body.ljust(b)
    return body[:a] + text + body[b:] + nl


def res_key(line):
    return (line[21], line[22:26], line[26], line[17:20])


def split_residues(lines):
    """[(kind, key, [lines])] with kind 'res' (consecutive atom records of one residue) or 'rec' (any other line)"""
    out = []
    for l in lines:
        if is_atom(l):
            k = res_key(l)
            if out and out[-1][0] == "res" and out[-1][1] == k:
                out[-1][2].append(l)
            else:
                out.append(("res", k, [l]))
        else:
            out.append(("rec", l[:6], [l]))
    return out


def flatten(items):
    return [l for it in items for l in it[2]]


_LIB = None


def library():
    """chains of the test files as lists of residues: {(file, chain): [residue items]}; waters dropped"""
    global _LIB
    if _LIB is None:
        _LIB = {}
        for name, text in test_files(["1FTJ-Chain-A", "3SGB", "1HPX", "4DFR"]):
            for it in split_residues(lines_of(text)):
                if it[0] != "res" or it[1][3] in ("HOH",):
                    continue
                if it[2][0].startswith("HETATM"):
                    _LIB.setdefault((name, "het"), []).append(it)
                else:
                    _LIB.setdefault((name, it[1][0]), []).append(it)
    return _LIB


def fragment(rng, nres=None, with_oxt=None):
    """a run of consecutive protein residues from a random test-file chain"""
    lib = library()
    keys = [k for k in lib if k[1] != "het"]
    k = keys[rng.randrange(len(keys))]
    chain = lib[k]
    n = nres or rng.randint(4, 14)
    i = rng.randrange(0, max(1, len(chain) - n))
    return flatten(chain[i:i + n])


def relabel(lines, chain=None, shift=0, renumber_from=None, icode=None):
    """set the chain id / shift residue numbers / renumber consecutively / set an insertion code"""
    out = []
    cur, num = None, renumber_from
    for l in lines:
        if is_atom(l):
            if renumber_from is not None:
                k = res_key(l)
                if k != cur:
                    if cur is not None:
                        num += 1
                    cur = k
                l = setcols(l, 22, 26, "%4d" % num)
            elif shift:
                l = setcols(l, 22, 26, "%4d" % (int(l[22:26]) + shift))
            if chain is not None:
                l = setcols(l, 21, 22, chain)
            if icode is not None:
                l = setcols(l, 26, 27, icode)
        out.append(l)
    return out


def renumber_serials(lines, start=1):
    out, n = [], start
    for l in lines:
        if is_atom(l):
            l = setcols(l, 6, 11, "%5d" % n)
            n += 1
        out.append(l)
    return out


def coords(line):
    return float(line[30:38]), float(line[38:46]), float(line[46:54])


def set_coords(line, x, y, z):
    return setcols(line, 30, 54, "%8.3f%8.3f%8.3f" % (x, y, z))


def translate(lines, dx, dy, dz):
    out = []
    for l in lines:
        if is_atom(l):
            x, y, z = coords(l)
            l = set_coords(l, x + dx, y + dy, z + dz)
        out.append(l)
    return out


def rotations24():
    """the 24 proper rotations that permute the axes (signed permutation matrices of determinant +1)"""
    import itertools
    mats = []
    for perm in itertools.permutations(range(3)):
        for signs in itertools.product((1, -1), repeat=3):
            m = [[0] * 3 for _ in range(3)]
            for i in range(3):
                m[i][perm[i]] = signs[i]
            det = (m[0][0] * (m[1][1] * m[2][2] - m[1][2] * m[2][1]) - m[0][1] * (m[1][0] * m[2][2] - m[1][2] * m[2][0])
                   + m[0][2] * (m[1][0] * m[2][1] - m[1][1] * m[2][0]))
            if det == 1:
                mats.append(m)
    return mats


def rotate(lines, m):
    """apply a signed permutation matrix exactly (on the 0.001 grid)"""
    out = []
    for l in lines:
        if is_atom(l):
            v = [round(c * 1000) for c in coords(l)]
            w = [sum(m[i][j] * v[j] for j in range(3)) for i in range(3)]
            l = set_coords(l, w[0] / 1000.0, w[1] / 1000.0, w[2] / 1000.0)
        out.append(l)
    return out


def bbox(lines):
    cs = [coords(l) for l in lines if is_atom(l)]
    return [(min(c[i] for c in cs), max(c[i] for c in cs)) for i in range(3)]


def add_oxt(lines):
    """give the last residue a terminal oxygen next to its C (if it has C and O)"""
    items = split_residues(lines)
    last = [it for it in items if it[0] == "res" and it[2][0].startswith("ATOM")][-1]
    byname = {l[12:16].strip(): l for l in last[2]}
    if "C" not in byname or "O" not in byname or "OXT" in byname or "CA" not in byname:
        return lines
    c, o, ca = coords(byname["C"]), coords(byname["O"]), coords(byname["CA"])
    # reflect O through the C-CA axis direction: OXT = C + (C - CA) + (C - O), rescaled to 1.25 A
    v = [2 * c[i] - ca[i] - o[i] for i in range(3)]
    n = math.sqrt(sum(t * t for t in v)) or 1.0
    p = [round(c[i] + 1.25 * v[i] / n, 3) for i in range(3)]
    new = setcols(byname["O"], 12, 16, " OXT")
    new = set_coords(new, *p)
    idx = lines.index(last[2][-1])
    return lines[:idx + 1] + [new] + lines[idx + 1:]


JUNK = ["REMARK 465 MISSING RESIDUES\n", "ANISOU    1  N   ALA A   1     2406   1892   1614    198    519   -328       N\n",
        "CONECT    1    2\n", "HEADER    HYDROLASE\n", "SEQRES   1 A   21  GLY ILE VAL GLU GLN\n", "\n", "MASTER        0    0\n",
        "SIGATM    1  N   ALA A   1       0.010   0.010   0.010  0.00  0.00           N\n", "ENDMDL\n", "END\n", "TERM\n",
        "HETNAM     KNI SOMETHING\n", "CRYST1   50.000   50.000   50.000  90.00  90.00  90.00 P 1           1\n"]

WATER = "HETATM%5d  O   HOH %s%4d    %8.3f%8.3f%8.3f  1.00 20.00           O\n"


def water(rng, lines, resname="HOH"):
    (x0, x1), (y0, y1), (z0, z1) = bbox(lines)
    l = WATER % (rng.randint(1, 99999), rng.choice("AB W"), rng.randint(1, 999), rng.uniform(x0 - 3, x1 + 3), rng.uniform(y0 - 3, y1 + 3), rng.uniform(z0 - 3, z1 + 3))
    return setcols(l, 17, 20, resname)


def insert_at_random(rng, lines, new, n=1):
    out = list(lines)
    for _ in range(n):
        out.insert(rng.randint(0, len(out)), new if isinstance(new, str) else rng.choice(new))
    return out


def multichain(rng, nchains=None, ter="TER   \n", oxt_prob=0.5, chains="ABCDEFGab2 ", separation=60.0, twins=0.15):
    """a multi-chain structure from library fragments, chains placed `separation` A apart; with probability `twins` two
    residues share a number and differ in insertion code (same-type twins - equal printed labels - half of the time)"""
    n = nchains or rng.randint(2, 3)
    out = []
    ids = rng.sample(list(chains), n)
    for i, c in enumerate(ids):
        frag = fragment(rng)
        (x0, x1), (y0, y1), (z0, z1) = bbox(frag)
        frag = translate(frag, round(-x0 + i * separation, 3), round(-y0, 3), round(-z0, 3))
        frag = relabel(frag, chain=c)
        if rng.random() < oxt_prob:
            frag = add_oxt(frag)
        out += frag
        if ter is not None and (rng.random() < 0.8 or i == n - 1):
            out.append(ter)
    if rng.random() < twins:
        tw = same_type_twins(rng, out) if rng.random() < 0.5 else None
        if tw is None:
            r = twin_residues(rng, out)
            tw = r[0] if r else None
        if tw is not None:
            out = tw
    return renumber_serials(out), ids


def graft_sidechain(rng, res_lines, new_res):
    """point mutant: the residue keeps its backbone and CB and gets the side chain (beyond CB) of a library residue of type
    `new_res`, translated so that the CB atoms coincide; residue name changed throughout.  None if impossible."""
    lib = library()
    cands = [it for k in sorted(lib) if k[1] != "het" for it in lib[k] if it[1][3] == new_res and any(l[12:16].strip() == "CB" for l in it[2])]
    cb = [l for l in res_lines if l[12:16].strip() == "CB"]
    if not cands or not cb:
        return None
    src = cands[rng.randrange(len(cands))][2]
    scb = [l for l in src if l[12:16].strip() == "CB"][0]
    (x0, y0, z0), (x1, y1, z1) = coords(scb), coords(cb[0])
    out = [setcols(l, 17, 20, new_res) for l in res_lines if l[12:16].strip() in ("N", "CA", "C", "O", "CB", "OXT")]
    for l in src:
        if l[12:16].strip() in ("N", "CA", "C", "O", "CB", "OXT") or l[16] not in " A":
            continue
        x, y, z = coords(l)
        g = set_coords(l, round(x - x0 + x1, 3), round(y - y0 + y1, 3), round(z - z0 + z1, 3))
        g = setcols(setcols(setcols(setcols(g, 21, 22, cb[0][21]), 22, 27, cb[0][22:27]), 16, 17, cb[0][16]), 0, 6, "ATOM  ")
        out.append(g)
    return out


def altloc_atoms(rng, lines, n=1):
    """the same structure with `n` side-chain atoms given two alternate locations 0.4 A apart: two conformations"""
    idx = [i for i, l in enumerate(lines) if l.startswith("ATOM") and l[16] == " " and l[12:16].strip() not in ("N", "CA", "C", "O", "OXT")]
    out = list(lines)
    for i in sorted(rng.sample(idx, min(n, len(idx))), reverse=True):
        x, y, z = coords(lines[i])
        out[i:i + 1] = [setcols(lines[i], 16, 17, "A"), set_coords(setcols(lines[i], 16, 17, "B"), round(x + 0.3, 3), round(y - 0.2, 3), round(z + 0.15, 3))]
    return out


def salt_bridge_twins():
    """1FTJ chain A with LYS 251 renumbered to 210A: LYS 210 and LYS 210A then share the printed label, and both are salt-bridged
    to GLU 198 (determinants towards both sit side by side in one list)"""
    t = dict(test_files(["1FTJ-Chain-A"]))["1FTJ-Chain-A"]
    return [setcols(setcols(l, 22, 26, " 210"), 26, 27, "A") if is_atom(l) and l[17:20] == "LYS" and l[22:26] == " 251" else l for l in lines_of(t)]


def coupled_in_one_conformation():
    """1HPX with two alternate locations of the ASP B 25 carboxylate: B as deposited (ASP 25 A and ASP 25 B are non-covalently
    coupled), A turned by 180 degrees about CA-CB (they are not): the coupling exists in the second conformation only"""
    t = dict(test_files(["1HPX"]))["1HPX"]
    ls = lines_of(t)
    sel = lambda nm: [l for l in ls if l.startswith("ATOM") and l[21] == "B" and l[22:26] == "  25" and l[12:16].strip() == nm][0]
    ca, cb = coords(sel("CA")), coords(sel("CB"))
    ax = [cb[i] - ca[i] for i in range(3)]
    n2 = sum(q * q for q in ax)
    out = []
    for l in ls:
        if l.startswith("ATOM") and l[21] == "B" and l[22:26] == "  25" and l[12:16].strip() in ("CG", "OD1", "OD2"):
            v = [coords(l)[i] - ca[i] for i in range(3)]
            k = sum(v[i] * ax[i] for i in range(3)) / n2
            w = [2 * k * ax[i] - v[i] + ca[i] for i in range(3)]
            out.append(set_coords(setcols(l, 16, 17, "A"), round(w[0], 3), round(w[1], 3), round(w[2], 3)))
            out.append(setcols(l, 16, 17, "B"))
        else:
            out.append(l)
    return out


def nterm_asp_fragment():
    """residues 7-13 of 3SGB chain I: the chain starts with an aspartate, whose side chain the program couples covalently
    to the amino group and penalises (finding D20) - a titratable group that is left out of the printed tables"""
    t = dict(test_files(["3SGB"]))["3SGB"]
    return [l for l in lines_of(t) if l.startswith("ATOM") and l[21] == "I" and l[26] == " " and 7 <= int(l[22:26]) <= 13] + ["TER   \n"]


def add_pyridine(rng, lines, dist=2.9):
    """a pyridine (HETATM residue PYR, chain of the target) whose ring nitrogen accepts the hydrogen bond of a backbone
    amide: N1 sits `dist` A from a backbone N on the bisector direction of its N-H bond, the ring extends away from it.
    Returns None if no residue with a preceding carbonyl carbon is found."""
    items = split_residues(lines)
    res = [it for it in items if it[0] == "res" and it[2][0].startswith("ATOM")]
    cands = []
    for a, b in zip(res, res[1:]):
        if a[1][0] != b[1][0] or b[1][3] == "PRO":
            continue
        c = [l for l in a[2] if l[12:16].strip() == "C"]
        n = [l for l in b[2] if l[12:16].strip() == "N"]
        ca = [l for l in b[2] if l[12:16].strip() == "CA"]
        if c and n and ca:
            cands.append((coords(c[0]), coords(n[0]), coords(ca[0]), b[1][0]))
    if not cands:
        return None
    c, n, ca, chain = cands[rng.randrange(len(cands))]
    def unit(v):
        r = sum(q * q for q in v) ** 0.5
        return [q / r for q in v]
    h = unit([p + q for p, q in zip(unit([n[i] - c[i] for i in range(3)]), unit([n[i] - ca[i] for i in range(3)]))])
    t = [1.0, 0.0, 0.0] if abs(h[0]) < 0.9 else [0.0, 1.0, 0.0]
    d = sum(p * q for p, q in zip(t, h))
    p = unit([t[i] - d * h[i] for i in range(3)])
    import math
    centre = [n[i] + (dist + 1.39) * h[i] for i in range(3)]
    out = list(lines)
    for k, name in enumerate(["N1", "C2", "C3", "C4", "C5", "C6"]):
        th = math.radians(60.0 * k)
        q = [centre[i] + 1.39 * (-math.cos(th) * h[i] + math.sin(th) * p[i]) for i in range(3)]
        out.append("HETATM%5d  %-3s PYR %1s 950    %8.3f%8.3f%8.3f  1.00  0.00           %1s\n" % (9100 + k, name, chain, q[0], q[1], q[2], name[0]))
    return out


def nterm_asp_hbond_fragment():
    """residues 216-219 of 1FTJ chain A: the N-terminal ASP 216 (penalised, finding D20) is hydrogen-bonded to LYS 218 without
    a Coulomb determinant between them"""
    t = dict(test_files(["1FTJ-Chain-A"]))["1FTJ-Chain-A"]
    return [l for l in lines_of(t) if l.startswith("ATOM") and l[26] == " " and 216 <= int(l[22:26]) <= 219] + ["TER   \n"]


def ss_fragment():
    """two short peptides of 3SGB joined by the Cys 42 - Cys 58 disulfide bridge (chain E residues 41-43 and 56-59)"""
    t = dict(test_files(["3SGB"]))["3SGB"]
    a = [l for l in lines_of(t) if l.startswith("ATOM") and l[21] == "E" and l[26] == " " and 41 <= int(l[22:26]) <= 43]
    b = [l for l in lines_of(t) if l.startswith("ATOM") and l[21] == "E" and l[26] == " " and 56 <= int(l[22:26]) <= 59]
    return a + ["TER   \n"] + b + ["TER   \n"]


def twin_residues(rng, lines):
    """residue k+1 of some chain renumbered to 'k A' (an insertion-coded twin): (lines, (k, k+1)) or None"""
    items = split_residues(lines)
    res = [k for k, it in enumerate(items) if it[0] == "res" and it[2][0].startswith("ATOM")]
    cand = [(res[i], res[i + 1]) for i in range(len(res) - 1) if items[res[i]][2][0][21] == items[res[i + 1]][2][0][21] and items[res[i]][2][0][26] == " "]
    if not cand:
        return None
    a, b = cand[rng.randrange(len(cand))]
    num = items[a][2][0][22:26]
    tw = list(items)
    tw[b] = ("res", None, [setcols(setcols(l, 22, 26, num), 26, 27, "A") for l in items[b][2]])
    return flatten(tw), (int(num), int(items[b][2][0][22:26]))


def same_type_twins(rng, lines, types=("LYS", "ASP", "GLU", "ARG", "HIS", "TYR", "CYS")):
    """two residues of one ionizable type in one chain given the same number, the later one with insertion code 'A':
    their groups (and every determinant towards them) then carry the same printed label.  None if there is no such pair."""
    items = split_residues(lines)
    by = {}
    for k, it in enumerate(items):
        if it[0] == "res" and it[2][0].startswith("ATOM") and it[1][3] in types and it[1][2] == " ":
            by.setdefault((it[1][0], it[1][3]), []).append(k)
    pairs = [(v[i], v[j]) for v in by.values() for i in range(len(v)) for j in range(i + 1, len(v))]
    if not pairs:
        return None
    a, b = pairs[rng.randrange(len(pairs))]
    num = items[a][2][0][22:26]
    if any(it[0] == "res" and k not in (a, b) and it[2][0][21] == items[a][2][0][21] and it[2][0][22:26] == num for k, it in enumerate(items)):
        return None
    tw = list(items)
    tw[b] = ("res", None, [setcols(setcols(l, 22, 26, num), 26, 27, "A") for l in items[b][2]])
    return flatten(tw)


def add_ions(rng, lines, n=2, name="CA", blank_same_number=False):
    """`n` ions of one kind in the chain of (and 3-5 A from) an acidic side chain, numbered consecutively: hetero groups that
    share a printed label and differ in residue number.  None without an ASP/GLU."""
    acids = [l for l in lines if l.startswith("ATOM") and ((l[17:20] == "ASP" and l[12:16].strip() == "CG") or (l[17:20] == "GLU" and l[12:16].strip() == "CD"))]
    if not acids:
        return None
    c = acids[rng.randrange(len(acids))]
    x, y, z = coords(c)
    out = list(lines)
    for k in range(n):
        while True:
            v = [rng.uniform(-1, 1) for _ in range(3)]
            r = sum(q * q for q in v) ** 0.5
            if 0.2 < r <= 1.0:
                break
        d = rng.uniform(3.2, 5.0)
        p = [round(x + d * v[0] / r, 3), round(y + d * v[1] / r, 3), round(z + d * v[2] / r, 3)]
        # `blank_same_number`: a hetero record without chain identifier that carries the residue number of the acid next to it
        ch, num = (" ", int(c[22:26])) if blank_same_number else (c[21], 900 + k)
        l = "HETATM%5d %-4s %3s %1s%4d    %8.3f%8.3f%8.3f  1.00  0.00          %2s\n" % (9000 + k, name, name.rjust(3), ch, num, p[0], p[1], p[2], name.rjust(2))
        out.append(l)
    return out


SIDE_CHAIN_ENDS = {"ASP": ("OD1", "OD2"), "GLU": ("OE1", "OE2"), "HIS": ("ND1", "NE2", "CD2", "CE1"), "TYR": ("OH",),
                   "ARG": ("NE", "NH1", "NH2"), "SER": ("OG",), "THR": ("OG1",), "ASN": ("OD1", "ND2"), "GLN": ("OE1", "NE2"),
                   "TRP": ("NE1",)}


def truncate_sidechains(rng, lines, n=1, types=None):
    """incomplete residues as found in low-resolution structures: the hetero atoms at the end of up to `n` side chains are
    missing (an ASP keeps CG but has no OD1/OD2, a HIS stops at CG, ...)"""
    keys = sorted({res_key(l) for l in lines if is_atom(l) and l[17:20] in (types or SIDE_CHAIN_ENDS)})
    if not keys:
        return lines if types is None else truncate_sidechains(rng, lines, n)
    chosen = set(rng.sample(keys, min(n, len(keys))))
    return [l for l in lines if not (is_atom(l) and res_key(l) in chosen and l[12:16].strip() in SIDE_CHAIN_ENDS[l[17:20]])]


def cys_contact(rng, partner=("LYS", "NZ")):
    """two short peptides from the library: one around a free cysteine, one around an ionizable residue, the second moved rigidly so that
    the partner atom lies 3.2-3.6 A from the cysteine's SG and no other atoms of the two peptides come closer than 3 A; chains A and B.
    None if no placement is found."""
    lib = library()
    chains = [lib[k] for k in sorted(lib) if k[1] != "het"]
    cys = [(c, i) for c in chains for i, it in enumerate(c) if it[1][3] == "CYS" and 0 < i < len(c) - 1]
    oth = [(c, i) for c in chains for i, it in enumerate(c) if it[1][3] == partner[0] and 0 < i < len(c) - 1]
    # free cysteines only: no other SG within 3 A in the source chain
    def sg(it):
        return [coords(l) for l in it[2] if l[12:16].strip() == "SG"]
    allsg = [x for c in chains for it in c if it[1][3] == "CYS" for x in sg(it)]
    free = []
    for c, i in cys:
        s = sg(c[i])
        if s and sum(1 for x in allsg if sum((p - q) ** 2 for p, q in zip(x, s[0])) < 9.0) == 1:
            free.append((c, i))
    if not free or not oth:
        return None
    for _ in range(200):
        c1, i1 = free[rng.randrange(len(free))]
        c2, i2 = oth[rng.randrange(len(oth))]
        pa = relabel(flatten(c1[i1 - 1:i1 + 2]), chain="A")
        pb = relabel(flatten(c2[i2 - 1:i2 + 2]), chain="B")
        s = [coords(l) for l in pa if l[17:20] == "CYS" and l[12:16].strip() == "SG"][0]
        n = [coords(l) for l in pb if l[17:20] == partner[0] and l[12:16].strip() == partner[1]]
        if not n:
            continue
        while True:
            v = [rng.uniform(-1, 1) for _ in range(3)]
            r = sum(q * q for q in v) ** 0.5
            if 0.2 < r <= 1.0:
                break
        d = rng.uniform(3.2, 3.6)
        tgt = [s[k] + d * v[k] / r for k in range(3)]
        sh = [round(tgt[k] - n[0][k], 3) for k in range(3)]
        pb2 = translate(pb, *sh)
        ok = True
        for la in pa:
            for lb in pb2:
                dd = sum((x - y) ** 2 for x, y in zip(coords(la), coords(lb)))
                special = la[12:16].strip() == "SG" and lb[12:16].strip() == partner[1] and lb[17:20] == partner[0]
                if not special and dd < 9.0:
                    ok = False
                    break
            if not ok:
                break
        if ok:
            return pa + ["TER   \n"] + pb2 + ["TER   \n"]
    return None


# benzamidine, ideal planar geometry: an amidinium ligand group (a C.2 carbon with two terminal N.pl3 nitrogens -> C2N)
BEN_ATOMS = [("C1", 1.390, 0.000), ("C2", 0.695, 1.204), ("C3", -0.695, 1.204), ("C4", -1.390, 0.000), ("C5", -0.695, -1.204), ("C6", 0.695, -1.204),
             ("C7", 2.870, 0.000), ("N1", 3.535, 1.152), ("N2", 3.535, -1.152)]


def add_benzamidine(lines, chain="L", resnum=500, gap=7.0):
    """`lines` followed by a benzamidine (HETATM, residue BEN) placed `gap` A beyond the largest x of the structure"""
    atoms = [l for l in lines if is_atom(l)]
    cs = [coords(l) for l in atoms] or [(0.0, 0.0, 0.0)]
    sx = max(c[0] for c in cs) + gap + 1.5
    sy = sum(c[1] for c in cs) / len(cs)
    sz = sum(c[2] for c in cs) / len(cs)
    out = list(lines)
    for k, (name, x, y) in enumerate(BEN_ATOMS):
        out.append("HETATM%5d %-4s %3s %s%4d    %8.3f%8.3f%8.3f  1.00 20.00          %2s  \n" % (
            9100 + k, " " + name, "BEN", chain, resnum, x + sx, y + sy, sz, name[0]))
    return out


def align_peptide_plane(rng, lines):
    """the structure turned rigidly (a general rotation, coordinates re-rounded to the 0.001 A grid once) so that a backbone nitrogen,
    the carbonyl carbon bonded to it and its own CA share one coordinate *exactly* - a peptide plane parallel to a coordinate plane,
    as model builders and idealised peptides have it.  None if the structure has no peptide bond."""
    atoms = [l for l in lines if is_atom(l) and l.startswith("ATOM")]
    ns = [l for l in atoms if l[12:16].strip() == "N" and l[17:20] != "PRO"]
    rng.shuffle(ns)
    for n in ns:
        pn = coords(n)
        ca = [coords(l) for l in atoms if l[12:16].strip() == "CA" and res_key(l) == res_key(n)]
        cp = [coords(l) for l in atoms if l[12:16].strip() == "C" and res_key(l) != res_key(n) and sum((a - b) ** 2 for a, b in zip(coords(l), pn)) < 1.6 ** 2]
        if len(ca) != 1 or len(cp) != 1:
            continue
        u = [ca[0][k] - pn[k] for k in range(3)]
        v = [cp[0][k] - pn[k] for k in range(3)]
        nrm = [u[1] * v[2] - u[2] * v[1], u[2] * v[0] - u[0] * v[2], u[0] * v[1] - u[1] * v[0]]
        ln = sum(x * x for x in nrm) ** 0.5
        if ln < 0.5:
            continue
        nrm = [x / ln for x in nrm]
        ax = rng.randrange(3)
        e = [0.0, 0.0, 0.0]
        e[ax] = 1.0
        # rotation taking nrm to e (Rodrigues about nrm x e)
        k = [nrm[1] * e[2] - nrm[2] * e[1], nrm[2] * e[0] - nrm[0] * e[2], nrm[0] * e[1] - nrm[1] * e[0]]
        s_ = sum(x * x for x in k) ** 0.5
        c_ = sum(a * b for a, b in zip(nrm, e))
        if s_ < 1e-9:
            continue
        k = [x / s_ for x in k]

        def rot(p):
            d = sum(a * b for a, b in zip(k, p))
            cr = [k[1] * p[2] - k[2] * p[1], k[2] * p[0] - k[0] * p[2], k[0] * p[1] - k[1] * p[0]]
            return [p[i] * c_ + cr[i] * s_ + k[i] * d * (1 - c_) for i in range(3)]
        common = round(rot(pn)[ax], 3)
        special = {id(n)} | {id(l) for l in atoms if (l[12:16].strip() == "CA" and res_key(l) == res_key(n))
                             or (l[12:16].strip() == "C" and res_key(l) != res_key(n) and sum((a - b) ** 2 for a, b in zip(coords(l), pn)) < 1.6 ** 2)}
        out = []
        for l in lines:
            if not is_atom(l):
                out.append(l)
                continue
            q = [round(x, 3) for x in rot(coords(l))]
            if id(l) in special:
                q[ax] = common
            out.append(set_coords(l, *q))
        return out
    return None


def chain_in_later_conformation(rng, nchains=2):
    """a multi-chain structure in which every atom of the last chain carries the alternate-location tag B and nothing else is
    tagged: the first conformation owns no atom of that chain and receives it only through topping-up"""
    lines, ids = multichain(rng, nchains=nchains, chains="ABCDEF", twins=0.0, separation=12.0)
    if len(ids) < 2:
        return None
    last = ids[-1]
    return [setcols(l, 16, 17, "B") if is_atom(l) and l[21] == last else l for l in lines]


def polar_contact(rng, first=("TYR", "OH"), partner=("LYS", "NZ"), dmin=2.6, dmax=3.0, tries=200):
    """two short peptides from the library, one around a `first` residue and one around a `partner` residue, the second moved rigidly
    so that the two named atoms are dmin..dmax apart and no other atoms of the two peptides come closer than 3 A; chains A and B.
    None if no placement is found."""
    lib = library()
    chains = [lib[k] for k in sorted(lib) if k[1] != "het"]
    one = [(c, i) for c in chains for i, it in enumerate(c) if it[1][3] == first[0] and 0 < i < len(c) - 1]
    two = [(c, i) for c in chains for i, it in enumerate(c) if it[1][3] == partner[0] and 0 < i < len(c) - 1]
    if not one or not two:
        return None
    for _ in range(tries):
        c1, i1 = one[rng.randrange(len(one))]
        c2, i2 = two[rng.randrange(len(two))]
        pa = relabel(flatten(c1[i1 - 1:i1 + 2]), chain="A")
        pb = relabel(flatten(c2[i2 - 1:i2 + 2]), chain="B")
        if any(l[16] != " " for l in pa + pb):
            continue
        s = [coords(l) for l in pa if l[17:20] == first[0] and l[12:16].strip() == first[1] and l[22:26] == c1[i1][1][1]]
        n = [coords(l) for l in pb if l[17:20] == partner[0] and l[12:16].strip() == partner[1] and l[22:26] == c2[i2][1][1]]
        if len(s) != 1 or len(n) != 1:
            continue
        while True:
            v = [rng.uniform(-1, 1) for _ in range(3)]
            r = sum(q * q for q in v) ** 0.5
            if 0.2 < r <= 1.0:
                break
        d = rng.uniform(dmin, dmax)
        tgt = [s[0][k] + d * v[k] / r for k in range(3)]
        pb2 = translate(pb, *[round(tgt[k] - n[0][k], 3) for k in range(3)])
        ok = True
        for la in pa:
            for lb in pb2:
                dd = sum((x - y) ** 2 for x, y in zip(coords(la), coords(lb)))
                special = (la[12:16].strip() == first[1] and la[17:20] == first[0] and la[22:26] == c1[i1][1][1]
                           and lb[12:16].strip() == partner[1] and lb[17:20] == partner[0] and lb[22:26] == c2[i2][1][1])
                if not special and dd < 9.0:
                    ok = False
                    break
            if not ok:
                break
        if ok:
            return pa + ["TER   \n"] + pb2 + ["TER   \n"]
    return None


def homodimer_ss(rng, tries=400):
    """a peptide around a cysteine and its copy under a two-fold rotation placed so that the two SG atoms are 2.04 A apart and
    nothing else of the two chains comes closer than 3 A: the symmetric inter-chain disulfide of a homodimer - both chains carry
    the *same* residue numbers (chains A and B).  None if no placement is found."""
    lib = library()
    chains = [lib[k] for k in sorted(lib) if k[1] != "het"]
    cys = [(c, i) for c in chains for i, it in enumerate(c) if it[1][3] == "CYS" and 1 < i < len(c) - 2 and any(l[12:16].strip() == "SG" for l in it[2])]
    if not cys:
        return None
    for _ in range(tries):
        c, i = cys[rng.randrange(len(cys))]
        n = rng.randint(1, 2)
        pa = relabel(flatten(c[i - n:i + n + 1]), chain="A")
        if any(l[16] != " " for l in pa):
            continue
        sg = [coords(l) for l in pa if l[17:20] == "CYS" and l[12:16].strip() == "SG" and l[22:26] == c[i][1][1]]
        if len(sg) != 1:
            continue
        sg = sg[0]
        cen = [sum(coords(l)[k] for l in pa) / len(pa) for k in range(3)]
        u = [sg[k] - cen[k] for k in range(3)]
        nu = sum(x * x for x in u) ** 0.5
        if nu < 1.0:
            continue
        u = [x / nu for x in u]
        # a random direction perpendicular to u: the two-fold axis, through the point 1.02 A beyond SG
        w = [rng.uniform(-1, 1) for _ in range(3)]
        dp = sum(a * b for a, b in zip(w, u))
        d = [w[k] - dp * u[k] for k in range(3)]
        nd = sum(x * x for x in d) ** 0.5
        if nd < 0.2:
            continue
        d = [x / nd for x in d]
        q = [sg[k] + 1.02 * u[k] for k in range(3)]
        pb = []
        for l in relabel(pa, chain="B"):
            x = coords(l)
            r = [x[k] - q[k] for k in range(3)]
            t = sum(a * b for a, b in zip(r, d))
            y = [q[k] + 2 * t * d[k] - r[k] for k in range(3)]       # rotation by pi about the axis (q, d)
            pb.append(set_coords(l, round(y[0], 3), round(y[1], 3), round(y[2], 3)))
        ok = True
        for la in pa:
            for lb in pb:
                dd = sum((x - y) ** 2 for x, y in zip(coords(la), coords(lb)))
                both_sg = la[12:16].strip() == "SG" and lb[12:16].strip() == "SG" and la[22:27] == lb[22:27] and la[22:26] == c[i][1][1]
                if both_sg:
                    if not (3.9 < dd < 4.5):
                        ok = False
                elif dd < 9.0:
                    ok = False
                if not ok:
                    break
            if not ok:
                break
        if ok:
            return pa + ["TER   \n"] + pb + ["TER   \n"]
    return None


# 2'-deoxyadenosine 5'-monophosphate, ideal geometry (base in the z = 0 plane): nucleotides are ATOM records which the parser turns
# into hetero atoms; their ring nitrogens and phosphate oxygens carry *custom* model pKa values (custom_model_pkas DA-N1 ...)
DA_ATOMS = [
    ("P", -4.768, 4.448, -5.533), ("OP1", -3.706, 3.448, -5.780), ("OP2", -4.507, 5.693, -6.290), ("O5'", -4.756, 4.806, -3.973),
    ("C5'", -3.581, 5.361, -3.376), ("C4'", -3.818, 5.610, -1.905), ("O4'", -2.568, 5.977, -1.269), ("C3'", -4.283, 4.340, -1.191),
    ("O3'", -5.225, 3.637, -2.007), ("C2'", -3.778, 4.576, 0.244), ("C1'", -2.479, 5.346, 0.000), ("N9", -1.291, 4.498, 0.000),
    ("C8", 0.024, 4.897, 0.000), ("N7", 0.877, 3.902, 0.000), ("C5", 0.071, 2.771, 0.000), ("C6", 0.369, 1.398, 0.000),
    ("N6", 1.611, 0.909, 0.000), ("N1", -0.668, 0.532, 0.000), ("C2", -1.912, 1.023, 0.000), ("N3", -2.320, 2.290, 0.000),
    ("C4", -1.267, 3.124, 0.000)]


def add_nucleotide(lines, chain="N", resnum=1, gap=12.0):
    """`lines` followed by a dAMP residue (ATOM records, residue name ' DA') placed `gap` A beyond the largest x of the structure"""
    atoms = [l for l in lines if is_atom(l)]
    cs = [coords(l) for l in atoms] or [(0.0, 0.0, 0.0)]
    sx = max(c[0] for c in cs) + gap + 6.0
    sy = sum(c[1] for c in cs) / len(cs)
    sz = sum(c[2] for c in cs) / len(cs)
    out = list(lines)
    if atoms and not (out and out[-1].startswith("TER")):
        out.append("TER   \n")
    for k, (name, x, y, z) in enumerate(DA_ATOMS):
        out.append("ATOM  %5d %-4s %3s %s%4d    %8.3f%8.3f%8.3f  1.00 20.00          %2s  \n" % (
            9000 + k, (" " + name) if len(name) < 4 else name, "DA", chain, resnum, x + sx, y + sy, z + sz, name[0]))
    return out


def text(lines):
    return "".join(lines)
