"""PDB text generators and mutators (all randomness from the caller's rng)."""
from pathlib import Path
from .common import REPO

PDBDIR = REPO / "tests" / "pdb"


def test_files(names=None):
    out = []
    for p in sorted(PDBDIR.glob("*.pdb")):
        if names is None or p.stem in names:
            t = p.read_text()
            if not t.endswith("\n"):
                t += "\n"
            out.append((p.stem, t))
    return out


def is_atom(line):
    return line[:6] in ("ATOM  ", "HETATM")


def setcols(line, a, b, text):
    """replace columns a..b (0-based, b exclusive), padding the line if needed"""
    line = line.rstrip("\n")
    if len(line) < b:
        line = line.ljust(b)
    return line[:a] + text + line[b:]
