"""Shared machinery of the PROPKA verification checks.

A check = regenerate Gen/ from /repo -> lake build the property's modules -> audit (grep + #print
axioms) -> correspondence / spec batches against the real code -> failing-input search on any
break -> evidence + verdict.  See DESIGN.md section 2.4.
"""
import fcntl
import hashlib
import json
import os
import random
import re
import struct
import subprocess
import sys
import time
import traceback
from pathlib import Path

ROOT = Path(__file__).resolve().parent.parent
REPO = Path(os.environ.get("PROPKA_REPO", "/repo"))
LEAN = ROOT / "lean"
DRIVER = LEAN / ".lake" / "build" / "bin" / "driver"
EVIDENCE = ROOT / "evidence"
REPLAYS = ROOT / "replays"
CORPUS = ROOT / "corpus"
FINDINGS = ROOT / "known_findings.json"
STD_AXIOMS = {"propext", "Classical.choice", "Quot.sound"}
FORBIDDEN = re.compile(r"\b(sorry|admit|native_decide|bv_decide|implemented_by|unsafe)\b|^\s*axiom\s|maxHeartbeats\s+0")

os.environ.setdefault("PROPKA_VERIF", "1")


def bits(x: float) -> int:
    return struct.unpack("<Q", struct.pack("<d", float(x)))[0]


def unbits(n: int) -> float:
    return struct.unpack("<d", struct.pack("<Q", int(n)))[0]


class Infra(Exception):
    """infrastructure failure (exit 2, no VIOLATION line)"""


# --------------------------------------------------------------------------------------------
# Lean side
# --------------------------------------------------------------------------------------------
class Lock:
    def __enter__(self):
        self.f = open(LEAN / ".verif.lock", "w")
        fcntl.flock(self.f, fcntl.LOCK_EX)
        return self

    def __exit__(self, *a):
        fcntl.flock(self.f, fcntl.LOCK_UN)
        self.f.close()


def run(cmd, timeout=1800, cwd=None, env=None, input=None):
    try:
        p = subprocess.run(cmd, cwd=cwd, env=env, input=input, capture_output=True, text=True, timeout=timeout)
    except subprocess.TimeoutExpired:
        raise Infra("timeout: " + " ".join(map(str, cmd)))
    return p.returncode, p.stdout + p.stderr


def regenerate():
    """re-run the translator against /repo's working tree; returns (ok, message)"""
    from . import gen_tables
    try:
        changed = gen_tables.generate(LEAN / "Propka" / "Gen")
        return True, "regenerated (%d files changed)" % changed
    except Exception:  # a source change the translator cannot read is a broken tie, not a crash
        return False, traceback.format_exc()


THEOREM_RE = re.compile(r"^(?:private\s+|protected\s+)?(?:theorem|lemma)\s+([^\s:({\[]+)")


def theorems_of(path: Path):
    """fully qualified names of the theorems declared in a Lean file (namespace tracking)"""
    ns, out = [], []
    for line in path.read_text().splitlines():
        m = re.match(r"^namespace\s+(\S+)", line)
        if m:
            ns.append(m.group(1))
            continue
        m = re.match(r"^end\s+(\S+)", line)
        if m and ns and ns[-1] == m.group(1):
            ns.pop()
            continue
        m = THEOREM_RE.match(line)
        if m:
            name = m.group(1)
            out.append(".".join(ns + [name]) if not name.startswith("_root_.") else name[7:])
    return out


def module_path(mod: str) -> Path:
    return LEAN / (mod.replace(".", "/") + ".lean")


def lake_build(targets, timeout=3000):
    rc, out = run(["lake", "build"] + list(targets), cwd=LEAN, timeout=timeout)
    return rc == 0, out


def leanchecker(mods):
    """`lake env leanchecker <modules>`: replays the declarations of the compiled modules through the kernel"""
    try:
        p = subprocess.run(["lake", "env", "leanchecker"] + list(mods), cwd=str(LEAN), capture_output=True, text=True, timeout=1800)
    except subprocess.TimeoutExpired:
        raise Infra("leanchecker timed out")
    return p.returncode == 0, (p.stdout + p.stderr)


def failing_decls(build_out: str):
    """map lake error lines (file:line) to the nearest preceding theorem/def name"""
    res = []
    for m in re.finditer(r"error: (\S+?\.lean):(\d+):\d+", build_out):
        f, ln = LEAN / m.group(1), int(m.group(2))
        name = "?"
        try:
            lines = f.read_text().splitlines()[:ln]
            for l in reversed(lines):
                mm = re.match(r"^(?:private\s+)?(?:theorem|lemma|def|example|instance|abbrev)\s*([^\s:({\[]*)", l)
                if mm:
                    name = mm.group(1) or "example"
                    break
        except OSError:
            pass
        item = "%s:%d (%s)" % (m.group(1), ln, name)
        if item not in res:
            res.append(item)
    return res


def transitive_local_imports(mods):
    seen, todo = [], list(mods)
    while todo:
        m = todo.pop()
        if m in seen or not m.startswith("Propka"):
            continue
        p = module_path(m)
        if not p.exists():
            continue
        seen.append(m)
        for line in p.read_text().splitlines():
            mm = re.match(r"^import\s+(\S+)", line)
            if mm:
                todo.append(mm.group(1))
    return seen


def strip_comments(text: str) -> str:
    text = re.sub(r"/-.*?-/", lambda m: "\n" * m.group(0).count("\n"), text, flags=re.S)
    return re.sub(r"--.*", "", text)


def audit(prop_modules):
    """grep for forbidden constructs in every local module the property depends on, and check
    #print axioms of every property theorem.  Returns (problems, theorem_names, axioms_seen)."""
    problems = []
    mods = transitive_local_imports(prop_modules)
    for m in mods:
        txt = strip_comments(module_path(m).read_text())
        for i, line in enumerate(txt.splitlines(), 1):
            if FORBIDDEN.search(line):
                problems.append("forbidden construct in %s:%d: %s" % (m, i, line.strip()[:80]))
    names = []
    for m in prop_modules:
        names += theorems_of(module_path(m))
    src = "".join("import %s\n" % m for m in prop_modules) + "".join("#print axioms %s\n" % n for n in names)
    tmp = LEAN / (".axioms_%d.lean" % os.getpid())
    tmp.write_text(src)
    try:
        rc, out = run(["lake", "env", "lean", str(tmp.name)], cwd=LEAN, timeout=1200)
    finally:
        tmp.unlink(missing_ok=True)
    seen = set()
    reported = set()
    for m in re.finditer(r"'([^']+)' (does not depend on any axioms|depends on axioms: \[([^\]]*)\])", out):
        reported.add(m.group(1))
        axs = set(a.strip() for a in (m.group(3) or "").replace("\n", " ").split(",") if a.strip())
        seen |= axs
        extra = axs - STD_AXIOMS
        if extra:
            problems.append("theorem %s depends on non-standard axioms %s" % (m.group(1), sorted(extra)))
    for n in names:
        if n not in reported:
            problems.append("theorem %s: no axiom report (%s)" % (n, "lean rc=%d" % rc))
    if rc != 0 and not problems:
        problems.append("axiom audit failed: " + out[-400:])
    return problems, names, sorted(seen)


class Driver:
    """the compiled Lean model behind the line protocol"""

    def __init__(self):
        if not DRIVER.exists():
            raise Infra("driver not built")
        self.p = subprocess.Popen([str(DRIVER)], stdin=subprocess.PIPE, stdout=subprocess.PIPE, text=True, bufsize=1)

    def ask(self, line: str) -> str:
        self.p.stdin.write(line + "\n")
        self.p.stdin.flush()
        out = self.p.stdout.readline()
        if not out:
            raise Infra("driver died on: " + line[:200])
        return out.rstrip("\n")

    def ask_multi(self, lines, end="END"):
        """send several lines; read responses until a line equal to `end`"""
        self.p.stdin.write("".join(l + "\n" for l in lines))
        self.p.stdin.flush()
        out = []
        while True:
            l = self.p.stdout.readline()
            if not l:
                raise Infra("driver died")
            l = l.rstrip("\n")
            if l == end:
                return out
            out.append(l)

    def close(self):
        try:
            self.p.stdin.close()
            self.p.wait(timeout=10)
        except Exception:
            self.p.kill()


def driver_batch(lines, timeout=1800):
    """one response line per request line, whole batch at once (fast path)"""
    if not DRIVER.exists():
        raise Infra("driver not built")
    try:
        p = subprocess.run([str(DRIVER)], input="".join(l + "\n" for l in lines), capture_output=True, text=True, timeout=timeout)
    except subprocess.TimeoutExpired:
        raise Infra("driver batch timeout")
    out = p.stdout.split("\n")
    if out and out[-1] == "":
        out.pop()
    if len(out) != len(lines):
        raise Infra("driver returned %d lines for %d requests: %s" % (len(out), len(lines), p.stderr[-300:]))
    return out


# --------------------------------------------------------------------------------------------
# verdicts
# --------------------------------------------------------------------------------------------
class Violation:
    def __init__(self, signature, what, replay, failing_input=True):
        self.signature = signature      # stable root-cause id used to match known findings
        self.what = what                # one line
        self.replay = replay            # JSON-serialisable dict
        self.failing_input = failing_input


def load_findings():
    if FINDINGS.exists():
        return json.loads(FINDINGS.read_text())
    return {"findings": []}


class Ctx:
    def __init__(self, pid, tier, seed):
        self.pid, self.tier, self.seed = pid, tier, seed
        self.rng = random.Random(seed * 1000003 + int(pid[1:]))
        self.t0 = time.time()
        self.obligations = []        # (name, ok, detail)
        self.broken = []             # names of theorems / batches that no longer check
        self.violations = []         # Violation objects
        self.coverage = {}
        self.samples = []
        self.notes = []
        self.evaluations = 0
        self.nontrivial = set()
        self.assumptions = []
        self.dist = {}
        self.known = {f["signature"] for f in load_findings()["findings"] if f["property"] == pid and f.get("status", "known") == "known"}

    # --- bookkeeping -----------------------------------------------------------------------
    def oblige(self, name, ok, detail=""):
        self.obligations.append((name, bool(ok), detail))
        if not ok:
            self.broken.append(name + ((": " + detail) if detail else ""))

    def count(self, key, n=1):
        self.dist[key] = self.dist.get(key, 0) + n

    def case(self, key=None, nontrivial=True):
        self.evaluations += 1
        if nontrivial and key is not None:
            self.nontrivial.add(key if isinstance(key, (str, int, tuple)) else repr(key))

    def sample(self, s, limit=6):
        if len(self.samples) < limit:
            self.samples.append(s)

    def violate(self, signature, what, replay, failing_input=True):
        self.violations.append(Violation(signature, what, replay, failing_input))

    def quick(self):
        return self.tier == "quick"


def write_replay(pid, v: Violation):
    REPLAYS.mkdir(exist_ok=True)
    body = dict(property=pid, kind="failing-input" if v.failing_input else "broken-obligation",
                signature=v.signature, what=v.what, replay=v.replay)
    h = hashlib.sha1(json.dumps(body, sort_keys=True, default=str).encode()).hexdigest()[:10]
    p = REPLAYS / ("%s-%s.json" % (pid, h))
    p.write_text(json.dumps(body, indent=1, default=str))
    return p


def finish(ctx: Ctx, spec):
    """write evidence, print verdict lines, return exit code"""
    findings = [f for f in load_findings()["findings"] if f["property"] == ctx.pid]
    known = {f["signature"]: f for f in findings if f.get("status", "known") == "known"}
    rc = 0
    unlisted = 0
    printed_known = set()
    lines = []
    seen_sigs = set()
    for v in ctx.violations:
        if v.signature in seen_sigs:
            continue
        seen_sigs.add(v.signature)
        if v.failing_input and v.signature in known:
            if v.signature not in printed_known:
                printed_known.add(v.signature)
                lines.append("KNOWN-FINDING: property=%s %s [%s]" % (ctx.pid, known[v.signature]["what"], v.signature))
            continue
        unlisted += 1
        p = write_replay(ctx.pid, v)
        lines.append("VIOLATION property=%s replay=%s%s" % (ctx.pid, p, "" if v.failing_input else " no-failing-input-found"))
        rc = 1
    # obligations that no longer check and no concrete, unlisted failing input was found
    if ctx.broken and rc == 0:
        v = Violation("broken:" + ctx.broken[0][:60], "obligations no longer check: " + "; ".join(ctx.broken)[:400],
                      dict(broken=ctx.broken, note="the search found no concrete failing input on the implementation"),
                      failing_input=False)
        p = write_replay(ctx.pid, v)
        lines.append("VIOLATION property=%s replay=%s no-failing-input-found" % (ctx.pid, p))
        unlisted += 1
        rc = 1
    ob = len(ctx.obligations)
    dis = sum(1 for o in ctx.obligations if o[1])
    cov = dict(
        obligations=ob, discharged=dis,
        checker_cmd="cd /verif/lean && lake build " + " ".join(spec.get("lean", [])) + " && lake env lean <#print axioms of every property theorem>",
        trusted_base=["Lean 4.33.0 kernel", "axioms: " + ", ".join(ctx.coverage.get("axioms_seen", [])),
                      "harness/gen_tables.py (translator)", "harness correspondence + spec evaluation (differential testing)",
                      "the Python source is modelled, not verified"],
        evaluations=max(ctx.evaluations, 0), distinct_nontrivial=len(ctx.nontrivial),
        rule=spec.get("rule", ""), samples=ctx.samples or ["(no cases)"],
        disagreements_checked=len(ctx.violations), obligations_list=[dict(name=o[0], ok=o[1], detail=o[2][:200]) for o in ctx.obligations],
        broken=ctx.broken, distribution=ctx.dist, notes=ctx.notes,
        known_findings_hit=sorted(printed_known), exhaustive=bool(ctx.coverage.get("exhaustive", False)),
    )
    for k, v in ctx.coverage.items():
        cov.setdefault(k, v)
    ev = dict(property_id=ctx.pid, tier=ctx.tier, seed=ctx.seed, level="proof", coverage=cov,
              assumptions=spec.get("assumptions", []) + ctx.assumptions, wall_s=round(time.time() - ctx.t0, 2), violations=unlisted)
    EVIDENCE.mkdir(exist_ok=True)
    # a development run without the Lean build and audit (--no-build) does not describe what the check covers: its record
    # goes next to the evidence directory, never into it
    target = EVIDENCE / (ctx.pid + ".json") if not getattr(ctx, "no_build", False) else ROOT / "replays" / (ctx.pid + ".no-build-evidence.json")
    target.parent.mkdir(exist_ok=True)
    target.write_text(json.dumps(ev, indent=1, default=str))
    for l in lines:
        print(l)
    print("%s %s tier=%s seed=%d obligations=%d/%d evaluations=%d wall=%.1fs" % (
        ctx.pid, "OK" if rc == 0 else "FAILED", ctx.tier, ctx.seed, dis, ob, ctx.evaluations, time.time() - ctx.t0))
    sys.stdout.flush()
    return rc
