"""C12 - incomplete structures degrade gracefully."""
from .. import common, observe, pdbgen
from . import c01, c13

SPEC = dict(
    claim="Lean theorems on the parser and census models: whether a line can be converted does not depend on the parser state, hence "
          "deleting any records from a file that parses leaves a file that parses (induction over the sublist relation); a file without "
          "atom records yields no conformation (the caller's ValueError); a group is a function of its own defining atom, so the groups "
          "of a reduced atom list are exactly the groups of the full list whose defining atom was kept. On the real pipeline: random and "
          "systematic truncations of valid structures (single atoms, side chains, backbone atoms, termini, ligand atoms, whole "
          "residues, combinations) must complete without any exception, every ionizable site whose defining atom remains must still be "
          "reported exactly once, and input without atoms or with an unknown file type must raise ValueError and nothing else. "
          "Group set-up is modelled too (Model/Setup.lean): setup_atoms of every group class (centre atoms, interaction atoms for acids / for bases), set_center, the ring search of the histidine set-up, the covalent coupling search find_covalently_coupled_groups, and the ligand classifier is_ligand_group_by_groups; on every distinct conformation this check runs, centres (bit patterns), both interaction-atom lists, the coupling lists and the class of every hetero atom are compared with the real objects. The scoring model is compared on the truncated structures as well. Theorems: setup_total (for every group class but OCO the list handed to set_center is non-empty whatever atoms and bonds are present - every branch falls back to the group's own atom - so set_center does not raise; for OCO it is exactly the bonded oxygens), interaction_atoms_near (for every class whose set-up does not search a ring, centre and interaction atoms lie within two bonds of the defining atom). Totality of the set-up (Props/PipelineTotal.lean): mkGroupCore_isSome, extractStep_isSome, extractGroups_isSome, prepare_isSome - whatever atoms are present or missing, bonded or not, typed or not, the model of bonding, typing, protonation, group extraction with the set-up of every class, sorting and coupling returns a prepared conformation (the one Python exception it models, set_center on an empty list, cannot occur: every class but OCO falls back to the group's own atom - setup_total - and the ligand classifier names OCO only for an atom with bonded oxygens - ligandClass_oco), provided the residue-to-group mapping of the parameter file names classes the set-up knows (inst_mapping_known, decided on the regenerated file); program_setup_never_raises lifts it to every conformation of Program.run. program_no_atoms (Props/Program.lean): on the program model a text without any atom record is rejected with ValueError; the program-level correspondence of this check runs on truncated structures (the model's set-up must survive exactly where the code does, and build the same hydrogens and groups).",
    note="Partial: that every setup_atoms variant and every scoring kernel tolerates missing partners (empty interaction-atom lists, "
         "missing carbons/oxygens/rings, divisions by distances) is established by running the real code on the truncations, not by a "
         "theorem; numeric degeneracies (coincident atoms) are outside the generated family.",
    technique="Lean 4 proof (state-independence of line acceptance, induction over sublists; filterMap/filter commutation) + fault enumeration on the real pipeline",
    lean=["Propka.Props.C12", "Propka.Props.Program", "Propka.Props.PipelineTotal"],
    rule="library structures and test files x deletions: every single atom of a residue in context (thorough: all; quick: sampled), whole "
         "side chains, backbone atoms, termini, ligand atoms, whole residues, random subsets of 1-30 %; non-trivial = a deletion that "
         "removes at least one atom and leaves at least one ionizable site",
    assumptions=[],
)


def deletions(rnd, lines, quick):
    atoms = [i for i, l in enumerate(lines) if pdbgen.is_atom(l)]
    out = []
    # single atoms
    for i in (rnd.sample(atoms, min(len(atoms), 12)) if quick else atoms[:400]):
        out.append(("single atom " + lines[i][12:20], [i]))
    # by name class
    for nm in ("N", "CA", "C", "O", "CB", "OXT"):
        idx = [i for i in atoms if lines[i][12:16].strip() == nm]
        if idx:
            out.append(("all " + nm, idx))
            out.append(("one " + nm, [rnd.choice(idx)]))
    # whole side chains / residues
    items = pdbgen.split_residues(lines)
    pos = 0
    res_ranges = []
    for it in items:
        n = len(it[2])
        if it[0] == "res":
            res_ranges.append(list(range(pos, pos + n)))
        pos += n
    for rr in rnd.sample(res_ranges, min(len(res_ranges), 4 if quick else 30)):
        out.append(("side chain", [i for i in rr if lines[i][12:16].strip() not in ("N", "CA", "C", "O", "OXT")]))
        out.append(("backbone of a residue", [i for i in rr if lines[i][12:16].strip() in ("N", "CA", "C", "O")]))
        out.append(("whole residue", rr))
    # the hetero atoms at the end of one side chain (the group's defining atom stays: ASP keeps CG, HIS keeps CG, ARG keeps CZ),
    # all of them or one at a time
    ends = [rr for rr in res_ranges if lines[rr[0]][17:20] in pdbgen.SIDE_CHAIN_ENDS]
    for rr in rnd.sample(ends, min(len(ends), 4 if quick else 30)):
        idx = [i for i in rr if lines[i][12:16].strip() in pdbgen.SIDE_CHAIN_ENDS[lines[i][17:20]]]
        if idx:
            out.append(("side-chain end " + lines[rr[0]][17:20], idx))
            out.append(("one side-chain end atom " + lines[rr[0]][17:20], [rnd.choice(idx)]))
    cterm = [i for i in atoms if lines[i][12:16].strip() == "C" and any(lines[j][12:16].strip() == "OXT" and pdbgen.res_key(lines[j]) == pdbgen.res_key(lines[i]) for j in atoms)]
    for i in cterm[:2]:
        out.append(("carbonyl carbon of a C-terminus", [i]))
    if res_ranges:
        out.append(("first residue", res_ranges[0]))
        out.append(("last residue", res_ranges[-1]))
    het = [i for i in atoms if lines[i].startswith("HETATM")]
    if het:
        out.append(("ligand atoms", rnd.sample(het, max(1, len(het) // 3))))
        # single ligand atoms: removing one can change the hybridisation the typing assigns to its neighbour - in particular
        # next to a short bond (a carbon left with two neighbours, one closer than 1.25 A, is typed sp)
        xyz = {i: pdbgen.coords(lines[i]) for i in het}
        d = lambda a, b: sum((p - q) ** 2 for p, q in zip(xyz[a], xyz[b])) ** 0.5
        near = {i: [j for j in het if j != i and d(i, j) < 2.0] for i in het}
        hot = sorted({x for c in het if lines[c][12:14].strip(" 0123456789")[:1] == "C" and any(d(c, j) < 1.25 for j in near[c]) for x in near[c]})
        for i in (hot if (not quick or len(hot) <= 16) else rnd.sample(hot, 16)):
            out.append(("ligand atom next to a short bond " + lines[i][12:20], [i]))
        for i in rnd.sample(het, min(len(het), 4 if quick else 60)):
            out.append(("ligand atom " + lines[i][12:20], [i]))
        # a ligand atom stripped to a single bond: all its neighbours but one are removed (a carbonyl carbon left with its
        # oxygen only, an amine nitrogen left on one carbon): hydrogens are then built on a centre whose only neighbour may
        # itself have no other neighbour
        multi = [c for c in het if len(near[c]) >= 2]
        short = [c for c in multi if any(d(c, j) < 1.30 for j in near[c])]
        rest = [c for c in multi if c not in short]
        pick = short[:] if (not quick or len(short) <= 10) else rnd.sample(short, 10)
        pick += rest if not quick else rnd.sample(rest, min(len(rest), 6))
        for c in pick:
            keeps = sorted(near[c], key=lambda j: d(c, j))
            for keep in (keeps if not quick else keeps[:1] + ([rnd.choice(keeps[1:])] if len(keeps) > 1 else [])):
                out.append(("ligand atom %s stripped to its bond with %s" % (lines[c][12:16].strip(), lines[keep][12:16].strip()), [j for j in near[c] if j != keep]))
    for frac in (0.01, 0.1, 0.3, 0.6):
        out.append(("random %d%%" % int(frac * 100), rnd.sample(atoms, max(1, int(len(atoms) * frac)))))
    return [(k, sorted(set(d))) for k, d in out if d]


def _run(ctx):
    rnd = ctx.rng
    from propka.parameters import Parameters
    from propka.input import read_parameter_file
    ignore = read_parameter_file("propka.cfg", Parameters()).ignore_residues
    inputs = [(n, t) for n, t in pdbgen.test_files(["sample-issue-140", "conf-alt-AB"] if ctx.quick() else ["sample-issue-140", "conf-alt-AB", "conf-model-mutant", "1HPX", "3SGB-subset"])]
    lib = pdbgen.library()
    hets = [it for k in sorted(lib) if k[1] == "het" for it in lib[k] if len(it[2]) > 5]
    for i in range(5 if ctx.quick() else 40):
        lines, ids = pdbgen.multichain(rnd, nchains=rnd.randint(1, 2), separation=20.0)
        if i % 2 == 0:
            # every tier sees methotrexate (carboxylates with C-O bonds below 1.2 A) at least once
            mtx = [h for h in hets if h[1][3] == "MTX"]
            lines += (mtx[0] if i == 0 and mtx else rnd.choice(hets))[2]
        inputs.append(("gen%d" % i, pdbgen.text(lines)))
    crash, census_bad = [], []
    reqs, reals = [], []
    for name, text in inputs:
        lines = pdbgen.lines_of(text)
        for kind, dele in deletions(rnd, lines, ctx.quick()):
            kept = [l for i, l in enumerate(lines) if i not in set(dele)]
            t2 = pdbgen.text(kept)
            o = observe.run(t2, [], want_text=True)
            natoms = sum(1 for l in kept if pdbgen.is_atom(l))
            nsites = 0
            if o.error:
                if natoms == 0 and o.error[0] == "ValueError":
                    ctx.case(key=(name, kind, tuple(dele)), nontrivial=False)
                    ctx.count("everything deleted -> ValueError")
                    continue
                crash.append((name, kind, o.error, t2))
                ctx.case(key=(name, kind, tuple(dele)))
                continue
            probs, nsites = c01.census_problems(o)
            probs += c01.summary_problems(o)
            ctx.case(key=(name, kind, tuple(dele)), nontrivial=nsites > 0)
            ctx.count(kind.split(" ")[0] + " deletions")
            if probs:
                census_bad.append((name, kind, probs[:3], t2))
            if len(reqs) < 300:
                reqs.append(c13.model_req(t2, False, []))
                reals.append(c13.real_parse(t2, False, None, ignore))
    for b in crash[:3]:
        ctx.violate("truncation-crash:%s" % b[2][0], "%s with %s removed: %s: %s" % (b[0], b[1], b[2][0], b[2][1]), dict(pdb=b[3], removed=b[1], error=b[2]))
    ctx.oblige("spec: no truncation of a valid structure causes an unhandled error", not crash, str([(b[0], b[1], b[2]) for b in crash[:2]]))
    for b in census_bad[:2]:
        ctx.violate("truncation-census:" + b[0], "%s with %s removed: %s" % (b[0], b[1], "; ".join(b[2])), dict(pdb=b[3], removed=b[1], problems=b[2]))
    ctx.oblige("spec: every ionizable site whose defining atom remains is still reported exactly once", not census_bad, str([(b[0], b[1], b[2][:1]) for b in census_bad[:2]]))
    # rejected inputs
    rej = []
    for label, text, fname in [("empty file", "", "x.pdb"), ("no atom records", "REMARK nothing\nEND\n", "x.pdb"), ("only waters", "HETATM    1  O   HOH A   1       0.000   0.000   0.000  1.00  0.00           O\n", "x.pdb"),
                               ("unknown suffix", inputs[0][1], "x.xyz"), ("no suffix", inputs[0][1], "structure"), ("upper-case suffix", inputs[0][1], "X.PDB")]:
        o = observe.run(text, [], name=fname, want_text=False)
        ctx.case(key=("reject", label))
        want_err = label != "upper-case suffix"
        if want_err and (o.error is None or o.error[0] != "ValueError"):
            rej.append((label, o.error))
        if not want_err and o.error is not None:
            rej.append((label, o.error))
    for r in rej[:2]:
        ctx.violate("reject:" + r[0], "%s: expected %s, got %r" % (r[0], "ValueError" if r[0] != "upper-case suffix" else "success", r[1]), dict(case=r[0], got=str(r[1])))
    ctx.oblige("spec: input without atom records or with an unknown file type raises ValueError (and nothing else)", not rej, str(rej[:2]))
    if ctx.driver_ok:
        outs = common.driver_batch(reqs)
        dis = [(r[:80], m[:80]) for r, m in zip(reals, outs) if r != m and not (r.startswith("err") and m.startswith("err"))]
        ctx.oblige("correspondence: Lean parser model = real parser on %d truncated files" % len(reqs), not dis, str(dis[:1]))
    else:
        ctx.oblige("correspondence: parser model = real parser", False, "driver not built")


def run(ctx):
    from .. import scoring_common
    with scoring_common.tie(ctx, "C12's truncated structures"):
        _run(ctx)


def replay(ctx, rep):
    r = rep["replay"]
    if "pdb" in r:
        o = observe.run(r["pdb"])
        print("error:", o.error)
        return 1 if o.error else 0
    return 0
