"""C06 - labels identify residues but never influence the numbers."""
from .. import common, observe, pdbgen

SPEC = dict(
    claim="Lean theorems: with object identity as the stopping test the nested pair loops of set_determinants / the coupling analysis "
          "visit exactly the pairs (i, j) with j < i - a set that mentions no label; stopping on equal printed labels visits the same "
          "pairs whenever the labels are pairwise distinct, with the decided counter-example for twin labels (what the repaired code "
          "avoids); the N+ flags of the parser are invariant under every injective renaming of the residue keys (chain, number, "
          "insertion code); classification and set-up of a group read no label. The pair-loop model is compared with the pairs the "
          "real set_determinants visits; relabelled structures (chains renamed order-preservingly, numbers shifted incl. negative, "
          "insertion-coded residues renumbered, twin residues, a structure with its own copy under the same chain id) are run through "
          "the real pipeline and every group's pKa, desolvation and determinants compared by file position. "
          "The whole scoring phase is modelled as well (Model/Scoring.lean: calculate_pka of one conformation with everything it calls - desolvation, backbone and ion determinants, backbone reorganisation, the pair loop with angle factors, exception rules and both families of pair rules, the iterative scheme, totals, coupling penalties and the removal of determinants towards penalised groups; parameters regenerated from /repo and read back from the compiled driver); its Float instance is compared with the real calculate_pka on every distinct conformation this check runs - counts, partners and order exactly, numbers to 1e-9 (they are bit-identical on the unchanged tree). score reads chain identifiers, residue numbers and printed labels only through three equality tests of the environment (same residue in the desolvation loop, Group.__eq__ in the coupling penalties, label equality when determinants towards penalised groups are removed): envOf_relabel_invariant / score_relabel_invariant show that renaming residue keys and labels by injective maps leaves the environment, hence every number, unchanged. Relabellings now include residue numbers that fill all four columns; coupling marks are compared by position; structures with coupled groups are also run with -d. The program tie runs on this check's relabelled texts through the scoring recorder (pipeline correspondence: chain identifiers and residue numbers of every atom as the program holds them); inputs include the symmetric disulfide of a homodimer (equal residue numbers in two chains) and a hetero residue without chain identifier that shares its number with a protein residue.",
    note="Partial: the whole-pipeline invariance is established by metamorphic runs, the theorems cover the label-reading sites that "
         "were modelled (parser keys, classifier, pair loops). Known finding (not repaired, see known_findings.json): the same-residue "
         "exclusion of the desolvation sum and the atom residue_label ignore the insertion code.",
    technique="Lean 4 proof (induction over the loop, injective-renaming simulation) + differential correspondence + metamorphic runs",
    lean=["Propka.Props.C06"],
    rule="test files and library structures x relabellings; non-trivial = at least 4 groups and a relabelling that changes some label",
    assumptions=["relabellings keep the printed labels of different residues different, except in the twin-residue family"],
)


def by_position(o):
    """records of all non-average conformations keyed by the defining atom's coordinates and group type"""
    out = {}
    for c, gs in o.confs.items():
        if c == "AVR":
            continue
        for g in gs:
            out[(c, g["xyz"], g["type"])] = g
    return out


def compare(a, b, tol=1e-9):
    ra, rb = by_position(a), by_position(b)
    if set(ra) != set(rb):
        return ["different groups: %r" % (sorted(set(ra) ^ set(rb))[:3],)]
    d = []
    for k, x in ra.items():
        y = rb[k]
        for f in ("pka", "e_vol", "n_vol", "e_loc", "buried"):
            if abs(x[f] - y[f]) > tol:
                d.append("%s.%s %r vs %r" % (x["label"], f, x[f], y[f]))
        for t in ("sidechain", "backbone", "coulomb"):
            if len(x[t]) != len(y[t]) or any(abs(p - q) > tol for p, q in zip(sorted(v for _, v in x[t]), sorted(v for _, v in y[t]))):
                d.append("%s.%s values %r vs %r" % (x["label"], t, sorted(round(v, 4) for _, v in x[t])[:4], sorted(round(v, 4) for _, v in y[t])[:4]))
        # the coupling marks ('*' in the file) belong to the results too: the same groups, by position, are coupled
        pa, pb = coupled_positions(ra, k[0], x), coupled_positions(rb, k[0], y)
        if pa != pb:
            d.append("%s coupled with the groups at %r vs %r" % (x["label"], pa[:3], pb[:3]))
    return d


def coupled_positions(recs, conf, g):
    """positions (defining-atom coordinates) of the groups `g` is non-covalently coupled with, looked up by label"""
    out = []
    for lab in g["coupled"]:
        out += sorted(k[1] for k, h in recs.items() if k[0] == conf and h["label"] == lab)
    return sorted(out)


def relabellings(rnd, lines):
    out = []
    chains = sorted({l[21] for l in lines if pdbgen.is_atom(l)})
    # order-preserving chain renaming
    pool = sorted(rnd.sample("ABCDEFGHIJKLMNOPQRSTUVWXYZ", len(chains)))
    cmap = dict(zip(chains, pool))
    out.append(("chains", [pdbgen.setcols(l, 21, 22, cmap[l[21]]) if pdbgen.is_atom(l) else l for l in lines]))
    # chain identifiers are single characters of any kind: digits, and letters that differ only in case, are different chains
    pool2 = sorted(rnd.sample("0123456789", min(len(chains), 3)) + ["Q", "q"] + rnd.sample("abcdefgh", 3))
    if len(chains) >= 2:
        names = ["Q", "q"] + [c for c in pool2 if c > "q"][:len(chains) - 2]
        if len(names) == len(chains):
            cm2 = dict(zip(chains, names))
            out.append(("chains-case", [pdbgen.setcols(l, 21, 22, cm2[l[21]]) if pdbgen.is_atom(l) else l for l in lines]))
    else:
        cm2 = {chains[0]: rnd.choice("abcxyz019")}
        out.append(("chains-case", [pdbgen.setcols(l, 21, 22, cm2[l[21]]) if pdbgen.is_atom(l) else l for l in lines]))
    # shift residue numbers of every chain by a constant (also to negative numbers)
    nums = [int(l[22:26]) for l in lines if pdbgen.is_atom(l)]
    for shift in (rnd.randint(1, 400), -(min(nums) + rnd.randint(1, 50))):
        if max(nums) + shift < 9999 and min(nums) + shift > -999:
            out.append(("shift%+d" % shift, [pdbgen.setcols(l, 22, 26, "%4d" % (int(l[22:26]) + shift)) if pdbgen.is_atom(l) else l for l in lines]))
    # residue numbers that fill all four columns (1000 and more, -100 and less): the printed label then has no blank between
    # residue name and number
    for shift in (1000 + rnd.randint(0, 5000), -(max(nums) + 100 + rnd.randint(0, 700))):
        if max(nums) + shift <= 9999 and min(nums) + shift >= -999:
            out.append(("shift%+d-four-columns" % shift, [pdbgen.setcols(l, 22, 26, "%4d" % (int(l[22:26]) + shift)) if pdbgen.is_atom(l) else l for l in lines]))
    # a chain without identifier (blank column 22), and every chain named on the command line (the blank one as ' ')
    blank = {chains[0]: " "}
    bl = [pdbgen.setcols(l, 21, 22, blank.get(l[21], l[21])) if pdbgen.is_atom(l) else l for l in lines]
    out.append(("chains-first-blank", bl))
    out.append(("chains-first-blank+selected", bl, [x for c in [" "] + chains[1:] for x in ("-c", c)]))
    # adjacent chain letters with numbers 1000 apart: keys built arithmetically from chain code and number coincide
    if len(chains) >= 2:
        adj = dict(zip(chains, "KLMNOP"))
        first = chains[0]
        cn0 = [int(l[22:26]) for l in lines if pdbgen.is_atom(l) and l[21] == first]
        if max(cn0) + 1000 < 9999:
            out.append(("chains-adjacent+first-chain+1000",
                        [pdbgen.setcols(pdbgen.setcols(l, 22, 26, "%4d" % (int(l[22:26]) + (1000 if l[21] == first else 0))), 21, 22, adj[l[21]]) if pdbgen.is_atom(l) else l for l in lines]))
    # shift one chain only, by an amount that makes chain code and number coincide for keys built arithmetically from both
    # (multiples of 1000, differences of chain code points times 1000) or by an arbitrary amount
    if len(chains) >= 1:
        c = rnd.choice(chains)
        cn = [int(l[22:26]) for l in lines if pdbgen.is_atom(l) and l[21] == c]
        others = [ord(x) - ord(c) for x in chains if x != c]
        ok = lambda sh: sh != 0 and max(cn) + sh < 9999 and min(cn) + sh > -999
        coll = [sh for d in others for sh in (1000 * d, -1000 * d) if ok(sh)]
        free = [sh for sh in (1000, -1000, 2000, rnd.randint(-900, 3000)) if ok(sh)]
        for sh in ([rnd.choice(coll)] if coll else []) + ([rnd.choice(free)] if free else []):
            out.append(("chain-%s-shift%+d" % (c.strip() or "_", sh),
                        [pdbgen.setcols(l, 22, 26, "%4d" % (int(l[22:26]) + sh)) if pdbgen.is_atom(l) and l[21] == c else l for l in lines]))
    return out


def twins(rnd, lines):
    """(insertion-coded variant, renumbered variant) of the same structure: residue k+1 becomes 'k A' in the first"""
    items = pdbgen.split_residues(lines)
    res = [k for k, it in enumerate(items) if it[0] == "res" and it[2][0].startswith("ATOM")]
    if len(res) < 4:
        return None
    pos = rnd.randrange(0, len(res) - 1)
    a, b = res[pos], res[pos + 1]
    if items[a][2][0][21] != items[b][2][0][21]:
        return None
    num = items[a][2][0][22:26]
    # the new name must be free: a structure may already hold a residue `k A` (the generators insert insertion-coded twins)
    if any(it[0] == "res" and it[2][0][21] == items[a][2][0][21] and it[2][0][22:26] == num and it[2][0][26] == "A" for it in items):
        return None
    tw = list(items)
    tw[b] = ("res", None, [pdbgen.setcols(pdbgen.setcols(l, 22, 26, num), 26, 27, "A") for l in items[b][2]])
    return pdbgen.flatten(tw), (int(num), int(items[b][2][0][22:26]))


def visited_pairs(o_text, args=()):
    """pairs handed to the body of set_determinants' loop in a real run, as positions in the group list"""
    import propka.calculations as C
    import propka.determinants as D
    rec = []
    orig = C.distance

    def spy(a, b):
        import sys
        f = sys._getframe(1)
        if f.f_code.co_name == "set_determinants":
            rec.append((id(a), id(b)))
        return orig(a, b)
    C.distance = spy
    lists = []
    orig_sd = D.set_determinants

    def sd(groups, version, options=None):
        lists.append([id(g) for g in groups])
        return orig_sd(groups, version=version, options=options)
    import propka.conformation_container as CC
    CC.set_determinants = sd
    try:
        o = observe.run(o_text, args, want_text=False)
    finally:
        C.distance = orig
        CC.set_determinants = orig_sd
    return o, rec, lists


def ambiguous_cterm(o):
    """a terminal oxygen bonded to more than one carbon (CtermGroup.setup_atoms takes `the_carbons[0]`: finding D10 of C04)"""
    for c, conf in o.mol.conformations.items():
        for a in conf.atoms:
            if a.terminal == 'C-' and len(a.get_bonded_elements('C')) > 1:
                return True
    return False


def self_copy_diffs(base, lines):
    """the structure followed by its own copy 500 A away under the same labels: every group of either copy keeps its results"""
    cp = pdbgen.translate(lines, 500.0, 0.0, 0.0)
    doubled = pdbgen.text(lines + ["TER   \n"] + cp)
    o2 = observe.run(doubled, [], want_text=False)
    if o2.error:
        return ["error %r" % (o2.error,)], doubled
    rb, r2 = by_position(base), by_position(o2)
    d = []
    for k, x in rb.items():
        for kk in (k, (k[0], (round(k[1][0] + 500.0, 3), k[1][1], k[1][2]), k[2])):
            y = r2.get(kk)
            if y is None:
                d.append("%s missing in the doubled structure" % x["label"])
            elif abs(x["pka"] - y["pka"]) > 1e-9 or abs(x["e_vol"] - y["e_vol"]) > 1e-9:
                d.append("%s pKa %r vs %r in the doubled structure" % (x["label"], x["pka"], y["pka"]))
    return d, doubled


class icode_aware_desolvation:
    """context manager: PROPKA with the same-residue test of radial_volume_desolvation extended by the insertion code (the
    candidate repair of finding D15), derived from the current source text.  Used only to decide whether D15 is the *sole* cause
    of a difference: if base and twin variant agree under the repaired rule, every difference comes from D15."""
    OLD = "and atom.chain_id == group.atom.chain_id):"
    NEW = "and atom.chain_id == group.atom.chain_id\n                and atom.icode == group.atom.icode):"

    def __enter__(self):
        import inspect
        import propka.energy as E
        import propka.version as V
        src = inspect.getsource(E.radial_volume_desolvation)
        self.ok = src.count(self.OLD) == 1
        self.saved = (E.radial_volume_desolvation, V.radial_volume_desolvation)
        if self.ok:
            ns = dict(vars(E))
            exec(compile(src.replace(self.OLD, self.NEW), "<icode-aware radial_volume_desolvation>", "exec"), ns)
            E.radial_volume_desolvation = V.radial_volume_desolvation = ns["radial_volume_desolvation"]
        return self

    def __exit__(self, *a):
        import propka.energy as E
        import propka.version as V
        E.radial_volume_desolvation, V.radial_volume_desolvation = self.saved


def d15_is_sole_cause(original, variant):
    with icode_aware_desolvation() as p:
        if not p.ok:
            return False
        a, b = observe.run(original, [], want_text=False), observe.run(variant, [], want_text=False)
    return not (a.error or b.error) and compare(a, b) == []


def corpus_first(ctx):
    """witnesses of listed findings run first, so that a listed finding is reported on every run while it persists"""
    import json
    for f in sorted(common.CORPUS.glob("C06-*.json")):
        rep = json.loads(f.read_text())
        r = rep["replay"]
        ctx.case(key=("corpus", f.name))
        if r.get("kind") == "self-copy":
            a = observe.run(r["original"], want_text=False)
            d, doubled = self_copy_diffs(a, pdbgen.lines_of(r["original"]))
            if d:
                ctx.violate(rep["signature"], "corpus witness %s: %s" % (f.name, "; ".join(d[:2])), dict(r, pdb=doubled, diffs=d[:3]))
            continue
        a, b = observe.run(r["original"], want_text=False), observe.run(r["pdb"], want_text=False)
        if not (a.error or b.error):
            d = compare(a, b)
            if d:
                ctx.violate(rep["signature"], "corpus witness %s: %s" % (f.name, "; ".join(d[:2])), r)


def _run(ctx):
    rnd = ctx.rng
    corpus_first(ctx)
    inputs = [(n, t) for n, t in pdbgen.test_files(["1HPX", "3SGB-subset"] if ctx.quick() else ["1HPX", "3SGB", "4DFR", "1FTJ-Chain-A"])]
    for i in range(8 if ctx.quick() else 80):
        lines, ids = pdbgen.multichain(rnd, nchains=rnd.randint(1, 3), separation=rnd.choice([12.0, 25.0, 60.0]), chains="ABCDEFG")
        inputs.append(("gen%d" % i, pdbgen.text(lines)))
    # an ion written without chain identifier after a named chain, with the residue number of the acid it sits next to: only the
    # chain column tells the two residues apart, and shifting the chain's numbers must change nothing
    for i in range(2 if ctx.quick() else 10):
        lines, ids = pdbgen.multichain(rnd, nchains=1, chains="ABC", twins=0.0)
        li = pdbgen.add_ions(rnd, [l for l in lines], 1, rnd.choice(["CA", "ZN", "MG"]), blank_same_number=True)
        if li is not None:
            inputs.append(("blank-chain-ion%d" % i, pdbgen.text(li)))
            ctx.count("inputs with a blank-chain hetero residue that shares a number with a protein residue")
    # the symmetric disulfide of a homodimer: two cysteines with the same residue name and number, in different chains
    hd = pdbgen.homodimer_ss(rnd)
    if hd is not None:
        inputs.append(("homodimer-ss", pdbgen.text(hd)))
        ctx.count("homodimers with a symmetric inter-chain disulfide")
    rel_bad, twin_bad, copy_bad = [], [], []
    loops = []
    for name, text in inputs:
        lines = pdbgen.lines_of(text)
        base, rec, lists = visited_pairs(text)
        if base.error:
            continue
        ngroups = sum(len(g) for c, g in base.confs.items() if c != "AVR")
        if lists:
            pos = {g: i for i, g in enumerate(lists[0])}
            loops.append((name, len(lists[0]), [(pos[a], pos[b]) for a, b in rec if a in pos and b in pos and (a, b) in set(rec)], text, base))
        has_coupled = any(g["coupled"] for c, gs in base.confs.items() if c != "AVR" for g in gs)
        base_d = observe.run(text, ["-d"], want_text=False) if has_coupled else None
        for rel in relabellings(rnd, lines):
            kind, rl = rel[0], rel[1]
            o = observe.run(pdbgen.text(rl), rel[2] if len(rel) > 2 else [], want_text=False)
            ctx.case(key=(name, kind, hash(text)), nontrivial=ngroups >= 4)
            ctx.count("relabellings")
            d = ["error %r" % (o.error,)] if o.error else compare(base, o)
            if d:
                rel_bad.append((name, kind, d[:3], pdbgen.text(rl), text))
            elif base_d is not None and not base_d.error and len(rel) == 2:
                # with the alternative protonation states displayed (-d) the swapped determinants stay: same results again
                od = observe.run(pdbgen.text(rl), ["-d"], want_text=False)
                ctx.count("relabellings with -d (structures with coupled groups)")
                d = ["error %r" % (od.error,)] if od.error else compare(base_d, od)
                if d:
                    rel_bad.append((name, kind + " with -d", d[:3], pdbgen.text(rl), text))
        if name.startswith("gen"):
            twr = twins(rnd, lines)
            if twr is not None:
                tw, twnum = twr
                o1 = observe.run(pdbgen.text(tw), [], want_text=False)
                ctx.case(key=(name, "twin", hash(text)), nontrivial=True)
                ctx.count("twin-residue variants")
                d = ["error %r" % (o1.error,)] if o1.error else compare(base, o1)
                if d:
                    twin_bad.append((name, d[:3], pdbgen.text(tw), text, twnum))
            # the structure followed by its own copy, 500 A away, under the same chain ids (single-conformation inputs:
            # with alternate locations the copies' atoms share every label and the label-keyed completion of conformations,
            # C08's subject, cannot tell them apart - that is an ambiguous input, not a relabelling)
            # and no terminal oxygen bonded to two carbons: which carbon defines that carboxylate depends on the frame - D10,
            # recorded under C04 - and the copy lives in another frame)
            if rnd.random() < 0.5 and len(base.mol.conformation_names) == 1 and not ambiguous_cterm(base):
                ctx.case(key=(name, "copy", hash(text)), nontrivial=True)
                ctx.count("self-copy variants")
                d, doubled = self_copy_diffs(base, lines)
                if d:
                    copy_bad.append((name, d[:3], doubled, text))
    for b in rel_bad[:2]:
        ctx.violate("relabel:" + b[1].split("+")[0].split("-")[0], "%s relabelled (%s): %s" % (b[0], b[1], "; ".join(b[2])), dict(pdb=b[3], original=b[4], diffs=b[2]))
    ctx.oblige("spec: chain renaming and residue-number shifts change only labels (every group by file position, 1e-9)", not rel_bad, str([(b[0], b[1], b[2][:1]) for b in rel_bad[:2]]))
    twin_unlisted = []
    for b in twin_bad:
        # the same-residue exclusion of the desolvation sum compares number and chain only: it can only touch groups of
        # the two residues that share the number (label = name + number + chain)
        own = all(x.split(".")[0][3:7].strip() in (str(b[4][0]), str(b[4][1])) for x in b[1] if "." in x) and any(".e_vol" in x or ".n_vol" in x for x in b[1])
        # differences that reach other groups (a pair weight, a Coulomb criterion) are still D15 if they vanish once the
        # same-residue test looks at the insertion code
        own = own or d15_is_sole_cause(b[3], b[2])
        sig = "D15:insertion-code-blind-desolvation" if own else "twin:" + b[0]
        if sig not in ctx.known:
            twin_unlisted.append(b)
        ctx.violate(sig, "%s with residue k+1 renumbered to 'k A': %s" % (b[0], "; ".join(b[1])), dict(pdb=b[2], original=b[3], diffs=b[1]))
    ctx.oblige("spec: residues sharing a number and differing in insertion code are treated like separately numbered residues (apart from listed known findings)",
               not twin_unlisted, str([(b[0], b[1][:1]) for b in twin_unlisted[:2]]))
    ctx.coverage["known_finding_instances"] = len(twin_bad) - len(twin_unlisted)
    for b in copy_bad[:2]:
        ctx.violate("D5:label-equality-in-pair-loops", "%s followed by its own copy 500 A away (same chain ids): %s" % (b[0], "; ".join(b[1])), dict(kind="self-copy", pdb=b[2], original=b[3], diffs=b[1]))
    ctx.oblige("spec: a structure followed by its own distant copy under the same labels keeps every group's results", not copy_bad, str([(b[0], b[1][:1]) for b in copy_bad[:2]]))
    if ctx.driver_ok and loops:
        reqs = ["pairloop id %d" % n for _, n, _, _, _ in loops]
        outs = common.driver_batch(reqs)
        dis = []
        for (name, n, pairs, text, base), m in zip(loops, outs):
            want = set(tuple(map(int, p.split("-"))) for p in m.split()) if m else set()
            # covalently coupled groups break the inner loop early: the real loop may visit fewer pairs, never others
            got = set(pairs)
            if not got <= want:
                dis.append((name, n, sorted(got - want)[:3]))
            cov = sum(len(g["cov_coupled"]) for c, gs in base.confs.items() if c != "AVR" for g in gs)
            if cov == 0 and got != want:
                dis.append((name, n, "visited %d pairs, model %d" % (len(got), len(want))))
        ctx.oblige("correspondence: pairs visited by the real set_determinants = model loop with identity test (%d runs)" % len(loops), not dis, str(dis[:2]))
    else:
        ctx.oblige("correspondence: pair loop model = real loop", False, "driver not built or no runs")


def run(ctx):
    from .. import scoring_common
    with scoring_common.tie(ctx, "C06's structures and relabellings"):
        _run(ctx)


def replay(ctx, rep):
    r = rep["replay"]
    if "original" in r:
        a, b = observe.run(r["original"]), observe.run(r["pdb"])
        d = compare(a, b) if not (a.error or b.error) else [str(a.error), str(b.error)]
        print(d[:5])
        return 1 if d else 0
    return 0
