"""C16 - signs and bounds of every contribution."""
import math

from .. import common, observe, pdbgen

SPEC = dict(
    claim="Theorems over the reals on the scalar kernels of propka.energy and the sign rules of propka.determinants / propka.iterative, "
          "parametric in the parameter set under an explicit well-formedness record that `decide` establishes for the shipped cfg and "
          "the module constants: the buried weight and pair weight lie in [0,1]; desolvation is >= 0 for acids and <= 0 for bases; the "
          "backbone-reorganisation term is >= 0; a hydrogen-bond energy lies in [0, |dpka_max||f|]; backbone determinants carry the sign "
          "of the group's charge; the Coulomb energy lies in [0, 244.12/(30*cutoff1)]; an ion determinant has the sign opposite to the "
          "ion's charge and magnitude |Q| times the energy; pair rules: acid pair +v on one, base pair -v on one, acid-base q1*v and "
          "q2*v (equal and opposite), side-chain rules and their bound, COO-COO factor <= 2; the same three Coulomb rules hold in "
          "every iteration of the iterative scheme (proved on the solver model over Q). Float instances of every kernel, of both pair "
          "rules and of the whole iterative solver are compared bit-for-bit with the real functions; all inequalities are evaluated "
          "on every group of real runs. The angle factor of angular-dependent hydrogen bonds (angle_distance_factors) is modelled: it is the "
          "cosine between two unit vectors, |f| <= 1 for distinct atoms (Cauchy-Schwarz, f_angle_range), so such an energy never exceeds "
          "|dpka_max| (hbond_geometric_bound); Float model = real function bit-for-bit on stub atoms. Reported averages: a quantity lying "
          "in [a, b] in every conformation that contains the group (buried fraction in [0, 1], a desolvation term of fixed sign) lies in "
          "[a, b] in the average (average_in_range over the scalar-average model, which C08 ties to the real AVR records); the AVR records "
          "of multi-conformation runs, protein-sized ones included, are evaluated too. The parametric kernel theorems are instantiated: "
          "shipped_wellformed derives their hypotheses for the shipped parameter file (read as reals) from the integer facts decided on "
          "the regenerated tables. "
          "The whole scoring phase is modelled as well (Model/Scoring.lean: calculate_pka of one conformation with everything it calls - desolvation, backbone and ion determinants, backbone reorganisation, the pair loop with angle factors, exception rules and both families of pair rules, the iterative scheme, totals, coupling penalties and the removal of determinants towards penalised groups; parameters regenerated from /repo and read back from the compiled driver); its Float instance is compared with the real calculate_pka on every distinct conformation this check runs - counts, partners and order exactly, numbers to 1e-9 (they are bit-identical on the unchanged tree). On that model, over the reals and for every structure: score_desolvation_signs (buried in [0,1], desolvation sign by charge, local term >= 0), score_backbone_dets (charge times a non-negative energy), score_ion_dets (minus the ion's charge times a Coulomb energy in [0, max]), pair_dets_from_rules, solve_dets and score_dets_from_rules: every determinant of every final record was produced by exactly one of the modelled rules - backbone, ion, a non-iterative pair rule applied to a visited pair with a Coulomb energy in range, or an iterative pair rule applied to a listed interaction that stems from a visited pair. program_desolvation_signs (Props/ProgramScoring.lean): the scoring theorems quantify over all tables and environments, so they hold for the tables the set-up pipeline produces - for every conformation Program.run prepares, the buried fraction lies in [0, 1], desolvation has the sign of the charge and the local term is non-negative.",
    note="Kernels that are inlined in radial_volume_desolvation / backbone_reorganization are tied through stub conformations (the "
         "harness composes the kernel results in the code's order). |f_angle| <= 1 (Cauchy-Schwarz on unit vectors) is used, not proved.",
    technique="Lean 4/Mathlib proof (ordered-field reasoning over R and Q, case analysis of the pair rules) + generated-constant obligations + bitwise Float correspondence",
    lean=["Propka.Props.C16", "Propka.Props.ProgramScoring"],
    rule="random kernel arguments incl. exact cut-off values and both sides of every branch; stub pairs with all charge sign combinations "
         "and model-pKa orders; iterative systems of 2-6 stub groups with tie-prone values; real runs of test files and library "
         "structures with ligands and ions; non-trivial = distinct argument tuple / system / structure with determinants",
    assumptions=["IEEE rounding not modelled in the theorems"],
)


def ep_of(P):
    import propka.energy as E
    return [float(P.Nmin), float(P.Nmax), P.desolvationSurfaceScalingFactor, P.desolvationPrefactor, P.desolvationAllowance,
            P.coulomb_cutoff1, P.coulomb_cutoff2, float(E.UNK_DIELECTRIC1), float(E.UNK_DIELECTRIC2), E.UNK_PKA_SCALING1,
            E.UNK_BACKBONE_DISTANCE1, E.UNK_BACKBONE_DISTANCE2, E.UNK_PKA_SCALING2, E.UNK_FANGLE_MIN, E.MIN_DISTANCE_4TH]


def req(kern, ep, *a):
    return "energy %s %s" % (kern, " ".join(str(common.bits(x)) for x in list(ep) + list(a)))


class StubConf:
    def __init__(self, atoms):
        self.atoms = atoms

    def get_non_hydrogen_atoms(self):
        return self.atoms


def angle_family(ctx):
    """angle_distance_factors on stub atoms against the Lean model (bit patterns) and the Cauchy-Schwarz bound itself"""
    import propka.energy as E
    from propka.atom import Atom
    rnd = ctx.rng
    reqs, reals, bad = [], [], []

    def atom(x, y, z):
        a = Atom()
        a.x, a.y, a.z = x, y, z
        return a
    for _ in range(300 if ctx.quick() else 6000):
        base = [round(rnd.uniform(-50, 50), 3) for _ in range(3)]
        pts = []
        for k in range(3):
            kind = rnd.randrange(4)
            if kind == 0:
                pts.append([round(b + rnd.uniform(-3, 3), 3) for b in base])
            elif kind == 1:   # on a coordinate axis through the base point
                p = list(base); p[rnd.randrange(3)] += rnd.choice([1.0, -1.0, 0.96, 2.9]); pts.append(p)
            elif kind == 2:   # very close
                pts.append([b + rnd.choice([0.001, -0.001, 0.0]) for b in base])
            else:
                pts.append([round(rnd.uniform(-999, 9999), 3) for _ in range(3)])
        p1, p2, p3 = pts
        if p1 == p2 or p2 == p3:
            continue          # the code divides by both distances (ZeroDivisionError): excluded by the theorem's hypotheses too
        d12, f, d23 = E.angle_distance_factors(atom(*p1), atom(*p2), atom(*p3))
        ctx.case(key=("angle", tuple(p1), tuple(p2), tuple(p3)), nontrivial=abs(f) > 1e-6)
        if not (abs(f) <= 1.0 + 1e-12):
            bad.append((p1, p2, p3, f))
        reqs.append("angle f " + ",".join(str(common.bits(float(c))) for c in p1 + p2 + p3))
        reals.append("%d %d %d" % (common.bits(d12), common.bits(f), common.bits(d23)))
    for b in bad[:2]:
        ctx.violate("angle-factor-out-of-range", "angle_distance_factors%r = %r" % (b[:3], b[3]), dict(call="propka.energy.angle_distance_factors", points=b[:3]))
    ctx.oblige("spec: the angle factor of three distinct atoms lies in [-1, 1] (%d triples)" % len(reqs), not bad, str(bad[:1]))
    outs = common.driver_batch(reqs)
    dis = [(q[:80], r, m) for q, r, m in zip(reqs, reals, outs) if r != m]
    ctx.oblige("correspondence: Float angle-factor model = energy.angle_distance_factors (bit patterns; %d triples)" % len(reqs), not dis, str(dis[:1]))


def kernels(ctx, P):
    import propka.energy as E
    rnd = ctx.rng
    ep = ep_of(P)
    reqs, reals = [], []
    N = 300 if ctx.quick() else 5000
    for _ in range(N):
        n = rnd.choice([rnd.randint(0, 900), 280, 560, 279, 561, 420])
        reqs.append(req("weight", ep, float(n))); reals.append(common.bits(E.calculate_weight(P, n)))
        n2 = rnd.randint(0, 900)
        reqs.append(req("pairweight", ep, float(n), float(n2))); reals.append(common.bits(E.calculate_pair_weight(P, n, n2)))
        w = rnd.choice([0.0, 1.0, rnd.random()])
        reqs.append(req("scale", ep, w)); reals.append(common.bits(E.calculate_scale_factor(P, w)))
        c1, c2 = rnd.choice([(2.0, 3.0), (3.0, 4.0), (1.85, 2.85), (2.65, 3.65)])
        d = rnd.choice([c1, c2, rnd.uniform(0.5, 6.0), c1 - 1e-9, c2 + 1e-9])
        f = rnd.choice([1.0, 0.0, rnd.uniform(-1, 1)])
        m = rnd.choice([0.85, -0.85])
        reqs.append(req("hbond", ep, d, m, c1, c2, f)); reals.append(common.bits(E.hydrogen_bond_energy(d, m, [c1, c2], f)))
        d = rnd.choice([4.0, 10.0, rnd.uniform(0.1, 15.0), 3.999, 10.001])
        reqs.append(req("coulomb", ep, d, w)); reals.append(common.bits(E.coulomb_energy(d, w, P)))
        a, b = rnd.choice([400, 401, 900, 450, rnd.randint(0, 1000)]), rnd.choice([400, 500, 499, rnd.randint(0, 1000)])
        reqs.append(req("buried", ep, float(E.COMBINED_NUM_BURIED_MAX), float(E.SEPARATE_NUM_BURIED_MAX), float(a), float(b)))
        reals.append(1 if E.check_buried(a, b) else 0)
        ctx.case(key=("kern", n, n2, w, d, f))
    outs = common.driver_batch(reqs)
    dis = [(q.split()[1], r, m) for q, r, m in zip(reqs, reals, outs) if str(r) != m]
    ctx.oblige("correspondence: Float kernels (weight, pair weight, scale factor, hbond, coulomb, buried test) = real functions bit-for-bit (%d calls)" % len(reqs),
               not dis, str(dis[:2]))
    # desolvation and reorganisation through stub conformations
    from propka.group import Group
    from propka.atom import Atom
    bad = []
    for _ in range(60 if ctx.quick() else 1000):
        ga = Atom()
        ga.res_num, ga.chain_id, ga.type = 1, 'A', 'atom'
        atoms = []
        for k in range(rnd.randint(0, 60)):
            a = Atom()
            a.element = rnd.choice(['C', 'C', 'N', 'O', 'S', 'P', 'Zn'])
            a.name = rnd.choice(['CA', 'C', 'CB', 'N', 'O', 'CG'])
            a.res_num, a.chain_id = rnd.choice([1, 2, 3]), rnd.choice(['A', 'A', 'B'])
            r = rnd.choice([rnd.uniform(1, 25), 2.75, 15.0, 20.0])
            th, ph = rnd.uniform(0, math.pi), rnd.uniform(0, 2 * math.pi)
            a.x, a.y, a.z = r * math.sin(th) * math.cos(ph), r * math.sin(th) * math.sin(ph), r * math.cos(th)
            atoms.append(a)
        ga.conformation_container = StubConf(atoms)
        g = Group(ga)
        g.x = g.y = g.z = 0.0
        g.charge = rnd.choice([-1.0, 1.0, 2.0])
        E.radial_volume_desolvation(P, g)
        # compose the kernels in the code's order
        vol, nvol = 0.0, 0
        qs = []
        for a in atoms:
            if a.res_num == ga.res_num and a.chain_id == ga.chain_id:
                continue
            sq = (a.x - 0.0) * (a.x - 0.0) + (a.y - 0.0) * (a.y - 0.0) + (a.z - 0.0) * (a.z - 0.0)
            sq = E.squared_distance(g, a)
            if sq < P.desolv_cutoff_squared:
                dvol = P.VanDerWaalsVolume['C4'] if (a.element == 'C' and a.name not in ['CA', 'C']) else P.VanDerWaalsVolume.get(a.element, 1.0)
                qs.append(req("dvinc", ep, dvol, sq))
            if sq < P.buried_cutoff_squared:
                nvol += 1
        outs = common.driver_batch(qs) if qs else []
        for o in outs:
            vol += common.unbits(int(o))
        w = common.unbits(int(common.driver_batch([req("weight", ep, float(nvol))])[0]))
        ev = common.unbits(int(common.driver_batch([req("evol", ep, g.charge, vol, w)])[0]))
        ctx.case(key=("desolv", len(atoms), g.charge, nvol))
        if common.bits(ev) != common.bits(g.energy_volume) or nvol != g.num_volume or common.bits(w) != common.bits(g.buried):
            bad.append((len(atoms), g.charge, g.energy_volume, ev, g.num_volume, nvol))
    ctx.oblige("correspondence: desolvation composed from the Float kernels = radial_volume_desolvation on stub conformations bit-for-bit", not bad, str(bad[:1]))


def pair_rules(ctx, P):
    import propka.determinants as D
    from propka.group import Group
    from propka.atom import Atom
    rnd = ctx.rng
    ep = ep_of(P)

    class V:
        parameters = P

        def __init__(self, hb, cb):
            self.hb, self.cb = hb, cb

        def hydrogen_bond_interaction(self, a, b):
            return self.hb

        def electrostatic_interaction(self, a, b, d):
            return self.cb
    reqs, reals = [], []
    for _ in range(300 if ctx.quick() else 5000):
        gs = []
        for i in range(2):
            a = Atom(); a.type, a.res_name, a.res_num, a.chain_id = 'atom', 'ASP', i + 1, 'A'
            g = Group(a)
            g.charge = rnd.choice([-1.0, 1.0, -1.0, 1.0, 0.0, 2.0])
            g.model_pka = rnd.choice([3.8, 4.5, 10.5, 3.8])
            gs.append(g)
        v = rnd.choice([0.5, 0.85, 1.6, rnd.uniform(0.01, 2)])
        D.add_sidechain_determinants(gs[0], gs[1], V(v, None))
        D.add_coulomb_determinants(gs[0], gs[1], 5.0, V(None, v))
        ctx.case(key=("pair", gs[0].charge, gs[1].charge, gs[0].model_pka, gs[1].model_pka, v))
        for kind, t in (("scrule", "sidechain"), ("cbrule", "coulomb")):
            reqs.append(req(kind, ep, gs[0].charge, gs[1].charge, gs[0].model_pka, gs[1].model_pka, v))
            reals.append(" ".join("%d:%d" % (i + 1, common.bits(d.value)) for i in range(2) for d in gs[i].determinants[t]))
    outs = common.driver_batch(reqs)
    dis = [(q.split()[1], r, m) for q, r, m in zip(reqs, reals, outs) if r != m]
    ctx.oblige("correspondence: Float side-chain and Coulomb pair rules = add_sidechain_determinants / add_coulomb_determinants (%d pairs)" % (len(reqs) // 2), not dis, str(dis[:2]))


def solver(ctx, P):
    import propka.iterative as IT
    from propka.group import Group
    from propka.atom import Atom
    rnd = ctx.rng

    class V:
        parameters = P
    reqs, reals = [], []
    for _ in range(300 if ctx.quick() else 6000):
        k = rnd.randint(2, 6)
        groups = []
        for i in range(k):
            a = Atom(); a.type, a.res_num, a.chain_id = 'atom', i + 1, 'A'
            q = rnd.choice([-1.0, 1.0])
            a.res_name = 'ASP' if q < 0 else 'LYS'
            g = Group(a)
            g.charge = q
            g.model_pka = rnd.choice([4.0, 4.5, 10.0, 10.5, 11.0, 6.5])
            g.energy_volume = rnd.choice([0, 0.25, -0.5, 1.0, rnd.uniform(-1, 1)])
            groups.append(g)
        inter = []
        for i in range(k):
            for j in range(i):
                if rnd.random() < 0.6:
                    h = rnd.choice([0.0, 0.0, 0.5, 1.0, 0.25, 0.004, rnd.uniform(0, 1)])
                    c = rnd.choice([0.0, 0.5, 1.0, 2.0, 0.25, 0.006, rnd.uniform(0, 2)])
                    if h or c:
                        inter.append((i, j, h, c))
        if not inter:
            continue
        nonit = [IT.Iterative(g).pka_noniterative for g in groups]
        ii = [[[groups[a], groups[b]], [h, c], [0., 0.]] for (a, b, h, c) in inter]
        IT.add_determinants(ii, V())
        idx = {id(g): i for i, g in enumerate(groups)}
        out = []
        # order of the real transfer: iteratives in order of first appearance, then type, then list order
        order = []
        for a, b, h, c in inter:
            for x in (a, b):
                if x not in order:
                    order.append(x)
        for i in order:
            for t, kk in (("sidechain", "s"), ("coulomb", "c")):
                for d in groups[i].determinants[t]:
                    p = d.group.group if isinstance(d.group, IT.Iterative) else d.group
                    out.append("%d:%d:%s:%d" % (i, idx[id(p)], kk, common.bits(d.value)))
        reqs.append("iter solve %d %d %s %s" % (k, len(inter), " ".join("%d %d 0" % (common.bits(g.charge), common.bits(n)) for g, n in zip(groups, nonit)),
                                                 " ".join("%d %d %d %d" % (a, b, common.bits(h), common.bits(c)) for a, b, h, c in inter)))
        reals.append(sorted(out))
        ctx.case(key=("solver", k, tuple(inter)))
    outs = common.driver_batch(reqs)
    dis = []
    for q, r, m in zip(reqs, reals, outs):
        mm = sorted(m.split()) if m != "-" else []
        if mm != r:
            dis.append((q[:100], r[:4], mm[:4]))
    ctx.oblige("correspondence: Float iterative solver = iterative.add_determinants (final determinants, bit patterns; %d systems)" % len(reqs), not dis, str(dis[:1]))


def record_problems(o, P):
    import propka.energy as E
    probs = []
    cb_max = E.UNK_PKA_SCALING1 / (E.UNK_DIELECTRIC2 * P.coulomb_cutoff1)
    sc_max = 2 * P.sidechain_interaction
    exc = [P.COO_HIS_exception, P.OCO_HIS_exception, P.CYS_HIS_exception, P.CYS_CYS_exception]
    ndet = 0
    for cname, conf in o.mol.conformations.items():
        if cname == "AVR":
            # the reported average: means of in-range values are in range, signs survive averaging
            for g in conf.groups:
                q = g.charge
                if not (0.0 <= g.buried <= 1.0 + 1e-12):
                    probs.append("AVR %s buried %r" % (g.label, g.buried))
                if (q < 0 and g.energy_volume < -1e-12) or (q > 0 and g.energy_volume > 1e-12):
                    probs.append("AVR %s desolvation %r with charge %r" % (g.label, g.energy_volume, q))
                if g.energy_local < -1e-12:
                    probs.append("AVR %s local desolvation %r" % (g.label, g.energy_local))
                for d in g.determinants['backbone']:
                    if d.value * q < -1e-12:
                        probs.append("AVR %s backbone determinant %r (charge %r)" % (g.label, d.value, q))
            continue
        by_label = {}
        for g in conf.groups:
            by_label.setdefault(g.label, []).append(g)
        for g in conf.groups:
            q = g.charge
            if not (0.0 <= g.buried <= 1.0):
                probs.append("%s %s buried %r" % (cname, g.label, g.buried))
            if (q < 0 and g.energy_volume < -1e-12) or (q > 0 and g.energy_volume > 1e-12):
                probs.append("%s %s desolvation %r with charge %r" % (cname, g.label, g.energy_volume, q))
            if g.energy_local < -1e-12:
                probs.append("%s %s local desolvation %r" % (cname, g.label, g.energy_local))
            for d in g.determinants['backbone']:
                ndet += 1
                if d.value * q < -1e-12 or abs(d.value) > P.sidechain_interaction * abs(q) + 1e-9:
                    probs.append("%s %s backbone determinant %r (charge %r)" % (cname, g.label, d.value, q))
            for d in g.determinants['sidechain']:
                ndet += 1
                if abs(d.value) > sc_max + 1e-9 and not any(abs(abs(d.value) - e) < 1e-9 for e in exc):
                    probs.append("%s %s side-chain determinant %r exceeds the configured maxima" % (cname, g.label, d.value))
            for d in g.determinants['coulomb']:
                ndet += 1
                partner = d.group
                pq = getattr(partner, "charge", getattr(partner, "q", None))
                is_ion = getattr(partner, "type", "") == "ION" or getattr(partner, "res_name", "") in P.ions
                if is_ion and getattr(partner, "atom", None) is not None:
                    # "times the formal charge for ions": the charge the parameter file configures for the residue name in the structure
                    pq = P.ions.get(partner.atom.res_name.strip(), pq)
                lim = cb_max * (abs(pq) if is_ion and pq else 1.0)
                if abs(d.value) > lim + 1e-9:
                    probs.append("%s %s Coulomb determinant %r towards %s exceeds %r" % (cname, g.label, d.value, d.label, lim))
                if pq:
                    if is_ion:
                        if d.value * pq > 1e-12:
                            probs.append("%s %s ion determinant %r, ion charge %r" % (cname, g.label, d.value, pq))
                    elif q * pq > 0 and d.value * q > 1e-12:
                        probs.append("%s %s like-charge Coulomb determinant %r is stabilising" % (cname, g.label, d.value))
                # the same rules read off the reported row (the label printed next to the value), as a reader of the file would
                named = by_label.get(d.label, [])
                lq = {x.charge for x in named if getattr(x, "charge", None)}
                if len(lq) == 1 and named and all(getattr(x, "type", "") != "ION" for x in named) and q:
                    pql = lq.pop()
                    if q * pql < 0 and d.value * q < -1e-12:
                        probs.append("%s %s Coulomb determinant %r attributed to the oppositely charged %s is destabilising" % (cname, g.label, d.value, d.label))
                    if q * pql > 0 and d.value * q > 1e-12:
                        probs.append("%s %s Coulomb determinant %r attributed to the like-charged %s is stabilising" % (cname, g.label, d.value, d.label))
                    elif q * pq < 0 and d.value * q < -1e-12:
                        probs.append("%s %s opposite-charge Coulomb determinant %r is destabilising" % (cname, g.label, d.value))
                # equal and opposite for acid-base pairs of reported protein side chains
                if pq and q * pq < 0 and not is_ion and g.atom.type == 'atom' and len(by_label.get(d.label, [])) == 1:
                    h = by_label[d.label][0]
                    if (h.atom.type == 'atom' and g.use_in_calculations() and h.use_in_calculations()
                            and not (P.remove_penalised_group and (g.coupled_titrating_group or h.coupled_titrating_group))):
                        back = [e.value for e in h.determinants['coulomb'] if e.label == g.label]
                        mine = [e.value for e in g.determinants['coulomb'] if e.label == h.label]
                        if len(back) != len(mine) or abs(sum(back) + sum(mine)) > 1e-9:
                            probs.append("%s %s <-> %s Coulomb determinants %r / %r are not equal and opposite" % (cname, g.label, h.label, mine, back))
    return probs, ndet


def twin_ions(rnd, text, which=None):
    """the structure plus two ions of the same residue name and chain, each 2 A beyond one oxygen of the most buried
    carboxylate (on the line from the carboxyl carbon through the oxygen); None if there is no complete carboxylate"""
    base = observe.run(text, [], want_text=False)
    if base.error:
        return None
    conf = base.mol.conformations[base.mol.conformation_names[0]]
    best = None
    for g in conf.groups:
        if g.type == 'COO' and g.titratable:
            ox = [a for a in g.interaction_atoms_for_acids if a.element == 'O']
            if len(ox) == 2 and (best is None or g.num_volume > best[0].num_volume):
                best = (g, ox)
    if best is None:
        return None
    g, ox = best
    # every ion name of the parameter file takes its turn (names with a digit - FE2, 1P, 2N - among them)
    from propka.parameters import Parameters
    from propka.input import read_parameter_file
    names = sorted(read_parameter_file("propka.cfg", Parameters()).ions)
    ion = names[rnd.randrange(len(names))] if which is None else names[which % len(names)]
    q = "".join(c for c in ion if c.isalpha())[:2] or "X"
    lines = [l for l in pdbgen.lines_of(text) if not l.startswith("END")]
    for k, o in enumerate(ox):
        d = [o.x - g.atom.x, o.y - g.atom.y, o.z - g.atom.z]
        n = math.sqrt(sum(c * c for c in d)) or 1.0
        pos = [round(c + 2.0 * dc / n, 3) for c, dc in zip((o.x, o.y, o.z), d)]
        lines.append("HETATM%5d %-4s %3s %1s%4d    %8.3f%8.3f%8.3f  1.00  0.00          %2s\n" % (
            9900 + k, ion, ion.rjust(3), g.atom.chain_id, 901 + k, pos[0], pos[1], pos[2], q.rjust(2)))
    return pdbgen.text(lines)


def _run(ctx):
    from propka.parameters import Parameters
    from propka.input import read_parameter_file
    P = read_parameter_file("propka.cfg", Parameters())
    rnd = ctx.rng
    inputs = [(n, t) for n, t in pdbgen.test_files(["1HPX", "3SGB-subset", "1FTJ-Chain-A", "conf-alt-AB"] if ctx.quick() else ["1HPX", "3SGB", "4DFR", "1FTJ-Chain-A", "sample-issue-140", "conf-alt-AB", "conf-model-mutant"])]
    # a protein-sized structure with two conformations: buried fractions well above zero are averaged
    big = dict(pdbgen.test_files(["3SGB-subset" if ctx.quick() else "3SGB"]))
    for n, t in big.items():
        inputs.append((n + "-altloc", pdbgen.text(pdbgen.altloc_atoms(rnd, pdbgen.lines_of(t), rnd.randint(1, 3)))))
    # partners that share a printed label (insertion-coded twins of one residue type), strongly coupled to a third group
    inputs.append(("1FTJ-LYS210-210A", pdbgen.text(pdbgen.salt_bridge_twins())))
    lib = pdbgen.library()
    hets = [it for k in sorted(lib) if k[1] == "het" for it in lib[k]]
    for i in range(6 if ctx.quick() else 60):
        lines, ids = pdbgen.multichain(rnd, nchains=rnd.randint(1, 3), separation=rnd.choice([10.0, 15.0, 25.0]))
        if i % 2 == 0:
            lines += rnd.choice(hets)[2]
        else:
            # a ligand base (aromatic ring nitrogen) accepting a backbone N-H hydrogen bond
            lp = pdbgen.add_pyridine(rnd, lines, dist=rnd.choice([2.8, 3.0, 3.2]))
            lines = lp if lp is not None else lines
        if i % 3 == 1:
            # several conformations: the reported values are then averages
            from . import c08
            lines = c08.altloc_variant(rnd, lines, kind=rnd.randrange(2)) if rnd.random() < 0.5 else c08.model_variant(rnd, lines)
        out_text = pdbgen.text(lines)
        inputs.append(("gen%d" % i, out_text))
    # two ions of one kind in one chain (they share the printed label) at the two oxygens of the most buried carboxylate:
    # every ion keeps its own determinant, each within |Q| times the Coulomb bound
    for n, t in pdbgen.test_files(["3SGB-subset"] if ctx.quick() else ["3SGB", "1HPX"]):
        nions = len(P.ions)
        for w in ([None] + list(range(nions)) if n.startswith("3SGB") else [None]):
            tw = twin_ions(rnd, t, w)
            if tw is not None:
                inputs.append((n + "-twin-ions%s" % ("" if w is None else "-%d" % w), tw))
                ctx.count("inputs with two same-label ions at one buried carboxylate")
    bad = []
    for name, text in inputs:
        o = observe.run(text, [], want_text=False)
        if o.error:
            ctx.count("runs with error " + o.error[0])
            continue
        probs, ndet = record_problems(o, P)
        ctx.case(key=(name, hash(text)), nontrivial=ndet > 0)
        ctx.count("determinants checked", ndet)
        if probs:
            bad.append((name, probs[:4], text))
    for b in bad[:3]:
        ctx.violate("sign-bound:" + b[1][0].split(" ", 2)[2][:40], "%s: %s" % (b[0], "; ".join(b[1])), dict(pdb=b[2], problems=b[1]))
    ctx.oblige("spec: signs and bounds of desolvation, backbone, side-chain, Coulomb and ion determinants; buried in [0,1]; acid-base pairs equal and opposite (real runs)",
               not bad, str([(b[0], b[1][:1]) for b in bad[:2]]))
    if ctx.driver_ok:
        kernels(ctx, P)
        angle_family(ctx)
        pair_rules(ctx, P)
        solver(ctx, P)
    else:
        ctx.oblige("correspondence: energy / iterative models = real code", False, "driver not built")


def run(ctx):
    from .. import scoring_common
    with scoring_common.tie(ctx, "C16's runs"):
        _run(ctx)


def replay(ctx, rep):
    r = rep["replay"]
    if "pdb" in r:
        from propka.parameters import Parameters
        from propka.input import read_parameter_file
        P = read_parameter_file("propka.cfg", Parameters())
        o = observe.run(r["pdb"])
        probs = record_problems(o, P)[0] if not o.error else [str(o.error)]
        print(probs[:5])
        return 1 if probs else 0
    return 0
