"""C13 - chain selection = deleting the other chains: model-vs-code on the parser, the metamorphic
relation on the real pipeline, and a dynamic read-set check of the `chains` option."""
import io
import itertools
import sys

from .. import common, observe, pdbgen

SPEC = dict(
    claim="For every list of lines and every non-empty selection S, parsing with the selection yields exactly the atom records "
          "(all fields, conformation names, N+/C- tags) of parsing without selection the file from which every ATOM/HETATM record "
          "of another chain was deleted: a Lean theorem about the concrete line-parser model (induction over lines; a skipped record "
          "leaves the bookkeeping state untouched; TER/MODEL and all other records are never deleted), with the blank-chain case. "
          "The parser model is compared field by field with get_atom_lines_from_pdb; the metamorphic relation is run on the real "
          "pipeline (all group records and the .pka text); every read of options.chains is traced to its call site. program_chain_selection (Props/Program.lean) lifts the parser theorem to Program.run: with a selection, every atom, hydrogen, group, determinant and pKa of every conformation is that of the run without the option on the file with the other chains deleted; Program.run is compared with the real program on this check's texts under -c.",
    note="Theorem hypothesis: ATOM/HETATM records reach at least column 22 (shorter records raise IndexError with a selection and "
         "ValueError without - compared by the harness as 'error' only). That the option is read nowhere but in read_pdb is "
         "established dynamically (traced reads), not by a theorem.",
    technique="Lean 4 proof (induction over the line list on the parser model) + differential correspondence + metamorphic runs",
    lean=["Propka.Props.C13", "Propka.Props.Program"],
    rule="multi-chain structures (test files and 2-3 library fragments with TER / bare TER / no TER, OXT or not, blank chain ids, "
         "hetero groups with their own chain id, junk records, waters) x non-empty subsets of chain ids (plus absent ids); "
         "non-trivial = the selection removes at least one record and keeps at least one",
    assumptions=["ASCII input", "numeric fields are plain fixed-point"],
)


def fields_of_real(pairs):
    out = []
    for conf, a in pairs:
        out.append("|".join([conf.encode().hex(), a.name.encode().hex(), a.res_name.encode().hex(), a.chain_id.encode().hex(), str(a.res_num),
                             a.icode.encode().hex(), a.type.encode().hex(), a.element.encode().hex(), (a.terminal or "").encode().hex(), str(a.numb),
                             str(common.bits(a.x)), str(common.bits(a.y)), str(common.bits(a.z)), a.occ.encode().hex(), a.beta.encode().hex()]))
    return out


def real_parse(text, keep, chains, ignore):
    from propka.input import get_atom_lines_from_pdb, conformation_sorter
    try:
        pairs = list(get_atom_lines_from_pdb(io.StringIO(text), ignore_residues=ignore, keep_protons=keep, chains=chains))
    except TypeError as e:
        if "argument" in str(e):
            return "api:the parser is no longer called this way (%s)" % e      # the correspondence cannot be established
        raise
    except ValueError:
        return "err:ValueError"
    except IndexError:
        return "err:IndexError"
    names = []
    for c, _ in pairs:
        if c not in names:
            names.append(c)
    names = sorted(names, key=conformation_sorter)
    return "ok " + ",".join(n.encode().hex() for n in names) + " " + ";".join(fields_of_real(pairs))


def model_req(text, keep, chains):
    ls = pdbgen.lines_of(text)
    return "pdb parse %d %s default %s" % (1 if keep else 0, ",".join(c.encode().hex() for c in chains) if chains else "-",
                                           ",".join(l.encode("latin1").hex() for l in ls) or "-")


def delete_other(text, S):
    return "".join(l for l in pdbgen.lines_of(text) if not (pdbgen.is_atom(l) and len(l) > 21 and l[21] not in S))


def gen_inputs(ctx):
    rnd = ctx.rng
    out = []
    for name, t in pdbgen.test_files(["3SGB-subset", "1HPX"] if ctx.quick() else ["3SGB", "1HPX", "4DFR", "1FTJ-Chain-A"]):
        out.append((name, t))
    lib = pdbgen.library()
    hets = [it for k in lib if k[1] == "het" for it in lib[k]]
    for i in range(25 if ctx.quick() else 300):
        ter = rnd.choice(["TER   \n", "TER\n", "TER   \n", None, "TER      12      ALA A  12\n"])
        lines, ids = pdbgen.multichain(rnd, ter=ter, oxt_prob=rnd.choice([0, 0.5, 1]))
        if rnd.random() < 0.5 and hets:
            h = rnd.choice(hets)
            hl = pdbgen.relabel(h[2], chain=rnd.choice(ids + ["L", " "]))
            (x0, x1), _, _ = pdbgen.bbox(lines)
            (hx0, _), (hy0, _), (hz0, _) = pdbgen.bbox(hl)
            hl = pdbgen.translate(hl, round(x1 + 30 - hx0, 3), round(-hy0, 3), round(-hz0, 3))
            lines = lines + hl
        if rnd.random() < 0.5:
            lines = pdbgen.insert_at_random(rnd, lines, pdbgen.JUNK, rnd.randint(1, 4))
        if rnd.random() < 0.4:
            for _ in range(rnd.randint(1, 3)):
                lines = pdbgen.insert_at_random(rnd, lines, pdbgen.water(rnd, lines))
        if rnd.random() < 0.3:
            # coordinate fields that use all eight columns for part of the atoms (across -100.000 or a multiple of 1000)
            box = pdbgen.bbox(lines)
            t = [0.0, 0.0, 0.0]
            ax = rnd.randrange(3)
            t[ax] = round(rnd.choice([-100.0, 1000.0, 1000.0 * rnd.randint(2, 9)]) - rnd.uniform(*box[ax]), 3)
            lines = pdbgen.translate(lines, *t)
            ctx.count("inputs with 8-column coordinates")
        out.append(("gen%d" % i, pdbgen.text(lines)))
    return out


class Spy:
    """proxy around the Options namespace recording where `.chains` is read"""
    reads = []

    def __init__(self, inner):
        object.__setattr__(self, "_inner", inner)

    def __getattr__(self, name):
        if name == "chains":
            f = sys._getframe(1)
            Spy.reads.append("%s:%s" % (f.f_code.co_filename.split("/")[-1], f.f_code.co_name))
        return getattr(object.__getattribute__(self, "_inner"), name)

    def __setattr__(self, name, value):
        setattr(object.__getattribute__(self, "_inner"), name, value)


def traced_run(text, args):
    import propka.run
    orig = propka.run.loadOptions
    Spy.reads = []
    propka.run.loadOptions = lambda a=None: Spy(orig(a))
    try:
        o = observe.run(text, args, want_text=False)
    finally:
        propka.run.loadOptions = orig
    return o, sorted(set(Spy.reads))


def run(ctx):
    rnd = ctx.rng
    inputs = gen_inputs(ctx)
    from propka.parameters import Parameters
    from propka.input import read_parameter_file
    ignore = read_parameter_file("propka.cfg", Parameters()).ignore_residues
    reqs, reals, meta = [], [], []
    spec_bad, parse_bad = [], []
    readsites = set()
    for name, text in inputs:
        chains = sorted({l[21] for l in pdbgen.lines_of(text) if pdbgen.is_atom(l)})
        subsets = [list(s) for r in range(1, len(chains) + 1) for s in itertools.combinations(chains, r)]
        if len(subsets) > 4:
            subsets = rnd.sample(subsets, 4)
        if rnd.random() < 0.3:
            subsets.append([rnd.choice(chains), "Q"])
        for S in subsets:
            deleted = delete_other(text, S)
            n_del = len(text) - len(deleted)
            ctx.case(key=(name, tuple(S), hash(text)), nontrivial=(0 < n_del and any(pdbgen.is_atom(l) for l in pdbgen.lines_of(deleted))))
            ctx.count("blank chain selected" if " " in S else "selections")
            keep = rnd.random() < 0.3
            # --- parser level, real code: selection vs deletion
            a = real_parse(text, keep, S, ignore)
            b = real_parse(deleted, keep, None, ignore)
            if a != b:
                parse_bad.append((name, S, a[:120], b[:120], text))
            for (t, ch) in ((text, S), (deleted, [])):
                reqs.append(model_req(t, keep, ch))
                reals.append(real_parse(t, keep, ch or None, ignore))
                meta.append((name, ch))
            # --- whole pipeline, real code
            if len(text) < 200000 or not ctx.quick():
                args = []
                for c in S:
                    args += ["-c", c]
                o1, sites = traced_run(text, args)
                readsites |= set(sites)
                o2 = observe.run(deleted, [], want_text=True)
                o1.text = observe.pka_text(o1.mol) if o1.mol else None
                diffs = []
                if (o1.error is None) != (o2.error is None):
                    diffs.append("error %r vs %r" % (o1.error, o2.error))
                elif o1.error is None:
                    if list(o1.confs) != list(o2.confs):
                        diffs.append("conformations %r vs %r" % (list(o1.confs), list(o2.confs)))
                    else:
                        for c in o1.confs:
                            diffs += observe.compare_groups(o1.confs[c], o2.confs[c], tol=0.0)[:3]
                    if o1.text != o2.text:
                        diffs.append(".pka text differs")
                if diffs:
                    spec_bad.append((name, S, diffs[:4], text))
                # the same with a --titrate_only list that names residues of the selected chains (a blank chain is '_' there)
                sel_res = []
                for l in pdbgen.lines_of(deleted):
                    if l.startswith("ATOM") and l[17:20] in ("ASP", "GLU", "HIS", "LYS", "TYR", "ARG", "CYS"):
                        e = "%s:%d%s" % (l[21] if l[21] != " " else "_", int(l[22:26]), l[26].strip())
                        if e not in sel_res:
                            sel_res.append(e)
                if sel_res and (" " in S or rnd.random() < 0.3):
                    lst = ["-i", ",".join(sel_res[:6])]
                    p1 = observe.run(text, args + lst, want_text=True)
                    p2 = observe.run(deleted, lst, want_text=True)
                    ctx.count("selections combined with --titrate_only")
                    d2 = []
                    if (p1.error is None) != (p2.error is None):
                        d2.append("error %r vs %r" % (p1.error, p2.error))
                    elif p1.error is None:
                        for c in p1.confs:
                            d2 += observe.compare_groups(p1.confs[c], p2.confs.get(c, []), tol=0.0)[:3]
                            ta = [(g["label"], g["titratable"]) for g in p1.confs[c]]
                            tb = [(g["label"], g["titratable"]) for g in p2.confs.get(c, [])]
                            if ta != tb:
                                d2.append("%s: titratable flags differ: %r" % (c, [x for x, y in zip(ta, tb) if x != y][:3]))
                        if p1.text != p2.text:
                            d2.append(".pka text differs")
                    if d2:
                        spec_bad.append((name, S + lst, d2[:4], text))
    ctx.sample(dict(input=inputs[-1][0], first_lines=pdbgen.lines_of(inputs[-1][1])[:3], selection=meta[-2][1]))
    for name, S, a, b, text in parse_bad[:2]:
        ctx.violate("chains-parse:" + name, "get_atom_lines_from_pdb with chains=%r differs from parsing the file with the other chains deleted" % (S,),
                    dict(pdb=text, chains=S, with_selection=a, deleted_file=b))
    ctx.oblige("spec: real parser - selection = deletion (%d selections)" % (len(reqs) // 2), not parse_bad, str([(p[0], p[1]) for p in parse_bad[:3]]))
    for name, S, diffs, text in spec_bad[:2]:
        ctx.violate("chains-run:" + name, "run with -c %r differs from run on the file with the other chains deleted: %s" % (S, "; ".join(diffs)),
                    dict(pdb=text, chains=S, diffs=diffs))
    ctx.oblige("spec: real pipeline - results with -c S = results on the deleted file (groups, determinants, .pka text)", not spec_bad,
               str([(p[0], p[1], p[2][:2]) for p in spec_bad[:2]]))
    allowed = {"input.py:read_pdb"}
    extra = sorted(readsites - allowed)
    ctx.coverage["chains_option_read_at"] = sorted(readsites)
    if extra:
        ctx.violate("chains-read-elsewhere:" + extra[0], "options.chains is read outside read_pdb: %r" % extra, dict(read_sites=extra), failing_input=False)
    ctx.oblige("read-set: options.chains is read only in input.read_pdb", not extra, str(extra))
    if ctx.driver_ok:
        outs = common.driver_batch(reqs)
        dis = []
        for (name, ch), r, m in zip(meta, reals, outs):
            if r != m and not (r.startswith("err") and m.startswith("err")):
                k = next((i for i, (x, y) in enumerate(zip(r.split(";"), m.split(";"))) if x != y), -1)
                dis.append((name, ch, k, r.split(";")[k][:150] if k >= 0 else r[:100], m.split(";")[k][:150] if k >= 0 else m[:100]))
        ctx.oblige("correspondence: Lean parser model = get_atom_lines_from_pdb (all fields, tags, conformations) on %d parses" % len(reqs),
                   not dis, "%d disagreements, first %r" % (len(dis), dis[:1]))
    else:
        ctx.oblige("correspondence: parser model = real parser", False, "driver not built")


def replay(ctx, rep):
    r = rep["replay"]
    if "pdb" in r and "chains" in r:
        args = []
        for c in r["chains"]:
            args += ["-c", c]
        o1 = observe.run(r["pdb"], args)
        o2 = observe.run(delete_other(r["pdb"], r["chains"]), [])
        same = o1.error == o2.error and o1.text == o2.text
        print("selection vs deletion identical:", same)
        return 0 if same else 1
    print(rep)
    return 0
