"""C08 - the conformation average is the mean over the conformations that contain a group."""
import re
import io
import math

from .. import common, observe, pdbgen
from ..dets_common import partner, enc_group, hx

SPEC = dict(
    claim="Lean theorems: (topping-up) every atom offered whose residue label a conformation lacks is copied unless its (chain, number) "
          "is already bound to a different residue name, and all atoms copied to one (chain, number) carry the name it is bound to - "
          "never two residue types merged (induction over the copy loop with its name dictionary); the conformation's own atoms are "
          "kept in front. (averaging, exact arithmetic) for the k >= 1 records found, the averaged pKa and desolvation terms are "
          "(sum)/k and for every partner the averaged determinant is the mean of the values directed at it; a single conformation is "
          "reported as it is; n identical models change nothing. The Float average and the top-up model are compared with the real "
          "code; on real multi-conformation runs the AVR records are compared with an independent mean over the conformations "
          "containing each group, every group existing in some conformation must be reported, single-conformation and "
          "repeated-model identities are checked on the whole record and the .pka text. The remaining numeric fields of a record (buried "
          "fraction, atom counts) follow the same add-then-divide path: scalar_average_is_mean, with the Float model compared with the real "
          "AVR values of protein-sized alternate-location inputs (non-zero buried fractions). On the program model the average conformation is modelled too (Program.averageOf: first come, find_group by residue label and type, mean over the conformations that contain the group) and compared with the real AVR conformation; averageL_is_mean proves the reported pKa and desolvation terms are the sum over the found records divided by their number. copyLoopR_keys ties the program's top-up loop (on whole records) to the C08 model, so program_copy_no_merge (two copied atoms of one residue position carry one residue name, the one the conformation's own atoms give that position) and program_own_atoms_kept hold on Program.run.",
    note="A group 'exists in a conformation' is decided as the code does (same atom residue label and same group type). Determinants "
         "are compared per partner (the average merges determinants towards the same partner).",
    technique="Lean 4 proof (induction over the copy loop; linear algebra of sums over Q) + differential correspondence + independent-mean evaluation on real runs",
    lean=["Propka.Props.C08", "Propka.Props.Program"],
    rule="the five multi-conformation test files and library fragments turned into alt-loc / MODEL inputs: partial alternates, letters "
         "and digits, point mutants in either alternate, models with missing atoms or residues, k identical models; non-trivial = "
         "at least two conformations and one ionizable group",
    assumptions=[],
)


# titratable residue types whose groups sit on an atom of the same name (CG): a point mutant between two of them
# gives two different groups with one residue_label
SAME_ANCHOR = {"ASP": ["HIS"], "HIS": ["ASP"]}
ISOSTERIC = {"ASP": ("ASN", {"OD2": "ND2"}), "ASN": ("ASP", {"ND2": "OD2"}), "GLU": ("GLN", {"OE2": "NE2"}), "GLN": ("GLU", {"NE2": "OE2"})}


def altloc_variant(rnd, lines, kind=None):
    """turn a single-conformation fragment into an alt-loc input"""
    items = pdbgen.split_residues(lines)
    res = [k for k, it in enumerate(items) if it[0] == "res" and it[2][0].startswith("ATOM")]
    tags = rnd.choice([("A", "B"), ("B", "C"), ("1", "2"), ("A", "B", "C")])
    kind = rnd.randrange(6) if kind is None else kind
    if kind == 5 and len(res) >= 3:
        # three conformations; one position is a point mutant between the first two (ALA with backbone + CB in A, the original
        # residue in B) and has no atom of its own in the third, which exists through the side chain of another residue (A / C)
        cand = [k for k in res if items[k][1][3] not in ("ALA", "GLY", "PRO") and any(l[12:16].strip() == "CB" for l in items[k][2])]
        if cand:
            k1 = rnd.choice(cand)
            k2 = rnd.choice([k for k in res if k != k1])
            new = []
            for l in items[k1][2]:
                if l[12:16].strip() in ("N", "CA", "C", "O", "CB"):
                    new.append(pdbgen.setcols(pdbgen.setcols(l, 16, 17, "A"), 17, 20, "ALA"))
            new += [pdbgen.setcols(l, 16, 17, "B") for l in items[k1][2]]
            items[k1] = ("res", items[k1][1], new)
            new2 = []
            for l in items[k2][2]:
                if l[12:16].strip() in ("N", "CA", "C", "O"):
                    new2.append(l)
                else:
                    x, y, z = pdbgen.coords(l)
                    new2.append(pdbgen.setcols(l, 16, 17, "A"))
                    new2.append(pdbgen.set_coords(pdbgen.setcols(l, 16, 17, "C"), x + 0.05, y - 0.03, z + 0.02))
            items[k2] = ("res", items[k2][1], new2)
            return pdbgen.flatten(items)
        kind = 2
    picks = rnd.sample(res, min(len(res), rnd.randint(1, 3)))
    iso = [k for k in res if items[k][1][3] in ISOSTERIC or items[k][1][3] in SAME_ANCHOR]
    if kind == 4:
        if not iso:
            kind = 2
        else:
            anchor = [k for k in iso if items[k][1][3] in SAME_ANCHOR]
            picks = rnd.sample(anchor, min(len(anchor), 2)) + rnd.sample([k for k in iso if k not in anchor], min(len(iso) - len(anchor), 1))
            for k in list(picks):
                if items[k][1][3] in SAME_ANCHOR:
                    # two titratable residue types at one position: the last alternate carries the grafted side chain
                    g = pdbgen.graft_sidechain(rnd, items[k][2], rnd.choice(SAME_ANCHOR[items[k][1][3]]))
                    picks.remove(k)
                    if g is not None:
                        items[k] = ("res", items[k][1], [pdbgen.setcols(l, 16, 17, tags[0]) for l in items[k][2]] +
                                    [pdbgen.setcols(l, 16, 17, tags[-1]) for l in g])
    ion = [k for k in res if items[k][1][3] in ("ASP", "GLU", "HIS", "CYS", "TYR", "LYS", "ARG")]
    if kind in (2, 3) and ion:
        picks = rnd.sample(ion, min(len(ion), rnd.randint(1, 2)))
    for k in picks:
        new = []
        for l in items[k][2]:
            side = l[12:16].strip() not in ("N", "CA", "C", "O")
            if kind == 0 or (kind == 1 and side) or kind >= 2:   # kinds 2-4: the whole residue in every alternate
                for j, t in enumerate(tags):
                    ll = pdbgen.setcols(l, 16, 17, t)
                    x, y, z = pdbgen.coords(ll)
                    ll = pdbgen.set_coords(ll, x + 0.05 * j, y - 0.03 * j, z + 0.02 * j)
                    if kind == 2 and j == len(tags) - 1:
                        # point mutant in the last alternate: keep backbone + CB, rename to ALA
                        if l[12:16].strip() not in ("N", "CA", "C", "O", "CB"):
                            continue
                        ll = pdbgen.setcols(ll, 17, 20, "ALA")
                    if kind == 4 and j == len(tags) - 1:
                        # isosteric point mutant (ASP<->ASN, GLU<->GLN): both residue types carry a group on the same atom name
                        new_res, ren = ISOSTERIC[l[17:20]]
                        ll = pdbgen.setcols(ll, 17, 20, new_res)
                        nm = l[12:16].strip()
                        if nm in ren:
                            ll = pdbgen.setcols(pdbgen.setcols(ll, 12, 16, " %-3s" % ren[nm]), 76, 78, " " + ren[nm][0])
                    if kind == 3 and j == 0:
                        if l[12:16].strip() not in ("N", "CA", "C", "O", "CB"):
                            continue
                        ll = pdbgen.setcols(ll, 17, 20, "ALA")
                    new.append(ll)
            else:
                new.append(l)
        items[k] = ("res", None, new)
    return pdbgen.flatten(items)


def model_variant(rnd, lines, identical=False):
    k = rnd.randint(2, 3)
    out = []
    for m in range(1, k + 1):
        out.append("MODEL     %4d\n" % m)
        ls = list(lines)
        if not identical and m > 1:
            atoms = [i for i, l in enumerate(ls) if pdbgen.is_atom(l)]
            v = rnd.randrange(3)
            if v == 0:      # missing atoms
                for i in sorted(rnd.sample(atoms, min(len(atoms), rnd.randint(1, 6))), reverse=True):
                    del ls[i]
            elif v == 1:    # a missing residue
                items = pdbgen.split_residues(ls)
                res = [q for q, it in enumerate(items) if it[0] == "res"]
                del items[rnd.choice(res)]
                ls = pdbgen.flatten(items)
            else:           # slightly moved
                ls = pdbgen.translate(ls, 0.1 * m, 0.0, -0.05 * m)
        out += ls
        out.append("ENDMDL\n")
    return out


def ss_open_closed(rnd, closed_first):
    """the Cys 42 - Cys 58 fragment of 3SGB with two alternate positions of SG 58: the deposited one (bridge closed) and one
    moved 2.5-3.5 A further from SG 42 (bridge open); `closed_first` decides which alternate is written as A"""
    lines = pdbgen.ss_fragment()
    sg = {int(l[22:26]): pdbgen.coords(l) for l in lines if pdbgen.is_atom(l) and l[17:20] == "CYS" and l[12:16].strip() == "SG"}
    a, b = sg[42], sg[58]
    d = [b[i] - a[i] for i in range(3)]
    n = math.sqrt(sum(c * c for c in d))
    k = rnd.uniform(2.5, 3.5)
    moved = [round(b[i] + k * d[i] / n, 3) for i in range(3)]
    out = []
    for l in lines:
        if pdbgen.is_atom(l) and l[17:20] == "CYS" and l[12:16].strip() == "SG" and int(l[22:26]) == 58:
            closed = pdbgen.setcols(l, 16, 17, "A" if closed_first else "B")
            opened = pdbgen.setcols(pdbgen.set_coords(l, *moved), 16, 17, "B" if closed_first else "A")
            out += [closed, opened] if closed_first else [opened, closed]
        else:
            out.append(l)
    return out


def gen_inputs(ctx):
    rnd = ctx.rng
    out = [(n, t, "file") for n, t in pdbgen.test_files(["conf-alt-AB", "conf-alt-AB-mutant", "conf-alt-BC", "conf-model-missing-atoms", "conf-model-mutant"])]
    # a protein-sized structure (buried groups, many determinants) with a few alternate locations
    for n, t in pdbgen.test_files(["3SGB-subset"] if ctx.quick() else ["3SGB", "1HPX"]):
        out.append((n + "-altloc", pdbgen.text(pdbgen.altloc_atoms(rnd, pdbgen.lines_of(t), rnd.randint(1, 3))), "altloc"))
    # a disulfide bridge that is closed in one conformation and open in the other (alternate positions of one SG): the
    # cysteines are fixed at 99.99 where bridged and titrate where not; the average is still the mean
    for order in (0, 1):
        out.append(("ss-open-closed-%d" % order, pdbgen.text(ss_open_closed(rnd, order)), "altloc"))
    # a whole chain that only a later conformation owns (every atom of it tagged B): the first conformation gets it by topping-up,
    # and the report - which lists the chains of the first conformation - must still show its groups
    cl = pdbgen.chain_in_later_conformation(rnd)
    if cl is not None:
        out.append(("chain-only-in-conformation-B", pdbgen.text(cl), "altloc"))
    for i in range(17 if ctx.quick() else 150):
        lines = pdbgen.fragment(rnd, nres=rnd.randint(3, 9))
        lines = pdbgen.relabel(lines, chain="A")
        if rnd.random() < 0.6:
            lines = pdbgen.add_oxt(lines)
        if i % 4 >= 2:
            # two ions of one kind next to an acid: partners that share a printed label and differ in residue number
            for _ in range(20):
                li = pdbgen.add_ions(rnd, lines, 2, rnd.choice(["CA", "MG", "ZN"]))
                if li is not None:
                    lines = li
                    break
                lines = pdbgen.relabel(pdbgen.fragment(rnd, nres=rnd.randint(3, 9)), chain="A")
        if i % 3 == 0:
            kind = (i // 3) % 6          # every kind of alternate, the mutants included, in every tier
            for _ in range(30):
                if kind != 4 or any(l[17:20] in SAME_ANCHOR for l in lines):
                    break
                lines = pdbgen.relabel(pdbgen.fragment(rnd, nres=rnd.randint(3, 9)), chain="A")
            out.append(("alt%d" % i, pdbgen.text(altloc_variant(rnd, lines, kind)), "altloc"))
        elif i % 3 == 1:
            out.append(("mod%d" % i, pdbgen.text(model_variant(rnd, lines)), "models"))
        else:
            out.append(("same%d" % i, (pdbgen.text(lines), pdbgen.text(model_variant(rnd, lines, identical=True))), "identical"))
    return out


def find_in(conf, g):
    for h in conf.groups:
        if h.atom.residue_label == g.atom.residue_label and h.type == g.type:
            return h
    return None


def psum(dets):
    out = {}
    for d in dets:
        out[partner(d.group)] = out.get(partner(d.group), 0.0) + d.value
    return out


def mean_problems(mol):
    probs = []
    names = mol.conformation_names
    avr = mol.conformations['AVR']
    seen = []
    for cn in names:
        for g in mol.conformations[cn].get_groups_for_calculations():
            key = (g.atom.residue_label, g.type)
            if key in seen:
                continue
            seen.append(key)
            found = [h for h in (find_in(mol.conformations[n], g) for n in names) if h is not None]
            a = find_in(avr, g)
            if a is None:
                probs.append("group %s (%s) exists in %s but is not in the average" % (g.label, g.type, cn))
                continue
            k = float(len(found))
            for f in ("pka_value", "energy_volume", "energy_local", "num_volume", "buried"):
                want = sum(getattr(h, f) for h in found) / k
                if abs(getattr(a, f) - want) > 1e-9:
                    probs.append("%s.%s average %r, mean over the %d conformations that contain it %r" % (g.label, f, getattr(a, f), len(found), want))
            for t in ('sidechain', 'backbone', 'coulomb'):
                want = {}
                for h in found:
                    for p, v in psum(h.determinants[t]).items():
                        want[p] = want.get(p, 0.0) + v / k
                have = psum(a.determinants[t])
                if set(want) != set(have) or any(abs(want[p] - have[p]) > 1e-9 for p in want):
                    probs.append("%s %s determinants %r vs mean %r" % (g.label, t, sorted(have.items())[:3], sorted(want.items())[:3]))
    if len(avr.groups) != len(seen):
        probs.append("average holds %d groups, %d distinct groups exist" % (len(avr.groups), len(seen)))
    return probs, len(seen)


def topup_problems(text, mol, ignore):
    from propka.input import get_atom_lines_from_pdb
    orig = {}
    for c, a in get_atom_lines_from_pdb(io.StringIO(text), ignore_residues=ignore, keep_protons=False):
        orig.setdefault(c, []).append(a)
    probs = []
    all_labels = {}
    for c, atoms in orig.items():
        for a in atoms:
            all_labels.setdefault(a.residue_label, []).append((a.chain_id, a.res_num, a.icode, a.res_name))
    for c in mol.conformation_names:
        conf = mol.conformations[c]
        heavy = [a for a in conf.atoms if a.element != 'H']
        have = {a.residue_label for a in heavy}
        own_names = {}
        for a in orig.get(c, []):
            own_names.setdefault((a.chain_id, a.res_num, a.icode), set()).add(a.res_name)
        names = {}
        for a in heavy:
            names.setdefault((a.chain_id, a.res_num, a.icode), set()).add(a.res_name)
        for key, s in names.items():
            if len(s) > 1 and len(own_names.get(key, set())) <= 1:
                probs.append("conformation %s merges residue types %r at %r" % (c, sorted(s), key))
        for lab, occ in all_labels.items():
            if lab not in have:
                # allowed only if the position holds a different residue name here
                if not any(names.get((ch, num, ic)) and rn not in names[(ch, num, ic)] for ch, num, ic, rn in occ):
                    probs.append("conformation %s lacks %r although the position is free" % (c, lab))
    req = "topup run " + "/".join(";".join("%s|%s|%d|%s|%s" % (hx(a.residue_label), hx(a.chain_id), a.res_num, hx(a.icode), hx(a.res_name)) for a in orig[c]) or "-" for c in mol.conformation_names)
    real = "/".join(";".join("%s|%s" % (hx(a.residue_label), hx(a.res_name)) for a in mol.conformations[c].atoms if a.element != 'H' or True) for c in mol.conformation_names)
    return probs, req, real


def strip_h(mol):
    """the top-up happens before hydrogens are built: compare on the atoms present right after reading"""
    return mol


def run(ctx):
    from propka.parameters import Parameters
    from propka.input import read_parameter_file
    ignore = read_parameter_file("propka.cfg", Parameters()).ignore_residues
    mean_bad, top_bad, same_bad = [], [], []
    areqs, areals, treqs, treals = [], [], [], []
    sreqs, sreals = [], []
    gen_inputs_cached = gen_inputs(ctx)
    for name, text, kind in gen_inputs_cached:
        if kind == "identical":
            single, multi = text
            o1, o2 = observe.run(single), observe.run(multi)
            ctx.case(key=(name, hash(multi)))
            ctx.count("identical-model inputs")
            d = []
            if o1.error or o2.error:
                d.append("error %r / %r" % (o1.error, o2.error))
            else:
                d += observe.compare_groups(o1.confs['AVR'], o2.confs['AVR'], tol=1e-9)[:3]
            if d:
                same_bad.append((name, d, multi))
            # a single conformation is reported as it is
            if not o1.error and len(o1.mol.conformation_names) == 1:
                only = o1.mol.conformation_names[0]
                rep = [g for g in o1.confs[only] if g["use"]]
                d = observe.compare_groups(rep, o1.confs['AVR'], tol=1e-9, dets=False)[:3]
                for a, b in zip(rep, o1.confs['AVR']):
                    for t in ("sidechain", "backbone", "coulomb"):
                        pa, pb = {}, {}
                        for l, v in a[t]:
                            pa[l] = pa.get(l, 0.0) + v
                        for l, v in b[t]:
                            pb[l] = pb.get(l, 0.0) + v
                        if set(pa) != set(pb) or any(abs(pa[k] - pb[k]) > 1e-9 for k in pa):
                            d.append("%s %s determinants differ between the only conformation and the average" % (a["label"], t))
                if d:
                    same_bad.append((name, d, single))
            continue
        o = observe.run(text, want_text=False)
        if o.error:
            ctx.count("runs with error " + o.error[0])
            continue
        mol = o.mol
        probs, ngroups = mean_problems(mol)
        # the conformations are those the file spells: one per (model, alternate-location tag), a blank tag and the digit 1
        # meaning A, the digit 2 meaning B, ...
        model, want_names = 1, []
        for l in pdbgen.lines_of(text):
            if l.startswith("MODEL "):
                model = int(l[6:])
            elif pdbgen.is_atom(l) and l[17:20] not in ignore and not l[12:16].strip().startswith("H") and len(l) > 16:
                t = l[16]
                t = "A" if t == " " else (chr(ord("A") + int(t) - 1) if t in "123456789" else t)
                if "%d%s" % (model, t) not in want_names:
                    want_names.append("%d%s" % (model, t))
        if sorted(want_names) != sorted(mol.conformation_names):
            probs.insert(0, "conformations %r, the file spells %r" % (mol.conformation_names, sorted(want_names)))
        # "every ionizable group that exists in at least one conformation is reported": in the written file too - the reported
        # groups of the average all have their block in the determinant table and their row in the summary
        try:
            txt = observe.pka_text(mol).split("\n")
            i0 = next(k for k, l in enumerate(txt) if l.startswith(" RESIDUE    pKa    BURIED"))
            i1 = next(k for k, l in enumerate(txt) if l.startswith("SUMMARY OF THIS PREDICTION"))
            P0 = mol.version.parameters
            want_labels = sorted(g.label for g in mol.conformations['AVR'].groups
                                 if g.residue_type in P0.write_out_order and not (g.coupled_titrating_group and P0.remove_penalised_group))
            blocks = sorted(l[:9] for l in txt[i0 + 2:i1 - 1] if len(l) >= 9 + 40 + 54 and not l.startswith("---") and l[9:49].strip())
            rows = sorted(m.group(1) for m in (re.match(r"^   (.{9}) (.{8}) (.{10}) ", l) for l in txt[i1 + 2:]) if m)
            if blocks != want_labels:
                probs.append("AVR: the determinant table has blocks for %d groups, the reported groups are %d (missing %r)" % (
                    len(blocks), len(want_labels), sorted(set(want_labels) - set(blocks))[:4]))
            if rows != want_labels:
                probs.append("AVR: the summary has rows for %d groups, the reported groups are %d" % (len(rows), len(want_labels)))
        except StopIteration:
            probs.append("AVR: sections missing in the written file")
        ctx.case(key=(name, hash(text)), nontrivial=len(mol.conformation_names) > 1 and ngroups > 0)
        ctx.count("%s inputs" % kind)
        ctx.count("conformations", len(mol.conformation_names))
        if probs:
            mean_bad.append((name, probs[:3], text))
        # Float model of the average on the real records
        names = mol.conformation_names
        for g in mol.conformations['AVR'].groups[:40]:
            found = [h for h in (find_in(mol.conformations[n], g) for n in names) if h is not None]
            if found and not g.atom.cysteine_bridge:
                areqs.append("dets avg " + ";".join(enc_group(h) for h in found))
                areals.append((g.pka_value, g.energy_volume, g.energy_local, [psum(g.determinants[t]) for t in ('sidechain', 'backbone', 'coulomb')]))
                for f in ("buried", "num_volume", "num_local"):
                    sreqs.append("dets avgs " + ",".join(str(common.bits(float(getattr(h, f)))) for h in found))
                    sreals.append((g.label, f, float(getattr(g, f))))
        # top-up: run the parser-level pipeline again without protonation side effects
        o2 = observe.run(text, ["-k"], want_text=False)
        if not o2.error:
            tp, req, real = topup_problems(text, o2.mol, ignore)
            if tp:
                top_bad.append((name, tp[:3], text))
    # which conformation every record goes to: the Lean parser model against the real parser on these inputs
    if ctx.driver_ok:
        from . import c13
        preqs, preals = [], []
        for name, text, kind in gen_inputs_cached:
            for t in (text if isinstance(text, tuple) else (text,)):
                preqs.append(c13.model_req(t, False, []))
                preals.append(c13.real_parse(t, False, None, ignore))
        pouts = common.driver_batch(preqs)
        pdis = [(r[:80], m[:80]) for r, m in zip(preals, pouts) if r != m and not (r.startswith("err") and m.startswith("err"))]
        ctx.oblige("correspondence: Lean parser model = real parser on the multi-conformation inputs (conformation names incl. digit alternates; %d files)" % len(preqs),
                   not pdis, str(pdis[:1]))
    ctx.sample(dict(kind="altloc/model inputs", example=gen_inputs.__doc__))
    for b in mean_bad[:3]:
        sig = "D7:average-not-over-containing-conformations" if any("mean over the" in p or "not in the average" in p or "average holds" in p for p in b[1]) else "average:" + b[0]
        ctx.violate(sig, "%s: %s" % (b[0], "; ".join(b[1])), dict(pdb=b[2], problems=b[1]))
    ctx.oblige("spec: AVR = arithmetic mean over the conformations containing the group; every group existing somewhere is reported", not mean_bad,
               "%d inputs, first %r" % (len(mean_bad), [(b[0], b[1][:1]) for b in mean_bad[:2]]))
    for b in top_bad[:2]:
        ctx.violate("topup:" + b[0], "%s: %s" % (b[0], "; ".join(b[1])), dict(pdb=b[2], problems=b[1]))
    ctx.oblige("spec: conformations completed from the others without merging residue types", not top_bad, str([(b[0], b[1][:1]) for b in top_bad[:2]]))
    for b in same_bad[:2]:
        ctx.violate("identical-models:" + b[0], "%s: %s" % (b[0], "; ".join(b[1])), dict(pdb=b[2], problems=b[1]))
    ctx.oblige("spec: single conformation reported as it is; k identical models = one model", not same_bad, str([(b[0], b[1][:1]) for b in same_bad[:2]]))
    if ctx.driver_ok:
        outs = common.driver_batch(areqs) if areqs else []
        dis = []
        from ..dets_common import dec_dets
        for q, r, m in zip(areqs, areals, outs):
            f = m.split("|")
            vals = [common.unbits(int(x)) for x in f[:3]]
            ok = all(abs(a - b) <= 1e-12 for a, b in zip(vals, r[:3]))
            for k in range(3):
                md = {}
                for g, l, v in dec_dets(f[3 + k]):
                    md[g] = md.get(g, 0.0) + common.unbits(v)
                if set(md) != set(r[3][k]) or any(abs(md[p] - r[3][k][p]) > 1e-12 for p in md):
                    ok = False
            if not ok:
                dis.append((q[:60], r[:3], vals))
        ctx.oblige("correspondence: Float average model = real AVR records (%d groups)" % len(areqs), not dis, str(dis[:1]))
        souts = common.driver_batch(sreqs) if sreqs else []
        sdis = [(r, common.unbits(int(m))) for r, m in zip(sreals, souts) if abs(common.unbits(int(m)) - r[2]) > 1e-12]
        ctx.oblige("correspondence: Float scalar-average model = real AVR buried fraction / atom counts (%d values, %d non-zero)" % (len(sreqs), sum(1 for r in sreals if r[2] != 0.0)),
                   not sdis, str(sdis[:2]))
        topup_corr(ctx, ignore)
    else:
        ctx.oblige("correspondence: average / top-up models = real code", False, "driver not built")


def topup_corr(ctx, ignore):
    """real top_up_conformations on parsed atoms vs the Lean model"""
    from propka.input import read_pdb
    import propka.lib
    import propka.molecular_container as MC
    from propka.parameters import Parameters
    from propka.input import read_parameter_file
    rnd = ctx.rng
    P = read_parameter_file("propka.cfg", Parameters())
    reqs, reals = [], []
    gen_inputs_cached = gen_inputs(ctx)
    # the inputs with a structural twist always go through the program-level correspondence (sections of the .pka file included)
    ctx.program_extra = getattr(ctx, "program_extra", []) + [(n, t, ()) for n, t, k in gen_inputs_cached
                                                               if isinstance(t, str) and (n.startswith("chain-only") or n.startswith("ss-open"))]
    for name, text, kind in gen_inputs_cached:
        if kind == "identical":
            continue
        opts = propka.lib.loadOptions(["x.pdb"])
        mol = MC.MolecularContainer(P, opts)
        try:
            confs, names = read_pdb(io.StringIO(text), P, mol)
        except Exception:  # noqa: BLE001
            continue
        before = {n: list(confs[n].atoms) for n in names}
        mol.conformations, mol.conformation_names = confs, names
        mol.top_up_conformations()
        reqs.append("topup run " + "/".join(";".join("%s|%s|%d|%s|%s" % (hx(a.residue_label), hx(a.chain_id), a.res_num, hx(a.icode), hx(a.res_name)) for a in before[n]) or "-" for n in names))
        reals.append("/".join(";".join("%s|%s" % (hx(a.residue_label), hx(a.res_name)) for a in confs[n].atoms) for n in names))
        ctx.case(key=("topup", name))
    outs = common.driver_batch(reqs) if reqs else []
    dis = [(q[:60], r[:80], m[:80]) for q, r, m in zip(reqs, reals, outs) if r != m]
    ctx.oblige("correspondence: Lean top-up model = top_up_conformations (atom order, labels, names; %d inputs)" % len(reqs), not dis, str(dis[:1]))


def replay(ctx, rep):
    r = rep["replay"]
    if "pdb" in r:
        o = observe.run(r["pdb"])
        if o.error:
            print(o.error); return 1
        probs = mean_problems(o.mol)[0]
        print(probs[:5])
        return 1 if probs else 0
    return 0
