"""C18 - parameter tables: random parameter files through the real Parameters.parse_line vs the Lean
model; symmetry / default / squared specs on the real objects; exhaustive checks of the shipped file."""
import itertools
import math

from .. import common, gen_tables

SPEC = dict(
    claim="For ANY list of parameter-file lines that parse_line accepts, interaction-type and cut-off look-ups are symmetric "
          "(invariant of every line, lifted by induction over the file), an unmentioned cut-off pair yields the default in force, "
          "the last entry for a pair wins, x_squared reads as the square of x for any interleaving of both spellings, comment "
          "lines are no-ops: Lean theorems about a model of InteractionMatrix/PairwiseMatrix/squared_property/parse_line. For the "
          "shipped propka.cfg (as the real Parameters object holds it, regenerated each run) `decide` proves: the matrix is "
          "symmetric; every pair of group types that can reach the pair loop has type I/N/-; every creatable kind with a model pKa "
          "is written out exactly once with a non-zero charge; inner < outer for every cut-off. Random parameter files are run "
          "through the real parser and the model (error class, failing line, every look-up in both orders).",
    note="Creatable group types come from walking the ASTs of the three classifier functions and the protein_group_mapping; "
         "'type it writes out' is read as every creatable kind with a model pKa (SER is listed in write_out_order but no SER "
         "group can be titratable). float()/int() are modelled on plain decimal spellings only; generators stay inside.",
    technique="Lean 4 proof (invariant over parse_line, induction over the file) + decide over the regenerated shipped tables + differential correspondence",
    lean=["Propka.Props.C18"],
    rule="random parameter files of 5-40 lines mixing matrix rows (right and wrong arity, repeated groups), pair entries in both "
         "orders incl. repeats and self pairs, default lines at any position, scalar settings in plain and _squared spelling, every "
         "other field kind, comments, malformed lines; non-trivial = distinct file with at least one matrix or pair entry accepted",
    assumptions=["number spellings outside [+-]digits[.digits] are not generated"],
)

NAMES = ["COO", "HIS", "CYS", "N+", "ARG", "X1", "OCO"]
SCALARS = ["desolv_cutoff", "buried_cutoff", "coulomb_cutoff1", "coulomb_cutoff2"]


def gen_file(rnd):
    lines = []
    keys = []
    n = rnd.randint(5, 40)
    for _ in range(n):
        r = rnd.random()
        if r < 0.25:
            g = rnd.choice(NAMES)
            arity = len(keys) + 1
            if rnd.random() < 0.12:
                arity += rnd.choice([-1, 1])
            vals = [rnd.choice(["I", "N", "-", "0.5", "X"]) for _ in range(max(arity, 0))]
            line = "interaction_matrix %s %s" % (g, " ".join(vals))
            if arity == len(keys) + 1:
                keys.append(g)
            lines.append(line)
        elif r < 0.5:
            a, b = rnd.choice(NAMES), rnd.choice(NAMES)
            v1, v2 = rnd.choice(["2.0", "2.5", "3", "1.85", "3.65"]), rnd.choice(["3.0", "4.0", "2.85", "4.5"])
            k = rnd.random()
            if k < 0.15:
                lines.append("sidechain_cutoffs default %s %s" % (v1, v2))
            elif k < 0.22:
                lines.append("sidechain_cutoffs %s %s %s" % (a, b, v1))           # wrong arity
            elif k < 0.27:
                lines.append("sidechain_cutoffs %s %s %s abc" % (a, b, v1))       # not a number
            else:
                lines.append("sidechain_cutoffs %s  %s %s %s" % (a, b, v1, v2))
        elif r < 0.7:
            nm = rnd.choice(SCALARS)
            if rnd.random() < 0.5:
                lines.append("%s %s" % (nm, rnd.choice(["4.0", "10", "20.0", "15", "3.5"])))
            else:
                lines.append("%s_squared %s" % (nm, rnd.choice(["16", "100.0", "400", "225", "12.25", "2"])))
        elif r < 0.8:
            lines.append(rnd.choice(["# a comment", "", "   ", "  # indented comment", "coulomb_diel 80.0 # trailing",
                                     "Nmin 280", "Nmax 560", "shared_determinants 1", "remove_penalised_group 0",
                                     "newparam 3.5", "Nmin 2.5", "Nmin abc", "coulomb_diel", "coulomb_diel 1 2"]))
        else:
            lines.append(rnd.choice(["model_pkas ASP 3.80", "model_pkas ASP", "model_pkas ASP x", "charge COO -1", "ions MG +2",
                                     "acid_list ASP", "acid_list", "acid_list A B", "version VersionA", "version",
                                     "backbone_NH_hydrogen_bond COO -0.85 2.00 3.00", "backbone_NH_hydrogen_bond COO",
                                     "backbone_CO_hydrogen_bond HIS 0.85 x 3.00", "protein_group_mapping ASP-CG COO",
                                     "protein_group_mapping ASP-CG", "ignore_residues HOH", "write_out_order ASP"]))
    return lines


def real_run(lines):
    from propka.parameters import Parameters
    p = Parameters()
    status = "ok"
    for i, l in enumerate(lines):
        try:
            p.parse_line(l)
        except (ValueError, AssertionError, KeyError) as e:
            status = "err:%d:%s" % (i, type(e).__name__)
            break
        except Exception as e:  # noqa: BLE001
            status = "err:%d:%s" % (i, type(e).__name__)
            break
    return p, status


def hx(s):
    return s.encode("latin1").hex()


def queries():
    qs = []
    for a, b in itertools.product(NAMES + ["ZZ"], repeat=2):
        qs.append(("im", a, b))
        qs.append(("pm", a, b))
    for nm in SCALARS:
        qs.append(("get", nm))
        qs.append(("get", nm + "_squared"))
    qs.append(("get", "newparam"))
    qs.append(("get", "Nmin"))
    return qs


def real_answer(p, q):
    if q[0] == "im":
        v = p.interaction_matrix.get_value(q[1], q[2])
        return None if v is None else v
    if q[0] == "pm":
        return tuple(p.sidechain_cutoffs.get_value(q[1], q[2]))
    if q[0] == "get":
        return getattr(p, q[1], None)


def model_matches(q, real, m, touched):
    if q[0] == "im":
        if real is None:
            return m == "None"
        if not m.startswith("v"):
            return False
        raw = bytes.fromhex(m[1:]).decode("latin1")
        return (float(raw) == real) if isinstance(real, float) else raw == real
    if q[0] == "pm":
        a, b = m.split(",")
        return (common.unbits(int(a)), common.unbits(int(b))) == tuple(map(float, real))
    if q[0] == "get":
        if m == "None":
            # the model only knows scalars that a line of this file has set; defaults live in the dataclass
            return q[1] not in touched
        return real is not None and common.unbits(int(m)) == float(real)
    return False


def run(ctx):
    rnd = ctx.rng
    nfiles = 300 if ctx.quick() else 6000
    qs = queries()
    reqs, reals, files = [], [], []
    spec_bad = []
    for k in range(nfiles):
        lines = gen_file(rnd)
        p, status = real_run(lines)
        accepted = lines if status == "ok" else lines[:int(status.split(":")[1])]
        touched = set()
        for l in accepted:
            w = l.split("#")[0].split()
            if len(w) == 2:
                touched.add(w[0])
                touched.add(w[0][:-8] if w[0].endswith("_squared") else w[0] + "_squared")
        ans = [real_answer(p, q) for q in qs]
        files.append((lines, status, touched))
        reals.append(ans)
        reqs.append("params run %s %s" % (",".join(hx(l) for l in lines) or "-", " ".join(":".join([q[0]] + [hx(x) for x in q[1:]]) for q in qs)))
        nt = any(l.startswith(("interaction_matrix", "sidechain_cutoffs")) for l in accepted)
        ctx.case(key=tuple(lines), nontrivial=nt)
        ctx.count("files ok" if status == "ok" else "files with error " + status.split(":")[2])
        # ---- the property on the real objects
        probs = []
        mentioned = set()
        for l in accepted:
            w = l.split("#")[0].split()
            if len(w) == 5 and w[0] == "sidechain_cutoffs":
                mentioned.add((w[1], w[2])); mentioned.add((w[2], w[1]))
        for a, b in itertools.product(NAMES + ["ZZ"], repeat=2):
            if p.interaction_matrix.get_value(a, b) != p.interaction_matrix.get_value(b, a):
                probs.append("interaction_matrix (%s,%s) != (%s,%s)" % (a, b, b, a))
            if p.sidechain_cutoffs.get_value(a, b) != p.sidechain_cutoffs.get_value(b, a):
                probs.append("sidechain_cutoffs (%s,%s) != (%s,%s)" % (a, b, b, a))
            if (a, b) not in mentioned and tuple(p.sidechain_cutoffs.get_value(a, b)) != tuple(p.sidechain_cutoffs.default):
                probs.append("unmentioned pair (%s,%s) does not give the default" % (a, b))
        for nm in SCALARS:
            x, x2 = getattr(p, nm), getattr(p, nm + "_squared")
            if x2 != x ** 2:
                probs.append("%s_squared=%r but %s=%r" % (nm, x2, nm, x))
        if probs:
            spec_bad.append((lines, probs))
    ctx.sample(dict(file=files[0][0][:8], status=files[0][1]))
    for lines, probs in spec_bad[:3]:
        ctx.violate("params:" + probs[0].split(" ")[0], "parameter file: " + "; ".join(probs[:3]), dict(lines=lines, problems=probs[:10]))
    ctx.oblige("spec: symmetry, default fallback, squared=square on the real Parameters object after %d random files" % nfiles,
               not spec_bad, "%d files, first %r" % (len(spec_bad), spec_bad[:1]))
    squared_histories(ctx)
    shipped(ctx)
    if ctx.driver_ok:
        outs = common.driver_batch(reqs)
        dis = []
        for (lines, status, touched), ans, o in zip(files, reals, outs):
            parts = o.split(" ")
            if parts[0] != status:
                dis.append((lines, "status", status, parts[0]))
                continue
            for q, r, m in zip(qs, ans, parts[1:]):
                if not model_matches(q, r, m, touched):
                    dis.append((lines, q, r, m))
                    break
        ctx.oblige("correspondence: Lean parse_line model = real parser on %d files (status, failing line, %d look-ups each)" % (nfiles, len(qs)),
                   not dis, "%d disagreements, first %r" % (len(dis), dis[:1]))
    else:
        ctx.oblige("correspondence: parameter-file model = real parser", False, "driver not built")


def squared_histories(ctx):
    from propka.parameters import Parameters
    rnd = ctx.rng
    bad = []
    for _ in range(200 if ctx.quick() else 5000):
        p = Parameters()
        hist = []
        for _ in range(rnd.randint(1, 12)):
            nm = rnd.choice(SCALARS)
            v = rnd.choice([0.0, 1.0, 2.0, 16.0, 12.25, rnd.uniform(0, 500)])
            if rnd.random() < 0.5:
                setattr(p, nm, v); hist.append((nm, v))
            else:
                setattr(p, nm + "_squared", v); hist.append((nm + "_squared", v))
            for n2 in SCALARS:
                if getattr(p, n2 + "_squared") != getattr(p, n2) ** 2:
                    bad.append((hist[:], n2))
        ctx.case(("sqhist", tuple(hist)))
    for h, n2 in bad[:2]:
        ctx.violate("squared-stale:" + n2, "after %r: %s_squared is not the square of %s" % (h, n2, n2), dict(history=h))
    ctx.oblige("spec: squared cut-off = square of the plain one after every step of random set/get histories", not bad, str(bad[:1]))


def shipped(ctx):
    """exhaustive checks of the shipped file on the real objects"""
    from propka.parameters import Parameters
    from propka.input import read_parameter_file
    P = read_parameter_file("propka.cfg", Parameters())
    cc = gen_tables.creatable_classes(P)
    types = []
    for _, ty, _ in cc:
        if "BB" not in ty and ty != "ION" and ty not in types:
            types.append(ty)
    missing = []
    for a, b in itertools.product(types, repeat=2):
        v, w = P.interaction_matrix.get_value(a, b), P.interaction_matrix.get_value(b, a)
        ctx.case(("shipped-pair", a, b))
        if v not in ("I", "N", "-") or v != w:
            missing.append((a, b, v, w))
    by_type = {}
    for a, b, v, w in missing:
        by_type.setdefault(a if all(x[0] == a or x[1] == a for x in missing if a in x[:2]) else a, []).append((a, b))
    culprits = sorted({t for t in types if all(((t, u) in {(m[0], m[1]) for m in missing}) for u in types)})
    for t in culprits:
        sig = "D9:no-interaction-row-for-type-" + t
        ctx.violate(sig, "interaction_matrix.get_value(%r, X) is None for every creatable group type X (matrix keys: %s)" % (t, " ".join(P.interaction_matrix.ordered_keys)),
                    dict(call="Parameters.interaction_matrix.get_value", type=t, example=[t, types[0]], got=None))
    rest = [m for m in missing if m[0] not in culprits and m[1] not in culprits]
    for m in rest[:3]:
        ctx.violate("matrix-pair:%s-%s" % (m[0], m[1]), "interaction type of (%s,%s) is %r / %r" % m, dict(pair=m[:2], got=m[2:]))
    ctx.oblige("spec: shipped matrix defines I/N/- symmetrically for all %d pairs of creatable pair-loop types" % (len(types) ** 2), not missing,
               "%d pairs undefined, e.g. %r" % (len(missing), missing[:2]))
    # write-out order / model pKa / charge
    probs = []
    kinds = []
    for key, cls in P.protein_group_mapping.items():
        r = key.split("-")[0]
        ty = [c for c in cc if c[0] == cls + "Group"][0][1]
        kinds.append((r, ty))
    kinds += [("N+", "N+"), ("C-", "COO")] + [(rt, ty) for _, ty, rt in cc if rt and "BB" not in rt]
    for r, ty in kinds:
        if r in P.model_pkas:
            if P.write_out_order.count(r) != 1:
                probs.append("%s occurs %d times in write_out_order" % (r, P.write_out_order.count(r)))
            if not P.charge.get(ty):
                probs.append("type %s (residue %s) has model pKa but charge %r" % (ty, r, P.charge.get(ty)))
    sc = P.sidechain_cutoffs
    if not sc.default[0] < sc.default[1]:
        probs.append("default cut-offs not ordered")
    for a in sc.dictionary:
        for b, v in sc.dictionary[a].items():
            if not v[0] < v[1]:
                probs.append("cut-offs %s %s not ordered" % (a, b))
    for tbl in (P.backbone_NH_hydrogen_bond, P.backbone_CO_hydrogen_bond):
        for k, v in tbl.items():
            if not v[1] < v[2]:
                probs.append("backbone cut-offs of %s not ordered" % k)
    if not 0 < P.coulomb_cutoff1 < P.coulomb_cutoff2:
        probs.append("coulomb cut-offs not ordered")
    for pr in probs[:3]:
        ctx.violate("shipped:" + pr[:40], pr, dict(problem=pr))
    ctx.oblige("spec: shipped file - write-out order, model pKa, non-zero charge, ordered cut-offs", not probs, "; ".join(probs[:3]))


def replay(ctx, rep):
    r = rep["replay"]
    if "lines" in r:
        p, status = real_run(r["lines"])
        print("status", status)
        return 0
    if "type" in r:
        from propka.parameters import Parameters
        from propka.input import read_parameter_file
        P = read_parameter_file("propka.cfg", Parameters())
        v = P.interaction_matrix.get_value(*r["example"])
        print("get_value%r = %r" % (tuple(r["example"]), v))
        return 0 if v in ("I", "N", "-") else 1
    print(rep)
    return 0
