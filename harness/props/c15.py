"""C15 - coupling analysis observes without disturbing."""
import itertools
import re

from .. import common, observe, pdbgen
from ..dets_common import enc_group, real_dets, dec_dets, stub_groups

SPEC = dict(
    claim="Lean theorems over exact arithmetic on a model of Determinant / transfer_determinant / swap_interactions / "
          "calculate_total_pka / couple_non_covalently: transferring twice returns both determinant lists up to order with the "
          "original partner labels; hence swapping twice restores both groups' pKa, desolvation terms and determinant multisets "
          "(no hypothesis on labels), a swap only moves value between the two groups, results stay up to date so probes chain over "
          "all pairs; coupling is symmetric after any sequence of couple_non_covalently calls; the star of a row follows the coupled "
          "list. The Float instance is compared with the real transfer/swap on stub groups (ordered lists, bit patterns); on real "
          "runs the analysis switched on is compared with the analysis switched off (every record, determinants as multisets), the "
          "coupled lists are checked for symmetry in every conformation and the star of every determinant row against the lists. "
          "The probe of a pair itself (is_coupled_protonation_state_probability with all its gates) is modelled: on every path the pair "
          "ends untouched or swapped twice (probe_state), hence restored and up to date (probe_restores, probe_keeps_uptodate), and its "
          "three scaling factors lie in [0, 1]; the real probe is driven on stub pairs with random thresholds and compared with the model "
          "(state afterwards, gate taken, returned values). "
          "identify models the whole search (the probes of all visited pairs in turn, each writing back the state it leaves on its two groups); identify_preserves: for any list of pairs of two different groups, any thresholds, energy function and intrinsic pKa values, every group ends with the results it had before the search and is up to date. The whole search as the program runs it between scoring and averaging is modelled (Model/CoupleSearch.lean: pair loop, every gate of the probe, intrinsic pKa memoised on first use, folding energy of the whole conformation before and after the swap, swap back, factors, couple_non_covalently) and is part of Program.run: the average conformation is reproduced bit for bit with every determinant list in order, and the stars of the determinant table character by character, on the texts this check runs; identify_coupling_symm (Props/C15Search.lean): the coupling lists the search leaves are symmetric for every table of records, parameter set and scalar. identify_preserves_results: over exact arithmetic (and any model of 10**x / log10) every group of the conformation has after the search the results it had after scoring - pKa, both desolvation terms, every determinant with partner and label - and is up to date: every temporary swap of the program's search is undone exactly.",
    note="Exact arithmetic: in floats a swap-swap changes the summation order, so restored pKa values are compared to 1e-9, not "
         "bitwise. Label-based membership tests (`in`) are modelled by label identity; the display mode (-d) is covered by C02/C03.",
    technique="Lean 4 proof (list permutations, invariants over call sequences) + differential correspondence + on/off metamorphic runs",
    lean=["Propka.Props.C15", "Propka.Props.C15Search"],
    rule="stub systems of 2-5 groups with 0-4 determinants of each kind towards each other (several towards the same partner, equal "
         "values) and all pair swaps / double swaps; real runs of test files and library structures with the analysis on and off; "
         "non-trivial = a swap that actually moves a determinant, or a structure with at least one coupled pair",
    assumptions=["labels of the groups of one conformation are pairwise distinct on the generated inputs"],
)


def probe_family(ctx):
    """is_coupled_protonation_state_probability driven directly on stub pairs, every gate exercised: the state of both groups
    afterwards and the returned dictionary against the Lean probe model, and the 'observes without disturbing' clause itself"""
    import types
    from propka.coupled_groups import NCCG
    rnd = ctx.rng
    reqs, reals, bad, outcomes = [], [], [], {}
    saved = NCCG.parameters
    try:
        for _ in range(120 if ctx.quick() else 3000):
            groups = stub_groups(rnd, rnd.randint(2, 4))
            g1, g2 = rnd.sample(groups, 2)
            # make the pair interact often enough for the later gates to be reached
            from propka.determinant import Determinant
            for a, b in ((g1, g2), (g2, g1)):
                for t in ('sidechain', 'coulomb'):
                    if rnd.random() < 0.6:
                        a.determinants[t].append(Determinant(b, rnd.choice([0.3, 0.45, 0.55, 0.8, 1.2, -0.4, rnd.uniform(0, 2)])))
                a.calculate_total_pka()
            g1.intrinsic_pka = g1.model_pka + rnd.choice([0.0, rnd.uniform(-2, 2)])
            g2.intrinsic_pka = g2.model_pka + rnd.choice([0.0, rnd.uniform(-2, 2)])
            ph = rnd.choice(['variable', 'variable', 7.0, rnd.uniform(0, 14)])
            P = types.SimpleNamespace(min_interaction_energy=rnd.choice([0.5, 0.2, 1.0]), min_pka=rnd.choice([0.0, 4.0]), max_pka=rnd.choice([10.0, 6.0, 14.0]),
                                      max_free_energy_diff=rnd.choice([1.0, 0.3, 5.0]), min_swap_pka_shift=rnd.choice([1.0, 0.4, 2.0]),
                                      max_intrinsic_pka_diff=rnd.choice([2.0, 0.5, 7.0]), pH=ph, reference='neutral')
            NCCG.parameters = P
            c = [rnd.choice([0.0, rnd.uniform(-3, 3)]), rnd.uniform(-0.5, 0.5), rnd.uniform(-0.5, 0.5), rnd.choice([0.0, rnd.uniform(-0.1, 0.1)])]

            def energy(ph=None, reference=None, g1=g1, g2=g2, c=c):
                return c[0] + c[1] * g1.pka_value + c[2] * g2.pka_value + c[3] * ph
            snap = [(g.pka_value, [sorted(real_dets(g.determinants[t])) for t in ('sidechain', 'backbone', 'coulomb')]) for g in (g1, g2)]
            req = "dets probe %s %s %s %s" % (
                ",".join([str(common.bits(x)) for x in (P.min_interaction_energy, P.min_pka, P.max_pka, P.max_free_energy_diff, P.min_swap_pka_shift, P.max_intrinsic_pka_diff)]
                         + ["v" if ph == 'variable' else str(common.bits(ph))]),
                ",".join(str(common.bits(x)) for x in c + [g1.intrinsic_pka, g2.intrinsic_pka]), enc_group(g1), enc_group(g2))
            r = NCCG.is_coupled_protonation_state_probability(g1, g2, energy)
            state = " ".join("%d|%s" % (common.bits(g.pka_value), "|".join(repr(real_dets(g.determinants[t])) for t in ('sidechain', 'backbone', 'coulomb'))) for g in (g1, g2))
            if r['coupling_factor'] == -1.0 and len(r) == 1:
                res = "rejected"
            else:
                res = [r[k] for k in ('default_energy', 'swapped_energy', 'interaction_energy', 'swapped_pka1', 'swapped_pka2', 'pka_shift1', 'pka_shift2', 'pH')] + [r['coupling_factor']]
            outcomes["rejected" if res == "rejected" else "coupled"] = outcomes.get("rejected" if res == "rejected" else "coupled", 0) + 1
            reqs.append(req)
            reals.append((state, res))
            ctx.case(key=req, nontrivial=res != "rejected" or abs(snap[0][0] - g1.pka_value) >= 0)
            after = [(g.pka_value, [sorted(real_dets(g.determinants[t])) for t in ('sidechain', 'backbone', 'coulomb')]) for g in (g1, g2)]
            for (p0, d0), (p1, d1) in zip(snap, after):
                if abs(p0 - p1) > 1e-9 or d0 != d1:
                    bad.append((req, p0, p1, res if res == "rejected" else "coupled"))
                    break
    finally:
        NCCG.parameters = saved
    ctx.count("probes rejected", outcomes.get("rejected", 0))
    ctx.count("probes coupled", outcomes.get("coupled", 0))
    for b in bad[:2]:
        ctx.violate("probe-disturbs", "is_coupled_protonation_state_probability (%s) leaves a group changed: pKa %r -> %r" % (b[3], b[1], b[2]),
                    dict(call="NCCG.is_coupled_protonation_state_probability", request=b[0]))
    ctx.oblige("spec: the probe of a pair restores both groups on every path through its gates (%d stub pairs, %d coupled)" % (len(reqs), outcomes.get("coupled", 0)),
               not bad, str([(b[1], b[2], b[3]) for b in bad[:1]]))
    if ctx.driver_ok:
        outs = common.driver_batch(reqs)
        dis = []
        for q, (state, res), m in zip(reqs, reals, outs):
            parts = m.split(" ")
            mm = []
            for part in parts[:2]:
                f = part.split("|")
                mm.append("%s|%s" % (f[0], "|".join(repr(dec_dets(x)) for x in f[1:])))
            ok = " ".join(mm) == state
            if res == "rejected" or parts[2] == "rejected":
                ok = ok and res == parts[2]
            else:
                v = [common.unbits(int(x)) for x in parts[2].split(",")]
                ok = ok and all(common.bits(a) == common.bits(b) or a == b for a, b in zip(v[:8], res[:8]))
                fac = v[8] * v[9] * v[10]
                ok = ok and abs(fac - res[8]) <= 1e-12 * max(1.0, abs(fac))
            if not ok:
                dis.append((q[:100], state[:120], res, m[:200]))
        ctx.oblige("correspondence: Float probe model = real is_coupled_protonation_state_probability (state afterwards, gate taken, returned values; %d probes)" % len(reqs), not dis, str(dis[:1]))
    else:
        ctx.oblige("correspondence: probe model = real probe", False, "driver not built")


def run(ctx):
    rnd = ctx.rng
    from propka.coupled_groups import NCCG
    reqs, reals = [], []
    twice_bad = []
    for _ in range(150 if ctx.quick() else 3000):
        groups = stub_groups(rnd, rnd.randint(2, 5))
        g1, g2 = rnd.sample(groups, 2)
        before = [(g.pka_value, sorted(real_dets(g.determinants[t]) for t in ('sidechain', 'backbone', 'coulomb'))) for g in (g1, g2)]
        snap = [(g.pka_value, [sorted(real_dets(g.determinants[t])) for t in ('sidechain', 'backbone', 'coulomb')]) for g in (g1, g2)]
        req = "dets swap %s %s" % (enc_group(g1), enc_group(g2))
        moved = any(d.label == g2.label for t in ('sidechain', 'coulomb') for d in g1.determinants[t]) or any(d.label == g1.label for t in ('sidechain', 'coulomb') for d in g2.determinants[t])
        NCCG.swap_interactions([g1], [g2])
        reqs.append(req)
        reals.append(" ".join("%d|%s" % (common.bits(g.pka_value), "|".join(repr(real_dets(g.determinants[t])) for t in ('sidechain', 'backbone', 'coulomb'))) for g in (g1, g2)))
        NCCG.swap_interactions([g1], [g2])
        after = [(g.pka_value, [sorted(real_dets(g.determinants[t])) for t in ('sidechain', 'backbone', 'coulomb')]) for g in (g1, g2)]
        ctx.case(key=req, nontrivial=moved)
        ctx.count("swaps moving determinants" if moved else "swaps moving nothing")
        for (p0, d0), (p1, d1) in zip(snap, after):
            if abs(p0 - p1) > 1e-9 or d0 != d1:
                twice_bad.append((req, p0, p1))
    for b in twice_bad[:2]:
        ctx.violate("swap-not-undone", "swap_interactions twice does not restore the groups: pKa %r -> %r" % (b[1], b[2]), dict(call="NCCG.swap_interactions x2", groups=b[0]))
    ctx.oblige("spec: swap_interactions applied twice restores pKa (1e-9) and the determinant multisets with original labels (%d stub systems)" % len(reqs), not twice_bad, str(twice_bad[:1]))
    probe_family(ctx)
    # couple_non_covalently sequences
    sym_bad = []
    for _ in range(100 if ctx.quick() else 2000):
        groups = stub_groups(rnd, rnd.randint(2, 5))
        ops = [tuple(rnd.sample(range(len(groups)), 2)) for _ in range(rnd.randint(1, 8))]
        for a, b in ops:
            groups[a].couple_non_covalently(groups[b])
        ctx.case(key=("couple", tuple(ops)))
        for g in groups:
            for h in g.non_covalently_coupled_groups:
                if not any(x is g for x in h.non_covalently_coupled_groups):
                    sym_bad.append((ops, g.label, h.label))
            if len({id(x) for x in g.non_covalently_coupled_groups}) != len(g.non_covalently_coupled_groups):
                sym_bad.append((ops, g.label, "duplicate"))
    for b in sym_bad[:2]:
        ctx.violate("coupling-asymmetric", "after couple_non_covalently calls %r: %s / %s" % b, dict(ops=b[0]))
    ctx.oblige("spec: coupled lists symmetric and duplicate-free after random couple_non_covalently sequences", not sym_bad, str(sym_bad[:1]))
    # real runs: analysis on vs off
    inputs = [(n, t) for n, t in pdbgen.test_files(["1HPX", "3SGB-subset", "1FTJ-Chain-A"] if ctx.quick() else ["1HPX", "3SGB", "4DFR", "1FTJ-Chain-A", "conf-alt-AB"])]
    for i in range(5 if ctx.quick() else 40):
        lines, ids = pdbgen.multichain(rnd, nchains=rnd.randint(1, 3), separation=rnd.choice([12.0, 20.0, 60.0]))
        inputs.append(("gen%d" % i, pdbgen.text(lines)))
    # same-label twins coupled to a third group: several determinants with one label next to each other in the swapped lists
    inputs.append(("1FTJ-LYS210-210A", pdbgen.text(pdbgen.salt_bridge_twins())))
    # a pair that is coupled in the second conformation only: coupling marks must not leak between conformations
    inputs.append(("1HPX-ASP25B-two-rotamers", pdbgen.text(pdbgen.coupled_in_one_conformation())))
    # a group that is discarded by a covalent coupling (the side chain of an N-terminal Asp loses against its own amino group) and
    # non-covalently coupled to another group at the same time: 1HPX with chain B cut in front of Asp 25
    hp = dict(pdbgen.test_files(["1HPX"]))["1HPX"]
    inputs.append(("1HPX-chainB-from-ASP25", pdbgen.text([l for l in pdbgen.lines_of(hp) if not (pdbgen.is_atom(l) and l[21] == "B" and int(l[22:26]) < 25)])))
    off_bad, star_bad, npairs = [], [], 0
    for name, text in inputs:
        on = observe.run(text, [], want_text=True)
        NCCG.do_prot_stat = False
        try:
            off = observe.run(text, [], want_text=False)
        finally:
            NCCG.do_prot_stat = True
        if on.error or off.error:
            continue
        # a history: searching for coupled groups once more on the finished molecule (no -d) must leave everything as it is
        if on.mol.options.display_coupled_residues is False or not getattr(on.mol.options, "display_coupled_residues", False):
            snap = {c: [(g.label, g.pka_value, [sorted(real_dets(g.determinants[t])) for t in ('sidechain', 'backbone', 'coulomb')]) for g in conf.groups]
                    for c, conf in on.mol.conformations.items()}
            on.mol.find_non_covalently_coupled_groups()
            for c, conf in on.mol.conformations.items():
                for (lab, pk, dets), g in zip(snap[c], conf.groups):
                    if abs(pk - g.pka_value) > 1e-9 or dets != [sorted(real_dets(g.determinants[t])) for t in ('sidechain', 'backbone', 'coulomb')]:
                        off_bad.append((name, c, ["a second search for coupled groups changed %s: pKa %r -> %r" % (lab, pk, g.pka_value)], text))
                        break
        coupled = sum(len(g["coupled"]) for c, gs in on.confs.items() if c != "AVR" for g in gs) // 2
        npairs += coupled
        ctx.case(key=(name, hash(text)), nontrivial=coupled > 0)
        ctx.count("real runs")
        for c in on.confs:
            d = observe.compare_groups(on.confs[c], off.confs[c], tol=1e-9)
            if d:
                off_bad.append((name, c, d[:3], text))
        # symmetry and stars on the real objects
        for cname, conf in on.mol.conformations.items():
            own = {id(x) for x in conf.groups}
            for g in conf.groups:
                for h in g.non_covalently_coupled_groups:
                    if cname != "AVR":
                        # inside a conformation: the partner is a group of this conformation and lists the group back, by identity
                        if id(h) not in own:
                            star_bad.append((name, cname, "%s is marked coupled to %s, which is a group of another conformation" % (g.label, h.label), text))
                        elif not any(x is g for x in h.non_covalently_coupled_groups):
                            star_bad.append((name, cname, "coupling %s -> %s not mirrored" % (g.label, h.label), text))
                    elif not any(x is g for x in h.non_covalently_coupled_groups) and not any(x.label == g.label for x in h.non_covalently_coupled_groups):
                        star_bad.append((name, cname, "coupling %s -> %s not mirrored" % (g.label, h.label), text))
                row = g.get_determinant_string(False)
                has_star = bool(re.match(r"^.{%d} *-?\d+\.\d\d\*" % len(g.label), row)) if row else False
                if row and has_star != (len(g.non_covalently_coupled_groups) > 0):
                    star_bad.append((name, cname, "row of %s starred=%s, coupled partners=%d" % (g.label, has_star, len(g.non_covalently_coupled_groups)), text))
    ctx.count("coupled pairs in real runs", npairs)
    for b in off_bad[:2]:
        ctx.violate("nccg-disturbs:" + b[0], "%s %s: results with the coupling analysis differ from results without it: %s" % (b[0], b[1], "; ".join(b[2])), dict(pdb=b[3], conformation=b[1], diffs=b[2]))
    ctx.oblige("spec: coupling analysis on = off for every pKa, desolvation term and determinant (real runs, %d coupled pairs)" % npairs, not off_bad, str([(b[0], b[2][:1]) for b in off_bad[:2]]))
    for b in star_bad[:2]:
        ctx.violate("star:" + b[0], "%s %s: %s" % b[:3], dict(pdb=b[3], problem=b[2]))
    ctx.oblige("spec: coupled lists symmetric and determinant rows starred iff a coupled partner exists (every conformation)", not star_bad, str([b[:3] for b in star_bad[:2]]))
    if ctx.driver_ok:
        outs = common.driver_batch(reqs)
        dis = []
        for q, r, m in zip(reqs, reals, outs):
            mm = []
            for part in m.split(" "):
                f = part.split("|")
                mm.append("%s|%s" % (f[0], "|".join(repr(dec_dets(x)) for x in f[1:])))
            if " ".join(mm) != r:
                dis.append((q[:80], r[:160], " ".join(mm)[:160]))
        ctx.oblige("correspondence: Float swap model = real swap_interactions (ordered lists, labels, bit patterns; %d swaps)" % len(reqs), not dis, str(dis[:1]))
    else:
        ctx.oblige("correspondence: swap model = real swap_interactions", False, "driver not built")


def replay(ctx, rep):
    print(rep["what"])
    return 0
