"""C17 - added hydrogens are chemically placed and complete."""
import math

from .. import common, observe, pdbgen

SPEC = dict(
    claim="Over the reals on the generic constructions that also run at Float: set_bond_distance puts the hydrogen exactly at the "
          "tabulated X-H length from its parent; completing a trigonal centre gives a direction at equal angles to both bonds (unit, "
          "120 degrees when the bonds are 120 degrees apart); two hydrogens at bond length d along unit directions 120 degrees apart are "
          "d*sqrt(3) apart; turning the bond vector about any axis perpendicular to it puts the first hydrogen at exactly the turn angle "
          "(corollary of the rotation theorem of C20), and both axes the code uses are perpendicular to the bond; add_proton gives the "
          "hydrogen exactly one bonded atom. `decide` over the regenerated electron-counting table: every nitrogen of a complete "
          "standard residue gets exactly His 1+1, Arg 1+2+2, Asn/Gln 2, Trp 1, backbone 1 (Pro 0) with a steric number and bond count "
          "the builder handles, totals match the group's expectation table, both tables share their keys. Every trigonal/tetrahedral "
          "call of real runs is replayed through the Float model bit-for-bit (incl. an exact model of round(x, 3)); parent count, "
          "bond length, separation, complement, warnings and orientation independence are evaluated on real runs. Orientation: over R, for each "
          "of the 24 grid rotations followed by a translation, the vector helpers, the Rodrigues rotation and hence the code's "
          "rotate_vector_around_an_axis are equivariant (rotateAround_equivariant), and so are the constructions that do not use an "
          "arbitrary perpendicular: completing a trigonal centre, completing a tetrahedral centre, a methylene group, an amide / guanidinium "
          "NH2 (trigonal_completion_equivariant, tetrahedral_completion_equivariant, methylene_equivariant, amide_nh2_equivariant): the "
          "hydrogens built in the moved frame are the moved hydrogens.",
    note="Partial: the >= 0.5 A separation after the intermediate rounding to 0.001 A follows only informally from the exact d*sqrt(3) "
         "(margin ~1 A); it is measured on every generated structure. Orientation independence is claimed for hydrogens of amino-acid "
         "residues built by default (every such construction is plane- or completion-defined); terminal rotatable hydrogens of hetero "
         "groups and of --protonate-all use Vector.orthogonal() and are frame-dependent by design.",
    technique="Lean 4/Mathlib proof over the reals + decide over the regenerated topology/valence tables + bitwise trace-driven correspondence",
    lean=["Propka.Props.C17"],
    rule="test files and library fragments (complete residues with neighbours, fragment ends, ligands) x {default, --protonate-all} x 24 "
         "axis-permuting rotations (subset in quick); every recorded construction call; non-trivial = a call that adds a hydrogen",
    assumptions=["rounding of constructed coordinates to 0.001 A"],
)

EXPECT = {"HIS": 2, "ARG": 5, "ASN": 2, "GLN": 2, "TRP": 1}
SIDE_N = {"HIS": ["ND1", "NE2"], "ARG": ["NE", "NH1", "NH2"], "ASN": ["ND2"], "GLN": ["NE2"], "TRP": ["NE1"]}


class Recorder:
    def __init__(self):
        self.calls = []

    def __enter__(self):
        import propka.protonate as pr
        import propka.group as G
        self.pr, self.G = pr, G
        self.orig3, self.orig4 = pr.Protonate.trigonal, pr.Protonate.tetrahedral
        calls = self.calls

        def wrap(kind, orig):
            def f(self_, atom):
                b = list(atom.bonded_atoms)
                nbs, others = 0, []
                if kind == 3 and len(b) == 1 and atom.number_of_protons_to_add > 0:
                    self_.set_steric_number_and_lone_pairs(b[0])
                    nbs = b[0].steric_number if len(b[0].bonded_atoms) > 1 else 0
                    others = [o for o in b[0].bonded_atoms if o is not atom]
                rec = dict(kind=kind, toAdd=atom.number_of_protons_to_add, elem=atom.element, atom=(atom.x, atom.y, atom.z),
                           bonded=[(x.x, x.y, x.z) for x in b], nbS=nbs, others=[(o.x, o.y, o.z) for o in others])
                n0 = len(atom.bonded_atoms)
                orig(self_, atom)
                rec['out'] = [(h.x, h.y, h.z) for h in atom.bonded_atoms[n0:]]
                rec['bl'] = self_.bond_lengths.get(atom.element, 1.0)
                calls.append(rec)
            return f
        pr.Protonate.trigonal = wrap(3, self.orig3)
        pr.Protonate.tetrahedral = wrap(4, self.orig4)
        self.saved = G.PROTONATOR
        G.PROTONATOR = pr.Protonate(verbose=False)
        return self

    def __exit__(self, *a):
        self.pr.Protonate.trigonal, self.pr.Protonate.tetrahedral = self.orig3, self.orig4
        self.G.PROTONATOR = self.saved


def call_req(c):
    toks = [c['kind'], c['toAdd'], common.bits(c['bl']), c['nbS']] + [common.bits(v) for v in c['atom']]
    toks.append(len(c['bonded']))
    for b in c['bonded']:
        toks += [common.bits(v) for v in b]
    toks.append(len(c['others']))
    for b in c['others']:
        toks += [common.bits(v) for v in b]
    return "prot build " + " ".join(map(str, toks))


def dist(a, b):
    return math.sqrt(sum((p - q) ** 2 for p, q in zip(a, b)))


def complete_residues(conf):
    """residues with all expected heavy atoms whose chain neighbours (previous C, next N) are present"""
    from propka.lib import EXPECTED_ATOM_NUMBERS
    res = {}
    for a in conf.atoms:
        if a.type == 'atom' and a.element != 'H':
            res.setdefault((a.chain_id, a.res_num, a.icode, a.res_name), []).append(a)
    out = []
    for key, atoms in res.items():
        rn = key[3]
        if rn not in EXPECTED_ATOM_NUMBERS or len(atoms) != EXPECTED_ATOM_NUMBERS[rn] or any(a.terminal for a in atoms):
            continue
        n = next((a for a in atoms if a.name == 'N'), None)
        c = next((a for a in atoms if a.name == 'C'), None)
        if n is None or c is None:
            continue
        if not any(b.name == 'C' and b.res_num != n.res_num for b in n.bonded_atoms):
            continue
        if not any(b.name == 'N' and b.res_num != c.res_num for b in c.bonded_atoms):
            continue
        # regular covalent geometry: the distance rule reproduces the standard bond graph around the nitrogens
        tmpl = _TEMPLATE()
        regular = len(n.get_bonded_heavy_atoms()) == (3 if rn == 'PRO' else 2)
        for x in SIDE_N.get(rn, []):
            a = next((q for q in atoms if q.name == x), None)
            if a is None or sorted(b.name for b in a.get_bonded_heavy_atoms()) != sorted(tmpl[rn][x]):
                regular = False
        if not regular:
            continue
        out.append((key, atoms))
    return out


_T = {}


def _TEMPLATE():
    if not _T:
        from propka.bonds import BondMaker
        _T.update(BondMaker().protein_bonds)
    return _T


def structure_problems(o, input_h):
    from propka.protonate import Protonate
    bl = Protonate().bond_lengths
    probs = []
    nh = 0
    for cname, conf in o.mol.conformations.items():
        if cname == "AVR":
            continue
        for a in conf.atoms:
            if a.element != 'H' or (round(a.x, 3), round(a.y, 3), round(a.z, 3)) in input_h:
                continue
            nh += 1
            heavy = [b for b in a.bonded_atoms if b.element != 'H']
            if len(a.bonded_atoms) != 1 or len(heavy) != 1:
                probs.append("%s hydrogen %s bonded to %d atoms" % (cname, a.residue_label, len(a.bonded_atoms)))
                continue
            p = heavy[0]
            d = dist((a.x, a.y, a.z), (p.x, p.y, p.z))
            want = bl.get(p.element, 1.0)
            if abs(d - want) > math.sqrt(3) * 0.0005 + 1e-9:
                probs.append("%s hydrogen %s at %.4f A from %s, tabulated %.2f" % (cname, a.residue_label, d, p.name, want))
            # a hydrogen points away from the heavy atoms its parent is bonded to
            for nb in p.bonded_atoms:
                if nb.element != 'H' and dist((a.x, a.y, a.z), (nb.x, nb.y, nb.z)) < 0.8:
                    probs.append("%s hydrogen %s on %s lies %.3f A from %s, a heavy neighbour of its parent" % (cname, a.residue_label, p.name, dist((a.x, a.y, a.z), (nb.x, nb.y, nb.z)), nb.name))
        for p in conf.atoms:
            hs = [b for b in p.bonded_atoms if b.element == 'H'] if p.element != 'H' else []
            for i in range(len(hs)):
                for j in range(i):
                    if dist((hs[i].x, hs[i].y, hs[i].z), (hs[j].x, hs[j].y, hs[j].z)) < 0.5:
                        probs.append("%s two hydrogens on %s %s closer than 0.5 A" % (cname, p.name, p.residue_label))
        # a backbone nitrogen that is peptide-bonded to the carbonyl carbon of another residue of its chain is an amide: it is
        # not a chain start and carries exactly one hydrogen (none for proline)
        for a in conf.atoms:
            if a.type == 'atom' and a.name == 'N' and a.element == 'N':
                prev = [b for b in a.bonded_atoms if b.name == 'C' and b.chain_id == a.chain_id and (b.res_num, b.icode) != (a.res_num, a.icode)]
                if len(prev) == 1 and len(a.get_bonded_heavy_atoms()) == (3 if a.res_name == 'PRO' else 2):
                    nh = a.count_bonded_elements('H')
                    if a.terminal == 'N+' or nh != (0 if a.res_name == 'PRO' else 1):
                        probs.append("%s amide nitrogen of %s %s%s (bonded to C of %s%s): terminal=%r, %d hydrogens" % (
                            cname, a.res_name, a.res_num, a.icode.strip(), prev[0].res_num, prev[0].icode.strip(), a.terminal, nh))
        # complement of complete residues
        for key, atoms in complete_residues(conf):
            rn = key[3]
            byname = {a.name: a for a in atoms}
            nb = byname['N'].count_bonded_elements('H')
            want = 0 if rn == 'PRO' else 1
            if nb != want and byname['N'].is_protonated:
                probs.append("%s backbone N of %s %s has %d hydrogens" % (cname, rn, key[1], nb))
            if rn in EXPECT and all(byname[x].is_protonated for x in SIDE_N[rn]):
                tot = sum(byname[x].count_bonded_elements('H') for x in SIDE_N[rn])
                if tot != EXPECT[rn]:
                    probs.append("%s %s %s side chain has %d of %d hydrogens" % (cname, rn, key[1], tot, EXPECT[rn]))
    return probs, nh


TERMINAL_BONDS = {"SER": ("OG", "CB"), "THR": ("OG1", "CB"), "LYS": ("NZ", "CE"), "TYR": ("OH", "CZ"), "CYS": ("SG", "CB"), "MET": ("CE", "SD"),
                  "ILE": ("CD1", "CG1"), "LEU": ("CD1", "CG"), "VAL": ("CG1", "CB"), "ALA": ("CB", "CA"), "THR2": ("CG2", "CB")}


def axis_aligned(rnd, lines):
    """the same fragment with one terminal atom (a single heavy neighbour) moved so that its bond lies exactly along a coordinate
    axis - the configurations in which a construction based on an arbitrary perpendicular direction degenerates"""
    cands = []
    for i, l in enumerate(lines):
        if not l.startswith("ATOM"):
            continue
        for rn, (t, par) in TERMINAL_BONDS.items():
            if l[17:20] == rn[:3] and l[12:16].strip() == t:
                js = [j for j, m in enumerate(lines) if m.startswith("ATOM") and pdbgen.res_key(m) == pdbgen.res_key(l) and m[12:16].strip() == par]
                if js:
                    cands.append((i, js[0]))
    if not cands:
        return None
    i, j = rnd.choice(cands)
    (tx, ty, tz), (px, py, pz) = pdbgen.coords(lines[i]), pdbgen.coords(lines[j])
    u = [tx - px, ty - py, tz - pz]
    n = math.sqrt(sum(c * c for c in u))
    u = [c / n for c in u]
    ax, sg = rnd.randrange(3), rnd.choice([1.0, -1.0])
    e = [0.0, 0.0, 0.0]
    e[ax] = sg
    c = sum(a * b for a, b in zip(u, e))
    if c < -0.95:                      # nearly opposite: turn onto the other sense of the same axis instead
        e[ax], sg, c = -sg, -sg, -c
    v = [u[1] * e[2] - u[2] * e[1], u[2] * e[0] - u[0] * e[2], u[0] * e[1] - u[1] * e[0]]
    K = [[0.0, -v[2], v[1]], [v[2], 0.0, -v[0]], [-v[1], v[0], 0.0]]
    K2 = [[sum(K[a][k] * K[k][b] for k in range(3)) for b in range(3)] for a in range(3)]
    R = [[(1.0 if a == b else 0.0) + K[a][b] + K2[a][b] / (1.0 + c) for b in range(3)] for a in range(3)]
    # rigid rotation of the whole fragment about the parent atom (geometry kept up to the rounding to 0.001 A) ...
    out = []
    for l in lines:
        if pdbgen.is_atom(l):
            x, y, z = pdbgen.coords(l)
            d = [x - px, y - py, z - pz]
            w = [sum(R[a][b] * d[b] for b in range(3)) for a in range(3)]
            l = pdbgen.set_coords(l, px + w[0], py + w[1], pz + w[2])
        out.append(l)
    # ... and the terminal atom exactly on the axis through its parent
    q = [px, py, pz]
    q[ax] = q[ax] + sg * round(n, 3)
    out[i] = pdbgen.set_coords(out[i], *q)
    return out, (lines[i][12:26], "xyz"[ax], sg)


def h_positions(o):
    out = []
    for cname, conf in o.mol.conformations.items():
        if cname == "AVR":
            continue
        for a in conf.atoms:
            if a.element == 'H' and a.type == 'atom' and a.bonded_atoms:
                p = a.bonded_atoms[0]
                # plane- or completion-defined constructions only (a single neighbour without a plane gets a frame-dependent rotamer)
                from .c04 import rotamer_is_arbitrary
                if rotamer_is_arbitrary(p):
                    continue
                out.append(((cname, p.chain_id, p.res_num, p.icode, p.name), (a.x, a.y, a.z)))
    return out


def run(ctx):
    rnd = ctx.rng
    inputs = [(n, t) for n, t in pdbgen.test_files(["1HPX", "sample-issue-140", "3SGB-subset"] if ctx.quick() else ["1HPX", "3SGB", "4DFR", "1FTJ-Chain-A", "sample-issue-140"])]
    for i in range(6 if ctx.quick() else 60):
        lines, ids = pdbgen.multichain(rnd, nchains=rnd.randint(1, 2))
        if i % 3 == 2:
            # the second and third residue of a chain share the first residue's number (insertion codes A, B)
            items = pdbgen.split_residues(lines)
            res = [k for k, it in enumerate(items) if it[0] == "res" and it[2][0].startswith("ATOM")]
            if len(res) >= 4 and len({items[k][2][0][21] for k in res[:3]}) == 1:
                num = items[res[0]][2][0][22:26]
                for k, ic in zip(res[1:3], "AB"):
                    items[k] = ("res", None, [pdbgen.setcols(pdbgen.setcols(l, 22, 26, num), 26, 27, ic) for l in items[k][2]])
                lines = pdbgen.flatten(items)
        inputs.append(("gen%d" % i, pdbgen.text(lines)))
    # a peptide plane parallel to a coordinate plane: a nitrogen and both its neighbours share one coordinate exactly
    for i in range(2 if ctx.quick() else 10):
        lines, ids = pdbgen.multichain(rnd, nchains=1)
        al = pdbgen.align_peptide_plane(rnd, lines)
        if al is not None:
            inputs.append(("plane-aligned%d" % i, pdbgen.text(al)))
    sbad, wbad, obad = [], [], []
    calls = []
    rots = pdbgen.rotations24()
    for name, text in inputs:
        input_h = set()
        for mode in ([], ["--protonate-all"]):
            with Recorder() as rec:
                o = observe.run(text, mode, want_text=False, capture_log=True)
            calls += rec.calls
            if o.error:
                ctx.count("runs with error " + o.error[0])
                continue
            probs, nh = structure_problems(o, input_h)
            ctx.case(key=(name, tuple(mode), hash(text)), nontrivial=nh > 0)
            ctx.count("hydrogens checked", nh)
            if probs:
                sbad.append((name, mode, probs[:3], text))
            if not mode:
                # no warning for complete residues: a warning does not say which conformation it is about, so for each
                # (number, chain) the number of warnings must not exceed the number of conformations in which the residue
                # is incomplete or irregular
                names = [c for c in o.mol.conformations if c != "AVR"]
                complete_in = {}
                for cname in names:
                    for key, atoms in complete_residues(o.mol.conformations[cname]):
                        complete_in.setdefault((key[1], key[0]), set()).add(cname)
                warned = {}
                for lg, lv, msg in o.log:
                    if msg.startswith("Missing atoms or failed protonation for"):
                        lab = msg[len("Missing atoms or failed protonation for "):].split(" (")[0]
                        num, ch = lab[3:7].strip(), lab[7:].strip()
                        typ = msg.split("(")[1].split(")")[0]
                        if typ in ("HIS", "ARG", "AMD", "TRP", "BBN") and num.lstrip("-").isdigit():
                            warned.setdefault((int(num), ch, typ), []).append(msg)
                for (num, ch, typ), msgs in warned.items():
                    ncomplete = len(complete_in.get((num, ch), set()))
                    if len(msgs) > len(names) - ncomplete:
                        wbad.append((name, msgs[0], text))
        # orientation: amino-acid hydrogens, a few rotations, default mode and --protonate-all
        for omode in ([], ["--protonate-all"]):
          base = observe.run(text, omode, want_text=False)
          if base.error:
            continue
          ks = rnd.sample(range(1, 24), (2 if not omode else 1) if ctx.quick() else (8 if not omode else 3))
          for k in ks:
            m = rots[k]
            lines = pdbgen.rotate(pdbgen.lines_of(text), m)
            o2 = observe.run(pdbgen.text(lines), omode, want_text=False)
            ctx.case(key=(name, "rot", k))
            if o2.error:
                obad.append((name, k, "error %r" % (o2.error,), text))
                continue
            inv = [[m[j][i] for j in range(3)] for i in range(3)]
            rpos = {}
            for key, p in h_positions(o2):
                q = tuple(sum(inv[i][j] * p[j] for j in range(3)) for i in range(3))
                rpos.setdefault(key, []).append(q)
            groups = {}
            for key, p in h_positions(base):
                groups.setdefault(key, []).append(p)
            if set(groups) != set(rpos):
                obad.append((name, k, "different sets of protonated atoms", text))
                continue
            for key, ps in groups.items():
                qs = rpos[key]
                if len(ps) != len(qs) or any(min(dist(p, q) for q in qs) > 0.005 for p in ps):
                    obad.append((name, k, "hydrogens on %r differ: %r vs %r" % (key, ps[:2], qs[:2]), text))
                    break
    # hydrogens supplied in the input (-k): nothing is added on top of a full complement, and a partial one is topped up exactly
    from . import c04
    kbad = []
    for name, text in inputs:
        if not name.startswith("gen"):
            continue
        base = observe.run(text, [], want_text=False)
        if base.error or len(base.mol.conformation_names) != 1:
            continue
        hl = c04.dump_with_h(base, text)
        nh0 = sum(1 for l in hl if pdbgen.is_atom(l) and l[12:16].strip().startswith("H"))
        if nh0 == 0:
            continue
        hidx = [i for i, l in enumerate(hl) if pdbgen.is_atom(l) and l[12:16].strip().startswith("H")]
        drop = set(rnd.sample(hidx, min(len(hidx), rnd.randint(1, 4))))
        for label, lines2 in (("all hydrogens supplied", hl), ("%d hydrogens removed" % len(drop), [l for i, l in enumerate(hl) if i not in drop])):
            o = observe.run(pdbgen.text(lines2), ["-k"], want_text=False, capture_log=True)
            ctx.case(key=(name, "keep", label, hash(text)), nontrivial=True)
            ctx.count("keep-protons runs (%s)" % ("full" if lines2 is hl else "partial"))
            if o.error:
                kbad.append((name, label, ["error %r" % (o.error,)], pdbgen.text(lines2)))
                continue
            conf = o.mol.conformations[o.mol.conformation_names[0]]
            nh = sum(1 for a in conf.atoms if a.element == 'H')
            d = []
            if nh != nh0:
                d.append("%d hydrogens after the run, the full complement has %d" % (nh, nh0))
            given = {(round(pdbgen.coords(l)[0], 3), round(pdbgen.coords(l)[1], 3), round(pdbgen.coords(l)[2], 3)) for l in lines2 if pdbgen.is_atom(l) and l[12:16].strip().startswith("H")}
            probs, _ = structure_problems(o, given)
            d += probs[:2]
            if d:
                kbad.append((name, label, d[:3], pdbgen.text(lines2)))
    for b in kbad[:2]:
        ctx.violate("keep-protons:" + b[1].split(" ")[-1], "%s with -k, %s: %s" % (b[0], b[1], "; ".join(b[2])), dict(pdb=b[3], args=["-k"], problems=b[2]))
    ctx.oblige("spec: with --keep-protons a full complement of input hydrogens is left as it is and a partial one is completed exactly", not kbad, str([(b[0], b[1], b[2][:1]) for b in kbad[:2]]))
    # bonds exactly along a coordinate axis (under --protonate-all every terminal atom is protonated)
    for i in range(12 if ctx.quick() else 120):
        lines, ids = pdbgen.multichain(rnd, nchains=1)
        r = axis_aligned(rnd, lines)
        if r is None:
            continue
        al, what = r
        o = observe.run(pdbgen.text(al), ["--protonate-all"], want_text=False)
        ctx.case(key=("axis", what, hash(pdbgen.text(al))))
        ctx.count("axis-aligned terminal bonds")
        if o.error:
            continue
        probs, nh = structure_problems(o, set())
        if probs:
            sbad.append(("axis%d %r" % (i, what), ["--protonate-all"], probs[:3], pdbgen.text(al)))
    for b in sbad[:3]:
        ctx.violate("hydrogen:" + b[2][0].split(" ", 1)[1][:30], "%s %r: %s" % (b[0], b[1], "; ".join(b[2])), dict(pdb=b[3], args=b[1], problems=b[2]))
    ctx.oblige("spec: each added hydrogen has one heavy parent at the tabulated length, H-H >= 0.5 A, full complement on complete residues", not sbad,
               str([(b[0], b[1], b[2][:1]) for b in sbad[:2]]))
    for b in wbad[:2]:
        ctx.violate("protonation-warning:" + b[0], "%s: warning for a complete residue: %s" % (b[0], b[1]), dict(pdb=b[2], warning=b[1]))
    ctx.oblige("spec: no 'missing atoms or failed protonation' warning for complete residues with neighbours", not wbad, str([(b[0], b[1]) for b in wbad[:2]]))
    for b in obad[:2]:
        ctx.violate("orientation:" + b[0], "%s rotation %d: %s" % (b[0], b[1], b[2]), dict(pdb=b[3], rotation=b[1], problem=b[2]))
    ctx.oblige("spec: hydrogen positions of amino-acid residues agree across axis-permuting rotations up to rounding", not obad, str([(b[0], b[1], b[2][:80]) for b in obad[:2]]))
    if ctx.driver_ok:
        # replay every recorded construction call
        uniq = {}
        for c in calls:
            uniq.setdefault(call_req(c), c)
        reqs = list(uniq)
        if len(reqs) > (4000 if ctx.quick() else 10 ** 6):
            reqs = rnd.sample(reqs, 4000)
        outs = common.driver_batch(reqs)
        dis = []
        shapes = {}
        for q, m in zip(reqs, outs):
            c = uniq[q]
            exp = [common.bits(v) for h in c['out'] for v in h]
            got = [int(x) for x in m.split()] if m != "-" else []
            key = "kind%d/%dbonds/+%dH" % (c['kind'], len(c['bonded']), len(c['out']))
            shapes[key] = shapes.get(key, 0) + 1
            ctx.case(key=q, nontrivial=bool(c['out']))
            if exp != got:
                dis.append((key, c['atom'], [common.unbits(x) for x in exp][:3], [common.unbits(x) for x in got][:3]))
        ctx.coverage["construction_shapes"] = shapes
        ctx.oblige("correspondence: Float trigonal/tetrahedral model = real constructions bit-for-bit (%d recorded calls, %d shapes)" % (len(reqs), len(shapes)),
                   not dis, str(dis[:1]))
        # round(x, 3)
        vals = [rnd.uniform(-1000, 1000) for _ in range(2000)] + [k / 1000.0 + 0.0005 for k in range(-500, 500)] + [k / 8.0 + 0.0625 for k in range(-100, 100)]
        outs = common.driver_batch(["prot round3 %d" % common.bits(v) for v in vals])
        dis = [(v, round(v, 3), common.unbits(int(m))) for v, m in zip(vals, outs) if common.bits(round(v, 3)) != int(m)]
        ctx.oblige("correspondence: exact round3 model = Python round(x, 3) bit-for-bit (%d values incl. ties)" % len(vals), not dis, str(dis[:2]))
        # electron counting on stub atoms
        from propka.protonate import Protonate
        from propka.atom import Atom
        pr = Protonate()
        reqs, reals = [], []
        for _ in range(300):
            a = Atom()
            a.element = rnd.choice(["C", "N", "O", "S", "P"])
            a.bonded_atoms = [Atom() for _ in range(rnd.randint(0, 4))]
            a.num_pi_elec_2_3_bonds, a.num_pi_elec_conj_2_3_bonds = rnd.randint(0, 2), rnd.randint(0, 1)
            a.charge = rnd.choice([0, 0, 1.0, -1.0])
            pr.set_number_of_protons_to_add(a)
            pr.set_steric_number_and_lone_pairs(a)
            reqs.append("prot count %d %d %d %d %d" % (pr.valence_electrons[a.element], len(a.bonded_atoms), a.num_pi_elec_2_3_bonds, a.num_pi_elec_conj_2_3_bonds, int(a.charge)))
            reals.append("%d %d" % (a.number_of_protons_to_add, a.steric_number))
        outs = common.driver_batch(reqs)
        dis = [(q, r, m) for q, r, m in zip(reqs, reals, outs) if r != m]
        ctx.oblige("correspondence: electron counting model = set_number_of_protons_to_add / set_steric_number (300 stub atoms)", not dis, str(dis[:2]))
    else:
        ctx.oblige("correspondence: protonation model = real code", False, "driver not built")


def replay(ctx, rep):
    r = rep["replay"]
    if "pdb" in r:
        o = observe.run(r["pdb"], r.get("args", []))
        probs = structure_problems(o, set())[0] if not o.error else [str(o.error)]
        print(probs[:5])
        return 1 if probs else 0
    return 0
