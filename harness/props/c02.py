"""C02 - reported pKa = model pKa + listed contributions; the .pka file renders the same numbers."""
import os
import re
import tempfile

from .. import common, observe, pdbgen
from ..dets_common import enc_group, real_dets, dec_dets

SPEC = dict(
    claim="Lean theorems over exact arithmetic on the determinant-record model: calculate_total_pka establishes pKa = model + both "
          "desolvation terms + sum of all side-chain, backbone and Coulomb determinants (99.99 for a bridged cysteine), so any "
          "mutation followed by it (removal of penalised partners, sharing, swapping - each swap recomputes both groups) leaves the "
          "identity true; averaging the records of the conformations in which a group exists keeps it (induction over the records, "
          "merging determinants by partner preserves sums), with the decided counter-example for dividing by too many "
          "conformations; the determinant rows printed over max(1,#sc,#bb,#cb) lines are exactly the three lists, each entry once. "
          "The Float total is compared bit-for-bit with the real groups. The identity is evaluated on every group of every "
          "conformation and of the average for real runs under all scoring-relevant settings (titrate-only, chain selection, -d, "
          "remove_penalised_group, shared_determinants, common_charge_centre), and the .pka text is parsed back: rows = determinants, "
          "table pKa = summary pKa = API value to the printed precision. The tail of calculate_pka (coupling_effects, removal of the "
          "determinants towards penalised groups from the titratable groups, recalculation of every total) is replayed through the model: "
          "the state of every group when coupling_effects is entered plus the labels it returns give, through removeDeterminants and "
          "calculateTotal, the state when calculate_pka returns, bit-for-bit (remove_then_total is the theorem about that step). "
          "The whole scoring phase is modelled as well (Model/Scoring.lean: calculate_pka of one conformation with everything it calls - desolvation, backbone and ion determinants, backbone reorganisation, the pair loop with angle factors, exception rules and both families of pair rules, the iterative scheme, totals, coupling penalties and the removal of determinants towards penalised groups; parameters regenerated from /repo and read back from the compiled driver); its Float instance is compared with the real calculate_pka on every distinct conformation this check runs - counts, partners and order exactly, numbers to 1e-9 (they are bit-identical on the unchanged tree). pipeline_consistent: for every structure, parameter set and switch, the pKa that score leaves on a group is calculate_total_pka of exactly the desolvation terms and determinant lists it leaves on that group - proved for every scalar type, hence also for the Float instance that is compared with the code; pipeline_sum_identity is the reals form (model pKa + both desolvation terms + the three sums; the configured value for a bridged cysteine). The determinant table and the summary of the .pka file are modelled (Model/Output.lean, with Python's fixed-point formatting as exact round-half-even of the binary value) on top of Program.run and average_of_conformations; every program-level comparison of this check compares the summary character by character and the table block by block with the real sections. Theorems: summary_rows_once (every reported group whose residue type is in write_out_order has exactly one summary row), summary_and_table_render_one_number. program_pka_consistent (Props/ProgramScoring.lean): on the program model, for any scalar - in particular the Float instance compared with the program bit for bit - the pKa reported for every group of a prepared conformation is calculate_total_pka of its own record.",
    note="The pipeline theorem is about the scoring model (shared_determinants is outside that model and is covered by the record theorems plus the identity evaluated on real runs over all option combinations). Averaging over conformations and the printed rows are separate theorems. Number formatting is Python's; compared at the printed precision.",
    technique="Lean 4 proof (algebra over Q, induction over records, list lemmas for the rows) + bitwise Float correspondence + spec evaluation on real runs",
    lean=["Propka.Props.C02", "Propka.Props.Program", "Propka.Props.ProgramScoring"],
    rule="test files (incl. all multi-conformation ones) and library structures with ligands x option/parameter settings; every group "
         "of every conformation and the average; non-trivial = distinct (structure, settings) with at least one determinant",
    assumptions=[],
)

SETTINGS = [([], {}), (["-d"], {}), ([], {"remove_penalised_group": 0}), ([], {"shared_determinants": 1}),
            ([], {"shared_determinants": 1, "remove_penalised_group": 0}), ([], {"common_charge_centre": 1}),
            (["-d"], {"shared_determinants": 1, "remove_penalised_group": 0, "common_charge_centre": 1}),
            (["--protonate-all"], {}), (["-k"], {})]

_CFG = {}


def cfg_with(over):
    key = tuple(sorted(over.items()))
    if key not in _CFG:
        base = (common.REPO / "propka" / "propka.cfg").read_text()
        f = tempfile.NamedTemporaryFile("w", suffix=".cfg", delete=False, prefix="c02")
        f.write(base + "\n" + "".join("%s %s\n" % kv for kv in over.items()))
        f.close()
        _CFG[key] = f.name
    return _CFG[key]


def cleanup():
    for p in _CFG.values():
        try:
            os.unlink(p)
        except OSError:
            pass
    _CFG.clear()


def identity_problems(o):
    probs = []
    ndet = 0
    for cname, conf in o.mol.conformations.items():
        for g in conf.groups:
            s = g.model_pka + g.energy_volume + g.energy_local
            for t in ('sidechain', 'backbone', 'coulomb'):
                for d in g.determinants[t]:
                    s += d.value
                    ndet += 1
            if g.atom.cysteine_bridge:
                if abs(g.pka_value - 99.99) > 1e-9:
                    probs.append("%s %s: bridged cysteine pKa %r" % (cname, g.label, g.pka_value))
            elif abs(g.pka_value - s) > 1e-9:
                probs.append("%s %s: pKa %.6f but model + contributions = %.6f" % (cname, g.label, g.pka_value, s))
    return probs, ndet


ENTRY = re.compile(r"^\s*(-?\d+\.\d\d) (.{9})$")


def table_problems(o):
    """parse the determinant table and the summary of the written text back and compare with the AVR groups"""
    probs = []
    lines = o.text.split("\n")
    try:
        i0 = next(k for k, l in enumerate(lines) if l.startswith(" RESIDUE    pKa    BURIED"))
        i1 = next(k for k, l in enumerate(lines) if l.startswith("SUMMARY OF THIS PREDICTION"))
    except StopIteration:
        return ["sections missing"]
    params = o.mol.version.parameters
    avr = o.mol.conformations['AVR']
    printed = {}
    order = []
    for l in lines[i0 + 2:i1 - 1]:
        if len(l) < 9 + 40 + 54 or l.startswith("---") or l.startswith("Coupled residues") or l.startswith("or -d"):
            continue
        label = l[:9]
        body = l[9:49]
        ents = [l[49 + 18 * k: 49 + 18 * (k + 1)] for k in range(3)]
        rec = printed.setdefault(label, dict(pka=None, sc=[], bb=[], cb=[], star=False, lines=0))
        if label not in order:
            order.append(label)
        rec["lines"] += 1
        if body.strip():
            m = re.match(r"^\s*(-?\d+\.\d\d)(\*| )", body)
            if m:
                rec["pka"] = float(m.group(1))
                rec["star"] = m.group(2) == "*"
        for key, e in zip(("sc", "bb", "cb"), ents):
            m = ENTRY.match(e)
            if not m:
                probs.append("unparsable determinant entry %r" % e)
                continue
            if m.group(2) != "XXX   0 X":
                rec[key].append((float(m.group(1)), m.group(2)))
    # groups that the section prints: those of the AVR conformation whose residue type is in write_out_order
    shown = [g for g in avr.groups if g.residue_type in params.write_out_order and not (g.coupled_titrating_group and params.remove_penalised_group)]
    labels = [g.label for g in shown]
    if sorted(printed) != sorted(set(labels)):
        probs.append("table lists %r, groups are %r" % (sorted(printed)[:6], sorted(set(labels))[:6]))
        return probs
    # the summary lists every reported group once, in write_out_order, with the pKa of the API to the printed precision
    # (evaluated on the rows themselves, so that two groups which print the same label are both required)
    srows = []
    for l in lines[i1 + 2:]:
        if l.startswith("-----"):
            break
        m = re.match(r"^   (.{9}) (.{8}) (.{10}) ", l)
        if m:
            srows.append((m.group(1), m.group(2).strip()))
    want_rows = [("%9s" % g.label, "%.2f" % g.pka_value) for rt in params.write_out_order for g in avr.groups
                 if g.residue_type == rt and not (g.coupled_titrating_group and params.remove_penalised_group)]
    if srows != want_rows:
        k = next((i for i, (a, b) in enumerate(zip(srows, want_rows)) if a != b), min(len(srows), len(want_rows)))
        probs.append("summary has %d rows, the reported groups are %d; first difference at row %d: %r vs %r" % (
            len(srows), len(want_rows), k, srows[k] if k < len(srows) else None, want_rows[k] if k < len(want_rows) else None))
    # the determinant table has one block per shown group (a block starts with the line that carries the pKa)
    nblocks = sum(1 for l in lines[i0 + 2:i1 - 1] if len(l) >= 9 + 40 + 54 and not l.startswith("---") and l[9:49].strip())
    if nblocks != len(shown):
        probs.append("determinant table has %d blocks, the shown groups are %d" % (nblocks, len(shown)))
    if len(set(labels)) != len(labels):
        return probs      # duplicate labels: the rows of a block cannot be attributed to one of the twins
    for g in shown:
        rec = printed[g.label]
        for key, t in (("sc", "sidechain"), ("bb", "backbone"), ("cb", "coulomb")):
            want = [(d.value, d.label) for d in g.determinants[t]]
            if len(want) != len(rec[key]) or any(abs(a[0] - b[0]) > 0.0051 or a[1] != b[1] for a, b in zip(rec[key], want)):
                probs.append("%s %s rows %r vs determinants %r" % (g.label, t, rec[key][:3], [(round(v, 3), l) for v, l in want[:3]]))
        nlines = max(1, len(g.determinants['sidechain']), len(g.determinants['backbone']), len(g.determinants['coulomb']))
        if rec["lines"] != nlines:
            probs.append("%s printed on %d lines, expected %d" % (g.label, rec["lines"], nlines))
        if rec["pka"] is None or abs(rec["pka"] - g.pka_value) > 0.0051:
            probs.append("%s table pKa %r vs API %r" % (g.label, rec["pka"], g.pka_value))
    # summary
    for l in lines[i1 + 2:]:
        if l.startswith("-----"):
            break
        m = re.match(r"^   (.{9}) (.{8}) (.{10}) ", l)
        if m and m.group(1) in printed:
            if abs(float(m.group(2)) - printed[m.group(1)]["pka"]) > 1e-9:
                probs.append("%s summary pKa %s vs table pKa %r" % (m.group(1), m.group(2).strip(), printed[m.group(1)]["pka"]))
    return probs


def gen_inputs(ctx):
    rnd = ctx.rng
    out = [(n, t) for n, t in pdbgen.test_files(["1HPX", "3SGB-subset", "conf-alt-AB-mutant", "conf-model-missing-atoms", "sample-issue-140"] if ctx.quick() else None)]
    lib = pdbgen.library()
    hets = [it for k in sorted(lib) if k[1] == "het" for it in lib[k] if len(it[2]) > 5]
    for i in range(4 if ctx.quick() else 40):
        lines, ids = pdbgen.multichain(rnd, nchains=rnd.randint(1, 3), separation=rnd.choice([15.0, 30.0]))
        if i % 2 == 0:
            lines += rnd.choice(hets)[2]
        out.append(("gen%d" % i, pdbgen.text(lines)))
    # covalently coupled systems with a penalised member whose determinants are removed from the other groups
    # two titratable groups with one printed label (same-type insertion-coded twins)
    for _ in range(200):
        lines, ids = pdbgen.multichain(rnd, nchains=1, twins=0.0)
        tw = pdbgen.same_type_twins(rnd, lines, types=("LYS", "ASP", "GLU", "ARG", "TYR", "HIS"))
        if tw is not None:
            o = observe.run(pdbgen.text(tw), [], want_text=False)
            labs = [g["label"] for g in o.confs.get("AVR", []) if g["titratable"]] if not o.error else []
            if any(labs.count(l) > 1 for l in labs):
                out.append(("same-label-twins", pdbgen.text(tw)))
                break
    out.append(("nterm-asp", pdbgen.text(pdbgen.nterm_asp_fragment())))
    out.append(("nterm-asp-hbond", pdbgen.text(pdbgen.nterm_asp_hbond_fragment())))
    # a chain the first conformation owns only through topping-up: its groups still have their blocks in the table
    cl = pdbgen.chain_in_later_conformation(rnd)
    if cl is not None:
        out.append(("chain-only-in-conformation-B", pdbgen.text(cl)))
    # an ensemble of two models that differ strongly (a side chain turned away): determinants differ between the conformations,
    # so every conformation must still add up after the average has been formed
    for n, t in pdbgen.test_files(["1HPX"] if ctx.quick() else ["1HPX", "3SGB"]):
        ls = [l for l in pdbgen.lines_of(t) if l.startswith("ATOM")]
        moved = [pdbgen.set_coords(l, *[round(c + (4.0 if l[17:20] in ("ASP", "GLU", "LYS", "ARG", "HIS", "TYR") and l[12:16].strip() not in ("N", "CA", "C", "O", "CB") else 0.0), 3)
                                      for c in pdbgen.coords(l)]) for l in ls]
        out.append((n + "-two-model-ensemble", "MODEL        1\n" + pdbgen.text(ls) + "ENDMDL\nMODEL        2\n" + pdbgen.text(moved) + "ENDMDL\n"))
    return out


def tail_family(ctx):
    """the tail of ConformationContainer.calculate_pka - coupling_effects, removal of the determinants towards penalised groups,
    recalculation of every total - replayed through the Lean model (`removeDeterminants` + `calculateTotal`): the state of every
    group when coupling_effects is entered, and the labels it returns, give the state when calculate_pka returns"""
    import propka.conformation_container as CC
    snaps = []
    orig_ce = CC.ConformationContainer.coupling_effects
    orig_cp = CC.ConformationContainer.calculate_pka

    def ce(self):
        before = [(enc_group(g), bool(g.titratable)) for g in self.groups]
        pen = orig_ce(self)
        self._verif_tail = (before, list(pen))
        return pen

    def cp(self, version, options):
        r = orig_cp(self, version, options)
        t = getattr(self, "_verif_tail", None)
        if t is not None and not self.parameters.shared_determinants:
            snaps.append((self.name, t[0], t[1] if self.parameters.remove_penalised_group else [], [(g.label, g.pka_value, [real_dets(g.determinants[k]) for k in ('sidechain', 'backbone', 'coulomb')]) for g in self.groups]))
        return r
    CC.ConformationContainer.coupling_effects = ce
    CC.ConformationContainer.calculate_pka = cp
    try:
        texts = [("nterm-asp", pdbgen.text(pdbgen.nterm_asp_fragment())), ("nterm-asp-hbond", pdbgen.text(pdbgen.nterm_asp_hbond_fragment()))]
        texts += [(n, t) for n, t in pdbgen.test_files(["conf-alt-AB-mutant"] if ctx.quick() else ["conf-alt-AB-mutant", "3SGB", "4DFR"])]
        for i in range(3 if ctx.quick() else 30):
            lines, ids = pdbgen.multichain(ctx.rng, nchains=ctx.rng.randint(1, 2), separation=15.0)
            texts.append(("gen%d" % i, pdbgen.text(lines)))
        for name, text in texts:
            observe.run(text, [], want_text=False)
    finally:
        CC.ConformationContainer.coupling_effects = orig_ce
        CC.ConformationContainer.calculate_pka = orig_cp
    reqs, reals, npen = [], [], 0
    for cname, before, pen, after in snaps:
        labels = ",".join(l.encode("latin1").hex() for l in pen) or "-"
        npen += len(pen)
        for (b, titr), (lab, pka, dets) in list(zip(before, after))[:120]:
            # determinants towards penalised groups are removed from the titratable groups only; every total is recalculated
            reqs.append("dets remove %s %s" % (labels if titr else "-", b))
            reals.append("%d|%s" % (common.bits(pka), "|".join(repr(d) for d in dets)))
    ctx.count("conformations replayed through the tail model", len(snaps))
    ctx.count("penalised groups in those conformations", npen)
    if ctx.driver_ok:
        outs = common.driver_batch(reqs) if reqs else []
        dis = []
        for q, r, m in zip(reqs, reals, outs):
            f = m.split("|")
            mm = "%s|%s" % (f[0], "|".join(repr(dec_dets(x)) for x in f[1:]))
            if mm != r:
                dis.append((q[:80], r[:120], mm[:120]))
        ctx.oblige("correspondence: Lean removeDeterminants + calculateTotal = the tail of calculate_pka on real runs (%d groups, %d penalised)" % (len(reqs), npen),
                   not dis, str(dis[:1]))
    else:
        ctx.oblige("correspondence: tail model = real code", False, "driver not built")


def _run(ctx):
    rnd = ctx.rng
    id_bad, tb_bad = [], []
    treqs, treals = [], []
    try:
        for name, text in gen_inputs(ctx):
            settings = SETTINGS if (not ctx.quick() or name in ("3SGB-subset", "conf-alt-AB-mutant")) else rnd.sample(SETTINGS, 3)
            if name == "1HPX" and (["-d"], {}) not in settings:
                # 1HPX has a non-covalently coupled pair (ASP 25 A / ASP 25 B): the persistent alternative-state swap of -d
                settings = settings + [(["-d"], {})]
            for args, over in settings:
                a = list(args)
                if over:
                    a += ["-p", cfg_with(over)]
                if rnd.random() < 0.15:
                    chains = sorted({l[21] for l in pdbgen.lines_of(text) if pdbgen.is_atom(l)})
                    a += ["-c", rnd.choice(chains)]
                o = observe.run(text, a, want_text=True)
                if o.error:
                    ctx.count("runs with error " + o.error[0])
                    continue
                probs, ndet = identity_problems(o)
                ctx.case(key=(name, tuple(args), tuple(sorted(over.items()))), nontrivial=ndet > 0)
                ctx.count("runs")
                ctx.count("determinants checked", ndet)
                if probs:
                    id_bad.append((name, args, over, probs[:3], text))
                tp = table_problems(o)
                if tp:
                    tb_bad.append((name, args, over, tp[:3], text))
                if ctx.driver_ok and not args and not over:
                    for cname, conf in o.mol.conformations.items():
                        if cname == "AVR":
                            continue
                        for g in conf.groups[:200]:
                            treqs.append("dets total " + enc_group(g))
                            treals.append(str(common.bits(g.pka_value)))
    finally:
        cleanup()
    for b in id_bad[:3]:
        over = b[2]
        sig = ("D12:shared-determinants-stale-total" if over.get("shared_determinants") and not over.get("remove_penalised_group", 1) else
               "D7:average-divided-by-all-conformations" if any(p.startswith("AVR") for p in b[3]) else "identity:" + b[0])
        ctx.violate(sig, "%s %r %r: %s" % (b[0], b[1], over, "; ".join(b[3])), dict(pdb=b[4], args=b[1], parameters=over, problems=b[3]))
    ctx.oblige("spec: pKa = model + desolvation + sum of listed determinants for every group of every conformation and the average, all settings",
               not id_bad, "%d runs, first %r" % (len(id_bad), [(b[0], b[1], b[2], b[3][:1]) for b in id_bad[:2]]))
    for b in tb_bad[:2]:
        ctx.violate("table:" + b[0], "%s %r %r: %s" % (b[0], b[1], b[2], "; ".join(b[3])), dict(pdb=b[4], args=b[1], parameters=b[2], problems=b[3]))
    ctx.oblige("spec: determinant rows printed = the group's determinants; table pKa = summary pKa = API value", not tb_bad,
               str([(b[0], b[1], b[2], b[3][:1]) for b in tb_bad[:2]]))
    if ctx.driver_ok:
        outs = common.driver_batch(treqs) if treqs else []
        dis = [(q[:60], r, m) for q, r, m in zip(treqs, treals, outs) if r != m]
        ctx.oblige("correspondence: Float calculateTotal = real pka_value bit-for-bit on %d real groups" % len(treqs), not dis, str(dis[:1]))
        rows = common.driver_batch(["dets rows %d %d %d" % (a, b, c) for a in range(4) for b in range(4) for c in range(4)])
        bad = []
        k = 0
        for a in range(4):
            for b in range(4):
                for c in range(4):
                    want = " ".join("%s,%s,%s" % (str(i < a).lower(), str(i < b).lower(), str(i < c).lower()) for i in range(max(1, a, b, c)))
                    if rows[k] != want:
                        bad.append((a, b, c, rows[k]))
                    k += 1
        ctx.oblige("correspondence: row structure of the model = max(1,#sc,#bb,#cb) lines with fillers (64 shapes)", not bad, str(bad[:1]))
    else:
        ctx.oblige("correspondence: determinant model = real code", False, "driver not built")
    tail_family(ctx)


def run(ctx):
    from .. import scoring_common
    with scoring_common.tie(ctx, "C02's runs"):
        _run(ctx)


def replay(ctx, rep):
    r = rep["replay"]
    if "pdb" in r:
        a = list(r.get("args", []))
        try:
            if r.get("parameters"):
                a += ["-p", cfg_with(r["parameters"])]
            o = observe.run(r["pdb"], a)
            probs = identity_problems(o)[0] + table_problems(o) if not o.error else [str(o.error)]
        finally:
            cleanup()
        print(probs[:5])
        return 1 if probs else 0
    return 0
