"""C11 - bonds = pairwise criterion: real BondMaker vs Lean model (Float and exact Int instances) and
the pairwise specification evaluated on the real code."""
import io
import itertools

from .. import common, pdbgen

SPEC = dict(
    claim="For every atom array on the 0.001 A grid, j is in i's bond list after the cell-list search iff the pair criterion "
          "accepts (i,j); bonds are symmetric and irreflexive; whether two atoms are bonded depends on those two atoms only (order, "
          "other atoms, position relative to the box grid, negative coordinates are irrelevant); both sulfurs of every S-S pair "
          "are flagged; make_bond keeps lists symmetric/irreflexive/duplicate-free over any call sequence. These are Lean theorems "
          "about the very function the driver executes (findBonds), instantiated with the offset list and distances the translator "
          "extracts from bonds.py; obligations on those generated values (half-space completeness, no zero offset, box > longest "
          "bond, symmetric table) are re-proved by `decide` on every run. Correspondence compares ordered bond lists of the real "
          "BondMaker with the model on random clouds, all 26 straddling directions, box-multiple coordinates and the test PDBs. The bonding of a whole conformation is part of the set-up pipeline model (Pipe.bondAll over Bonds.visited, with the disulfide flag) whose output is compared bond list by bond list, in order, with the real atoms on every program-level comparison; bridged_not_titratable (Props/Pipeline.lean) carries the flag to the group. Refinement (Proofs/Pipeline.lean: bondStep_refines, bondFold_refines, bondAll_refines): the bond list of every atom after the pipeline's bonding phase is its adjacency in the pair-list model Bonds.findBonds, in the same order; hence pipeline_bonds_pairwise (any scalar: with a half-complete offset list, a symmetric criterion and bonded atoms in adjacent cells, j is bonded to i iff the criterion accepts the pair), pipeline_bonds_symm, and pipeline_bonds_pairwise_shipped (exact milli-Angstrom arithmetic with the regenerated distances and offsets: no hypothesis left but a table of atoms without bonds).",
    note="Theorem at exact integer milli-Angstrom arithmetic; the Float instance is compared with the code bit-for-bit in its "
         "decisions and the exact instance is compared too (pairs whose squared distance equals a threshold exactly are counted as "
         "near-threshold and skipped for the exact comparison). Elements of more than two letters are outside the key-splitting "
         "assumption. 'bridged cysteine is not titrated' is evaluated on the real code here and modelled with the census (C01).",
    technique="Lean 4 proof (induction over the insertion-ordered box dictionary and the visit sequence) + generated-table obligations + differential correspondence",
    lean=["Propka.Props.C11", "Propka.Props.Pipeline"],
    rule="random atom clouds (2-80 atoms, any density, elements C N O H S F Cl and odd ones, grid coordinates incl. negative), two "
         "atoms straddling a cell boundary in each of the 26 directions at random cells incl. negative and exact box multiples, "
         "test PDB files; non-trivial = a distinct atom array with at least one bonded pair or a straddling pair",
    assumptions=["coordinates are multiples of 0.001 A (PDB format)", "float rounding in squared distances matters only at exact threshold ties"],
)

ELEMS = ["C", "C", "C", "N", "O", "H", "H", "S", "S", "F", "F", "Cl", "", "Hg", "P"]


def make_atoms(recs):
    from propka.atom import Atom
    out = []
    for (e, x, y, z) in recs:
        a = Atom()
        a.element, a.x, a.y, a.z = e, x / 1000.0, y / 1000.0, z / 1000.0
        out.append(a)
    return out


def real_bonds(atoms):
    from propka.bonds import BondMaker
    bm = BondMaker()
    bm.find_bonds_for_atoms_using_boxes(atoms)
    idx = {id(a): i for i, a in enumerate(atoms)}
    return bm, [[idx[id(b)] for b in a.bonded_atoms] for a in atoms]


def adj_from_pairs(n, text):
    adj = [[] for _ in range(n)]
    if text.strip():
        for p in text.split():
            a, b = map(int, p.split("-"))
            adj[b].append(a)
            adj[a].append(b)
    return adj


def gen_cases(ctx):
    rnd = ctx.rng
    cases = []
    box = 2510
    # random clouds
    for _ in range(150 if ctx.quick() else 3000):
        n = rnd.randint(2, 80 if rnd.random() < .2 else 25)
        side = rnd.choice([1500, 3000, 6000, 12000])
        ox, oy, oz = (rnd.randint(-999000, 9990000 - side) for _ in range(3))
        recs = [(rnd.choice(ELEMS), ox + rnd.randint(0, side), oy + rnd.randint(0, side), oz + rnd.randint(0, side)) for _ in range(n)]
        cases.append(("cloud", recs))
    # straddling pairs in all 26 directions, incl. negative cells and exact multiples of the box
    dirs = [d for d in itertools.product((-1, 0, 1), repeat=3) if d != (0, 0, 0)]
    for d in dirs:
        for rep in range(4 if ctx.quick() else 40):
            cell = [rnd.randint(-300, 3000) for _ in range(3)]
            a, b = [], []
            for k in range(3):
                lo = cell[k] * box
                if d[k] == 0:
                    p = lo + rnd.randint(300, box - 300)
                    a.append(p); b.append(p + rnd.randint(-200, 200))
                elif d[k] == 1:
                    off = rnd.choice([1, 2, 10, rnd.randint(1, 600)])
                    a.append(lo + box - off); b.append(lo + box + rnd.choice([0, 1, rnd.randint(0, 500)]))
                else:
                    off = rnd.choice([0, 1, rnd.randint(0, 600)])
                    a.append(lo + off); b.append(lo - rnd.choice([1, 2, rnd.randint(1, 500)]))
            e1, e2 = rnd.choice([("C", "N"), ("S", "S"), ("C", "H"), ("F", "F"), ("H", "H"), ("O", "S")])
            recs = [(e1, *a), (e2, *b)]
            if rnd.random() < .5:
                recs.reverse()
            # a few bystanders
            for _ in range(rnd.randint(0, 3)):
                recs.insert(rnd.randint(0, len(recs)), (rnd.choice(ELEMS), a[0] + rnd.randint(-4000, 4000), a[1] + rnd.randint(-4000, 4000), a[2] + rnd.randint(-4000, 4000)))
            cases.append(("straddle%s" % (d,), recs))
    # exact multiples of the box size and of the thresholds
    for _ in range(40 if ctx.quick() else 400):
        k = [rnd.randint(-5, 5) for _ in range(3)]
        base = [k[i] * box for i in range(3)]
        d = rnd.choice([1500, 2000, 2500, 1700, 1499, 1501, 1999, 2001, 2499, 2501])
        ax = rnd.randrange(3)
        other = list(base); other[ax] += rnd.choice([-1, 1]) * d
        cases.append(("boxmultiple", [(rnd.choice(["C", "S", "H", "F"]), *base), (rnd.choice(["C", "S", "H", "F"]), *other)]))
    return cases


def pdb_cases(ctx):
    from propka.input import get_atom_lines_from_pdb
    out = []
    for name, text in pdbgen.test_files(["1FTJ-Chain-A", "3SGB-subset", "sample-issue-140", "conf-alt-AB"] if ctx.quick() else None):
        atoms = [a for _, a in get_atom_lines_from_pdb(io.StringIO(text), ignore_residues=[], keep_protons=True)]
        atoms = atoms[:700 if ctx.quick() else 3000]
        out.append(("pdb:" + name, [(a.element, round(a.x * 1000), round(a.y * 1000), round(a.z * 1000)) for a in atoms]))
    return out


def spec_eval(ctx, kind, recs):
    """the property on the real code: bonds = code's own criterion over all pairs, symmetric, irreflexive,
    S-S flags.  Returns (problems, adj)"""
    atoms = make_atoms(recs)
    try:
        bm, adj = real_bonds(atoms)
    except Exception as e:  # noqa: BLE001
        return ["real bond search raised %s: %s" % (type(e).__name__, e)], None, 0
    problems = []
    n = len(atoms)
    nb = 0
    sets = [set(x) for x in adj]
    for i in range(n):
        if i in sets[i]:
            problems.append("atom %d bonded to itself" % i)
        if len(sets[i]) != len(adj[i]):
            problems.append("duplicate entry in bond list of %d" % i)
        for j in range(i + 1, n):
            want = bm.check_distance(atoms[i], atoms[j])
            have = j in sets[i]
            if have != (i in sets[j]):
                problems.append("asymmetric bond %d-%d" % (i, j))
            if have != want:
                problems.append("pair (%d,%d): bonded=%s criterion=%s" % (i, j, have, want))
            nb += have
    for i in range(n):
        want = any(atoms[i].element == 'S' and atoms[j].element == 'S' and j != i and bm.check_distance(atoms[i], atoms[j]) for j in range(n))
        if bool(atoms[i].cysteine_bridge) != want:
            problems.append("cysteine_bridge of atom %d is %s, S-S partner within criterion: %s" % (i, atoms[i].cysteine_bridge, want))
    return problems, adj, nb


def run(ctx):
    cases = gen_cases(ctx) + pdb_cases(ctx)
    spec_bad, corr_bad, corr_badm, skipped = [], [], [], 0
    reqs, reqsm, reals = [], [], []
    for kind, recs in cases:
        n = len(recs)
        if n <= 400:
            problems, adj, nb = spec_eval(ctx, kind, recs)
        else:   # all-pairs on a whole protein is slow in Python: sample the pairwise spec through the models instead
            atoms = make_atoms(recs)
            bm, adj = real_bonds(atoms)
            problems, nb = [], sum(map(len, adj)) // 2
        ctx.case(key=("%s:%d:%s" % (kind, n, hash(tuple(recs)))), nontrivial=(nb > 0 or kind.startswith("straddle")))
        ctx.count(kind.split("(")[0].split(":")[0])
        if kind.startswith("straddle") and nb > 0:
            ctx.count("straddling pairs bonded")
        if problems:
            spec_bad.append((kind, recs, problems))
        reals.append(adj)
        reqs.append("bonds find " + " ".join("%s:%d:%d:%d" % (e or "_", common.bits(x / 1000.0), common.bits(y / 1000.0), common.bits(z / 1000.0)) for e, x, y, z in recs))
        reqsm.append("bonds findm " + " ".join("%s:%d:%d:%d" % (e or "_", x, y, z) for e, x, y, z in recs))
    ctx.sample(dict(kind=cases[0][0], atoms=cases[0][1][:6], real_bond_lists=reals[0][:6]))
    k = next(i for i, c in enumerate(cases) if c[0].startswith("straddle"))
    ctx.sample(dict(kind=cases[k][0], atoms=cases[k][1], real_bond_lists=reals[k]))
    for kind, recs, problems in spec_bad[:3]:
        small = recs if len(recs) <= 12 else recs[:12]
        ctx.violate("bonds:" + kind.split(":")[0], "%s: %s" % (kind, "; ".join(problems[:3])),
                    dict(call="BondMaker.find_bonds_for_atoms_using_boxes", atoms_milli=recs, problems=problems[:10]))
    ctx.oblige("spec: real bond lists = code's own criterion over all pairs, symmetric, irreflexive, S-S flags (%d arrays)" % len(cases),
               not spec_bad, "%d arrays differ, first %r" % (len(spec_bad), [(k, p[:2]) for k, _, p in spec_bad[:2]]))
    if ctx.driver_ok:
        outs = common.driver_batch(reqs)
        outsm = common.driver_batch(reqsm)
        for (kind, recs), adj, o, om in zip(cases, reals, outs, outsm):
            if adj is None:
                continue
            if adj_from_pairs(len(recs), o) != adj:
                corr_bad.append((kind, recs[:8], adj[:8], o[:80]))
            # the exact model may traverse boxes in a different order when a coordinate sits on a box boundary in floating
            # point (x/2.51 rounds across an integer): compare the bond *sets* here; list order is compared with the Float model
            if [sorted(x) for x in adj_from_pairs(len(recs), om)] != [sorted(x) for x in adj]:
                # exact vs float: legitimate only when some pair sits exactly on a threshold
                if exact_tie(recs):
                    skipped += 1
                else:
                    corr_badm.append((kind, recs[:8], adj[:8], om[:80]))
        ctx.coverage["near_threshold_skipped"] = skipped
        ctx.oblige("correspondence: ordered bond lists of the Float model = real BondMaker (%d arrays)" % len(cases), not corr_bad,
                   "%d disagreements, first %r" % (len(corr_bad), corr_bad[:1]))
        ctx.oblige("correspondence: bond sets of the exact (Int milli-A) model = real BondMaker (%d arrays, %d tie cases skipped)" % (len(cases), skipped),
                   not corr_badm, "%d disagreements, first %r" % (len(corr_badm), corr_badm[:1]))
        c = common.driver_batch(["bonds consts"])[0].split()
        ctx.oblige("correspondence: model max_sq_distance and h_dist_squared = the BondMaker instance's", c[0] == c[1] and c[2] == c[3], str(c))
    else:
        ctx.oblige("correspondence: bond model = real BondMaker", False, "driver not built")
    bridged_cys(ctx)
    make_bond_sequences(ctx)


def exact_tie(recs):
    thr = {1500 ** 2, 2000 ** 2, 2500 ** 2, 1700 ** 2}
    n = len(recs)
    if n > 200:
        return False
    for i in range(n):
        for j in range(i + 1, n):
            d = sum((recs[i][k] - recs[j][k]) ** 2 for k in (1, 2, 3))
            if d in thr:
                return True
    return False


def bridged_cys(ctx):
    """a bridged cysteine is not titrated (real pipeline)"""
    from .. import observe
    bad = []
    n = 0
    runs = [(name, text, []) for name, text in pdbgen.test_files(["1FTJ-Chain-A", "3SGB-subset"] if ctx.quick() else None)]
    # the bridged pair under every option path that touches titratability
    ss = pdbgen.text(pdbgen.ss_fragment())
    for args in ([], ["--titrate_only", "E:42,E:57"], ["--titrate_only", "E:42,E:58"], ["--protonate-all"], ["-k"], ["-d"], ["-c", "E"]):
        runs.append(("ss-bridge %s" % " ".join(args), ss, args))
    # the symmetric disulfide of a homodimer: equal residue names and numbers in two chains
    hd = pdbgen.homodimer_ss(ctx.rng)
    if hd is not None:
        runs.append(("homodimer-ss", pdbgen.text(hd), []))
    for name, text, args in runs:
        o = observe.run(text, args, want_text=False)
        if o.error:
            continue
        listed = None
        if "--titrate_only" in args:
            listed = {int(x.split(":")[1]) for x in args[1].split(",")}
        for cname, conf in o.mol.conformations.items():
            if cname == "AVR":
                continue
            sulf = [a for a in conf.atoms if a.element == 'S']
            for g in conf.groups:
                if g.residue_type != 'CYS':
                    continue
                n += 1
                near = any(s is not g.atom and sum((p - q) ** 2 for p, q in zip((s.x, s.y, s.z), (g.atom.x, g.atom.y, g.atom.z))) < 6.25 for s in sulf)
                free_ok = g.titratable or (listed is not None and g.atom.res_num not in listed)
                if bool(g.atom.cysteine_bridge) != near or (near and (g.titratable or abs(g.pka_value - 99.99) > 1e-9)) or (not near and not free_ok):
                    bad.append((name, cname, g.label, near, g.atom.cysteine_bridge, g.titratable, g.pka_value))
    ctx.count("cys groups checked", n)
    for b in bad[:2]:
        ctx.violate("bridged-cys:" + b[0], "CYS %s in %s: S-S partner=%s bridge flag=%s titratable=%s pKa=%s" % (b[2], b[0], b[3], b[4], b[5], b[6]), dict(file=b[0], group=b[2]))
    ctx.oblige("spec: CYS bridged iff an S lies within disulfide distance; bridged CYS not titrated and fixed at 99.99", not bad, str(bad[:2]))


def make_bond_sequences(ctx):
    """random make_bond call sequences on real Atom objects vs the makeBond state machine"""
    from propka.atom import Atom
    from propka.bonds import BondMaker
    rnd = ctx.rng
    bad = []
    for _ in range(200 if ctx.quick() else 5000):
        n = rnd.randint(1, 6)
        atoms = [Atom() for _ in range(n)]
        model = [[] for _ in range(n)]
        ops = [(rnd.randrange(n), rnd.randrange(n)) for _ in range(rnd.randint(1, 15))]
        for a, b in ops:
            BondMaker.make_bond(atoms[a], atoms[b])
            if a != b:           # mirrors Propka.Bonds.makeBond
                if a not in model[b]:
                    model[b].append(a)
                if b not in model[a]:
                    model[a].append(b)
        idx = {id(a): i for i, a in enumerate(atoms)}
        real = [[idx[id(x)] for x in a.bonded_atoms] for a in atoms]
        ctx.case(("mb", tuple(ops)))
        sym = all((j in real[i]) == (i in real[j]) for i in range(n) for j in range(n)) and all(i not in real[i] for i in range(n)) and all(len(set(r)) == len(r) for r in real)
        if real != model or not sym:
            bad.append((ops, real, model))
    for ops, real, model in bad[:2]:
        ctx.violate("make_bond-seq", "make_bond sequence %r gives %r" % (ops, real), dict(call="BondMaker.make_bond", ops=ops, got=real, model=model))
    ctx.oblige("correspondence+spec: make_bond call sequences = makeBond state machine, lists symmetric/irreflexive/duplicate-free", not bad, str(bad[:1]))


def replay(ctx, rep):
    r = rep["replay"]
    if "atoms_milli" in r:
        problems, adj, nb = spec_eval(ctx, "replay", [tuple(x) for x in r["atoms_milli"]])
        print("bond lists:", adj, "problems:", problems)
        return 1 if problems else 0
    print(rep)
    return 0
