"""C05 - parts of a structure beyond interaction range do not influence each other."""
from .. import common, observe, pdbgen

SPEC = dict(
    claim="Lean theorems: the desolvation loop skips atoms at or beyond both cut-offs without touching its accumulators - for any scalar, "
          "floats included - so removing them changes neither the volume nor the count; Coulomb, hydrogen-bond and backbone-"
          "reorganisation energies vanish beyond their outer cut-offs; all shipped ranges are at most 20 A (decided on the regenerated "
          "cfg, the two backbone hydrogen-bond tables included, and carried over to the reals: inst_backbone_zero_beyond_20, "
          "shipped_coulomb_zero_beyond; the same kernels are evaluated at 20 A on the real parameter objects); one step of the iterative scheme reads only the two groups of the interaction it processes and a group's new pKa only "
          "the determinants it owns; hence (iterate_componentwise, by induction over iterations with the annihilation memory restricted "
          "alongside) after the same number k of global iterations every group of a closed sub-system has the same pKa and the same "
          "determinants in the whole system as alone, and what the solver reports for it is what the sub-system reports after some "
          "k in 1..10 iterations (solve_componentwise_partial). The number of iterations is therefore the only coupling - and the global stopping rule does make it one: a four-group system whose reported pKa changes when an "
          "unrelated pair is added is decided over Q (known finding D11, replayed against the real solver). Metamorphic runs on the "
          "real pipeline: every group of A inside A+B equals the same group of A alone (1e-9) for B placed 30 A to 9000 A away, both "
          "file orders, different and equal chain ids, a structure with its own copy; the real solver is driven with unions of "
          "independent tie-prone systems. "
          "The whole scoring phase is modelled as well (Model/Scoring.lean: calculate_pka of one conformation with everything it calls - desolvation, backbone and ion determinants, backbone reorganisation, the pair loop with angle factors, exception rules and both families of pair rules, the iterative scheme, totals, coupling penalties and the removal of determinants towards penalised groups; parameters regenerated from /repo and read back from the compiled driver); its Float instance is compared with the real calculate_pka on every distinct conformation this check runs - counts, partners and order exactly, numbers to 1e-9 (they are bit-identical on the unchanged tree). On that model: every term that couples two parts vanishes beyond range (bbDet_far via smallest_ge, ionDet_far, pairStep_far, desolvLoop_append_far, energyLocal_append_far), and single_group_phases_extend: in a system extended by atoms and groups beyond range R (FarExtension: tables and environment agree on the old indices, the old part is closed under interaction atoms, bonds and couplings, everything new is at least R from everything old, no cut-off exceeds R) the buried count, both desolvation terms, the backbone and the ion determinants of every old group are unchanged. The solver family now also puts clusters that never converge next to 48-120 further iterative groups; a difference counts as the known finding D11 only when the cluster alone passed the convergence test.",
    note="Partial: the locality of the whole pipeline is established phase by phase on the kernels and by metamorphic runs; the "
         "iteration-count coupling of the solver (D11) is a genuine defect that is recorded, not repaired (changing the stopping rule "
         "changes predictions for a whole class of inputs).",
    technique="Lean 4 proof (kernel cut-off lemmas, fold invariants for any scalar, locality of the iterative step and componentwise induction over iterations; decided counter-example) + metamorphic runs",
    lean=["Propka.Props.C05"],
    rule="pairs of library structures / test files (and a structure with its own copy) x separations {30, 100, 999, 1500, 9000 A nearest-atom} x "
         "both file orders x {different, same} chain ids; solver unions of 2 independent systems with tie-prone values; non-trivial = "
         "both parts have ionizable groups",
    assumptions=["the two parts keep different chain ids unless the family says otherwise"],
)


def place_far(lines_a, lines_b, sep):
    """translate B so that its bounding box starts `sep` A beyond A's along x"""
    (ax0, ax1), _, _ = pdbgen.bbox(lines_a)
    (bx0, bx1), (by0, _), (bz0, _) = pdbgen.bbox(lines_b)
    return pdbgen.translate(lines_b, round(ax1 + sep - bx0, 3), 0.0, 0.0)


def recs(o, conf="1A"):
    return {(g["key"], g["type"]): g for g in o.confs.get(conf, [])}


def compare_part(alone, union, tol=1e-9):
    a, u = recs(alone), recs(union)
    d = []
    for k, x in a.items():
        y = u.get(k)
        if y is None:
            d.append("%s missing in the union" % x["label"])
            continue
        for f in ("pka", "e_vol", "n_vol", "e_loc", "buried"):
            if abs(x[f] - y[f]) > tol:
                d.append("%s.%s alone %r, in the union %r" % (x["label"], f, x[f], y[f]))
        for t in ("sidechain", "backbone", "coulomb"):
            if sorted(x[t]) != sorted(y[t]) and (len(x[t]) != len(y[t]) or any(p[0] != q[0] or abs(p[1] - q[1]) > tol for p, q in zip(sorted(x[t]), sorted(y[t])))):
                d.append("%s.%s alone %r, in the union %r" % (x["label"], t, sorted(x[t])[:2], sorted(y[t])[:2]))
    return d


def solver_unions(ctx):
    """the real iterative solver on A alone vs A next to an independent B"""
    import propka.iterative as IT
    from propka.group import Group
    from propka.atom import Atom
    from propka.parameters import Parameters
    from propka.input import read_parameter_file
    P = read_parameter_file("propka.cfg", Parameters())

    class V:
        parameters = P
    rnd = ctx.rng

    def system(k, off):
        groups, inter = [], []
        for i in range(k):
            a = Atom(); a.type, a.res_num, a.chain_id = 'atom', off + i + 1, 'A'
            q = rnd.choice([-1.0, 1.0])
            a.res_name = 'ASP' if q < 0 else 'LYS'
            g = Group(a); g.charge = q
            g.model_pka = rnd.choice([4.0, 4.5, 10.0, 10.5, 11.0, 6.5]) + rnd.choice([0, 0.25, -0.5, 1.0])
            groups.append(g)
        for i in range(k):
            for j in range(i):
                if rnd.random() < 0.6:
                    h, c = rnd.choice([0.0, 0.0, 0.5, 1.0, 0.25]), rnd.choice([0.0, 0.5, 1.0, 2.0, 0.25])
                    if h or c:
                        inter.append((i, j, h, c))
        return groups, inter

    made = []
    orig_init = IT.Iterative.__init__

    def spy_init(self, group):
        orig_init(self, group)
        made.append(self)

    def solve(groups, inter):
        for g in groups:
            g.determinants = {'sidechain': [], 'backbone': [], 'coulomb': []}
        ii = [[[groups[a], groups[b]], [h, c], [0., 0.]] for (a, b, h, c) in inter]
        del made[:]
        IT.Iterative.__init__ = spy_init
        try:
            IT.add_determinants(ii, V())
        finally:
            IT.Iterative.__init__ = orig_init
        # number of global iterations the solver made, and whether the last one still moved a pKa
        solve.iterations = max([len(it.pka_iter) - 1 for it in made] or [0])
        solve.moving = any(len(it.pka_iter) >= 2 and it.pka_iter[-1] != it.pka_iter[-2] for it in made)
        return [g.model_pka + sum(d.value for t in g.determinants for d in g.determinants[t]) for g in groups]
    leaks = []
    oscillators = []
    n = 0
    for _ in range(1500 if ctx.quick() else 60000):
        ga, ia = system(rnd.randint(2, 4), 0)
        gb, ib = system(rnd.randint(2, 3), 10)
        if not ia or not ib:
            continue
        alone = solve(ga, ia)
        it_alone, moving = solve.iterations, solve.moving
        if moving and len(oscillators) < 40:
            oscillators.append(([(g.charge, g.model_pka) for g in ga], ia))
        union = solve(ga + gb, ia + [(a + len(ga), b + len(ga), h, c) for a, b, h, c in ib])[:len(ga)]
        n += 1
        ctx.case(key=("solver-union", tuple(ia), tuple(ib), tuple(g.model_pka for g in ga)))
        if any(abs(x - y) > 1e-9 for x, y in zip(alone, union)):
            # D11 is: a cluster that passed the convergence test on its own is iterated further next to another cluster.  A
            # cluster that never passes the test is iterated exactly as often alone as in any union, so a difference there is
            # something else
            leaks.append(([(g.charge, g.model_pka) for g in ga], ia, [(g.charge, g.model_pka) for g in gb], ib, alone, union,
                          "D11" if not moving else "not-D11: the cluster alone used all %d iterations" % it_alone))
    # clusters that never converge (they alternate between two assignments) next to many independent, quickly converging
    # pairs - 50 and more, 100 and more iterative groups in total: the number of sweeps must not depend on the size of the system
    def mk(spec):
        out = []
        for i, (q, m) in enumerate(spec):
            at = Atom(); at.type, at.res_num, at.chain_id, at.res_name = 'atom', i + 1, 'A', 'ASP' if q < 0 else 'LYS'
            g = Group(at); g.charge, g.model_pka = q, m
            out.append(g)
        return out
    ctx.count("non-converging clusters found among the random systems", len(oscillators))
    for spec, ia in oscillators[:(6 if ctx.quick() else 40)]:
        for npairs in (24, 30, 50, 60):
            ga = mk(spec)
            alone = solve(ga, ia)
            gb = mk([(-1.0, 4.0 + 0.01 * (k % 7)) if k % 2 == 0 else (1.0, 10.5) for k in range(2 * npairs)])
            ib = [(2 * k + 1 + len(ga), 2 * k + len(ga), 0.0, 0.5) for k in range(npairs)]
            union = solve(ga + gb, ia + ib)[:len(ga)]
            n += 1
            ctx.count("unions of a non-converging cluster with 48-120 further iterative groups")
            ctx.case(key=("solver-big-union", tuple(ia), npairs, tuple(spec)))
            if any(abs(x - y) > 1e-9 for x, y in zip(alone, union)):
                leaks.append((spec, ia, "%d acid-base pairs" % npairs, "", alone, union, "not-D11: a cluster that never converges, next to %d more groups" % (2 * npairs)))
    # the decided witness
    def w():
        a = []
        for i, (q, m) in enumerate([(1.0, 11.0), (-1.0, 10.5), (1.0, 10.5), (-1.0, 4.5), (-1.0, 4.0), (-1.0, 5.0)]):
            at = Atom(); at.type, at.res_num, at.chain_id, at.res_name = 'atom', i + 1, 'A', 'ASP' if q < 0 else 'LYS'
            g = Group(at); g.charge, g.model_pka = q, m
            a.append(g)
        return a
    g6 = w()
    alone = solve(g6[:4], [(2, 0, 0.0, 1.0), (2, 1, 0.0, 1.0), (3, 1, 0.0, 1.0)])
    g6 = w()
    union = solve(g6, [(2, 0, 0.0, 1.0), (2, 1, 0.0, 1.0), (3, 1, 0.0, 1.0), (5, 4, 0.5, 1.0)])[:4]
    if alone != union:
        leaks.insert(0, ("decided witness of iter_leak_counterexample", alone, union, "D11"))
    return n, leaks


def range_tables(ctx):
    """every distance-dependent kernel of the shipped parameter set evaluated just beyond the longest range the property names
    (20 A from a group centre, 25 A between nearest atoms): the concrete witness behind the decided range obligations"""
    import propka.energy as E
    from propka.parameters import Parameters
    from propka.input import read_parameter_file
    P = read_parameter_file("propka.cfg", Parameters())
    bad = []
    n = 0
    for table in ("backbone_NH_hydrogen_bond", "backbone_CO_hydrogen_bond"):
        for key, (dpka, c1, c2) in getattr(P, table).items():
            n += 1
            for d in (20.0, 25.0, 39.9):
                v = E.hydrogen_bond_energy(d, dpka, [c1, c2])
                if v != 0.0:
                    bad.append(("%s[%s] = %r" % (table, key, [dpka, c1, c2]), "hydrogen_bond_energy(%r, %r, [%r, %r]) = %r" % (d, dpka, c1, c2, v)))
                    break
    types = list(P.interaction_matrix.dictionary.keys())
    for a in types:
        for b in types:
            n += 1
            c1, c2 = P.sidechain_cutoffs.get_value(a, b)
            v = E.hydrogen_bond_energy(20.0, P.sidechain_interaction, [c1, c2])
            if v != 0.0:
                bad.append(("sidechain_cutoffs(%s, %s) = %r" % (a, b, (c1, c2)), "hydrogen_bond_energy(20.0, %r, [%r, %r]) = %r" % (P.sidechain_interaction, c1, c2, v)))
    for w in (0.0, 0.5, 1.0):
        n += 1
        v = E.coulomb_energy(20.0, w, P)
        if v != 0.0:
            bad.append(("coulomb_cutoff2 = %r" % P.coulomb_cutoff2, "coulomb_energy(20.0, %r) = %r" % (w, v)))
    ctx.case(key=("range tables", n))
    for b in bad[:2]:
        ctx.violate("range:" + b[0].split(" =")[0], "an interaction reaches beyond the stated range: %s gives %s" % b, dict(parameter=b[0], call=b[1]))
    ctx.oblige("spec: every hydrogen-bond and Coulomb kernel of the shipped parameters vanishes at 20 A (%d table entries)" % n, not bad, str(bad[:2]))


def far_extension_family(ctx):
    """the hypotheses of `before_iterative_extend` (Lean structure FarExtension, R = 20 A) evaluated on real unions: a part
    alone and the same part followed - in the file and hence in the atom and group tables - by another part 25-60 A away"""
    from .. import scoring_common as S
    from propka.parameters import Parameters
    from propka.input import read_parameter_file
    P = read_parameter_file("propka.cfg", Parameters())
    rnd = ctx.rng
    bad, n, ngroups = [], 0, 0
    for k in range(6 if ctx.quick() else 40):
        la = pdbgen.relabel([l for l in pdbgen.multichain(rnd, nchains=1, chains="A")[0] if not l.startswith("TER")], chain="A")
        lb = pdbgen.relabel([l for l in pdbgen.multichain(rnd, nchains=1, chains="A")[0] if not l.startswith("TER")], chain="B")
        if k % 3 == 2:
            lb = pdbgen.truncate_sidechains(rnd, lb, 2)
        lb = place_far(la, lb, rnd.choice([25.0, 30.0, 60.0]))
        with S.Snapshots() as s1:
            o1 = observe.run(pdbgen.text(la + ["TER   \n"]), [], want_text=False)
        with S.Snapshots() as s2:
            o2 = observe.run(pdbgen.text(la + ["TER   \n"] + lb + ["TER   \n"]), [], want_text=False)
        if o1.error or o2.error or len(s1.snaps) != 1 or len(s2.snaps) != 1:
            continue
        n += 1
        ngroups += len(s1.snaps[0][1][1])
        ctx.case(key=("far-extension", k, hash(pdbgen.text(la + lb))))
        probs = far_extension_problems_of(s1.snaps[0][1], s2.snaps[0][1], P)
        if probs:
            bad.append((k, probs[:3], pdbgen.text(la + ["TER   \n"] + lb + ["TER   \n"])))
    ctx.count("unions on which the hypotheses of the extension theorem were evaluated", n)
    ctx.oblige("hypotheses: FarExtension (R = 20 A) holds for %d real unions (tables of the first part are a prefix of the union's, closed under "
               "interaction atoms and bonds; every new atom and centre at least 20 A from every old one; no cut-off above 20 A; %d old groups)" % (n, ngroups),
               not bad and n > 0, str([(b[0], b[1]) for b in bad[:2]])[:400])


def far_extension_problems_of(old, new, P):
    from .. import scoring_common as S
    return S.far_extension_problems(old, new, P)


def _run(ctx):
    rnd = ctx.rng
    range_tables(ctx)
    far_extension_family(ctx)
    parts = []
    for i in range(6 if ctx.quick() else 40):
        lines, ids = pdbgen.multichain(rnd, nchains=1, chains="A")
        parts.append(("frag%d" % i, [l for l in lines if not l.startswith("TER")]))
        if i % 2 == 1:
            # an incomplete residue (side-chain end not modelled): groups without interaction atoms take other branches.
            # Fragments are drawn until the truncation really leaves a titratable group without interaction atoms.
            src = parts[-1][1]
            for _ in range(40):
                tl = pdbgen.truncate_sidechains(rnd, src, rnd.randint(1, 2), types=("ASP", "GLU", "HIS", "ARG"))
                o = observe.run(pdbgen.text(tl + ["TER   \n"]), [], want_text=False)
                if not o.error and any(g.titratable and not g.interaction_atoms_for_acids for g in o.mol.conformations[o.mol.conformation_names[0]].groups):
                    break
                src = [l for l in pdbgen.multichain(rnd, nchains=1, chains="A")[0] if not l.startswith("TER")]
            parts.append(("frag%d-truncated" % i, tl))
    for n, t in pdbgen.test_files(["sample-issue-140"] if ctx.quick() else ["sample-issue-140", "3SGB-subset", "1HPX"]):
        parts.append((n, [l for l in pdbgen.lines_of(t) if pdbgen.is_atom(l) and l[17:20] != "HOH"]))
    # a chain with backbone hydrogen bonds to titratable groups (rare in short fragments)
    t3 = dict(pdbgen.test_files(["3SGB"]))["3SGB"]
    parts.append(("3SGB-chain-I", [l for l in pdbgen.lines_of(t3) if l.startswith("ATOM") and l[21] == "I"]))
    # two copies of one ligand in its binding pocket (methotrexate of 4DFR with the residues within 9 A), the second copy without
    # its N-methyl carbon: equal residue and atom names in both parts, different chemistry - each part must be perceived from its
    # own geometry, whatever else the file holds
    t4 = pdbgen.lines_of(dict(pdbgen.test_files(["4DFR"]))["4DFR"])
    mtx = [l for l in t4 if l.startswith("HETATM") and l[17:20] == "MTX" and l[21] == "A" and l[16] in " A"]
    if mtx:
        mc = [pdbgen.coords(l) for l in mtx]
        near = {pdbgen.res_key(l) for l in t4 if l.startswith("ATOM") and l[21] == "A" and l[16] in " A"
                and any(sum((a - b) ** 2 for a, b in zip(pdbgen.coords(l), c)) < 81.0 for c in mc)}
        pocket = [pdbgen.setcols(l, 16, 17, " ") for l in t4 if l.startswith("ATOM") and l[16] in " A" and pdbgen.res_key(l) in near]
        lig = [pdbgen.setcols(l, 16, 17, " ") for l in mtx]
        parts.append(("4DFR-MTX-pocket", pocket + lig))
        parts.append(("4DFR-MTX-pocket-without-CM", pocket + [l for l in lig if l[12:16].strip() != "CM"]))
    seps = [30.0, 100.0, 999.0, 1500.0, 9000.0]
    bad, far_bad = [], []
    for k in range(10 if ctx.quick() else 120):
        (na, la), (nb, lb) = rnd.sample(parts, 2)
        if k == 0 and any(p[0] == "4DFR-MTX-pocket" for p in parts):
            (na, la), (nb, lb) = [p for p in parts if p[0] == "4DFR-MTX-pocket"][0], [p for p in parts if p[0] == "4DFR-MTX-pocket-without-CM"][0]
            ctx.count("unions of two copies of one ligand with different chemistry")
        trunc = [p for p in parts if p[0].endswith("-truncated") and p[0] != nb]
        if k % 3 == 1 and trunc:
            na, la = rnd.choice(trunc)
            if k == 1:
                # ... next to a real structure (backbone hydrogen bonds to titratable groups), in both file orders
                nb, lb = [p for p in parts if p[0] == "3SGB-chain-I"][0]
        same_chain = (k % 5 == 4)
        if k % 7 == 6:
            nb, lb = na + "(copy)", list(la)
        la2 = pdbgen.relabel(la, chain="A")
        lb2 = pdbgen.relabel(lb, chain="A" if same_chain else "B")
        if same_chain:     # keep labels distinct: shift B's numbering
            lb2 = pdbgen.relabel(lb2, renumber_from=2000)
        sep = seps[k % len(seps)]
        if na.endswith("-truncated") and k % 3 == 1:
            sep = rnd.choice([30.0, 100.0])
        lb3 = place_far(la2, lb2, sep)
        if na.endswith("-truncated") and sep <= 100.0:
            # the complete part around the coordinate origin, the incomplete one away from it: a group left at a default
            # position (0, 0, 0) would pick up the other part
            box = pdbgen.bbox(lb3)
            sh = [-round((lo + hi) / 2.0, 3) for lo, hi in box]
            la2, lb3 = pdbgen.translate(la2, *sh), pdbgen.translate(lb3, *sh)
            ctx.count("unions with the complete part centred at the origin")
        (bx0, bx1), _, _ = pdbgen.bbox(lb3)
        if bx1 > 9999.0:
            continue
        alone_a = observe.run(pdbgen.text(la2 + ["TER   \n"]), [], want_text=False)
        alone_b = observe.run(pdbgen.text(lb3 + ["TER   \n"]), [], want_text=False)
        if alone_a.error or alone_b.error:
            continue
        # hetero atoms of the first part written after its TER (as deposited files do): an ion next to A
        het_a = []
        if k % 4 == 2:
            (x0, x1), (y0, y1), (z0, z1) = pdbgen.bbox(la2)
            het_a = ["HETATM 9001 ZN    ZN A 901    %8.3f%8.3f%8.3f  1.00  0.00          ZN\n" % (round(x0 - 6.0, 3), round(y0, 3), round(z0, 3))]
            alone_a = observe.run(pdbgen.text(la2 + ["TER   \n"] + het_a), [], want_text=False)
            if alone_a.error:
                continue
            ctx.count("unions with a hetero atom between the parts")
        for order in (0, 1):
            lines = (la2 + ["TER   \n"] + het_a + lb3 + ["TER   \n"]) if order == 0 else (lb3 + ["TER   \n"] + la2 + ["TER   \n"] + het_a)
            u = observe.run(pdbgen.text(lines), [], want_text=False)
            na_groups = len([g for g in alone_a.confs.get("1A", []) if g["use"]])
            nb_groups = len([g for g in alone_b.confs.get("1A", []) if g["use"]])
            ctx.case(key=(na, nb, sep, order, same_chain), nontrivial=na_groups > 0 and nb_groups > 0)
            ctx.count("unions at %g A" % sep)
            if na.endswith("-truncated") or nb.endswith("-truncated"):
                ctx.count("unions with an incomplete residue")
            if u.error:
                (far_bad if u.error[0] == "AssertionError" or sep >= 1000 else bad).append((na, nb, sep, order, ["error %s: %s" % u.error], pdbgen.text(lines)))
                continue
            d = compare_part(alone_a, u) + compare_part(alone_b, u)
            if d:
                bad.append((na, nb, sep, order, d[:3], pdbgen.text(lines)))
    for b in far_bad[:2]:
        ctx.violate("D6:error-beyond-1000A", "%s + %s separated by %g A: %s" % (b[0], b[1], b[2], b[4][0]), dict(pdb=b[5], separation=b[2]))
    ctx.oblige("spec: structures spanning more than 1000 A are processed without error", not far_bad, str([(b[0], b[1], b[2], b[4]) for b in far_bad[:2]]))
    for b in bad[:2]:
        ctx.violate("union:" + b[0], "%s + %s at %g A (order %d): %s" % (b[0], b[1], b[2], b[3], "; ".join(b[4])), dict(pdb=b[5], diffs=b[4]))
    ctx.oblige("spec: every group of a part inside the union = the same group of the part alone (1e-9), both file orders", not bad, str([(b[0], b[1], b[2], b[4][:1]) for b in bad[:2]]))
    n, leaks = solver_unions(ctx)
    unlisted = []
    leaks.sort(key=lambda lk: lk[-1] == "D11")          # the ones the known finding does not explain first
    for lk in leaks[:4]:
        sig = "D11:solver-stopping-rule-is-global" if lk[-1] == "D11" else "solver-union:" + lk[-1][:40]
        ctx.violate(sig, "iterative.add_determinants: a cluster's result changes when an independent cluster is added: %r" % (lk[-3:],), dict(call="propka.iterative.add_determinants", witness=[str(x) for x in lk]))
        if sig not in ctx.known:
            unlisted.append(lk)
    ctx.coverage["solver_unions"] = n
    ctx.coverage["solver_leaks_found"] = len(leaks)
    ctx.oblige("spec: the iterative solver treats independent clusters independently (%d unions; apart from listed known findings)" % n, not unlisted, str(unlisted[:1]))


def run(ctx):
    from .. import scoring_common
    with scoring_common.tie(ctx, "C05's parts and unions"):
        _run(ctx)


def replay(ctx, rep):
    r = rep["replay"]
    if "pdb" in r:
        o = observe.run(r["pdb"])
        print("error:", o.error)
        return 1 if o.error else 0
    print(rep["what"])
    return 0
